"""C11 — misuse is reported by the documented exception, never by memory corruption.

proof:  lean/AdeptProofs/Props/C11.lean — per misuse class `precondition => exactly the documented exception and the state is
        unchanged (or exactly the documented partial effect)`, `no wild access` (every index used on a success path is below
        the allocated length), `usable after` (a history with its failing operations removed ends in the same state), over
        AdeptModel/StackProto.lean (stack protocol, part A) and AdeptModel/Misuse.lean (array operations, part B).
tie:    part A  model family `tape`  <-> adept::Stack / adouble   (harness/drv_tape.cpp),
        part B  model family `misuse` <-> Vector/Matrix/intVector/intMatrix (harness/drv_misuse.cpp);
        valid random histories with misuses injected at random points; every output line compared exactly; ASan+UBSan.
oracles (do not use the Lean model):
        (1) table of documented exceptions written from doc/adept_documentation.tex + include/adept/exception.h, decided from
            the protocol/extents the generator knows and from the implementation's own indices, tape and allocator lines;
        (2) the same history with every failing operation removed is run through the implementation again: all other lines
            must be identical (nothing of a failed operation may leak into later results);
        (3) part A: every pass / Jacobian re-evaluated in Python from the implementation's own tape dump (as C10);
            part B: element-wise integer re-evaluation of every successful array operation in Python;
        (4) any sanitizer report or abnormal exit is a violation with the history as replay.
"""
import os, json, re
from concurrent.futures import ThreadPoolExecutor
import vbuild, vcheck
import tapecommon as tc

LEVEL = "proof"
NSA = "Adept.StackProto."
NSB = "Adept.Misuse."
REQUIRED_A = ["C11_pass_before_seed", "C11_get_before_seed", "C11_created_after_seed", "C11_pass_after_creation",
              "C11_jacobian_no_lists", "C11_jacobian_wrong_size", "C11_append_wrong_lhs", "C11_second_stack",
              "C11_no_wild_access", "C11_usable_after"]
REQUIRED_B = ["C11_arr_negative_extent_new", "C11_arr_negative_extent_resize", "C11_arr_expr_mismatch", "C11_arr_assign_mismatch",
              "C11_arr_compound_mismatch", "C11_arr_where_mismatch", "C11_arr_fill_overflow", "C11_arr_fill_object_overflow",
              "C11_arr_fill_empty", "C11_arr_not_square", "C11_arr_link_empty", "C11_arr_matmul_empty",
              "C11_arr_matmul_inner", "C11_arr_permute_invalid", "C11_arr_index_out_of_bounds", "C11_arr_no_wild_access",
              "C11_arr_usable_after"]

A_CLASSES = ["pass_before_seed", "get_before_seed", "created_after_seed", "pass_after_creation", "jac_no_lists",
             "jac_wrong_size", "append_wrong_lhs", "second_stack"]

# documented exception per misuse class (doc/adept_documentation.tex, section "Exceptions thrown by the Adept library";
# include/adept/exception.h).  Written by hand from the manual, not derived from the Lean model.
DOC_A = {
    "pass_before_seed": "gradients_not_initialized",     # "functions that require the list of working gradients to have been initialized"
    "get_before_seed": "gradients_not_initialized",
    "created_after_seed": "gradient_out_of_range",        # "adouble object was created after the first adouble::set_gradient call"
    "pass_after_creation": "gradient_out_of_range",       # same situation met by compute_adjoint / compute_tangent_linear
    "jac_no_lists": "dependents_or_independents_not_identified",
    "jac_wrong_size": "size_mismatch",                    # "an array expression is applied to an array of a different size"
    "append_wrong_lhs": "wrong_gradient",
    "second_stack": "stack_already_active",
}


def _bump(d, k, n=1):
    d[k] = d.get(k, 0) + n


# =====================================================================================================================
# Part A — stack protocol
# =====================================================================================================================
class GenA(tc.Gen):
    """valid protocol histories (tapecommon.Gen) with misuses injected; `want` is injected with high probability at every
    point where it can be committed, the other classes with a small one"""

    def __init__(self, rng, pausable, want, maxnew):
        tc.Gen.__init__(self, rng, pausable=pausable)
        self.want = want
        self.inj = []           # (op index, class)
        self.maxnew = maxnew

    def prob(self, cls):
        return 0.45 if cls == self.want else 0.04

    def hit(self, cls):
        return self.rng.random() < self.prob(cls)

    def mark(self, cls, s):
        self.inj.append((len(self.ops), cls))
        self.emit(s)

    def mode(self):
        return self.rng.choice(["auto", "fwd", "rev"])

    # ---- injections that are possible at any point
    def inj_anywhere(self):
        r = self.rng
        if self.hit("second_stack"):
            self.mark("second_stack", "stack2")
        if r.random() < 0.03:
            self.emit("deact"); self.emit("act")

    # ---- P1: inside the recorded program; no seed since new_recording, both lists empty
    def inj_program_point(self):
        r = self.rng
        live = list(self.live)
        self.inj_anywhere()
        if self.hit("pass_before_seed"):
            self.mark("pass_before_seed", r.choice(["fwd", "rev"]))
        if self.hit("get_before_seed") and live:
            self.mark("get_before_seed", "get %d" % r.choice(live))
        if self.hit("jac_no_lists"):
            self.mark("jac_no_lists", r.choice(["jac %s mat" % self.mode(), "jac %s ptr 1 1 4" % self.mode(),
                                                "jac %s ptr -1 -1 0" % self.mode(), "jac %s matarg row 0 0" % self.mode()]))
        if self.hit("jac_wrong_size"):
            self.mark("jac_wrong_size", "jac %s matarg %s %d %d" % (self.mode(), r.choice(["row", "col", "transposed", "strided"]),
                                                                  r.randint(1, 3), r.randint(1, 3)))
        if self.hit("append_wrong_lhs") and not self.paused and len(live) >= 2:
            self.emit("tape")
            cand = [k for k in live if k != self.last_lhs] or live
            self.mark("append_wrong_lhs", "apdep %d %d %d" % (r.choice(cand), r.choice(live), r.choice([-3, -2, -1, 1, 2, 3, 0])))

    def program(self, nstmt):
        self.inj_program_point()
        for _ in range(nstmt):
            if self.pausable and self.rng.random() < 0.08:
                self.paused = not self.paused
                if self.paused:
                    self.emit("pause"); self.emit("tape")
                else:
                    self.emit("tape"); self.emit("cont")
            self.statement()
            if self.rng.random() < 0.5:
                self.inj_program_point()
        if self.paused:
            self.paused = False
            self.emit("tape"); self.emit("cont")


def gen_case_a(rng, W, pausable, want, maxnew=3):
    for _attempt in range(200):
        g = GenA(rng, pausable, want, maxnew)
        g.emit("cfg %d %d 1" % (W, 1 if pausable else 0))
        for _ in range(rng.randint(2, 4)):
            g.new()
        vals = []
        # "shrinking" histories: a first recording whose derivative pass allocates a long gradient vector, then most objects
        # are destroyed and a smaller recording is seeded — the allocated length must shrink with it, or objects created
        # after the seed fall below a stale bound and are accepted silently
        shrink = want in ("created_after_seed", "pass_after_creation") and rng.random() < 0.5
        extra = [g.new() for _ in range(rng.randint(3, 12))] if shrink else []
        for seg in range(2 if shrink else rng.randint(1, 2)):
            if shrink and seg == 1:
                rng.shuffle(extra)
                for k in extra:
                    if k in g.live and len(g.live) > 2:
                        del g.live[k]; g.emit("del %d" % k)
                g.maxnew = 6
            g.emit("nr")
            g.program(rng.randint(2, 14))
            for k in list(g.live):
                vals.append((len(g.ops), g.live[k])); g.emit("val %d" % k)
            for rnd in range(rng.randint(2, 4)):
                kind = rng.choice(["fwd", "rev", "jac", "fwd", "rev"])
                live = list(g.live)
                g.inj_anywhere()
                if kind in ("fwd", "rev"):
                    g.emit("clrg")
                    if g.hit("pass_before_seed"):
                        g.mark("pass_before_seed", rng.choice(["fwd", "rev"]))
                    if g.hit("get_before_seed"):
                        g.mark("get_before_seed", "get %d" % rng.choice(live))
                    g.emit("state")
                    seeds = [(rng.choice(live), rng.randint(-3, 3)) for _ in range(rng.randint(1, 3))]
                    for k, v in seeds:
                        g.emit("seed %d %d" % (k, v))
                    created = False
                    if g.hit("created_after_seed") or g.hit("pass_after_creation"):
                        created = True
                        if rng.random() < 0.35 and len(g.live) > 3:
                            k = rng.choice(list(g.live)[1:]); del g.live[k]; g.emit("del %d" % k)
                        fresh = []
                        for _ in range(rng.randint(1, getattr(g, 'maxnew', maxnew))):
                            x = rng.random()
                            if x < 0.6:
                                fresh.append(g.new())
                            elif x < 0.8:
                                k = g.nxt; g.nxt += 1; g.live[k] = 0; g.emit("newd %d" % k); fresh.append(k)
                            else:
                                k = g.nxt; g.nxt += 1; i = rng.choice(list(g.live)); g.live[k] = g.live[i]
                                g.emit("newc %d %d" % (k, i)); g.last_lhs = k; fresh.append(k)
                            if rng.random() < 0.3:
                                toks, val = g.expr(1)
                                g.live[fresh[-1]] = val
                                g.emit("asg %d %s" % (fresh[-1], " ".join(toks))); g.last_lhs = fresh[-1]
                        for k in fresh:
                            x = rng.random()
                            if x < 0.5:
                                g.mark("created_after_seed", "seed %d %d" % (k, rng.randint(-3, 3)))
                            elif x < 0.85:
                                g.mark("created_after_seed", "get %d" % k)
                        if fresh and rng.random() < 0.4:
                            # the late objects take part in a statement and are destroyed again BEFORE the pass: the statement
                            # that mentions their gradient indices stays on the tape while i_gradient_ falls back
                            k0 = fresh[-1]
                            toks, val = g.expr(1)
                            g.live[k0] = val
                            g.emit("asg %d %s" % (k0, " ".join(toks)))
                            for k in reversed(fresh):
                                if k in g.live:
                                    del g.live[k]; g.emit("del %d" % k)
                            g.last_lhs = None
                    g.emit("tape"); g.emit("state")
                    if created:
                        g.mark("pass_after_creation", kind)
                    else:
                        g.emit(kind)
                    live = list(g.live)
                    for k in rng.sample(live, min(len(live), 4)):
                        g.emit("get %d" % k)
                    if created:
                        # recovery by the documented means: clear, seed again, run the pass
                        g.emit("clrg"); g.emit("state")
                        for k, v in [(rng.choice(live), rng.randint(-3, 3)) for _ in range(rng.randint(1, 3))]:
                            g.emit("seed %d %d" % (k, v))
                        g.emit(kind)
                        for k in rng.sample(live, min(len(live), 4)):
                            g.emit("get %d" % k)
                else:
                    g.emit("clri"); g.emit("clrd"); g.emit("tape")
                    n, m = rng.randint(1, 5), rng.randint(1, 5)
                    indep, dep = tc.pick_lists(rng, g, n, m)
                    if g.hit("jac_no_lists"):
                        g.mark("jac_no_lists", rng.choice(["jac %s mat" % g.mode(), "jac %s ptr 1 %d %d" % (g.mode(), m, n * m)]))
                    order = rng.random() < 0.5
                    for k in (indep if order else dep):
                        g.emit("%s %d" % ("indep" if order else "dep", k))
                    if g.hit("jac_no_lists"):      # only one of the two lists identified
                        g.mark("jac_no_lists", rng.choice(["jac %s mat" % g.mode(), "jac %s ptr 1 %d %d" % (g.mode(), m, n * m)]))
                    for k in (dep if order else indep):
                        g.emit("%s %d" % ("dep" if order else "indep", k))
                    if g.hit("jac_wrong_size"):
                        for _ in range(rng.randint(1, 2)):
                            r_, c_ = m, n
                            while (r_, c_) == (m, n):
                                r_, c_ = rng.choice([(m + 1, n), (m, n + 1), (m - 1, n), (m, n - 1), (n, m), (m + 1, n + 1),
                                                     (rng.randint(0, 9), rng.randint(0, 9))])
                            if min(r_, c_) == 0:
                                r_ = c_ = 0      # a Matrix with one zero extent is the empty 0x0 matrix
                            kind_ = rng.choice(["row", "col"]) if r_ == 0 else rng.choice(["row", "col", "transposed", "strided"])
                            g.mark("jac_wrong_size", "jac %s matarg %s %d %d" % (g.mode(), kind_, r_, c_))
                    g.emit(rng.choice(["jac %s mat" % g.mode(),
                                       "jac %s matarg %s %d %d" % (g.mode(), rng.choice(["row", "col", "transposed", "strided"]), m, n),
                                       "jac %s ptr 1 %d %d" % (g.mode(), m, n * m)]))
            g.emit("tape")
        g.emit("clrg")
        if any(c == want for _, c in g.inj):
            return g.ops, {"inj": g.inj, "vals": vals, "pausable": pausable, "want": want}
    raise RuntimeError("generator cannot place misuse class " + want)


def _mg(line):
    m = re.search(r"\bmg=(\d+)", line)
    return int(m.group(1)) if m else None


def track_a(ops, il, meta):
    """Independent expectations for every operation of a stack-protocol history, from the manual's rules and the
    implementation's own `ok <idx>`, `state` (mg=) and `tape` lines.  Returns (message | None | 'skip', stats)."""
    stats = {"checked": 0, "undecided": 0, "exc": {}}
    idx = {}
    seeded = False
    mg = None; mg_fresh = False; mg_init = None
    tape = None; tape_fresh = False
    g = None            # working gradient vector as dict, None = unknown
    indep, dep = [], []
    paused = False
    vals = dict(meta.get("vals", []))
    inj = dict(meta.get("inj", []))

    def bad(i, exp):
        cls = inj.get(i)
        return ("op %d `%s`%s: implementation printed %r, the manual/protocol requires %r" %
                (i, ops[i], " (injected misuse %s)" % cls if cls else "", il[i][:160], exp))

    for i, (o, l) in enumerate(zip(ops, il)):
        w = o.split(); c = w[0]
        exp = None          # exact expected line, when decidable
        if l.startswith("EXC "):
            _bump(stats["exc"], l[4:])
        hs = []
        if c in ("del", "setp", "seed", "get", "val", "indep", "dep", "cadd", "csub", "cmul"):
            hs = [int(w[1])]
        elif c == "newc":
            hs = [int(w[2])]
        elif c in ("adep", "apdep"):
            hs = [int(w[1]), int(w[2])]
        elif c in ("adepv", "apdepv"):
            hs = [int(w[2])] + [int(w[j]) for j in range(5, len(w) - 1, 2)]
        if c in ("cadd", "csub", "cmul") and w[2][0] == "v":
            hs.append(int(w[2][1:]))
        if c == "asg":
            hs = [int(w[1])] + [int(t[1:]) for t in w[2:] if t[0] == "v"]
        if any(h not in idx for h in hs):
            if c != "asg" and l != "EXC unknown_handle":
                return bad(i, "EXC unknown_handle"), stats
            continue
        if c == "cfg":
            idx = {}; seeded = False; mg_fresh = False; tape = []; tape_fresh = True; g = None; indep, dep = [], []; paused = False
        elif c in ("new", "newd", "newc"):
            if not l.startswith("ok "):
                return bad(i, "ok <index>"), stats
            idx[int(w[1])] = int(l.split()[1]); mg_fresh = False
            if c != "newd":
                tape_fresh = False
        elif c == "del":
            del idx[int(w[1])]
        elif c in ("setp", "asg", "cadd", "csub", "cmul", "adep", "adepv"):
            tape_fresh = False
        elif c == "pause":
            paused = meta.get("pausable", False)
        elif c == "cont":
            paused = False
        elif c == "nr":
            seeded = False; g = None; tape = []; tape_fresh = True; indep, dep = [], []; mg_fresh = False
        elif c == "clrg":
            seeded = False; g = None
        elif c == "clri":
            indep = []
        elif c == "clrd":
            dep = []
        elif c == "indep":
            indep.append(idx[int(w[1])])
        elif c == "dep":
            dep.append(idx[int(w[1])])
        elif c == "state":
            mg = _mg(l); mg_fresh = mg is not None
        elif c == "tape":
            try:
                tape = tc.parse_tape(l); tape_fresh = True
            except Exception:
                return "op %d: unparsable tape line %r" % (i, l[:200]), stats
            if tc.tape_abs_bound(tape, set(idx.values())) * 64 >= tc.EXACT_BOUND:
                return "skip", stats
        elif c == "val":
            if i in vals:
                exp = "v %d" % vals[i]
        elif c == "stack2":
            exp = "EXC stack_already_active"
        elif c == "deact":
            exp = "ok 0"
        elif c == "act":
            exp = "ok 1"
        elif c == "apdep":
            if paused:
                exp = "ok"
            elif tape_fresh:
                exp = "ok" if (tape and tape[-1][0] == idx[int(w[1])]) else "EXC wrong_gradient"
            else:
                stats["undecided"] += 1
            tape_fresh = False
        elif c == "seed":
            if not seeded:
                if mg_fresh:
                    mg_init = mg
                else:
                    mg_init = None
                seeded = True; g = {}
            if mg_init is None:
                stats["undecided"] += 1; g = None
            elif idx[int(w[1])] + 1 > mg_init:
                exp = "EXC gradient_out_of_range"
            else:
                exp = "ok"
                if g is not None:
                    g[idx[int(w[1])]] = int(w[2])
        elif c == "get":
            if not seeded:
                exp = "EXC gradients_not_initialized"
            elif mg_init is None:
                stats["undecided"] += 1
            elif idx[int(w[1])] + 1 > mg_init:
                exp = "EXC gradient_out_of_range"
            elif g is not None:
                exp = "g %d" % g.get(idx[int(w[1])], 0)
            else:
                stats["undecided"] += 1
        elif c in ("fwd", "rev"):
            if not seeded:
                exp = "EXC gradients_not_initialized"
            elif mg_init is None or not mg_fresh:
                stats["undecided"] += 1; g = None
            elif mg > mg_init:
                exp = "EXC gradient_out_of_range"
            else:
                exp = "ok"
                if g is not None and tape_fresh:
                    g = tc.tape_fwd(tape, g) if c == "fwd" else tc.tape_rev(tape, g)
                else:
                    g = None
        elif c == "jac":
            m_, n_ = len(dep), len(indep)
            if w[2] == "matarg" and (int(w[4]), int(w[5])) != (m_, n_):
                exp = "EXC size_mismatch"
            elif m_ == 0 or n_ == 0:
                exp = "EXC dependents_or_independents_not_identified"
            elif not tape_fresh:
                stats["undecided"] += 1
            else:
                J = tc.jac_from_tape(tape, indep, dep)
                if w[2] in ("mat", "matarg"):
                    p = tc.parse_J(l)
                    if p is None or p[0] != J or p[1]:
                        return bad(i, "J %d %d : %s (re-evaluated from the implementation's own tape)" % (m_, n_, J)), stats
                    stats["checked"] += 1
                elif (int(w[3]), int(w[4]), int(w[5])) == (1, m_, m_ * n_):
                    p = tc.parse_P(l)
                    if p != [J[ii][jj] for jj in range(n_) for ii in range(m_)]:
                        return bad(i, "P <column-major %s>" % J), stats
                    stats["checked"] += 1
        if exp is not None:
            stats["checked"] += 1
            if l != exp:
                return bad(i, exp), stats
            cls = inj.get(i)
            if cls and l.startswith("EXC ") and l[4:] != DOC_A[cls]:
                return "op %d `%s`: misuse class %s raised %r, the manual documents %s" % (i, o, cls, l, DOC_A[cls]), stats
    return None, stats


def reduced(ops, il):
    """the history with every failing operation removed; returns (ops', map new index -> old index)"""
    keep = [i for i, l in enumerate(il[:len(ops)]) if not l.startswith("EXC ")]
    return [ops[i] for i in keep], keep


def judge_a(exe, ops, meta, il=None, rc=0, err=""):
    """(verdict | None | 'skip', stats, impl lines)"""
    if il is None:
        il, rc, err = vcheck.run_impl(exe, [], "\n".join(ops) + "\n")
    if len(il) < len(ops) or rc != 0:
        k = min(len(il), len(ops) - 1)
        return ("implementation aborted at op %d `%s` (rc=%s): %s" % (k, ops[k], rc, sanitizer_summary(err))), {}, il
    v, stats = track_a(ops, il, meta)
    if v is not None:
        return v, stats, il
    rops, keep = reduced(ops, il)
    if len(rops) != len(ops):
        rl, rc2, err2 = vcheck.run_impl(exe, [], "\n".join(rops) + "\n")
        if len(rl) < len(rops) or rc2 != 0:
            return "the history with its failing operations removed aborts: %s" % sanitizer_summary(err2), stats, il
        for j, i in enumerate(keep):
            if rl[j] != il[i]:
                return ("op %d `%s` printed %r; in the same history without the %d failed operations it prints %r: a failed "
                        "operation left a trace" % (i, ops[i], il[i][:160], len(ops) - len(rops), rl[j][:160])), stats, il
    return None, stats, il


def sanitizer_summary(err):
    m = re.search(r"SUMMARY: [^\n]*", err)
    if m:
        return m.group(0)[:300]
    m = re.search(r"runtime error: [^\n]*", err)
    if m:
        return m.group(0)[:300]
    return err.strip()[-300:]


def signature_of(msg):
    """stable key of a failure for known_findings.json"""
    m = re.search(r"SUMMARY: (\w+): ([\w-]+) [^\s]*/(\w+\.(?:h|cpp)):\d+", msg)
    if m:
        return "%s:%s" % (m.group(2), m.group(3))
    m = re.search(r"runtime error: ([a-z -]+?) (?:of type|to|\d|0x)", msg)
    if m:
        return "ubsan:" + m.group(1).strip().replace(" ", "-")
    return None


def shrink_a(exe, ops, meta, kind):
    def fails(sub):
        if not sub or not sub[0].startswith("cfg"):
            return False
        v, _, _ = judge_a(exe, sub, {"pausable": meta.get("pausable", False)})
        if v in (None, "skip"):
            return False
        return ("aborted" in v) == (kind == "crash")
    return vcheck.ddmin(list(ops), fails, max_tests=250)


def run_cases_a(ctx, exe, label, cases):
    text = "".join("\n".join(ops) + "\n" for ops, _ in cases)
    impl, model, rc, err = tc.run_pair(exe, text)
    pos = 0
    # second run: every history with its failing operations removed (oracle 2), one batch
    red = []
    for ops, meta in cases:
        il = impl[pos:pos + len(ops)]; pos += len(ops)
        red.append(reduced(ops, il) if len(il) == len(ops) else (None, None))
    rtext = "".join("\n".join(r[0]) + "\n" for r in red if r[0] is not None)
    rimpl, rrc, rerr = vcheck.run_impl(exe, [], rtext)
    pos = rpos = 0
    for (ops, meta), (rops, keep) in zip(cases, red):
        il, ml = impl[pos:pos + len(ops)], model[pos:pos + len(ops)]
        pos += len(ops)
        if len(il) < len(ops):
            # the batch died inside this case: re-run it alone for a clean replay
            v, _, il1 = judge_a(exe, ops, meta)
            report_a(ctx, exe, label, ops, meta, v or "implementation stopped (rc=%s): %s" % (rc, sanitizer_summary(err)), il1)
            break
        v, stats = track_a(ops, il, meta)
        if v == "skip":
            _bump(ctx.notes, "skipped_inexact"); rpos += len(rops); continue
        if v is None:
            rl = rimpl[rpos:rpos + len(rops)]
            if len(rl) < len(rops):
                v = judge_a(exe, ops, meta)[0]
                if v is None and rrc != 0:
                    v = "a history with its failing operations removed aborts: %s" % sanitizer_summary(rerr)
            else:
                for j, i in enumerate(keep):
                    if rl[j] != il[i]:
                        v = ("op %d `%s` printed %r; in the same history without the %d failed operations it prints %r: a failed "
                             "operation left a trace" % (i, ops[i], il[i][:160], len(ops) - len(rops), rl[j][:160]))
                        break
        rpos += len(rops)
        ninj = len(meta["inj"])
        ctx.count_case(("A", label, tuple(ops)), nontrivial=ninj >= 1 and len(rops) < len(ops),
                       sample={"part": "A", "build": label, "want": meta["want"], "ops": ops[:14] + ["..."], "n_ops": len(ops),
                               "injected": meta["inj"][:6]})
        pa = ctx.notes.setdefault("partA", {"injection_points": {}, "exceptions_seen": {}, "expectations_checked": 0, "undecided": 0})
        for i, cls in meta["inj"]:
            _bump(pa["injection_points"], cls)
        for k, n in stats.get("exc", {}).items():
            _bump(pa["exceptions_seen"], k, n)
        pa["expectations_checked"] += stats.get("checked", 0)
        pa["undecided"] += stats.get("undecided", 0)
        if v is not None:
            report_a(ctx, exe, label, ops, meta, v, il)
        else:
            d = vcheck.first_diff(il, ml)
            if d is not None:
                ctx.cov["disagreements_checked"] += 1
                if len(ctx.pending) < 2:
                    ctx.pending.append({"kind": "correspondence", "part": "A", "build": label, "ops": ops,
                                        "correspondence": "AdeptModel/StackProto.lean <-> adept::Stack protocol (with misuse)",
                                        "first_difference": {"index": d, "op": ops[d], "impl": il[d], "model": ml[d] if d < len(ml) else None}})
    ctx.cov["traces_validated_against_impl"] += len(cases)


def report_a(ctx, exe, label, ops, meta, verdict, il):
    ctx.nbad += 1
    if ctx.nbad > 3:
        return
    kind = "crash" if "aborted" in verdict or "stopped" in verdict else "oracle"
    shr = shrink_a(exe, ops, meta, kind)
    v2, _, il2 = judge_a(exe, shr, {"pausable": meta.get("pausable", False)})
    if v2 in (None, "skip"):
        shr, v2, il2 = ops, verdict, il
    obj = {"kind": kind, "part": "A", "build": label, "pausable": meta.get("pausable", False), "ops": shr, "impl": il2,
           "message": v2, "original_length": len(ops)}
    sig = signature_of(v2)
    if sig:
        obj["signature"] = sig
    ctx.violation("%s [part A, build %s]" % (v2, label), obj)


# =====================================================================================================================
# corpus / replay / run
# =====================================================================================================================
def load_corpus():
    d = os.path.join(vbuild.VERIF, "corpus", "C11")
    out = []
    if os.path.isdir(d):
        for fn in sorted(os.listdir(d)):
            if not fn.endswith(".case"):
                continue
            lines = [l.rstrip("\n") for l in open(os.path.join(d, fn))]
            head = [l[1:].strip() for l in lines if l.startswith("#")]
            ops = [l.strip() for l in lines if l.strip() and not l.startswith("#")]
            part = "B" if any(h.startswith("part B") for h in head) else "A"
            build = next((h.split(None, 1)[1] for h in head if h.startswith("build ")), None)
            out.append({"name": fn, "part": part, "build": build, "ops": ops})
    return out


def run(ctx, replay):
    thms = ([NSA + t for t in vcheck.prop_theorems("AdeptProofs/Props/C11.lean", "C11_") if not t.startswith("C11_arr_")] +
            [NSB + t for t in vcheck.prop_theorems("AdeptProofs/Props/C11.lean", "C11_arr_")])
    fails = vcheck.lean_gate(ctx, ["AdeptProofs.Props.C11"], thms,
                             required=[NSA + r for r in REQUIRED_A] + [NSB + r for r in REQUIRED_B])
    va = [("W4", dict(W=4)), ("W4-pausable", dict(W=4, pausable=True))]
    with ThreadPoolExecutor(max_workers=4) as ex:
        fa = [ex.submit(tc.build, **kw) for _, kw in va]
        exes_a = [f.result() for f in fa]
    vb = [("default", False), ("bounds", True)]
    with ThreadPoolExecutor(max_workers=2) as ex:
        exes_b = list(ex.map(lambda v: build_b(v[1]), vb))
    ctx.pending, ctx.nbad = [], 0
    quick = ctx.tier == "quick"
    if replay:
        r = json.load(open(replay))
        want_build = (r.get("build") or "").split("/")[0]
        if r.get("part", "A") == "A":
            for (label, kw), exe in zip(va, exes_a):
                if want_build in ("", label):
                    meta = {"pausable": bool(kw.get("pausable")), "inj": [], "vals": [], "want": "replay"}
                    v, _, il = judge_a(exe, r["ops"], meta)
                    ml = vcheck.run_model("tape", "\n".join(r["ops"]) + "\n")
                    for o, a_, b_ in zip(r["ops"], il + ["<none>"] * len(r["ops"]), ml):
                        print("%-34s | %-50s | %s" % (o, a_, "" if a_ == b_ else "model: " + b_))
                    print("verdict [%s]: %s" % (label, v))
                    if v not in (None, "skip"):
                        report_a(ctx, exe, label, r["ops"], meta, v, il)
        else:
            for (label, bounds), exe in zip(vb, exes_b):
                if want_build in ("", label):
                    ops = ["cfg %d" % (1 if bounds else 0)] + r["ops"][1:]
                    meta = {"bounds": bounds, "inj": [], "want": "replay"}
                    v, il = judge_b(exe, ops, meta)
                    ml = vcheck.run_model("misuse", "\n".join(ops) + "\n")
                    for o, a_, b_ in zip(ops, il + ["<none>"] * len(ops), ml):
                        print("%-34s | %-60s | %s" % (o, a_, "" if a_ == b_ else "model: " + b_))
                    print("verdict [%s]: %s" % (label, v))
                    if v is not None:
                        report_b(ctx, exe, label, ops, meta, v, il)
        return
    corpus = load_corpus()
    for (label, kw), exe in zip(va, exes_a):
        pausable = bool(kw.get("pausable"))
        cc = [(c["ops"], {"inj": [], "vals": [], "pausable": pausable, "want": "corpus:" + c["name"]})
              for c in corpus if c["part"] == "A" and (c["build"] in (None, label))]
        if cc:
            run_cases_a(ctx, exe, label + "/corpus", cc)
        per = (150 if quick else 2000)
        cases = []
        for cls in A_CLASSES:
            for j in range(per):
                cases.append(gen_case_a(ctx.rng, kw["W"], pausable, cls, maxnew=3 if quick else 9))
        for k in range(0, len(cases), 400):
            run_cases_a(ctx, exe, label, cases[k:k + 400])
    for (label, bounds), exe in zip(vb, exes_b):
        cc = [(["cfg %d" % (1 if bounds else 0)] + c["ops"][1:], {"inj": [], "bounds": bounds, "want": "corpus:" + c["name"]})
              for c in corpus if c["part"] == "B" and (c["build"] in (None, label))]
        if cc:
            run_cases_b(ctx, exe, label + "/corpus", cc)
        per = (150 if quick else 2000)
        cases = []
        for cls in B_CLASSES:
            if cls == "index_oob" and not bounds:
                continue
            for j in range(per):
                cases.append(gen_case_b(ctx.rng, bounds, cls, maxdim=5 if quick else 9))
        for k in range(0, len(cases), 400):
            run_cases_b(ctx, exe, label, cases[k:k + 400])
    ctx.cov["rule"] = ("part A: protocol histories of tapecommon.Gen (1-2 recordings, all scalar statement forms, new/delete, "
                       "pause/continue in the pausable build, 2-4 rounds of seeds+pass or lists+Jacobian) with the 8 stack misuse "
                       "classes injected at random points (the wanted class at every possible point with p=0.45, the others with "
                       "p=0.04), %d histories per class and build; part B: histories of 8-30 valid array operations over a pool of "
                       "int/double vectors and matrices (extents 0..%d) with the 16 array misuse classes injected (wanted class "
                       "p=0.5 per step, others p=0.03), %d histories per class and build (default, ADEPT_BOUNDS_CHECKING); "
                       "corpus/C11/*.case first; non-trivial = at least one operation failed; distinct = different (part, build, "
                       "op list)" % (150 if quick else 2000, 5 if quick else 9, 150 if quick else 2000))
    ctx.notes["builds"] = [l for l, _ in va] + ["misuse-" + l for l, _ in vb]
    ctx.notes["documented_exception_table"] = {"A": DOC_A, "B": {k: sorted(v) for k, v in DOC_B.items()}}
    ctx.assumptions += ["deactivate() is always followed at once by activate() (no active object is touched without a stack)",
                        "integer-valued tapes / arrays in the exact regime (|values| <= %d in part B)" % VMAX,
                        "part B: passive arrays of rank 1 and 2 only; a successful link() is detached again by the harness (sharing is "
                        "C07's business); inv() is exercised on non-square matrices and on signed permutation matrices only; "
                        "out-of-range indices are only generated in the ADEPT_BOUNDS_CHECKING build",
                        "where the manual does not say which of two applicable exceptions is raised (empty operand AND inner mismatch; "
                        "missing permute argument AND empty array; a negative extent after a zero extent) the order of the tests in "
                        "the headers is taken as the reference",
                        "fixes F-40, F-41, F-42, F-44, F-45 (fixes/*.patch) are part of the tree the models transcribe"]
    if not ctx.violations:
        for p in ctx.pending[:1]:
            ctx.violation("model and implementation disagree on a history with misuse (part %s, build %s); the documented-exception "
                          "table, the failed-operations-removed comparison and the re-evaluation oracle found no history on which the "
                          "property itself fails" % (p["part"], p["build"]), p, tag="c", no_input=True)
    if fails and not ctx.violations:
        ctx.violation("proof obligation of C11 no longer checks: " + fails[0][:400],
                      {"kind": "proof", "theorem": "AdeptProofs/Props/C11.lean", "failures": fails}, tag="p", no_input=True)


# =====================================================================================================================
# Part B — array misuse.  Python reference written from the manual (chapter "Arrays", section "Array exceptions");
# where the manual does not say which of two applicable exceptions wins, the order of the tests in the headers is used
# and noted.  It is NOT derived from the Lean model; both are compared with the implementation line by line.
# =====================================================================================================================
B_CLASSES = ["neg_new", "neg_resize", "expr_mismatch", "assign_mismatch", "compound_mismatch", "where_mismatch",
             "fill_overflow", "fill_object_overflow", "fill_empty", "not_square", "link_empty", "matmul_empty",
             "matmul_inner", "permute_invalid", "view_invalid", "index_oob"]
DOC_B = {
    "neg_new": {"invalid_dimension"},                # "Attempt to create an array with a negative dimension"
    "neg_resize": {"invalid_dimension"},
    "expr_mismatch": {"size_mismatch"},              # "operation taking two arguments ... not of the same size"
    "assign_mismatch": {"size_mismatch"},            # "an array expression is applied to an array of a different size"
    "compound_mismatch": {"size_mismatch"},
    "where_mismatch": {"size_mismatch"},
    "fill_overflow": {"index_out_of_bounds"},        # "index_out_of_bounds exception is thrown if an array is overfilled"
    "fill_object_overflow": {"index_out_of_bounds"},
    "fill_empty": {"empty_array"},                   # "empty_array ... if an attempt is made to fill an empty array"
    "not_square": {"invalid_operation"},             # "calling the diag_submatrix member function of a non-square rank-2 Array"
    "link_empty": {"empty_array"},                   # "if an attempt is made to link an array to an empty array"
    "matmul_empty": {"empty_array"},
    "matmul_inner": {"inner_dimension_mismatch"},
    "permute_invalid": {"invalid_dimension", "empty_array"},
    "view_invalid": {"invalid_dimension", "index_out_of_bounds"},
    "index_oob": {"index_out_of_bounds"},            # only with ADEPT_BOUNDS_CHECKING
}
VMAX = 5000


class Exc(Exception):
    pass


def pat(seed, t):
    return (seed + 3 * t) % 7 - 3


def prod(ds):
    p = 1
    for d in ds:
        p *= d
    return p


class PyArr:
    __slots__ = ("ty", "dims", "vals")

    def __init__(self, ty, dims, vals):
        self.ty, self.dims, self.vals = ty, list(dims), list(vals)

    @property
    def rank(self):
        return len(self.dims)

    @property
    def empty(self):
        return self.dims[0] == 0

    def copy(self):
        return PyArr(self.ty, self.dims, self.vals)

    def show(self):
        return "%s[%s]=%s" % (self.ty, "x".join(map(str, self.dims)), ",".join(map(str, self.vals)))

    def at(self, i, j):
        return self.vals[i * self.dims[1] + j]


class PyPool:
    """reference semantics of the part-B operations"""

    def __init__(self, bounds=False):
        self.bounds = bounds
        self.a = {}

    def clone(self):
        p = PyPool(self.bounds)
        p.a = {k: v.copy() for k, v in self.a.items()}
        return p

    # -- helpers
    @staticmethod
    def new_extents(dims):
        """constructor / resize(ExpressionSize): a negative extent is an error; an array with a zero extent is the empty
        array.  (The headers look at the extents in order and stop at the first zero, so a negative extent after a zero
        goes unnoticed; that order is taken from Array::resize.)"""
        for d in dims:
            if d < 0:
                raise Exc("invalid_dimension")
            if d == 0:
                return [0] * len(dims)
        return list(dims)

    @staticmethod
    def fresh(ty, dims, seed):
        n = prod(dims)
        return PyArr(ty, dims, [pat(seed, t) for t in range(n)])

    def assign(self, t, dims, vals):
        """t = <expression of extents dims>; dims None = operands of different extents"""
        if dims is None:
            raise Exc("size_mismatch")
        if t.empty:
            return PyArr(t.ty, dims, vals)
        if list(dims) != t.dims:
            raise Exc("size_mismatch")
        return PyArr(t.ty, t.dims, vals)

    # -- one op; returns (status, handles shown)
    def apply(self, w):
        c = w[0]
        a = self.a
        if c == "new":
            k, ty, seed, dims = int(w[1]), w[2], int(w[3]), [int(x) for x in w[4:]]
            ext = self.new_extents(dims)
            a[k] = self.fresh(ty, ext, seed)
            return "ok", [k]
        k = int(w[1])
        t = a[k]
        if c in ("resize", "resized", "resizerm", "resizecm"):
            seed, dims = int(w[2]), [int(x) for x in w[3:]]
            if c == "resize" and any(d < 0 for d in dims):
                raise Exc("invalid_dimension")
            a[k] = self.fresh(t.ty, self.new_extents(dims), seed)
            return "ok", [k]
        if c == "asg":
            x, y = a[int(w[2])], a[int(w[4])]
            f = {"add": lambda p, q: p + q, "sub": lambda p, q: p - q, "mul": lambda p, q: p * q}[w[3]]
            dims = x.dims if x.dims == y.dims else None
            a[k] = self.assign(t, dims, [f(p, q) for p, q in zip(x.vals, y.vals)])
            return "ok", [k, int(w[2]), int(w[4])]
        if c == "cp":
            x = a[int(w[2])]
            a[k] = self.assign(t, x.dims, x.vals)
            return "ok", [k, int(w[2])]
        if c in ("cadd", "csub", "cmul"):
            x = a[int(w[2])]
            f = {"cadd": lambda p, q: p + q, "csub": lambda p, q: p - q, "cmul": lambda p, q: p * q}[c]
            dims = t.dims if t.dims == x.dims else None
            a[k] = self.assign(t, dims, [f(p, q) for p, q in zip(t.vals, x.vals)])
            return "ok", [k, int(w[2])]
        if c == "where":
            m, x = a[int(w[2])], a[int(w[3])]
            if m.dims != t.dims or x.dims != t.dims:
                raise Exc("size_mismatch")
            a[k] = PyArr(t.ty, t.dims, [xv if mv > 0 else tv for tv, mv, xv in zip(t.vals, m.vals, x.vals)])
            return "ok", [k, int(w[2]), int(w[3])]
        if c == "fill":
            hs = [k] + [int(x[1:]) for x in w[2:] if x[0] == "a"]
            if t.empty:
                raise Exc("empty_array")
            self.fill(k, w[2:])
            return "ok", hs
        if c == "diag":
            o = int(w[2])
            if t.empty:
                return "ok view[0]=", [k]
            n = t.dims[0]
            if n != t.dims[1]:
                raise Exc("invalid_operation")
            ln = n - abs(o)
            if ln < 0:
                raise Exc("invalid_dimension")
            v = [t.at(i, i + o) if o >= 0 else t.at(i - o, i) for i in range(ln)]
            return "ok view[%d]=%s" % (ln, ",".join(map(str, v))), [k]
        if c == "subdiag":
            ib, ie = int(w[2]), int(w[3])
            n = t.dims[0]
            if n != t.dims[1]:
                raise Exc("invalid_operation")
            if ib < 0 or ib > ie or ie >= n:
                raise Exc("index_out_of_bounds")
            ln = ie - ib + 1
            v = [t.at(ib + i, ib + j) for i in range(ln) for j in range(ln)]
            return "ok view[%dx%d]=%s" % (ln, ln, ",".join(map(str, v))), [k]
        if c == "inv":
            n = t.dims[0]
            if n != t.dims[1]:
                raise Exc("invalid_operation")
            v = [t.at(j, i) for i in range(n) for j in range(n)]      # generator: signed permutation matrices only
            return "ok view[%dx%d]=%s" % (n, n, ",".join(map(str, v))), [k]
        if c == "link":
            x = a[int(w[2])]
            if x.empty:
                raise Exc("empty_array")
            a[k] = x.copy()
            return "ok", [k, int(w[2])]
        if c == "matmul":
            x, y = a[int(w[2])], a[int(w[3])]
            if x.empty or y.empty:                      # order of the two tests as in matmul.h
                raise Exc("empty_array")
            X = [x.vals] if x.rank == 1 else [x.vals[i * x.dims[1]:(i + 1) * x.dims[1]] for i in range(x.dims[0])]
            Y = [[v] for v in y.vals] if y.rank == 1 else [y.vals[i * y.dims[1]:(i + 1) * y.dims[1]] for i in range(y.dims[0])]
            if len(X[0]) != len(Y):
                raise Exc("inner_dimension_mismatch")
            P = [[sum(X[i][q] * Y[q][j] for q in range(len(Y))) for j in range(len(Y[0]))] for i in range(len(X))]
            dims = [len(P)] if y.rank == 1 else [len(P[0])] if x.rank == 1 else [len(P), len(P[0])]
            a[k] = self.assign(t, dims, [v for row in P for v in row])
            return "ok", [k, int(w[2]), int(w[3])]
        if c == "permute":
            p0, p1 = int(w[2]), int(w[3])
            if p0 == -1 or p1 == -1:                    # "incorrect number of dimensions" comes first in the headers
                raise Exc("invalid_dimension")
            if t.empty:
                raise Exc("empty_array")
            if sorted([p0, p1]) != [0, 1]:
                raise Exc("invalid_dimension")
            if p0 == 0:
                return "ok view[%dx%d]=%s" % (t.dims[0], t.dims[1], ",".join(map(str, t.vals))), [k]
            v = [t.at(j, i) for i in range(t.dims[1]) for j in range(t.dims[0])]
            return "ok view[%dx%d]=%s" % (t.dims[1], t.dims[0], ",".join(map(str, v))), [k]
        if c == "get":
            idx = [int(x) for x in w[2:]]
            if any(not (0 <= i < d) for i, d in zip(idx, t.dims)):
                if not self.bounds:
                    raise RuntimeError("generator produced an unchecked out-of-range access")
                raise Exc("index_out_of_bounds")
            return "ok elem=%d" % (t.vals[idx[0]] if t.rank == 1 else t.at(idx[0], idx[1])), [k]
        if c == "range":
            b, e = int(w[2]), int(w[3])
            n = t.dims[0]
            if not (0 <= b < n and 0 <= e < n):
                if not self.bounds:
                    raise RuntimeError("generator produced an unchecked out-of-range access")
                raise Exc("index_out_of_bounds")
            if e - b + 1 < 0:
                raise Exc("invalid_dimension")
            v = t.vals[b:e + 1]
            return "ok view[%d]=%s" % (len(v), ",".join(map(str, v))), [k]
        if c == "reshape":
            r, cc = int(w[2]), int(w[3])
            if r * cc != t.dims[0] or r < 0 or cc < 0:
                raise Exc("invalid_dimension")
            return "ok view[%dx%d]=%s" % (r, cc, ",".join(map(str, t.vals))), [k]
        if c == "clear":
            a[k] = PyArr(t.ty, [0] * t.rank, [])
            return "ok", [k]
        raise RuntimeError("unknown op " + c)

    def fill(self, k, items):
        """t << item << item …: objects are placed left to right, a row of objects at a time; elements written before the
        object that does not fit stay written"""
        t = self.a[k]
        R, C = (1, t.dims[0]) if t.rank == 1 else t.dims
        r = c = 0
        h = 0            # height of the objects on the current row (0: row not started)
        for it in items:
            if it[0] == "a":
                x = self.a[int(it[1:])]
                if x.empty:
                    continue
                p, q = (1, x.dims[0]) if x.rank == 1 else x.dims
                xv = x.vals
            else:
                p, q, xv = 1, 1, [int(it)]
            if c >= C:                         # row of objects complete: next row, below the objects of this one
                if t.rank == 1 or r + h >= R:
                    raise Exc("index_out_of_bounds")
                r += h; c = 0; h = 0
            if c == 0:
                h = p
            elif t.rank == 2 and h != p:          # objects of different height on one row
                raise Exc("index_out_of_bounds")
            if (it[0] == "a" and x.rank == 2 and r + p > R) or c + q > C:
                raise Exc("index_out_of_bounds")
            for i in range(p):
                for j in range(q):
                    t.vals[(r + i) * C + c + j] = xv[i * q + j]
            c += q

    def line(self, op):
        """the line the driver must print for `op` (and performs it)"""
        w = op.split()
        hs = [int(w[1])] + [int(x[1:]) for x in w[2:] if w[0] == "fill" and x[0] == "a"]
        if w[0] in ("asg",):
            hs = [int(w[1]), int(w[2]), int(w[4])]
        elif w[0] in ("cp", "cadd", "csub", "cmul", "link"):
            hs = [int(w[1]), int(w[2])]
        elif w[0] in ("where", "matmul"):
            hs = [int(w[1]), int(w[2]), int(w[3])]
        try:
            st, hs = self.apply(w)
        except Exc as e:
            st = "EXC " + str(e)
        seen = []
        for h in hs:
            if h not in seen:
                seen.append(h)
        return st + "".join(" | %d:%s" % (h, self.a[h].show() if h in self.a else "-") for h in seen)


class GenB:
    def __init__(self, rng, bounds, want, maxdim):
        self.rng, self.bounds, self.want, self.maxdim = rng, bounds, want, maxdim
        self.pool = PyPool(bounds)
        self.ops, self.exp, self.inj = [], [], []
        self.nh = 8

    def prob(self, cls):
        return 0.5 if cls == self.want else 0.03

    def hit(self, cls):
        return self.rng.random() < self.prob(cls)

    def emit(self, op, cls=None):
        """perform on the reference pool; refuse (False) operations whose values leave the exact regime"""
        trial = self.pool.clone()
        line = trial.line(op)
        if any(abs(v) > VMAX for a in trial.a.values() for v in a.vals):
            return False
        if cls is not None and line.startswith("EXC ") and line[4:].split(" |")[0] in DOC_B[cls]:
            self.inj.append((len(self.ops), cls))
        line2 = self.pool.line(op)          # in place: the dictionary and the untouched arrays keep their identity
        assert line2 == line
        self.ops.append(op); self.exp.append(line)
        return True

    def dim(self, lo=0):
        r = self.rng
        return r.choice([lo, 1, 1, 2, 2, 3, 3, 4, 5]) if self.maxdim <= 5 else r.randint(lo, self.maxdim)

    def pick(self, pred=lambda a: True):
        c = [k for k, a in self.pool.a.items() if pred(a)]
        return self.rng.choice(c) if c else None

    def new_valid(self, k=None, ty=None, rank=None, dims=None):
        r = self.rng
        k = r.randrange(self.nh) if k is None else k
        ty = ty or r.choice("di"); rank = rank or r.choice([1, 2])
        if dims is None:
            dims = [self.dim() for _ in range(rank)]
            if rank == 2 and r.random() < 0.35:
                dims[1] = dims[0]
        return self.emit("new %d %s %d %s" % (k, ty, r.randint(0, 6), " ".join(map(str, dims))))

    def like(self, a, k=None, dims=None):
        """make (or find) another array of the kind of `a` with the given extents; returns its handle"""
        dims = a.dims if dims is None else dims
        k2 = self.pick(lambda b: b.ty == a.ty and b.dims == list(dims) and b is not a)
        if k2 is not None and self.rng.random() < 0.6:
            return k2
        k2 = self.rng.randrange(self.nh) if k is None else k
        if k2 in self.pool.a and self.pool.a[k2] is a:
            k2 = (k2 + 1) % self.nh
        self.emit("new %d %s %d %s" % (k2, a.ty, self.rng.randint(0, 6), " ".join(map(str, dims))))
        return k2

    def other_dims(self, dims):
        r = self.rng
        for _ in range(20):
            d = [max(0, x + r.choice([-2, -1, 1, 2, 0])) for x in dims] if r.random() < 0.7 else [self.dim() for _ in dims]
            if 0 in d:
                d = [0] * len(d)
            if d != list(dims):
                return d
        return [x + 1 for x in dims]

    # ---------------------------------------------------------------- misuses
    def misuse(self, cls):
        r = self.rng
        P = self.pool.a
        if cls == "neg_new":
            rank = r.choice([1, 2])
            dims = [self.dim(1) for _ in range(rank)]
            dims[r.randrange(rank)] = -r.randint(1, 9)
            if rank == 2 and dims[0] < 0 and r.random() < 0.3:
                dims[1] = r.choice([0, -1, 3])
            return self.emit("new %d %s %d %s" % (r.randrange(self.nh), r.choice("di"), r.randint(0, 6), " ".join(map(str, dims))), cls)
        if cls == "neg_resize":
            k = self.pick()
            if k is None:
                return False
            a = P[k]
            dims = [self.dim(1) for _ in range(a.rank)]
            dims[r.randrange(a.rank)] = -r.randint(1, 9)
            form = r.choice(["resize", "resized", "resizerm", "resizecm"])
            if form == "resize" and a.rank == 2 and r.random() < 0.3:
                dims = [0, -r.randint(1, 4)]        # the integer form validates every extent before looking for zeros
            return self.emit("%s %d %d %s" % (form, k, r.randint(0, 6), " ".join(map(str, dims))), cls)
        if cls in ("expr_mismatch", "assign_mismatch", "compound_mismatch", "where_mismatch"):
            k = self.pick()
            if k is None:
                return False
            a = P[k]
            if cls == "expr_mismatch":
                i = self.like(a, dims=self.other_dims(a.dims))
                j = k if r.random() < 0.5 else self.like(a)
                if r.random() < 0.5:
                    i, j = j, i
                tgt = r.choice([k, i, j, self.like(a, dims=[0] * a.rank)])
                return self.emit("asg %d %d %s %d" % (tgt, i, r.choice(["add", "sub", "mul"]), j), cls)
            if cls == "assign_mismatch":
                if a.empty:
                    return False
                i = self.like(a, dims=self.other_dims(a.dims))
                if r.random() < 0.5:
                    return self.emit("cp %d %d" % (k, i), cls)
                j = self.like(P[i])
                return self.emit("asg %d %d %s %d" % (k, i, r.choice(["add", "sub", "mul"]), j), cls)
            if cls == "compound_mismatch":
                i = self.like(a, dims=self.other_dims(a.dims))
                return self.emit("%s %d %d" % (r.choice(["cadd", "csub", "cmul"]), k, i), cls)
            # where: mask or right-hand side of other extents
            which = r.choice(["mask", "rhs", "both"])
            m = self.like(a, dims=self.other_dims(a.dims)) if which in ("mask", "both") else self.like(a)
            i = self.like(a, dims=self.other_dims(a.dims)) if which in ("rhs", "both") else self.like(a)
            if P[m].dims == a.dims and P[i].dims == a.dims:
                return False
            return self.emit("where %d %d %d" % (k, m, i), cls)
        if cls == "fill_overflow":
            k = self.pick(lambda a: not a.empty)
            if k is None:
                return False
            n = prod(P[k].dims)
            return self.emit("fill %d %s" % (k, " ".join(str(r.randint(-4, 4)) for _ in range(n + r.randint(1, 3)))), cls)
        if cls == "fill_object_overflow":
            k = self.pick(lambda a: not a.empty)
            if k is None:
                return False
            a = P[k]
            items = []
            for _ in range(r.randint(1, 5)):
                x = r.random()
                if x < 0.3:
                    items.append(str(r.randint(-4, 4)))
                else:
                    h = self.pick(lambda b: b.rank <= a.rank and not b.empty and b is not a)
                    if h is None:
                        items.append(str(r.randint(-4, 4)))
                    else:
                        items.append("a%d" % h)
            op = "fill %d %s" % (k, " ".join(items))
            trial = self.pool.clone()
            if not trial.line(op).startswith("EXC index_out_of_bounds"):
                # make it overflow for sure: append objects until it does
                h = self.pick(lambda b: b.rank <= a.rank and not b.empty and b is not a)
                if h is None:
                    return False
                for _ in range(prod(a.dims) + 1):
                    items.append("a%d" % h)
                    op = "fill %d %s" % (k, " ".join(items))
                    if self.pool.clone().line(op).startswith("EXC index_out_of_bounds"):
                        break
            return self.emit(op, cls)
        if cls == "fill_empty":
            k = self.pick(lambda a: a.empty)
            if k is None:
                self.new_valid(dims=[0] * r.choice([1, 2]))
                k = self.pick(lambda a: a.empty)
            items = [str(r.randint(-4, 4))] if r.random() < 0.6 else ["a%d" % (self.pick() or k)]
            if items[0][0] == "a" and P[int(items[0][1:])].rank > P[k].rank:
                items = ["1"]
            return self.emit("fill %d %s" % (k, " ".join(items)), cls)
        if cls == "not_square":
            k = self.pick(lambda a: a.rank == 2 and a.dims[0] != a.dims[1])
            if k is None:
                d0 = self.dim(1)
                self.new_valid(rank=2, dims=[d0, d0 + r.choice([1, 2, 3])] if r.random() < 0.5 else [d0 + r.choice([1, 2]), d0])
                k = self.pick(lambda a: a.rank == 2 and a.dims[0] != a.dims[1])
                if k is None:
                    return False
            a = P[k]
            x = r.random()
            if x < 0.4:
                return self.emit("diag %d %d" % (k, r.randint(-2, 2)), cls)
            if x < 0.75 or a.ty != "d":
                return self.emit("subdiag %d %d %d" % (k, r.randint(0, 1), r.randint(0, 2)), cls)
            return self.emit("inv %d" % k, cls)
        if cls == "link_empty":
            i = self.pick(lambda a: a.empty)
            if i is None:
                self.new_valid(dims=[0] * r.choice([1, 2]))
                i = self.pick(lambda a: a.empty)
            k = self.like(P[i], dims=[self.dim(1) for _ in P[i].dims]) if r.random() < 0.7 else self.like(P[i])
            if k == i:
                return False
            return self.emit("link %d %d" % (k, i), cls)
        if cls in ("matmul_empty", "matmul_inner"):
            form = r.choice([(2, 1), (2, 2), (1, 2)])
            inner = self.dim(1)
            m, n = self.dim(1), self.dim(1)
            xd = [m, inner] if form[0] == 2 else [inner]
            yd = ([inner, n] if form[1] == 2 else [inner])
            if cls == "matmul_inner":
                bad = inner + r.choice([1, 2, -1]) if inner > 1 else inner + r.choice([1, 2])
                if r.random() < 0.5:
                    xd[-1] = bad
                else:
                    yd[0] = bad
            else:
                which = r.choice(["x", "y", "both"])
                if which in ("x", "both"):
                    xd = [0] * len(xd)
                if which in ("y", "both"):
                    yd = [0] * len(yd)
                if r.random() < 0.5 and which != "both":   # the inner extents disagree as well: emptiness is reported
                    pass
            hx, hy, hk = r.sample(range(self.nh), 3)
            self.emit("new %d d %d %s" % (hx, r.randint(0, 6), " ".join(map(str, xd))))
            self.emit("new %d d %d %s" % (hy, r.randint(0, 6), " ".join(map(str, yd))))
            kd = [self.dim() for _ in range(form[0] + form[1] - 2)]
            if 0 in kd:
                kd = [0] * len(kd)
            self.emit("new %d d %d %s" % (hk, r.randint(0, 6), " ".join(map(str, kd))))
            return self.emit("matmul %d %d %d" % (hk, hx, hy), cls)
        if cls == "permute_invalid":
            k = self.pick(lambda a: a.rank == 2)
            if k is None:
                return False
            p = r.choice([(0, 0), (1, 1), (2, 0), (0, 2), (-1, 0), (0, -1), (-2, 1), (1, 7), (3, 3), (-1, -1)])
            if P[k].empty and r.random() < 0.5:
                p = r.choice([(0, 1), (1, 0)])
            return self.emit("permute %d %d %d" % ((k,) + p), cls)
        if cls == "view_invalid":
            x = r.random()
            if x < 0.35:
                k = self.pick(lambda a: a.rank == 1 and a.dims[0] >= 2)
                if k is None:
                    return False
                n = P[k].dims[0]
                b = r.randint(1, n - 1); e = r.randint(0, b - 1)
                if e == b - 1 and r.random() < 0.8 and b >= 2:
                    e = r.randint(0, b - 2)
                if e - b + 1 >= 0:
                    return False
                return self.emit("range %d %d %d" % (k, b, e), cls)
            if x < 0.6:
                k = self.pick(lambda a: a.rank == 2 and not a.empty and a.dims[0] == a.dims[1])
                if k is None:
                    return False
                n = P[k].dims[0]
                if r.random() < 0.5:
                    return self.emit("diag %d %d" % (k, r.choice([1, -1]) * (n + r.randint(1, 3))), cls)
                ib, ie = r.choice([(-1, 0), (1, 0), (0, n), (n, n), (2, 1), (0, n + 2)])
                return self.emit("subdiag %d %d %d" % (k, ib, ie), cls)
            k = self.pick(lambda a: a.rank == 1)
            if k is None:
                return False
            n = P[k].dims[0]
            cands = [(-1, -n), (n + 1, 1), (1, n + 1), (2, n), (-n, -1)] + ([(-2, -(n // 2))] if n % 2 == 0 and n else [])
            rc_ = r.choice(cands)
            if rc_[0] * rc_[1] == n and rc_[0] >= 0 and rc_[1] >= 0:
                return False
            return self.emit("reshape %d %d %d" % ((k,) + rc_), cls)
        if cls == "index_oob":
            if not self.bounds:
                return False
            k = self.pick()
            if k is None:
                return False
            a = P[k]
            if a.rank == 1 and r.random() < 0.4:
                n = a.dims[0]
                b, e = r.choice([(-1, 0), (0, n), (n, n), (-2, -1), (0, n + 3), (n, 0)])
                return self.emit("range %d %d %d" % (k, b, e), cls)
            idx = [r.randint(0, max(0, d - 1)) for d in a.dims]
            pos = r.randrange(a.rank)
            idx[pos] = r.choice([-1, a.dims[pos], a.dims[pos] + r.randint(1, 3), -r.randint(2, 5)])
            return self.emit("get %d %s" % (k, " ".join(map(str, idx))), cls)
        raise RuntimeError(cls)

    # ---------------------------------------------------------------- valid steps
    def valid(self):
        r = self.rng
        P = self.pool.a
        x = r.random()
        if x < 0.14 or len(P) < 3:
            return self.new_valid()
        k = self.pick()
        a = P[k]
        if x < 0.20:
            dims = [self.dim() for _ in a.dims]
            return self.emit("%s %d %d %s" % (r.choice(["resize", "resized", "resizerm", "resizecm"]), k, r.randint(0, 6), " ".join(map(str, dims))))
        if x < 0.32:
            i = self.like(a); j = self.like(a) if r.random() < 0.7 else k
            tgt = r.choice([k, self.like(a), self.like(a, dims=[0] * a.rank)])
            return self.emit("asg %d %d %s %d" % (tgt, i, r.choice(["add", "sub", "mul", "add"]), j))
        if x < 0.37:
            return self.emit("cp %d %d" % (self.like(a) if r.random() < 0.6 else self.like(a, dims=[0] * a.rank), k))
        if x < 0.44:
            return self.emit("%s %d %d" % (r.choice(["cadd", "csub", "cmul"]), k, self.like(a)))
        if x < 0.51:
            m = self.pick(lambda b: b.dims == a.dims)
            return self.emit("where %d %d %d" % (k, m, self.like(a)))
        if x < 0.62:
            if a.empty:
                return False
            n = prod(a.dims)
            if r.random() < 0.5:
                return self.emit("fill %d %s" % (k, " ".join(str(r.randint(-4, 4)) for _ in range(r.randint(1, n)))))
            items = []
            for _ in range(r.randint(1, 4)):
                h = self.pick(lambda b: b.rank <= a.rank and b is not a)
                items.append("a%d" % h if h is not None and r.random() < 0.7 else str(r.randint(-4, 4)))
            op = "fill %d %s" % (k, " ".join(items))
            if self.pool.clone().line(op).startswith("EXC"):
                return False
            return self.emit(op)
        if x < 0.68:
            k = self.pick(lambda b: b.rank == 2 and b.dims[0] == b.dims[1])
            if k is None:
                return False
            n = P[k].dims[0]
            if r.random() < 0.5 or n == 0:
                return self.emit("diag %d %d" % (k, r.randint(-n, n)))
            ib = r.randint(0, n - 1)
            return self.emit("subdiag %d %d %d" % (k, ib, r.randint(ib, n - 1)))
        if x < 0.71:
            n = r.choice([1, 2, 2, 3, 4])
            k = r.randrange(self.nh)
            perm = list(range(n)); r.shuffle(perm)
            ent = [(r.choice([1, -1]) if perm[i] == j else 0) for i in range(n) for j in range(n)]
            self.emit("new %d d 0 %d %d" % (k, n, n))
            self.emit("fill %d %s" % (k, " ".join(map(str, ent))))
            return self.emit("inv %d" % k)
        if x < 0.75:
            if a.empty:
                return False
            return self.emit("link %d %d" % (self.like(a, dims=self.other_dims(a.dims)) if r.random() < 0.5 else self.like(a), k))
        if x < 0.83:
            form = r.choice([(2, 1), (2, 2), (1, 2)])
            inner, m, n = self.dim(1), self.dim(1), self.dim(1)
            xd = [m, inner] if form[0] == 2 else [inner]
            yd = [inner, n] if form[1] == 2 else [inner]
            hx, hy, hk = r.sample(range(self.nh), 3)
            self.emit("new %d d %d %s" % (hx, r.randint(0, 6), " ".join(map(str, xd))))
            self.emit("new %d d %d %s" % (hy, r.randint(0, 6), " ".join(map(str, yd))))
            od = ([m] if form == (2, 1) else [n] if form == (1, 2) else [m, n])
            self.emit("new %d d %d %s" % (hk, r.randint(0, 6), " ".join(map(str, od if r.random() < 0.5 else [0] * len(od)))))
            return self.emit("matmul %d %d %d" % (hk, hx, hy))
        if x < 0.87:
            k = self.pick(lambda b: b.rank == 2 and not b.empty)
            if k is None:
                return False
            return self.emit("permute %d %s" % (k, r.choice(["0 1", "1 0"])))
        if x < 0.92:
            if a.empty:
                return False
            return self.emit("get %d %s" % (k, " ".join(str(r.randint(0, d - 1)) for d in a.dims)))
        if x < 0.96:
            k = self.pick(lambda b: b.rank == 1 and not b.empty)
            if k is None:
                return False
            n = P[k].dims[0]
            if r.random() < 0.5:
                b = r.randint(0, n - 1)
                return self.emit("range %d %d %d" % (k, b, r.randint(max(0, b - 1), n - 1)))
            divs = [d for d in range(1, n + 1) if n % d == 0]
            d = r.choice(divs)
            return self.emit("reshape %d %d %d" % (k, d, n // d))
        if x < 0.98:
            return self.emit_order()
        return self.emit("clear %d" % k)

    def emit_order(self):
        op = "order %d" % self.rng.randint(0, 1)
        self.ops.append(op); self.exp.append("ok")
        return True


def gen_case_b(rng, bounds, want, maxdim=5):
    for _attempt in range(300):
        g = GenB(rng, bounds, want, maxdim)
        g.ops.append("cfg %d" % (1 if bounds else 0)); g.exp.append("cfg")
        for _ in range(rng.randint(3, 5)):
            g.new_valid()
        classes = [c for c in B_CLASSES if bounds or c != "index_oob"]
        for _ in range(rng.randint(8, 30)):
            for c in classes:
                if g.hit(c):
                    g.misuse(c)
            g.valid()
        if any(c == want for _, c in g.inj):
            return g.ops, {"inj": g.inj, "exp": g.exp, "bounds": bounds, "want": want}
    raise RuntimeError("generator cannot place array misuse class " + want)


def build_b(bounds):
    defs = ["HAVE_BLAS=1", "HAVE_LAPACK=1"] + (["ADEPT_BOUNDS_CHECKING"] if bounds else [])
    return vbuild.build("misuse", os.path.join(vbuild.VERIF, "harness", "drv_misuse.cpp"), defines=defs,
                        link=["-llapack", "-lblas"], extra=["-std=c++17"])


def reference_lines(ops, bounds):
    """expected lines from the Python reference (None where the reference cannot be evaluated, e.g. in shrunk histories)"""
    p = PyPool(bounds)
    out = []
    for o in ops:
        w = o.split()
        try:
            if w[0] == "cfg":
                p = PyPool(bounds); out.append("cfg")
            elif w[0] == "order":
                out.append("ok")
            else:
                out.append(p.line(o))
        except Exception:
            out.append(None)
    return out


def reduced_b(ops, il):
    """failing operations removed; a failing `fill` stays (its partial effect is documented)"""
    keep = [i for i, l in enumerate(il[:len(ops)]) if not (l.startswith("EXC ") and not ops[i].startswith("fill "))]
    return [ops[i] for i in keep], keep


def judge_b(exe, ops, meta, il=None, rc=0, err="", rl=None):
    bounds = meta.get("bounds", False)
    if il is None:
        il, rc, err = vcheck.run_impl(exe, [], "\n".join(ops) + "\n")
    if len(il) < len(ops) or rc != 0:
        k = min(len(il), len(ops) - 1)
        return "implementation aborted at op %d `%s` (rc=%s): %s" % (k, ops[k], rc, sanitizer_summary(err)), il
    exp = meta.get("exp") or reference_lines(ops, bounds)
    inj = dict(meta.get("inj", []))
    for i, (o, l, e) in enumerate(zip(ops, il, exp)):
        cls = inj.get(i)
        if cls and l.startswith("EXC "):
            name = l[4:].split(" |")[0]
            if name not in DOC_B[cls]:
                return "op %d `%s`: misuse class %s raised %r, the manual documents %s" % (i, o, cls, name, "/".join(sorted(DOC_B[cls]))), il
        if cls and not l.startswith("EXC ") and e is not None and e.startswith("EXC "):
            return "op %d `%s`: misuse class %s was not reported: %r (documented: %s)" % (i, o, cls, l[:160], e.split(" |")[0]), il
        if e is not None and l != e:
            return ("op %d `%s`%s: implementation printed %r, the reference semantics written from the manual gives %r" %
                    (i, o, " (injected misuse %s)" % cls if cls else "", l[:200], e[:200])), il
        if l in ("bad-op", "unmodelled", "cfg-mismatch"):
            return "op %d `%s`: the driver answered %r" % (i, o, l), il
    rops, keep = reduced_b(ops, il)
    if len(rops) != len(ops):
        if rl is None:
            rl, rc2, err2 = vcheck.run_impl(exe, [], "\n".join(rops) + "\n")
            if len(rl) < len(rops) or rc2 != 0:
                return "the history with its failing operations removed aborts: %s" % sanitizer_summary(err2), il
        for j, i in enumerate(keep):
            if rl[j] != il[i]:
                return ("op %d `%s` printed %r; in the same history without the %d failed operations it prints %r: a failed "
                        "operation left a trace" % (i, ops[i], il[i][:160], len(ops) - len(rops), rl[j][:160])), il
    return None, il


def shrink_b(exe, ops, meta, kind):
    def fails(sub):
        if not sub or not sub[0].startswith("cfg"):
            return False
        v, _ = judge_b(exe, sub, {"bounds": meta.get("bounds", False)})
        if v is None:
            return False
        return ("aborted" in v) == (kind == "crash")
    return vcheck.ddmin(list(ops), fails, max_tests=250)


def report_b(ctx, exe, label, ops, meta, verdict, il):
    ctx.nbad += 1
    if ctx.nbad > 3:
        return
    kind = "crash" if "aborted" in verdict or "stopped" in verdict else "oracle"
    shr = shrink_b(exe, ops, meta, kind)
    v2, il2 = judge_b(exe, shr, {"bounds": meta.get("bounds", False)})
    if v2 is None:
        shr, v2, il2 = ops, verdict, il
    obj = {"kind": kind, "part": "B", "build": label, "bounds": meta.get("bounds", False), "ops": shr, "impl": il2, "message": v2,
           "original_length": len(ops)}
    sig = signature_of(v2)
    if sig:
        obj["signature"] = sig
    ctx.violation("%s [part B, build %s]" % (v2, label), obj)


def run_cases_b(ctx, exe, label, cases):
    text = "".join("\n".join(ops) + "\n" for ops, _ in cases)
    impl, rc, err = vcheck.run_impl(exe, [], text)
    model = vcheck.run_model("misuse", text)
    pos = 0
    red = []
    for ops, meta in cases:
        il = impl[pos:pos + len(ops)]; pos += len(ops)
        red.append(reduced_b(ops, il) if len(il) == len(ops) else (None, None))
    rtext = "".join("\n".join(r[0]) + "\n" for r in red if r[0] is not None)
    rimpl, rrc, rerr = vcheck.run_impl(exe, [], rtext)
    pos = rpos = 0
    pb = ctx.notes.setdefault("partB", {"injection_points": {}, "exceptions_seen": {}, "ops": {}, "sizes": {}})
    for (ops, meta), (rops, keep) in zip(cases, red):
        il, ml = impl[pos:pos + len(ops)], model[pos:pos + len(ops)]
        pos += len(ops)
        if len(il) < len(ops):
            v, il1 = judge_b(exe, ops, meta)
            report_b(ctx, exe, label, ops, meta, v or "implementation stopped (rc=%s): %s" % (rc, sanitizer_summary(err)), il1)
            break
        rl = rimpl[rpos:rpos + len(rops)]
        rpos += len(rops)
        v, _ = judge_b(exe, ops, meta, il=il, rl=rl if len(rl) == len(rops) else None)
        ctx.count_case(("B", label, tuple(ops)), nontrivial=len(rops) < len(ops) or any(l.startswith("EXC") for l in il),
                       sample={"part": "B", "build": label, "want": meta["want"], "ops": ops[:14] + ["..."], "n_ops": len(ops),
                               "injected": meta["inj"][:6]})
        for i, cls in meta["inj"]:
            _bump(pb["injection_points"], cls)
        for o, l in zip(ops, il):
            _bump(pb["ops"], o.split()[0])
            if l.startswith("EXC "):
                _bump(pb["exceptions_seen"], l[4:].split(" |")[0])
            for m in re.finditer(r"\[(\d+)(?:x(\d+))?\]", l):
                _bump(pb["sizes"], m.group(1))
        if v is not None:
            report_b(ctx, exe, label, ops, meta, v, il)
        else:
            d = vcheck.first_diff(il, ml)
            if d is not None:
                ctx.cov["disagreements_checked"] += 1
                if len(ctx.pending) < 2:
                    ctx.pending.append({"kind": "correspondence", "part": "B", "build": label, "ops": ops,
                                        "correspondence": "AdeptModel/Misuse.lean <-> Array misuse paths",
                                        "first_difference": {"index": d, "op": ops[d], "impl": il[d], "model": ml[d] if d < len(ml) else None}})
    ctx.cov["traces_validated_against_impl"] += len(cases)
