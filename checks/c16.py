"""C16 — solve and inv satisfy their defining equations (marshalling proved; LAPACK's numerics explored).

proof:  lean/AdeptProofs/Props/C16.lean — for ANY implementation of ?gesv ?sysv ?getrf ?getri ?sytrf ?sytri that
        meets the contract of AdeptModel/Lapack.lean: A.X = B for every layout / view / expression of A and B,
        both SymmMatrix orientations (orientation -> uplo lemma), inv(A).A = A.inv(A) = 1, arguments unmodified,
        exactly singular => matrix_ill_conditioned, non-square inv => invalid_operation.
tie:    hand-written model AdeptModel/Solve.lean <-> adept/solve.cpp, adept/inv.cpp, adept/cpplapack.h, solve.h, inv.h.
        harness/mini_lapack.cpp (the harness' own LAPACK) records every Fortran call: routine, n, nrhs, lda, ldb,
        uplo, which triangle was actually read, info, whether a pointer aliases an operand; compared exactly with the
        model's call log, together with the outcome (shape / exception class) and "operands unchanged".
oracle: (independent of the Lean model) exact rational arithmetic in Python: x_exact / inverse by Fractions,
        kappa_inf from the explicit exact inverse, rank by exact elimination.  Numerics are EXPLORATION:
        residual |A.x-b| <= 8 n eps |A||x|, |x-x_exact| <= 8 n eps kappa |x_exact|, both inverse products within
        8 n eps kappa of the identity; singular => matrix_ill_conditioned; operands bitwise unchanged.
        thorough tier: the same cases through the system LAPACK as a second opinion.
"""
import os, json
from fractions import Fraction as Fr
import vbuild, vcheck

LEVEL = "proof"
NS = "Adept.Solve."
REQUIRED = ["C16_solve_general", "C16_solve_general_multi", "C16_solve_symm", "C16_uplo_orientation",
            "C16_inv_left_right", "C16_args_unmodified", "C16_singular_raises", "C16_nonsquare_inv_raises"]
H = os.path.join(vbuild.VERIF, "harness")
DEFS = ["HAVE_BLAS=1", "HAVE_LAPACK=1"]
DENSE = ["rm", "cm", "tr", "st", "sb", "ex"]
VECL = ["ct", "st", "sb", "col", "ex"]
SYML = ["pl", "sb", "ex"]
ORI = ["rl", "ru"]
EPS = {"d": 2.0 ** -52, "f": 2.0 ** -23}
KAPPA_MAX = 10 ** 6
F21_SIG = "symmetric-vector-solve-singular-returns-value"


def build_mini():
    return vbuild.build("solve", [os.path.join(H, "drv_solve.cpp"), os.path.join(H, "mini_lapack.cpp")],
                        defines=DEFS, link=["-lblas"])


def build_sys():
    return vbuild.build("solve_sys", [os.path.join(H, "drv_solve.cpp")], defines=DEFS, link=["-llapack", "-lblas"])


# ------------------------------------------------------------------ exact linear algebra (the oracle's)
def gauss_jordan(A, B):
    """A n*n, B n*m lists of Fractions -> (X, None) with A X = B, or (None, k) if singular"""
    n = len(A)
    M = [list(A[i]) + list(B[i]) for i in range(n)]
    for k in range(n):
        p = next((i for i in range(k, n) if M[i][k] != 0), None)
        if p is None:
            return None, k
        M[k], M[p] = M[p], M[k]
        piv = M[k][k]
        M[k] = [v / piv for v in M[k]]
        for i in range(n):
            if i != k and M[i][k] != 0:
                f = M[i][k]
                M[i] = [a - f * b for a, b in zip(M[i], M[k])]
    return [row[n:] for row in M], None


def norm_inf(M):
    return max((sum(abs(v) for v in row) for row in M), default=Fr(0))


def matmul(A, B):
    return [[sum(A[i][k] * B[k][j] for k in range(len(B))) for j in range(len(B[0]))] for i in range(len(A))]


def ident(n):
    return [[Fr(int(i == j)) for j in range(n)] for i in range(n)]


def kappa_inf(A):
    inv, _ = gauss_jordan(A, ident(len(A)))
    if inv is None:
        return None, None
    return norm_inf(A) * norm_inf(inv), inv


# ------------------------------------------------------------------ case objects
class Case:
    """op in gsv gsm ssv ssm sss ginv sinv; A (r*c ints), B (n*m ints) or None"""
    def __init__(self, op, prec, lays, A, B=None, kind="regular"):
        self.op, self.prec, self.lays, self.A, self.B, self.kind = op, prec, list(lays), A, B, kind

    @property
    def scale(self):
        """every entry of every operand is multiplied by 2**scale (prec word `d@<k>` / `f@<k>`, optionally followed by `!`)"""
        return int(self.prec.rstrip("!").split("@")[1]) if "@" in self.prec else 0

    @property
    def base_prec(self):
        return self.prec.rstrip("!").split("@")[0]

    def Aex(self, scaled=True):
        f = Fr(2) ** self.scale if scaled else Fr(1)
        return [[Fr(v) * f for v in row] for row in self.A]

    def Bex(self, scaled=True):
        f = Fr(2) ** self.scale if scaled else Fr(1)
        return [[Fr(v) * f for v in row] for row in self.B]

    def model_line(self):
        """the scale is not part of the model (its contract is exact arithmetic): the model sees the unscaled case"""
        w = self.line().split()
        w[1] = self.base_prec
        return " ".join(w)

    def line(self):
        r, c = len(self.A), len(self.A[0])
        fa = " ".join(str(v) for row in self.A for v in row)
        fb = " ".join(str(v) for row in self.B for v in row) if self.B is not None else ""
        if self.op in ("gsv", "ssv"):
            head = [self.op, self.prec] + self.lays + [str(r)]
        elif self.op in ("gsm", "ssm"):
            head = [self.op, self.prec] + self.lays + [str(r), str(len(self.B[0]))]
        elif self.op == "sss":
            head = [self.op, self.prec] + self.lays + [str(r)]
        elif self.op == "ginv":
            head = [self.op, self.prec] + self.lays + [str(r), str(c)]
        else:
            head = [self.op, self.prec] + self.lays + [str(r)]
        return (" ".join(head) + " " + fa + (" " + fb if fb else "")).strip()

    @staticmethod
    def parse(line):
        w = line.split()
        op, prec = w[0], w[1]
        if op in ("gsv", "ssv"):
            k = 4 if op == "gsv" else 5
            lays, n = w[2:k], int(w[k]); v = [int(x) for x in w[k + 1:]]
            A = [v[i * n:(i + 1) * n] for i in range(n)]; B = [[x] for x in v[n * n:]]
        elif op in ("gsm", "ssm"):
            k = 4 if op == "gsm" else 5
            lays, n, m = w[2:k], int(w[k]), int(w[k + 1]); v = [int(x) for x in w[k + 2:]]
            A = [v[i * n:(i + 1) * n] for i in range(n)]; r = v[n * n:]; B = [r[i * m:(i + 1) * m] for i in range(n)]
        elif op == "sss":
            lays, n = w[2:4], int(w[4]); v = [int(x) for x in w[5:]]
            A = [v[i * n:(i + 1) * n] for i in range(n)]; r = v[n * n:]; B = [r[i * n:(i + 1) * n] for i in range(n)]
        elif op == "ginv":
            lays, r_, c_ = w[2:3], int(w[3]), int(w[4]); v = [int(x) for x in w[5:]]
            A = [v[i * c_:(i + 1) * c_] for i in range(r_)]; B = None
        elif op == "sinv":
            lays, n = w[2:4], int(w[4]); v = [int(x) for x in w[5:]]
            A = [v[i * n:(i + 1) * n] for i in range(n)]; B = None
        else:
            raise ValueError(line)
        return Case(op, prec, lays, A, B, "replay")

    def key(self):
        return (self.op, self.prec, tuple(self.lays), len(self.A), len(self.A[0]), len(self.B[0]) if self.B else 0, self.kind)


# ------------------------------------------------------------------ generators
def rand_matrix(rng, n, symmetric, style=None):
    style = style or rng.choice(["dense", "dense", "nearsing", "unimod", "unimod", "sparse", "zerodiag", "diagdom", "wide", "perm", "tri"])
    if style == "unimod":        # L.D.U with unit triangular integer factors: determinant +-1, integer inverse, kappa spread widely
        m = rng.choice([1, 1, 2, 3, 4])
        Lo = [[(1 if i == j else rng.randint(-m, m) if j < i else 0) for j in range(n)] for i in range(n)]
        d = [rng.choice([-1, 1]) for _ in range(n)]
        Up = [[Lo[j][i] for j in range(n)] for i in range(n)] if symmetric else \
             [[(1 if i == j else rng.randint(-m, m) if j > i else 0) for j in range(n)] for i in range(n)]
        return [[sum(Lo[i][k] * d[k] * Up[k][j] for k in range(n)) for j in range(n)] for i in range(n)], style
    if style == "nearsing":      # a rank-deficient matrix plus a small perturbation: large condition numbers
        A, _ = gen_singular(rng, n, symmetric)
        for _ in range(rng.randint(1, 2)):
            i = rng.randrange(n)
            A[i][i] += rng.choice([-1, 1])
        if n > 1 and rng.random() < 0.5:
            A = [[7 * v for v in row] for row in A]
            i = rng.randrange(n); A[i][i] += rng.choice([-1, 1])
        return A, style
    lim = 9
    if style == "wide":
        lim = 60
    A = [[rng.randint(-lim, lim) for _ in range(n)] for _ in range(n)]
    if style == "sparse":
        A = [[v if rng.random() < 0.45 else 0 for v in row] for row in A]
    if style == "diagdom":
        for i in range(n):
            A[i][i] = rng.choice([-1, 1]) * (sum(abs(v) for v in A[i]) + 1)
    if style == "perm":
        p = list(range(n)); rng.shuffle(p)
        A = [[(rng.choice([-3, -1, 1, 2]) if p[i] == j else 0) for j in range(n)] for i in range(n)]
        if symmetric:       # symmetric permutation-like: involution
            q = list(range(n)); rng.shuffle(q)
            A = [[0] * n for _ in range(n)]
            for a, b in zip(q[0::2], q[1::2]):
                v = rng.choice([-2, -1, 1, 3]); A[a][b] = v; A[b][a] = v
            if n % 2:
                A[q[-1]][q[-1]] = rng.choice([-1, 2])
    if style == "tri" and not symmetric:
        A = [[A[i][j] if j <= i else 0 for j in range(n)] for i in range(n)]
        for i in range(n):
            A[i][i] = A[i][i] or 1
    if symmetric:
        A = [[A[max(i, j)][min(i, j)] for j in range(n)] for i in range(n)]
    if style == "zerodiag":
        for i in range(n):
            A[i][i] = 0
    return A, style


def gen_regular(rng, n, symmetric):
    """integer matrix with kappa_inf <= 1e6 -> (A, kappa, inverse, style)"""
    for _ in range(200):
        A, style = rand_matrix(rng, n, symmetric)
        k, inv = kappa_inf([[Fr(v) for v in row] for row in A])
        if k is not None and k <= KAPPA_MAX:
            return A, k, inv, style
    A = [[int(i == j) * 2 for j in range(n)] for i in range(n)]
    return A, Fr(1), [[Fr(int(i == j), 2) for j in range(n)] for i in range(n)], "fallback-identity"


def gen_singular(rng, n, symmetric):
    """exactly singular integer matrix, rank-deficient by construction"""
    how = rng.choice(["lowrank", "lowrank", "duprow", "zerorow", "zero", "rank1"])
    if n == 1:
        return [[0]], "zero"
    if how == "zero":
        return [[0] * n for _ in range(n)], how
    if how == "rank1":
        u = [rng.randint(-3, 3) or 1 for _ in range(n)]
        v = u if symmetric else [rng.randint(-3, 3) or 1 for _ in range(n)]
        return [[u[i] * v[j] for j in range(n)] for i in range(n)], how
    if how == "lowrank" or symmetric:
        r = rng.randint(1, n - 1)
        Bm = [[rng.randint(-2, 2) for _ in range(r)] for _ in range(n)]
        if symmetric:
            d = [rng.choice([-1, 1, 1, 2]) for _ in range(r)]
            A = [[sum(Bm[i][k] * d[k] * Bm[j][k] for k in range(r)) for j in range(n)] for i in range(n)]
        else:
            Cm = [[rng.randint(-2, 2) for _ in range(n)] for _ in range(r)]
            A = [[sum(Bm[i][k] * Cm[k][j] for k in range(r)) for j in range(n)] for i in range(n)]
        return A, "lowrank%d" % r
    A, _ = rand_matrix(rng, n, False, "dense")
    i, j = rng.sample(range(n), 2)
    if how == "duprow":
        c = rng.choice([1, -1, 2])
        A[i] = [c * v for v in A[j]]
    else:
        A[i] = [0] * n
    return A, how


def rhs(rng, n, m):
    return [[rng.randint(-9, 9) for _ in range(m)] for _ in range(n)]


def layout_combos():
    out = []
    out += [("gsv", [a, b]) for a in DENSE for b in VECL]
    out += [("gsm", [a, b]) for a in DENSE for b in DENSE]
    out += [("ssv", [o, a, b]) for o in ORI for a in SYML for b in VECL]
    out += [("ssm", [o, a, b]) for o in ORI for a in SYML for b in DENSE]
    out += [("sss", [o, o2]) for o in ORI for o2 in ORI]
    out += [("ginv", [a]) for a in DENSE]
    out += [("sinv", [o, a]) for o in ORI for a in SYML]
    return out


def make_case(rng, op, lays, n, kind, prec):
    symmetric = op in ("ssv", "ssm", "sss", "sinv")
    meta = {}
    if kind == "regular":
        A, k, inv, style = gen_regular(rng, n, symmetric)
        meta.update(kappa=float(k), style=style)
    else:
        A, style = gen_singular(rng, n, symmetric)
        meta.update(style=style)
    B = None
    if op in ("gsv", "ssv"):
        B = rhs(rng, n, 1)
    elif op in ("gsm", "ssm"):
        B = rhs(rng, n, rng.randint(1, 5))
    elif op == "sss":
        B, _ = rand_matrix(rng, n, True, "dense")
    c = Case(op, prec, lays, A, B, kind)
    c.meta = meta
    return c


def generate(rng, tier):
    nmax = 8 if tier == "quick" else 12
    rounds = 8 if tier == "quick" else 32
    cases = []
    combos = layout_combos()
    for rd in range(rounds):
        for op, lays in combos:
            n = rng.randint(1, nmax) if rd else 1 + (len(cases) % nmax)
            prec = "f" if rng.random() < 0.15 else "d"
            rv = rng.random() < 0.25      # operands passed as rvalue views of the same data (`!`)
            if rng.random() < 0.25:
                # the same kind of system at another scale (all entries times a power of two: exact, same condition number)
                prec += "@%d" % (rng.choice([-66, -40, -12, 9, 30, 60]) if prec == "d" else rng.choice([-30, -12, 9, 20]))
            cases.append(make_case(rng, op, lays, n, "regular", prec + ("!" if rv else "")))
    # every n for the plainest forms
    for n in range(1, nmax + 1):
        for op, lays in (("gsv", ["rm", "ct"]), ("gsm", ["rm", "rm"]), ("ssv", ["rl", "pl", "ct"]), ("ssv", ["ru", "pl", "ct"]),
                         ("ssm", ["rl", "pl", "rm"]), ("ssm", ["ru", "pl", "rm"]), ("ginv", ["rm"]), ("sinv", ["rl", "pl"]), ("sinv", ["ru", "pl"])):
            cases.append(make_case(rng, op, lays, n, "regular", "d"))
            if n <= 3:
                # tiny and huge well-conditioned systems of the smallest sizes (an absolute threshold would show here)
                cases.append(make_case(rng, op, lays, n, "regular", "d@%d" % rng.choice([-66, -60, 60])))
    # the error path: exactly singular
    for rd in range(2 if tier == "quick" else 6):
        for op, lays in combos:
            n = rng.randint(1, nmax)
            cases.append(make_case(rng, op, lays, n, "singular", "f" if rng.random() < 0.1 else "d"))
    for n in range(1, nmax + 1):   # symmetric vector form (fallback path), every n, both orientations
        for o in ORI:
            for _ in range(2 if tier == "quick" else 5):
                cases.append(make_case(rng, "ssv", [o, "pl", rng.choice(VECL[:4])], n, "singular", "d"))
    # non-square inverse
    for lay in DENSE:
        for _ in range(2 if tier == "quick" else 5):
            r = rng.randint(1, nmax); c = rng.choice([x for x in range(1, nmax + 1) if x != r])
            A = [[rng.randint(-9, 9) for _ in range(c)] for _ in range(r)]
            cs = Case("ginv", "d", [lay], A, None, "nonsquare"); cs.meta = {"style": "nonsquare"}
            cases.append(cs)
    return cases


# ------------------------------------------------------------------ oracle (independent of the Lean model)
def split_out(line):
    if " #" not in line:
        return line, None
    s, v = line.split(" #", 1)
    return s.strip(), v.split()


def parse_struct(s):
    """'calls=.. q=.. | outcome | args=..' -> dict or None"""
    parts = [p.strip() for p in s.split("|")]
    if len(parts) != 3 or not parts[0].startswith("calls="):
        return None
    return {"calls": parts[0], "outcome": parts[1], "args": parts[2]}


def exact_reference(c, scaled=True):
    """what the property demands, from the case alone: ('exc', class) | ('ok', shape, Xexact, kappa, inv)"""
    r, cc = len(c.A), len(c.A[0])
    if c.op == "ginv" and r != cc:
        return ("exc", "invalid_operation")
    A = c.Aex(scaled)
    k, inv = kappa_inf(A)
    if k is None:
        return ("exc", "matrix_ill_conditioned")
    if c.op in ("ginv", "sinv"):
        shape = "m %d %d" % (r, r) if (c.op == "ginv" or c.lays[1] == "ex") else "s %d %s" % (r, c.lays[0])
        return ("ok", shape, inv, k, inv)
    B = c.Bex(scaled)
    X = matmul(inv, B)
    shape = "v %d" % r if c.op in ("gsv", "ssv") else "m %d %d" % (r, len(B[0]))
    return ("ok", shape, X, k, inv)


def oracle(c, line, strict_numerics=True):
    """judge one implementation output line; returns (message|None, info dict)"""
    info = {}
    s, vals = split_out(line)
    st = parse_struct(s)
    if st is None:
        return "unparsable output %r" % line[:200], info
    ref = exact_reference(c)
    if st["args"] != "args=same":
        return "an operand was modified by the call (%s)" % st["args"], info
    for call in st["calls"][len("calls="):].split(" q=")[0].split(";"):
        f = call.split(",")
        if len(f) == 9 and f[8] == "1":
            return "a pointer handed to LAPACK (%s) lies inside an operand's storage" % f[0], info
    if ref[0] == "exc":
        if st["outcome"] != "exc " + ref[1]:
            info["signature"] = F21_SIG if (c.op == "ssv" and ref[1] == "matrix_ill_conditioned" and st["outcome"].startswith("ok")
                                            and c.lays[1] != "ex" and c.lays[2] != "ex") else None
            what = "an exactly singular matrix" if ref[1] == "matrix_ill_conditioned" else "a non-square matrix passed to inv"
            return "%s gives '%s' instead of raising %s" % (what, st["outcome"], ref[1]), info
        return None, info
    _, shape, X, kappa, inv = ref
    if st["outcome"] != "ok " + shape:
        return "well-conditioned input (kappa_inf=%.3g): outcome '%s', expected 'ok %s'" % (float(kappa), st["outcome"], shape), info
    n = len(c.A)
    m = len(X[0])
    try:
        got = [Fr(float(v)) for v in vals]
        if len(got) != n * m or any(v != v for v in map(float, got)):
            raise ValueError
    except (ValueError, OverflowError, TypeError):
        return "result is not %d finite numbers: %r" % (n * m, (vals or [])[:8]), info
    G = [got[i * m:(i + 1) * m] for i in range(n)]
    A = c.Aex()
    eps = Fr(EPS[c.base_prec])
    nA = norm_inf(A)
    worst = Fr(0)
    msg = None
    if c.op in ("ginv", "sinv"):
        tol = 8 * n * eps * kappa
        I = ident(n)
        for nm, P in (("A.inv(A)", matmul(A, G)), ("inv(A).A", matmul(G, A))):
            d = max(abs(P[i][j] - I[i][j]) for i in range(n) for j in range(n))
            worst = max(worst, d / tol)
            if d > tol and msg is None:
                msg = "%s differs from the identity by %.3g > 8 n eps kappa = %.3g (kappa_inf=%.3g)" % (nm, float(d), float(tol), float(kappa))
        if c.op == "sinv" and shape.startswith("s ") and any(G[i][j] != G[j][i] for i in range(n) for j in range(n)):
            msg = msg or "the SymmMatrix returned by inv is not symmetric"
    else:
        B = c.Bex()
        R = matmul(A, G)
        for k in range(m):
            xk = max(abs(G[i][k]) for i in range(n))
            res = max(abs(R[i][k] - B[i][k]) for i in range(n))
            tol = 8 * n * eps * nA * xk
            if tol == 0:
                ok = res == 0
                ratio = Fr(0) if ok else Fr(10 ** 9)
            else:
                ratio = res / tol
            worst = max(worst, ratio)
            if ratio > 1 and msg is None:
                msg = "column %d: residual |A.x-b| = %.3g > 8 n eps |A||x| = %.3g" % (k, float(res), float(tol))
    # forward error against the exact solution / inverse
    xe = max(abs(X[i][k]) for i in range(n) for k in range(m))
    err = max(abs(G[i][k] - X[i][k]) for i in range(n) for k in range(m))
    tolf = 8 * n * eps * kappa * xe
    ratio = (err / tolf) if tolf else (Fr(0) if err == 0 else Fr(10 ** 9))
    worst = max(worst, ratio)
    if ratio > 1 and msg is None:
        msg = "|x - x_exact| = %.3g > 8 n eps kappa |x_exact| = %.3g (kappa_inf=%.3g)" % (float(err), float(tolf), float(kappa))
    info["worst_ratio"] = float(worst)
    if msg is not None and not strict_numerics and worst < 1000:
        info["exploration_only"] = msg
        return None, info
    return msg, info


def model_values_exact(c, mline):
    """the Lean model's exact values must be the oracle's exact values (validates Lapack.ratImpl)"""
    s, vals = split_out(mline)
    ref = exact_reference(c, scaled=False)
    if ref[0] != "ok":
        return None if not vals else "model printed values on an error path"
    X = ref[2]
    want = [str(X[i][k]) for i in range(len(X)) for k in range(len(X[0]))]
    if vals != want:
        return "model's exact result %s differs from the Fraction oracle %s" % (vals[:6], want[:6])
    return None


# ------------------------------------------------------------------ run
def run_lines(exe, lines):
    out, rc, err = vcheck.run_impl(exe, [], "\n".join(lines) + "\n")
    return out, rc, err


def shrink(c, fails):
    """simplify a failing case: plainest layouts, double precision, fewer right-hand sides, smaller leading blocks"""
    def variants(c):
        plain = {"gsv": ["rm", "ct"], "gsm": ["rm", "rm"], "ginv": ["rm"]}.get(c.op)
        if c.op in ("ssv", "ssm", "sinv"):
            plain = [c.lays[0], "pl"] + ({"ssv": ["ct"], "ssm": ["rm"], "sinv": []}[c.op])
        if plain and plain != c.lays:
            yield Case(c.op, c.prec, plain, c.A, c.B, c.kind)
            for i in range(len(c.lays)):
                if c.lays[i] != plain[i]:
                    l2 = list(c.lays); l2[i] = plain[i]
                    yield Case(c.op, c.prec, l2, c.A, c.B, c.kind)
        if c.base_prec == "f":
            yield Case(c.op, "d", c.lays, c.A, c.B, c.kind)
        if c.op in ("gsm", "ssm") and len(c.B[0]) > 1:
            yield Case(c.op, c.prec, c.lays, c.A, [row[:1] for row in c.B], c.kind)
        n = len(c.A)
        if n > 1 and len(c.A[0]) == n:
            for drop in range(n):
                keep = [i for i in range(n) if i != drop]
                A2 = [[c.A[i][j] for j in keep] for i in keep]
                B2 = None
                if c.B is not None:
                    B2 = [c.B[i] for i in keep] if c.op != "sss" else [[c.B[i][j] for j in keep] for i in keep]
                yield Case(c.op, c.prec, c.lays, A2, B2, c.kind)
    budget = 120
    improved = True
    while improved and budget > 0:
        improved = False
        for v in variants(c):
            budget -= 1
            if budget <= 0:
                break
            try:
                if fails(v):
                    c = v; improved = True
                    break
            except Exception:
                pass
    return c


def check_batch(ctx, exe, label, cases, with_model):
    lines = [c.line() for c in cases]
    impl, rc, err = run_lines(exe, lines)
    model = vcheck.run_model("solve", "\n".join(c.model_line() for c in cases) + "\n") if with_model else None
    if len(impl) < len(lines):
        k = len(impl)
        ctx.violation("implementation stopped on a solve/inv case (%s build): rc=%s %s" % (label, rc, err[-1500:]),
                      {"kind": "crash", "build": label, "case": lines[k] if k < len(lines) else None, "stderr": err[-3000:]})
    worst = 0.0
    for i, c in enumerate(cases):
        if i >= len(impl):
            break
        il = impl[i]
        meta = getattr(c, "meta", {})
        msg, info = oracle(c, il, strict_numerics=with_model)
        ctx.count_case((label,) + c.key() + (tuple(map(tuple, c.A)),), nontrivial=len(c.A) > 1,
                       sample={"build": label, "case": lines[i][:160], "impl": il[:200]})
        worst = max(worst, info.get("worst_ratio", 0.0))
        d = ctx.notes.setdefault("distribution", {})
        oc = il.split("|")[1].strip() if il.count("|") >= 2 else "?"
        oc = oc if oc.startswith("exc") else oc.split(" ")[0]
        for k in ("op:" + c.op, "kind:" + c.kind, "prec:" + c.prec, "n:%d" % len(c.A), "style:" + str(meta.get("style")),
                  "outcome:" + oc):
            d[k] = d.get(k, 0) + 1
        for l in c.lays:
            d["layout:" + l] = d.get("layout:" + l, 0) + 1
        if ";dgesv" in il or ";sgesv" in il:
            d["branch:sysv-failed-then-gesv"] = d.get("branch:sysv-failed-then-gesv", 0) + 1
        if "kappa" in meta:
            b = "kappa<1e%d" % len(str(int(meta["kappa"])))
            d[b] = d.get(b, 0) + 1
        if info.get("exploration_only"):
            ctx.notes.setdefault("system_lapack_outside_tolerance", []).append({"case": lines[i][:200], "what": info["exploration_only"]})
        if not with_model and msg is not None and c.kind == "singular" and "instead of raising matrix_ill_conditioned" in msg:
            # floating-point LAPACK need not hit an exactly zero pivot: exploration, not a violation of the marshalling
            ctx.notes["system_lapack_singular_not_detected"] = ctx.notes.get("system_lapack_singular_not_detected", 0) + 1
            msg = None
        if msg is not None:
            ctx.nbad += 1
            if ctx.nbad <= 3:
                def fails(v, exe=exe):
                    o, _, _ = run_lines(exe, [v.line()])
                    return bool(o) and oracle(v, o[0], strict_numerics=with_model)[0] is not None
                small = shrink(c, fails)
                o2, _, _ = run_lines(exe, [small.line()])
                m2, info2 = oracle(small, o2[0] if o2 else "", strict_numerics=with_model)
                ctx.violation("%s [%s build; %s]" % (m2 or msg, label, small.line()[:120]),
                              {"kind": "oracle", "build": label, "case": small.line(), "impl": o2[0] if o2 else None,
                               "message": m2 or msg, "original_case": lines[i], "signature": info2.get("signature") or info.get("signature")})
            continue
        if with_model:
            ml = model[i] if i < len(model) else "<missing>"
            si, sm = split_out(il)[0], split_out(ml)[0]
            if si != sm:
                ctx.cov["disagreements_checked"] += 1
                if len(ctx.pending) < 2:
                    ctx.pending.append({"kind": "correspondence",
                                        "correspondence": "AdeptModel/Solve.lean <-> adept/solve.cpp, inv.cpp, cpplapack.h (logged LAPACK calls, outcome, operands)",
                                        "build": label, "case": lines[i], "impl": si, "model": sm})
            else:
                mv = model_values_exact(c, ml)
                if mv is not None and len(ctx.pending) < 2:
                    ctx.pending.append({"kind": "model-oracle", "correspondence": "Lapack.ratImpl (exact elimination in Lean) <-> Python Fractions",
                                        "build": label, "case": lines[i], "model": ml[:400], "message": mv})
    ctx.cov["traces_validated_against_impl"] += len(cases) if with_model else 0
    ctx.notes["worst_tolerance_ratio_" + label] = max(worst, ctx.notes.get("worst_tolerance_ratio_" + label, 0.0))


def load_corpus():
    d = os.path.join(vbuild.VERIF, "corpus", "C16")
    out = []
    if os.path.isdir(d):
        for fn in sorted(os.listdir(d)):
            for l in open(os.path.join(d, fn)):
                l = l.strip()
                if l and not l.startswith("#"):
                    c = Case.parse(l); c.kind = "corpus"; c.meta = {"style": "corpus"}
                    out.append(c)
    return out


def findings_witnesses(ctx):
    """case lines of every listed finding of this property (open or fixed): ordinary regression cases"""
    out = []
    for f in ctx.findings:
        if "C16" in f.get("properties", []):
            for l in f.get("witness", []) or []:
                try:
                    c = Case.parse(l); c.kind = "corpus"; c.meta = {"style": "finding-" + f.get("id", "?")}
                    out.append(c)
                except Exception:
                    pass
    return out


def run(ctx, replay):
    thms = [NS + t for t in vcheck.prop_theorems("AdeptProofs/Props/C16.lean", "C16_")]
    thms += [NS + t for t in vcheck.prop_theorems("AdeptProofs/Refute/Solve.lean", "F21_")]
    fails = vcheck.lean_gate(ctx, ["AdeptProofs.Props.C16", "AdeptProofs.Refute.Solve"], thms,
                             required=[NS + r for r in REQUIRED])
    exe = build_mini()
    builds = [("mini_lapack", exe, True)]
    if ctx.tier == "thorough":
        builds.append(("system_lapack", build_sys(), False))
    ctx.pending, ctx.nbad = [], 0
    if replay:
        r = json.load(open(replay))
        c = Case.parse(r["case"])
        for label, e, wm in builds:
            o, rc, err = run_lines(e, [c.line()])
            print("%-14s | %s" % (label, o[0] if o else "rc=%s %s" % (rc, err[-400:])))
            if wm:
                print("%-14s | %s" % ("model", vcheck.run_model("solve", c.model_line() + "\n")[0]))
            check_batch(ctx, e, label, [c], wm)
        finish(ctx, fails)
        return
    corpus = load_corpus() + findings_witnesses(ctx)
    cases = generate(ctx.rng, ctx.tier)
    for label, e, wm in builds:
        if corpus:
            check_batch(ctx, e, label, corpus, wm)
        check_batch(ctx, e, label, cases, wm)
    ctx.notes["corpus_cases"] = len(corpus)
    ctx.cov["rule"] = ("one case = one call of solve/inv on integer-valued operands: every layout combination of "
                       "{row-major, column-major, .T(), strided view, sub-block, expression 2*H} x right-hand side "
                       "{contiguous, strided, sub-range, matrix column, expression | the six dense layouts, 1..5 columns}, "
                       "SymmMatrix in both orientations {plain, submatrix_on_diagonal view, expression} with the unused triangle "
                       "poisoned, solve(SymmMatrix,SymmMatrix), inv of all of these; n = 1..%d; double and float; random integer "
                       "matrices of several styles (dense, sparse, zero diagonal, diagonally dominant, wide range, permutation-like, unimodular L.D.U, rank-deficient plus a small perturbation, "
                       "triangular) with kappa_inf <= 1e6 computed exactly from the explicit rational inverse; exactly singular matrices "
                       "(low rank by construction, duplicated/zero rows, zero) in every form; non-square inv. non-trivial: n > 1; "
                       "distinct: different (build, op, layouts, sizes, matrix)" % (8 if ctx.tier == "quick" else 12))
    finish(ctx, fails)


def finish(ctx, fails):
    ctx.assumptions += [
        "PARTIAL BY NATURE: the theorems assume the LAPACK contract of AdeptModel/Lapack.lean (exact solution / inverse on a "
        "non-singular input, info > 0 on an exactly singular one); that a floating-point LAPACK meets it within the "
        "condition-number bound is EXPLORATION (residual and forward-error bounds observed on the generated cases, exact "
        "reference by Python Fractions), not proof",
        "harness/mini_lapack.cpp (long double elimination, exact singularity test for integer input) stands in for LAPACK in the "
        "correspondence runs; the system LAPACK is a second opinion in the thorough tier only (its failures to detect exact "
        "singularity and tolerance excesses below 1000x are recorded, not reported as violations)",
        "operands of solve have matching shapes (A square, as many right-hand-side rows); solve() itself does not check this",
        "the copies A_ = A, b_ = b are element-wise (assign semantics, property C04)",
    ]
    ctx.notes["level_note"] = ("proof of the marshalling (copies, orientation->uplo, leading dimensions, status->exception, fallback) "
                               "against a stated LAPACK contract; numerical accuracy of LAPACK is exploration")
    if ctx.violations:
        return
    for p in ctx.pending[:1]:
        ctx.violation("model and implementation disagree on a solve/inv case (%s): %s vs %s; the exact-arithmetic oracle found no "
                      "input on which the property itself fails" % (p.get("correspondence"), str(p.get("impl"))[:160], str(p.get("model"))[:160]),
                      p, tag="c", no_input=True)
    if fails and not ctx.violations:
        ctx.violation("proof obligation of C16 no longer checks: " + fails[0][:400],
                      {"kind": "proof", "theorem": "AdeptProofs/Props/C16.lean", "failures": fails}, tag="p", no_input=True)
