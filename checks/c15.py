"""C15 — matrix multiplication returns the true product for every operand form.

proof:  lean/AdeptProofs/Props/C15.lean over AdeptModel/{Blas,Matmul}.lean: for all extents >= 1 and ALL strides,
        matmul(A,B)[i,j] = sum_k A[i,k]*B[k,j] on the gemv and gemm paths (row-contiguous, column-contiguous, copied
        operands in every combination), symv/symm/gbmv paths, every index BLAS reads is an element address of the
        operand, empty_array before inner_dimension_mismatch; the derivative clause: the recording loops transcribed
        literally (gemvRecord / gemmRecord / bandVRecord: closed forms C15_tape_*), the statement of (i,j) denotes the
        differential of the defining sum (C15_stmt_differential_*, C15_defining_sum_differential), and the tangent-linear
        sweep over EVERYTHING a product records (copies of doubly strided operands, promote_array's conversions) yields
        that differential in terms of the operands' own gradient cells (C15_active_derivative_*, C15_conversion_statements).
tie:    hand-written model <-> include/adept/matmul.h + adept/cppblas.cpp; the harness links a spy BLAS
        (harness/spy_blas.cpp, reference loops that log every argument and every index touched) under ASan/UBSan;
        the logged Fortran arguments (routine, flags after the row-major rewriting, m n k, lda ldb ldc, increments,
        pointer offsets into the operands), the touched index ranges and the result elements are compared exactly
        with the model's on every case; operand views as built through the public API are compared too.  For every
        ACTIVE product the driver dumps the raw tape (conversion, copy and result statements: lhs index, every operand
        index, every multiplier; gradient indices symbolic: L+cell / R+cell / T+k-th index allocated inside matmul /
        C+result cell) and it is compared EXACTLY with the statements of the model.  Element types double and float
        (s-prefix BLAS entry points).
oracle: the definition sum_k A[i,k]*B[k,j] in Python integers from the operands' logical elements as the harness reads
        them through operator(); expected exception class from the extents alone; Jacobian rows = derivative of the
        defining sum w.r.t. every storage cell of the active operands (three elements through Stack::jacobian, EVERY
        element through a forward sweep over the dumped tape in Python); "no read outside the operand" from the spy's
        log; s-prefix routines for float operands, d-prefix for double.
"""
import os, json, re
import vbuild, vcheck

LEVEL = "proof"
NS = "Adept.Matmul."
REQUIRED = ["C15_tape_mm", "C15_tape_mv", "C15_tape_band", "C15_defining_sum_differential", "C15_stmt_differential_mm",
            "C15_stmt_differential_band", "C15_active_derivative_mm", "C15_active_derivative_mv", "C15_active_derivative_vm",
            "C15_active_derivative_band", "C15_operand_gradients_outside", "C15_conversion_statements",
            "C15_active_derivative_promoted_mm",
            "C15_gemm_path", "C15_gemv_path", "C15_vecmat_path", "C15_gemm_reads_within", "C15_gemv_reads_within",
            "C15_prepared_operand", "C15_errors_mm", "C15_errors_mv", "C15_errors_special",
            "C15_symv_path", "C15_vecsym_path", "C15_symm_path", "C15_matsym_path", "C15_sym_reads_within",
            "C15_gbmv_path", "C15_vecband_path", "C15_bandmat_path", "C15_matband_path", "C15_gbmv_reads_within",
            "C15_active_product_mm", "C15_active_product_mv"]
H = os.path.join(vbuild.VERIF, "harness")
SRCS = (["drv_matmul.cpp", "drv_matmul_f1.cpp", "drv_matmul_f2.cpp"] + ["drv_matmul_s%d.cpp" % i for i in range(1, 7)]
        + ["drv_matmul_flt%d.cpp" % i for i in range(1, 5)])
EXTENTS = [1, 2, 3, 5, 8]


def build(extra=(), sysblas=False):
    srcs = [os.path.join(H, f) for f in SRCS]
    if sysblas:
        return vbuild.build("matmul-sysblas", srcs, defines=["HAVE_BLAS=1", "HAVE_LAPACK=1", "MM_NO_SPY=1"], opt="-O0",
                            extra=list(extra), link=["-llapack", "-lblas"])
    srcs += [os.path.join(H, "spy_blas.cpp"), os.path.join(H, "stub_lapack.cpp")]
    return vbuild.build("matmul", srcs, defines=["HAVE_BLAS=1", "HAVE_LAPACK=1"], opt="-O0", extra=list(extra))


# ------------------------------------------------------------------ operand kinds
def pad(pw, c):
    return ((c + pw - 1) // pw) * pw if c >= 2 * pw else c


def cells_rm(pw, R, C):
    return 0 if R == 0 or C == 0 else pad(pw, C) * R


class G:
    """case generator; every operand spec is (words-before-colon, number of cells)"""

    def __init__(self, rng, pw, vmax):
        self.rng, self.pw, self.vmax = rng, pw, vmax

    def vals(self, n):
        r = self.rng
        return " ".join(str(r.choice([-1, 1]) * r.randint(1, self.vmax)) for _ in range(n))

    def spec(self, head, ncells):
        return head + " : " + self.vals(ncells)

    # dense matrix kinds: logical extents r x c
    def M(self, kind, act, r, c):
        if kind.startswith("x2:") or kind.startswith("xs:"):      # expression operand 2.0*view / view+view over any layout
            return self.M(kind[3:], act, r, c).replace(" : ", " %s : " % kind[:2], 1)
        a = "a" if act else "p"
        pw = self.pw
        if kind == "rm":
            return self.spec("M %s r %d %d" % (a, r, c), cells_rm(pw, r, c))
        if kind == "cm":
            return self.spec("M %s c %d %d" % (a, r, c), r * c)
        if kind == "rmT":      # .T() of a row-major c x r matrix: column-contiguous
            return self.spec("M %s r %d %d T" % (a, c, r), cells_rm(pw, c, r))
        if kind == "cmT":      # .T() of a column-major matrix: row-contiguous
            return self.spec("M %s c %d %d T" % (a, c, r), r * c)
        if kind == "rowstr":   # every second row: row-contiguous, leading dimension 2*ld
            return self.spec("M %s r %d %d r:0:%d:2" % (a, 2 * r, c, 2 * r - 2), cells_rm(pw, 2 * r, c))
        if kind == "colstr":   # every second column: strided in both directions
            return self.spec("M %s r %d %d c:0:%d:2" % (a, r, 2 * c, 2 * c - 2), cells_rm(pw, r, 2 * c))
        if kind == "dblstr":
            return self.spec("M %s r %d %d r:1:%d:2 c:0:%d:3" % (a, 2 * r, 3 * c, 2 * r - 1, 3 * c - 3), cells_rm(pw, 2 * r, 3 * c))
        if kind == "revrows":
            return self.spec("M %s r %d %d r:%d:0:-1" % (a, r, c, r - 1), cells_rm(pw, r, c))
        if kind == "revcols":
            return self.spec("M %s r %d %d c:%d:0:-1" % (a, r, c, c - 1), cells_rm(pw, r, c))
        if kind == "revrowsT":  # F-14: reversed rows of a c x r matrix, transposed: offsets (1, -ld)
            return self.spec("M %s r %d %d r:%d:0:-1 T" % (a, c, r, c - 1), cells_rm(pw, c, r))
        if kind == "revboth":
            return self.spec("M %s r %d %d r:%d:0:-1 c:%d:0:-1" % (a, r, c, r - 1, c - 1), cells_rm(pw, r, c))
        if kind == "sub":      # sub-block: row-contiguous, base != 0, leading dimension > columns
            return self.spec("M %s r %d %d r:1:%d:1 c:2:%d:1" % (a, r + 2, c + 3, r, c + 1), cells_rm(pw, r + 2, c + 3))
        if kind == "subT":
            return self.spec("M %s r %d %d r:1:%d:1 c:2:%d:1 T" % (a, c + 2, r + 3, c, r + 1), cells_rm(pw, c + 2, r + 3))
        if kind == "cmsub":    # sub-block of a column-major matrix: column-contiguous
            return self.spec("M %s c %d %d r:2:%d:1 c:1:%d:1" % (a, r + 3, c + 2, r + 1, c), (r + 3) * (c + 2))
        if kind == "cmrowstr":  # every second row of a column-major matrix: strided in both directions
            return self.spec("M %s c %d %d r:0:%d:2" % (a, 2 * r, c, 2 * r - 2), 2 * r * c)
        if kind == "cmcolstr":  # every second column of a column-major matrix: column-contiguous
            return self.spec("M %s c %d %d c:0:%d:2" % (a, r, 2 * c, 2 * c - 2), 2 * r * c)
        if kind == "cmrevcols":  # reversed columns of a column-major matrix: offsets (1, -ld)
            return self.spec("M %s c %d %d c:%d:0:-1" % (a, r, c, c - 1), r * c)
        if kind == "padcols":  # first columns of a wider matrix: padded rows
            return self.spec("M %s r %d %d c:0:%d:1" % (a, r, c + 1, c - 1), cells_rm(pw, r, c + 1))
        raise KeyError(kind)

    def V(self, kind, act, n):
        if kind.startswith("x2:") or kind.startswith("xs:"):
            return self.V(kind[3:], act, n).replace(" : ", " %s : " % kind[:2], 1)
        a = "a" if act else "p"
        if kind == "v":
            return self.spec("V %s %d" % (a, n), n)
        if kind == "vstr":
            return self.spec("V %s %d s:0:%d:2" % (a, 2 * n, 2 * n - 2), 2 * n)
        if kind == "vrev":     # F-13
            return self.spec("V %s %d s:%d:0:-1" % (a, n, n - 1), n)
        if kind == "vrevstr":
            return self.spec("V %s %d s:%d:1:-3" % (a, 3 * n, 3 * n - 2), 3 * n)
        if kind == "vsub":
            return self.spec("V %s %d s:2:%d:1" % (a, n + 3, n + 1), n + 3)
        if kind == "vsubrev":  # reversed part of a longer vector (the witness of F-13)
            return self.spec("V %s %d s:2:%d:1 s:%d:0:-1" % (a, n + 4, n + 1, n - 1), n + 4)
        raise KeyError(kind)

    def S(self, tag, act, n, variant=""):
        a = "a" if act else "p"
        band = BANDS.get(tag)

        def size(N):
            if N == 0:
                return 0
            if band:
                off = band[0] + band[1]
                return (N - 1) * (off + 1) + 1
            return (N - 1) * N + N
        if variant == "sub":   # submatrix_on_diagonal of an (n+2) matrix
            return self.spec("S %s %s %d d:1:%d" % (a, tag, n + 2, n), size(n + 2))
        if variant == "subsub":
            return self.spec("S %s %s %d d:1:%d d:1:%d" % (a, tag, n + 3, n + 2, n), size(n + 3))
        if variant in ("T", "x2"):   # .T() of the matrix / the expression 2.0*S
            return self.spec("S %s %s %d %s" % (a, tag, n, variant), size(n))
        if variant == "subT":
            return self.spec("S %s %s %d d:2:%d T" % (a, tag, n + 2, n + 1), size(n + 2))
        return self.spec("S %s %s %d" % (a, tag, n), size(n))


DENSE_M = ["rm", "cm", "rmT", "cmT", "rowstr", "colstr", "dblstr", "revrows", "revcols", "revrowsT", "revboth", "sub", "subT",
           "cmsub", "cmrowstr", "cmcolstr", "cmrevcols", "padcols"]
DENSE_V = ["v", "vstr", "vrev", "vrevstr", "vsub", "vsubrev"]
BANDS = {"b00": (0, 0), "b11": (1, 1), "b22": (2, 2), "b20": (2, 0), "b02": (0, 2), "b12": (1, 2),
         "cb00": (0, 0), "cb11": (1, 1), "cb22": (2, 2), "cb20": (2, 0), "cb02": (0, 2), "cb12": (1, 2)}
# (tag, variants instantiated for the passive type, variants instantiated for the active type) -- mirrors drv_matmul_s*.cpp
SPECIALS = [("sq", ["", "sub", "T", "x2"], ["", "sub", "T", "x2"]), ("sqc", ["", "sub"], ["", "sub"]),
            ("symL", ["", "sub", "subsub", "T", "x2"], ["", "sub"]), ("symU", ["", "sub", "T"], ["", "sub"]),
            ("lo", ["", "sub", "T"], ["", "sub", "T"]), ("loc", ["", "sub"], ["", "sub"]),
            ("up", ["", "sub"], ["", "sub"]), ("upc", ["", "sub"], ["", "sub"]),
            ("b00", ["", "sub"], []), ("b11", ["", "sub", "x2"], ["", "sub"]), ("b22", ["", "sub"], []),
            ("b20", ["", "sub", "subsub"], []), ("b02", ["", "sub"], []), ("b12", ["", "sub", "T", "subT"], ["", "sub"]),
            ("cb00", ["", "sub"], []), ("cb11", ["", "sub"], []), ("cb22", ["", "sub"], []),
            ("cb20", ["", "sub"], []), ("cb02", ["", "sub"], []), ("cb12", ["", "sub", "T"], [])]
SPECIAL_FAMILY = {"sq": "square", "sqc": "square", "symL": "symmetric", "symU": "symmetric", "lo": "lower-triangular",
                  "loc": "lower-triangular", "up": "upper-triangular", "upc": "upper-triangular"}
FIXED_M = [(1, 1), (2, 3), (3, 2), (3, 3), (5, 8), (8, 5), (1, 3), (3, 1)]
FIXED_V = [1, 2, 3, 5, 8]


# element type float (Pf / Qf lines): what drv_matmul_flt*.cpp instantiates
SPECIALS_F = [("sq", [""], ["", "sub"]), ("symL", ["", "sub", "T"], []), ("symU", ["", "sub"], []), ("lo", ["", "sub"], []),
              ("upc", ["", "sub"], []), ("b11", ["", "sub"], ["", "sub"]), ("b12", ["", "sub", "T", "subT"], []),
              ("b20", ["", "sub", "subsub"], []), ("cb12", ["", "sub"], []), ("cb02", ["", "sub"], [])]
FIXED_M_F = [(2, 3), (3, 3), (5, 8)]
FIXED_V_F = [3, 8]


def x_kinds(flt=False):
    """operand kinds that need a plain dense partner: (name, category, info, family for the evidence)"""
    if flt:
        out = []
        for wrap, fam in (("x2", "float: expression 2*A"), ("xs", "float: expression A+A")):
            out += [("%s:%s" % (wrap, k), "M", None, fam) for k in DENSE_M] + [("%s:%s" % (wrap, k), "V", None, fam) for k in DENSE_V]
        for tag, pvars, avars in SPECIALS_F:
            fam = "float: " + SPECIAL_FAMILY.get(tag, "band")
            out += [("S:%s:%s:p" % (tag, v), "S", (tag, v, False), fam) for v in pvars]
            out += [("S:%s:%s:a" % (tag, v), "S", (tag, v, True), fam) for v in avars]
        out += [("FM%dx%d" % rc, "FM", rc, "float: FixedArray matrix") for rc in FIXED_M_F]
        out += [("FV%d" % n, "FV", n, "float: FixedArray vector") for n in FIXED_V_F]
        return out
    out = []
    for wrap, fam in (("x2", "expression 2.0*A"), ("xs", "expression A+A")):
        for k in DENSE_M:
            out.append(("%s:%s" % (wrap, k), "M", None, fam))
        for k in DENSE_V:
            out.append(("%s:%s" % (wrap, k), "V", None, fam))
    for tag, pvars, avars in SPECIALS:
        fam = SPECIAL_FAMILY.get(tag, "band")
        for v in pvars:
            out.append(("S:%s:%s:p" % (tag, v), "S", (tag, v, False), fam))
        for v in avars:
            out.append(("S:%s:%s:a" % (tag, v), "S", (tag, v, True), fam))
    for rc in FIXED_M:
        out.append(("FM%dx%d" % rc, "FM", rc, "FixedArray matrix"))
    for n in FIXED_V:
        out.append(("FV%d" % n, "FV", n, "FixedArray vector"))
    return out


def ext_class(rng, cls):
    """extent triple (m, k, n) of an extent class"""
    if cls == 0:
        return (1, 1, 1)
    if cls == 1:
        t = [rng.choice([2, 3]) for _ in range(3)]
        t[rng.randrange(3)] = 1
        return tuple(t)
    if cls == 2:
        return tuple(rng.choice([2, 3]) for _ in range(3))
    if cls == 3:
        return tuple(rng.choice([3, 5, 8]) for _ in range(3))
    return tuple(rng.choice(EXTENTS) for _ in range(3))


def case_dense(g, form, lk, rk, la, ra, ext, use_op, sfx=""):
    m, k, n = ext
    if form == "MM":
        l, r = g.M(lk, la, m, k), g.M(rk, ra, k, n)
    elif form == "MV":
        l, r = g.M(lk, la, m, k), g.V(rk, ra, k)
    else:
        l, r = g.V(lk, la, k), g.M(rk, ra, k, n)
    return "%s%s %s | %s" % ("P" if use_op else "Q", sfx, l, r)


def case_x(g, xk, side, partner_kind, partner_rank, pa, ext, use_op, xact=None, sfx=""):
    """X operand (expression / special / fixed) on `side`, plain dense partner of rank partner_rank on the other"""
    name, cat, info = xk[:3]
    m, k, n = ext
    rng = g.rng
    if cat == "M":
        xa = rng.random() < 0.5 if xact is None else xact
        xr = 2
    elif cat == "V":
        xa = rng.random() < 0.5 if xact is None else xact
        xr = 1
    elif cat == "S":
        xa, xr = info[2], 2
    elif cat == "FM":
        xa = rng.random() < 0.5 if xact is None else xact
        xr = 2
    else:
        xa = rng.random() < 0.5 if xact is None else xact
        xr = 1
    if xr == 1 and partner_rank == 1:
        return None
    # extents of X (rows, cols) and of the partner
    if cat == "S":
        nn = k
        xs = g.S(info[0], xa, nn, info[1])
        xrows = xcols = nn
    elif cat == "FM":
        xrows, xcols = info
        xs = g.spec("FM %s %d %d" % ("a" if xa else "p", xrows, xcols), xrows * xcols)
    elif cat == "FV":
        xrows = xcols = info
        xs = g.spec("FV %s %d" % ("a" if xa else "p", info), info)
    elif cat == "M":
        xrows, xcols = (m, k) if side == "L" else (k, n)
        xs = g.M(name, xa, xrows, xcols)
    else:
        xrows = xcols = k
        xs = g.V(name, xa, k)
    if side == "L":
        inner = xcols
        ps = g.M(partner_kind, pa, inner, n) if partner_rank == 2 else g.V(partner_kind, pa, inner)
        return "%s%s %s | %s" % ("P" if use_op else "Q", sfx, xs, ps)
    inner = xrows
    ps = g.M(partner_kind, pa, m, inner) if partner_rank == 2 else g.V(partner_kind, pa, inner)
    return "%s%s %s | %s" % ("P" if use_op else "Q", sfx, ps, xs)


def error_cases(g, flt=False):
    """empty operands and mismatched inner extents, for every product form and operand family"""
    out = []
    E_M = ["M p r 0 0 :", "M a r 0 0 :", "M p c 0 0 :"]
    E_V = ["V p 0 :", "V a 0 :"]
    for a in (False, True):
        for lk in ("rm", "cmT", "colstr", "revrowsT"):
            out.append("P %s | %s" % (g.M(lk, a, 2, 3), g.M("rm", not a, 2, 3)))       # mismatch 3 != 2
            out.append("Q %s | %s" % (g.M(lk, a, 2, 3), g.V("v", a, 2)))
            out.append("P %s | %s" % (g.V("vrev", a, 2), g.M(lk, a, 3, 2)))
            for e in E_M:
                out.append("P %s | %s" % (e, g.M(lk, a, 3, 2)))
                out.append("P %s | %s" % (g.M(lk, a, 3, 2), e))
                out.append("Q %s | %s" % (e, g.V("v", a, 3)))                            # empty AND mismatched: empty_array first
            for e in E_V:
                out.append("P %s | %s" % (g.M(lk, a, 3, 2), e))
                out.append("Q %s | %s" % (e, g.M(lk, a, 3, 2)))
        out.append("P M p r 0 0 : | M a r 0 0 :")
        for tag in (("symL", "b20", "cb12", "sq") if flt else ("symL", "symU", "b11", "b20", "cb12", "sq", "lo", "upc")):
            out.append("P %s | %s" % (g.S(tag, False, 3), g.V("v", a, 2)))
            out.append("P %s | %s" % (g.S(tag, False, 3), g.M("cm", a, 2, 3)))
            out.append("Q %s | %s" % (g.V("vstr", a, 2), g.S(tag, False, 3)))
            out.append("Q %s | %s" % (g.M("rm", a, 3, 2), g.S(tag, False, 3)))
            out.append("P S p %s 0 : | %s" % (tag, g.V("v", a, 3)))
            out.append("P %s | S p %s 0 :" % (g.M("rm", a, 3, 3), tag))
            out.append("P %s | V p 0 :" % g.S(tag, False, 2))
            out.append("P %s | M p r 0 0 :" % g.S(tag, False, 2))
        out.append("P %s | %s" % (g.spec("FM %s 2 3" % ("a" if a else "p"), 6), g.V("v", a, 2)))
        out.append("P %s | %s" % (g.M("rm", a, 3, 2), g.spec("FV %s 3" % ("a" if a else "p"), 3)))
    return out


def gen_cases(ctx, pw):
    """pw = (Packet<double>::size, Packet<float>::size): the padded row length of a row-major parent depends on it"""
    rng = ctx.rng
    quick = ctx.tier == "quick"
    vmax = 9 if quick else 99
    gd, gf = G(rng, pw[0], vmax), G(rng, pw[1], vmax)
    cases = []
    classes = [0, 1, 2, 3] if quick else [0, 1, 2, 3, 4, 4, 4, 4]
    acts = [(False, False), (False, True), (True, False), (True, True)]
    n = 0
    for flt in (False, True):
        g, sfx, pre = (gf, "f", "float: ") if flt else (gd, "", "")
        # dense x dense: every kind pair in every product form, once per extent class (float, quick tier: one class per pair, rotating)
        for ci, cls in enumerate(classes if not flt else (classes if not quick else [None])):
            for form, lks, rks in (("MM", DENSE_M, DENSE_M), ("MV", DENSE_M, DENSE_V), ("VM", DENSE_V, DENSE_M)):
                for lk in lks:
                    for rk in rks:
                        c_ = classes[n % len(classes)] if cls is None else cls
                        combos = [acts[(n + c_) % 4] if not flt else acts[(n // 4 + n // 16) % 4]] if quick else \
                            (acts if not flt else [acts[n % 4], acts[(n + 3) % 4]])
                        for la, ra in combos:
                            regen = (lambda ext, g=g, sfx=sfx, form=form, lk=lk, rk=rk, la=la, ra=ra, op=(n % 2 == 0):
                                     case_dense(g, form, lk, rk, la, ra, ext, op, sfx))
                            cases.append((regen(ext_class(rng, c_)), regen,
                                          {"x": lk, "family": pre + "dense x dense " + form, "side": "L", "partner": rk,
                                           "act": ("a" if la else "p") + ("a" if ra else "p")}))
                            n += 1
        # expression / special / fixed operands on either side, against plain dense partners.  Systematic: every X kind (own layout
        # flags: the 18 matrix / 6 vector layouts under an expression; "", sub, subsub, T, x2, subT and row-/column-major storage of a
        # special matrix, passive and active; every FixedArray size) meets EVERY partner layout on EACH side once per sweep -- a
        # quarter of the partner layouts per extent class in the quick tier, all of them per class in the thorough tier (float: in
        # every second class) -- and the activity pattern (X active?, partner active?) rotates through all four combinations
        xs = x_kinds(flt)
        for ci, cls in enumerate(classes):
            if flt and not quick and ci % 2 == 1:
                continue
            for xi, xk in enumerate(xs):
                for si, side in enumerate(("L", "R")):
                    rot = xi * 7 + si * 11
                    Mr = [DENSE_M[(rot + j) % len(DENSE_M)] for j in range(len(DENSE_M))]
                    Vr = [DENSE_V[(rot + j) % len(DENSE_V)] for j in range(len(DENSE_V))]
                    if quick:
                        q = ci % 4
                        sel = [("M", k) for k in Mr[[0, 5, 10, 14][q]:[5, 10, 14, 18][q]]] + [("V", k) for k in Vr[[0, 1, 2, 4][q]:[1, 2, 4, 6][q]]]
                    else:
                        sel = [("M", k) for k in Mr] + [("V", k) for k in Vr]
                    for pi, (prank, pk) in enumerate(sel):
                        for rep_ in ((0,) if quick or flt else (0, 1)):
                            combo = acts[(xi + si + ci + pi + 2 * rep_) % 4]
                            xact, pa = combo
                            if xk[1] == "S":
                                pa = acts[(xi + si + ci + pi) % 4][1] if quick or flt else bool(rep_)
                                xact = xk[2][2]
                            regen = (lambda ext, g=g, sfx=sfx, xk=xk, side=side, pk=pk, pr=(2 if prank == "M" else 1), pa=pa, op=(n % 2 == 0), xact=xact:
                                     case_x(g, xk, side, pk, pr, pa, ext, op, xact, sfx))
                            c = regen(ext_class(rng, cls))
                            n += 1
                            if c:
                                cases.append((c, regen, {"x": ("f:" if flt else "") + xk[0], "family": xk[3], "side": side, "partner": pk,
                                                         "act": ("a" if xact else "p") + ("a" if pa else "p")}))
    cases += [(c, None) for c in error_cases(gd)]
    cases += [(c.replace("P ", "Pf ", 1).replace("Q ", "Qf ", 1), None) for c in error_cases(gf, flt=True)]
    return cases


# ------------------------------------------------------------------ parsing the harness output
def ints(s):
    s = s.strip()
    return [] if not s else [None if t == "?" else int(t) for t in s.split(",")]


DESC_RE = re.compile(r"^(L|R) (\d) d=([\d,]+) o=([-\d,]+) b=(-?\d+) a=(\d) v=\[([^\]]*)\] c=\[([^\]]*)\]$")
RES_RE = re.compile(r"^res (\d) d=([\d,]+) o=([-\d,]+) v=\[([^\]]*)\]$")


def parse_line(line):
    """-> dict(L, R, exc | calls, res, J) or None"""
    parts = line.split(" ; ")
    if len(parts) < 3:
        return None
    out = {}
    for p in parts[:2]:
        m = DESC_RE.match(p)
        if not m:
            return None
        d = [int(x) for x in m.group(3).split(",")]
        out[m.group(1)] = {"rank": int(m.group(2)), "d": d, "o": [int(x) for x in m.group(4).split(",")], "b": int(m.group(5)),
                           "a": m.group(6) == "1", "v": ints(m.group(7)), "c": ints(m.group(8))}
    if "L" not in out or "R" not in out:
        return None
    if parts[2].startswith("EXC "):
        out["exc"] = parts[2][4:].strip()
        return out
    if not parts[2].startswith("calls") or len(parts) < 4:
        return None
    out["calls"] = parts[2].split()[1:]
    m = RES_RE.match(parts[3])
    if not m:
        return None
    out["res"] = {"rank": int(m.group(1)), "d": [int(x) for x in m.group(2).split(",")], "o": [int(x) for x in m.group(3).split(",")],
                  "v": ints(m.group(4))}
    out["J"] = []
    out["tape"] = None
    for sec in parts[4:]:
        if sec.startswith("tape"):
            out["tape"] = []
            for t in sec.split()[1:]:
                if t == "GAPS":
                    out["tape"].append(("GAPS", []))
                    continue
                if ":" not in t:
                    return None
                lhs, rhs = t.split(":", 1)
                ops = []
                for o in (rhs.split(",") if rhs else []):
                    if "*" not in o:
                        return None
                    m_, g_ = o.split("*", 1)
                    ops.append((m_, g_))
                out["tape"].append((lhs, ops))
        elif sec.startswith("J"):
            for t in sec.split()[1:]:
                mm = re.match(r"^(\d+),(\d+):L\[([^\]]*)\]R\[([^\]]*)\]$", t)
                if not mm:
                    return None
                out["J"].append((int(mm.group(1)), int(mm.group(2)), ints(mm.group(3)), ints(mm.group(4))))
        else:
            return None
    return out


def spec_info(case):
    """what the oracle may know from the case text alone: per side (family, passive-special tag or None, scale, cell values)"""
    w = case.split()
    bar = w.index("|")
    res = []
    for ws in (w[1:bar], w[bar + 1:]):
        col = ws.index(":")
        head, vals = ws[:col], [int(x) for x in ws[col + 1:]]
        fam = head[0]
        act = head[1] == "a"
        x2 = head[-1] in ("x2", "xs")
        tag = head[2] if fam == "S" else None
        res.append({"fam": fam, "act": act, "x2": x2, "tag": tag, "vals": vals, "transposed": "T" in head})
    return res


def oracle(case, line):
    """judge property C15 on one implementation output line; returns (signature, message) or None"""
    p = parse_line(line)
    if p is None:
        return ("unparsable", "unparsable harness output %r" % line[:300])
    L, R = p["L"], p["R"]
    sl, sr = spec_info(case)
    # operands as the harness built them are consistent with the cell values of the case (sanity of the harness itself)
    for D, s, nm in ((L, sl, "left"), (R, sr, "right")):
        sc = 2 if s["x2"] else 1
        for v, c in zip(D["v"], D["c"]):
            exp = 0 if c < 0 else (sc * s["vals"][c] if 0 <= c < len(s["vals"]) else None)
            if exp is None or v != exp:
                return ("operand", "%s operand: logical element read through operator() is %s but its storage cell %s holds %s"
                        % (nm, v, c, None if exp is None else exp // sc))
        if D["a"] != s["act"]:
            return ("operand", "%s operand activity differs from the case" % nm)
    # logical matrices: a left vector is 1 x k, a right vector k x 1
    def as_matrix(D, left):
        if D["rank"] == 2:
            r, c = D["d"]
        elif left:
            r, c = (1, D["d"][0]) if D["d"][0] else (0, 0)
        else:
            r, c = (D["d"][0], 1) if D["d"][0] else (0, 0)
        return r, c, [D["v"][i * c:(i + 1) * c] for i in range(r)], [D["c"][i * c:(i + 1) * c] for i in range(r)]
    lr, lc, LV, LC = as_matrix(L, True)
    rr, rc, RV, RC = as_matrix(R, False)
    # expected outcome from the extents alone
    expect = None
    if lr == 0 or rr == 0:
        expect = "empty_array"
    elif lc != rr:
        expect = "inner_dimension_mismatch"
    if "exc" in p:
        if expect is not None:
            return None if p["exc"] == expect else ("wrong-exception", "raised %s, expected %s" % (p["exc"], expect))
        if p["exc"] == "invalid_operation" and refused(sl, sr, L, R):
            return "refused"
        return ("unexpected-exception", "raised %s on conforming non-empty operands" % p["exc"])
    if expect is not None:
        return ("missing-exception", "no exception, expected %s" % expect)
    # no read outside the operands, no rejected BLAS argument
    want_prefix = "s" if case.split()[0] in ("Pf", "Qf") else "d"
    for c in p["calls"]:
        if c[0] != want_prefix:
            return ("routine-type", "BLAS routine %s called for %s operands" % (c.split("[")[0], "float" if want_prefix == "s" else "double"))
        if ";x=0;" not in c:
            return ("xerbla", "BLAS rejected an argument: %s" % c)
        if not c.endswith(";in=ok]"):
            return ("read-outside", "BLAS touched memory that is not an element of the operand: %s" % c)
    # the product
    res = p["res"]
    want_rank = L["rank"] + R["rank"] - 2
    want_d = [lr, rc] if want_rank == 2 else ([lr] if L["rank"] == 2 else [rc])
    if res["rank"] != want_rank or res["d"] != want_d:
        return ("shape", "result has rank %d extents %s, expected rank %d extents %s" % (res["rank"], res["d"], want_rank, want_d))
    prod = [[sum(LV[i][k] * RV[k][j] for k in range(lc)) for j in range(rc)] for i in range(lr)]
    flat = [x for row in prod for x in row]
    if res["v"] != flat:
        bad = [i for i, (a, b) in enumerate(zip(res["v"], flat)) if a != b]
        return ("wrong-product", "result %s differs from sum_k A[i,k]*B[k,j] = %s (first at flat index %d)" % (res["v"], flat, bad[0] if bad else -1))
    # derivatives of the defining sum w.r.t. every storage cell of the active operands
    if L["a"] or R["a"]:
        if not p["J"]:
            return ("jacobian", "an operand is active but no Jacobian was produced")
        scl, scr = (2 if sl["x2"] else 1), (2 if sr["x2"] else 1)
        for (i, j, JL, JR) in p["J"]:
            if want_rank == 1 and L["rank"] == 1:
                i, j = 0, i
            if L["a"]:
                exp = [0] * len(sl["vals"])
                for k in range(lc):
                    if LC[i][k] >= 0:
                        exp[LC[i][k]] += scl * RV[k][j]
                if JL != exp:
                    return ("jacobian", "d result[%d,%d] / d left cells = %s, derivative of the defining sum = %s" % (i, j, JL, exp))
            elif JL:
                return ("jacobian", "Jacobian w.r.t. a passive left operand")
            if R["a"]:
                exp = [0] * len(sr["vals"])
                for k in range(lc):
                    if RC[k][j] >= 0:
                        exp[RC[k][j]] += scr * LV[i][k]
                if JR != exp:
                    return ("jacobian", "d result[%d,%d] / d right cells = %s, derivative of the defining sum = %s" % (i, j, JR, exp))
            elif JR:
                return ("jacobian", "Jacobian w.r.t. a passive right operand")
        # the recorded statements themselves: a tangent-linear sweep over the dumped tape must leave, in the gradient index of
        # EVERY result element, the differential of its defining sum in terms of the operands' storage cells
        if p["tape"] is None:
            return ("tape", "an operand is active but no tape section was produced")
        t = tape_oracle(p, L, R, sl, sr, LV, LC, RV, RC, lr, lc, rc, want_rank)
        if t is not None:
            return t
    return None


def tape_oracle(p, L, R, sl, sr, LV, LC, RV, RC, lr, lc, rc, want_rank):
    """independent of the model: forward sweep over the implementation's statements (symbolic gradient indices as printed)"""
    vals = {}
    assigned = {}

    def val(g):
        if g in vals:
            return vals[g]
        if g[0] in "LR" and g[1] == "+":
            return {g: 1}
        return None
    for n, (lhs, ops) in enumerate(p["tape"]):
        if lhs == "GAPS":
            return ("tape", "the gradient allocator had gaps when the product started (harness assumption broken)")
        acc = {}
        for m_, g_ in ops:
            try:
                mult = int(m_)
            except ValueError:
                return ("tape", "statement %d (%s) has the non-integer multiplier %s" % (n, lhs, m_))
            v = val(g_)
            if v is None:
                return ("tape", "statement %d (%s) reads the gradient index %s that is neither an operand cell nor assigned before" % (n, lhs, g_))
            for k_, c_ in v.items():
                acc[k_] = acc.get(k_, 0) + mult * c_
        if not (lhs[0] in "CT" and lhs[1] == "+"):
            return ("tape", "statement %d assigns the gradient index %s (not a temporary or result index)" % (n, lhs))
        vals[lhs] = acc
        assigned[lhs] = assigned.get(lhs, 0) + 1
    scl, scr = (2 if sl["x2"] else 1), (2 if sr["x2"] else 1)
    o = p["res"]["o"]
    nres = 0
    for i in range(lr):
        for j in range(rc):
            cell = (i * o[0] + j * o[1]) if want_rank == 2 else ((i if L["rank"] == 2 else j) * o[0])
            g = "C+%d" % cell
            nres += 1
            if assigned.get(g, 0) != 1:
                return ("tape", "result element [%d,%d] (gradient index %s) is the left-hand side of %d statements, expected 1" % (i, j, g, assigned.get(g, 0)))
            exp = {}
            if L["a"]:
                for k in range(lc):
                    if LC[i][k] >= 0:
                        key = "L+%d" % LC[i][k]
                        exp[key] = exp.get(key, 0) + scl * RV[k][j]
            if R["a"]:
                for k in range(lc):
                    if RC[k][j] >= 0:
                        key = "R+%d" % RC[k][j]
                        exp[key] = exp.get(key, 0) + scr * LV[i][k]
            got = {k_: c_ for k_, c_ in vals[g].items() if c_ != 0}
            exp = {k_: c_ for k_, c_ in exp.items() if c_ != 0}
            if got != exp:
                return ("tape", "the statements recorded for result[%d,%d] denote the differential %s, the differential of the defining sum is %s"
                        % (i, j, dict(sorted(got.items())), dict(sorted(exp.items()))))
    if sum(v for g, v in assigned.items() if g.startswith("C+")) != nres:
        return ("tape", "statements assign result gradient indices that are not result elements")
    return None


def refused(sl, sr, L, R):
    """combinations matmul.h refuses by design with invalid_operation ("Cannot yet do ..."): a passive symmetric matrix with
    an active partner; a passive band matrix with an active *matrix* partner"""
    for s, o, O in ((sl, sr, R), (sr, sl, L)):
        if s["fam"] == "S" and not s["act"] and not s["x2"]:
            if s["tag"] in ("symL", "symU") and o["act"]:
                return True
            if s["tag"] in BANDS and o["act"] and O["rank"] == 2:
                return True
    return False


# ------------------------------------------------------------------ running
def strip_j(line):
    i = line.find(" ; J ")
    return line if i < 0 else line[:i]


def run_impl_all(exe, pw, cases, max_crashes=25):
    """run all cases; a sanitizer abort costs only the case it happened in.  -> (lines aligned with cases, crashes)"""
    out = [None] * len(cases)
    crashes = []
    pos = 0
    while pos < len(cases):
        text = cfg_line(pw) + "\n".join(cases[pos:]) + "\n"
        lines, rc, err = vcheck.run_impl(exe, [], text)
        got = lines[1:] if lines else []
        if len(got) >= len(cases) - pos and rc != 0:
            # every case answered but the process did not exit cleanly (LeakSanitizer report at exit)
            crashes.append((-1, rc, err[-2500:]))
        for i, l in enumerate(got):
            if pos + i < len(cases):
                out[pos + i] = l
        pos += len(got)
        if pos < len(cases):
            crashes.append((pos, rc, err[-2500:]))
            out[pos] = "CRASH rc=%s" % rc
            pos += 1
            if len(crashes) >= max_crashes:
                break
    return out, crashes


def cfg_line(pw):
    """pw = (Packet<double>::size, Packet<float>::size)"""
    return "cfg %d %d\n" % tuple(pw)


def run_model_all(pw, cases):
    return vcheck.run_model("matmul", cfg_line(pw) + "\n".join(cases) + "\n")[1:]


def classify_case(case):
    w = case.split()
    bar = w.index("|")
    def k(ws):
        col = ws.index(":")
        h = ws[:col]
        if h[0] in ("M", "V"):
            ops = ["T" if o == "T" else o.split(":")[0] + ("-" if o.count(":") == 3 and o.split(":")[3].startswith("-") else "") for o in h[(5 if h[0] == "M" else 3):]]
            return h[0] + (h[2] if h[0] == "M" else "") + "".join(ops)
        return "".join(h[:1] + h[2:3] + [o.split(":")[0] for o in h[4:]]) if h[0] == "S" else h[0]
    return ("f:" if w[0] in ("Pf", "Qf") else "") + k(w[1:bar]) + "*" + k(w[bar + 1:])


def simplify_values(c):
    """replace all cell values by 1..9 repeating"""
    out, k, inval = [], 1, False
    for t in c.split():
        if t == ":":
            inval = True; out.append(t); continue
        if t == "|":
            inval = False; out.append(t); continue
        if inval:
            out.append(str(k)); k = k % 9 + 1
        else:
            out.append(t)
    return " ".join(out)


def shrink(case, regen, still_fails, budget=60):
    """same operand kinds and activities with the smallest extents that still fail, then with simple values"""
    best = case
    if regen is not None:
        trips = sorted(((m, k, n) for m in EXTENTS for k in EXTENTS for n in EXTENTS), key=lambda t: (t[0] * t[1] * t[2], t))
        for t in trips[:budget]:
            try:
                c = regen(t)
            except Exception:
                c = None
            if c and len(c) < len(best) and still_fails(c):
                best = c
                break
    c2 = simplify_values(best)
    if c2 != best and still_fails(c2):
        best = c2
    return best


def run(ctx, replay):
    thms = [NS + t for t in vcheck.prop_theorems("AdeptProofs/Props/C15.lean", "C15_")]
    fails = vcheck.lean_gate(ctx, ["AdeptProofs.Props.C15", "AdeptProofs.Refute.Matmul"], thms, required=[NS + r for r in REQUIRED])
    exe = build()
    def packet_widths(e):
        lines, rc, err = vcheck.run_impl(e, [], "cfg 0 0\n")
        w = lines[0].split() if lines and lines[0].startswith("cfg ") else []
        if len(w) < 3 or int(w[1]) <= 0 or int(w[2]) <= 0:
            raise vbuild.BuildError("matmul driver does not answer the cfg query: rc=%s %s" % (rc, err[-800:]))
        return (int(w[1]), int(w[2]))
    pw = packet_widths(exe)
    builds = [("sse2-default", exe, pw)]
    if ctx.tier == "thorough" and "avx" in cpu_flags():
        e2 = build(extra=["-mavx"])
        builds.append(("avx", e2, packet_widths(e2)))
    ctx.pending = []
    ctx.notes["packet_widths"] = {b[0]: {"double": b[2][0], "float": b[2][1]} for b in builds}
    stats = {"routines": {}, "exceptions": {}, "refused": 0, "copies": 0, "active_cases": 0, "kind_pairs": set(), "crashes": 0,
             "dist": {}, "per_kind": {}, "tape_cases": 0, "tape_statements": 0, "tape_operations": 0,
             "tape_cases_with_conversion_or_copy": 0}
    if replay:
        r = json.load(open(replay))
        cases = [r["case"]]
        for label, e, w in builds:
            judge(ctx, e, label, w, cases, stats, verbose=True)
        finish(ctx, fails, stats)
        return
    corpus = load_corpus()
    for label, e, w in builds:
        if corpus:
            judge(ctx, e, label, w, corpus, stats, tag="corpus")
        cases = gen_cases(ctx, w)
        judge(ctx, e, label, w, cases, stats)
    if ctx.tier == "thorough":
        second_opinion(ctx, builds[0][2], stats)
    ctx.cov["rule"] = ("one case = one product A**B or matmul(A,B) with integer cell values (padding cells included), element type double "
                       "(P/Q) or float (Pf/Qf, s-prefix BLAS): dense operand kinds %s x vector kinds %s in the forms matrix*matrix, "
                       "matrix*vector, vector*matrix (every kind pair once per extent class; quick: classes all-ones / one extent 1 / {2,3} "
                       "/ {3,5,8}, activity pattern rotating, float: one class per pair; thorough: + random triples from {1,2,3,5,8}, all "
                       "four activity patterns, values up to 99, AVX build if available); operands converted by promote_array before "
                       "matmul_ is entered -- expressions 2.0*A and A+A over EVERY dense matrix / vector layout, FixedArray matrices %s and "
                       "vectors %s, the special matrices %s (variants '', submatrix_on_diagonal once or twice, .T(), 2.0*S; passive and, "
                       "where instantiated, active; float: %s) -- on either side against plain dense partners, each (kind, side) meeting "
                       "every partner layout with rotating activity patterns (distribution: operand_kind_distribution / "
                       "operand_kind_sweep); empty and mismatched operands for every family.  Every active product: the full tape "
                       "(conversion, copy and result statements; lhs index, every operand index, every multiplier) is compared exactly "
                       "with the model's.  non-trivial: a product that reaches BLAS or raises the expected exception; distinct: "
                       "different case text" % (DENSE_M, DENSE_V, FIXED_M, FIXED_V, [s_[0] for s_ in SPECIALS], [s_[0] for s_ in SPECIALS_F]))
    finish(ctx, fails, stats)


def cpu_flags():
    try:
        for l in open("/proc/cpuinfo"):
            if l.startswith("flags"):
                return set(l.split(":")[1].split())
    except OSError:
        pass
    return set()


def judge(ctx, exe, label, pw, cases, stats, tag="gen", verbose=False):
    regens = [c[1] if isinstance(c, tuple) else None for c in cases]
    metas = [c[2] if isinstance(c, tuple) and len(c) > 2 else None for c in cases]
    cases = [c[0] if isinstance(c, tuple) else c for c in cases]
    impl, crashes = run_impl_all(exe, pw, cases)
    model = run_model_all(pw, cases)
    stats["crashes"] += len([c for c in crashes if c[0] >= 0])
    crash_at = {c[0]: c for c in crashes}
    if -1 in crash_at:
        ctx.pending.append({"kind": "harness", "correspondence": "the driver answered every case but exited with status %s" % crash_at[-1][1],
                            "build": label, "stderr": crash_at[-1][2]})
    nbad = 0
    for i, (case, regen) in enumerate(zip(cases, regens)):
        il = impl[i]
        ml = model[i] if i < len(model) else None
        if verbose:
            print("case : %s\nimpl : %s\nmodel: %s" % (case, il, ml))
        if il is None:
            continue   # not run (too many crashes)
        if il.startswith("CRASH"):
            _, rc, err = crash_at[i]
            kind = "asan" if "AddressSanitizer" in err else ("ubsan" if "runtime error" in err else "abort")
            m = re.search(r"SUMMARY: (.*)", err)
            sig = "crash:" + kind + ":" + classify_case(case)
            nbad += 1
            if nbad <= 3:
                def still_crash(c2, exe=exe, pw=pw):
                    o, cr = run_impl_all(exe, pw, [c2])
                    return any(c[0] >= 0 for c in cr)
                small = shrink(case, regen, still_crash, budget=30)
                ctx.violation("the product aborts under the sanitizers (%s) [%s build]: %s" % (m.group(1) if m else kind, label, small[:200]),
                              {"kind": "oracle", "case": small, "original_case": case, "build": label, "pw": pw, "signature": sig,
                               "stderr": err, "model": run_model_all(pw, [small])[0]})
            continue
        if il == "bad-op" or il.startswith("EXC-build"):
            ctx.pending.append({"kind": "harness", "correspondence": "case not accepted by the harness", "case": case, "impl": il, "model": ml, "build": label})
            continue
        if " ; tape GAPS" in il:
            # the symbolic T+k indices assume consecutive allocation: not a statement about the library
            ctx.pending.append({"kind": "harness", "correspondence": "gradient allocator had gaps when the product started", "case": case,
                                "impl": il, "model": ml, "build": label})
            continue
        verdict = oracle(case, il)
        p = parse_line(il)
        key = classify_case(case)
        stats["kind_pairs"].add(key)
        if p and "calls" in p:
            for c in p["calls"]:
                r = c.split("[")[0] + ":" + c.split("[")[1].split(";")[0]
                stats["routines"][r] = stats["routines"].get(r, 0) + 1
                if "T" in c.split(";")[2].split(","):
                    stats["copies"] += 1
            if p["L"]["a"] or p["R"]["a"]:
                stats["active_cases"] += 1
        if p and "exc" in p:
            stats["exceptions"][p["exc"]] = stats["exceptions"].get(p["exc"], 0) + 1
        account(stats, metas[i], p, verdict)
        if p and p.get("tape") is not None:
            stats["tape_cases"] += 1
            stats["tape_statements"] += len(p["tape"])
            stats["tape_operations"] += sum(len(o) for _, o in p["tape"])
            if any(l.startswith("T+") for l, _ in p["tape"]):
                stats["tape_cases_with_conversion_or_copy"] += 1
        ctx.count_case((label, case), nontrivial=True,
                       sample={"build": label, "case": case[:300], "impl": il[:400]})
        if verdict == "refused":
            stats["refused"] += 1
            verdict = None
        if verdict is not None:
            sig, msg = verdict
            nbad += 1
            if nbad <= 3:
                def still(c2, exe=exe, pw=pw, sig=sig):
                    o, cr = run_impl_all(exe, pw, [c2])
                    if o[0] is None or o[0].startswith("CRASH") or o[0] == "bad-op":
                        return False
                    v = oracle(c2, o[0])
                    return v is not None and v != "refused" and v[0] == sig
                small = shrink(case, regen, still)
                o2 = run_impl_all(exe, pw, [small])[0][0]
                v2 = oracle(small, o2)
                m2 = run_model_all(pw, [small])[0]
                d2 = vcheck.first_diff(strip_j(o2 or "").split(" ; "), (m2 or "").split(" ; "))
                sect = None if d2 is None else (["left operand", "right operand", "BLAS calls / exception", "result", "tape"] + ["?"] * 9)[d2]
                ctx.violation("%s [%s build%s]: %s" % (v2[1] if v2 and v2 != "refused" else msg, label,
                                                      "" if sect is None else "; the model's output differs too, first in: " + sect, small[:240]),
                              {"kind": "oracle", "case": small, "original_case": case, "build": label, "pw": pw,
                               "signature": sig + ":" + key, "impl": o2, "model": m2, "message": msg,
                               "model_first_difference": sect})
        elif ml is None or strip_j(il) != ml:
            ctx.cov["disagreements_checked"] += 1
            if len(ctx.pending) < 3:
                a, b = strip_j(il).split(" ; "), (ml or "").split(" ; ")
                d = vcheck.first_diff(a, b)
                ctx.pending.append({"kind": "correspondence", "correspondence": "AdeptModel/Matmul.lean+Blas.lean <-> matmul.h/cppblas.cpp",
                                    "case": case, "build": label, "pw": pw, "impl": il, "model": ml,
                                    "first_difference": {"section": d, "impl": a[d] if d is not None and d < len(a) else None,
                                                         "model": b[d] if d is not None and d < len(b) else None}})
    ctx.cov["traces_validated_against_impl"] += len(cases)
    return nbad


def account(stats, meta, p, verdict):
    """input distribution per operand kind (evidence): family -> counters; fine-grained kind -> partner layouts seen"""
    if meta is None:
        return
    d = stats["dist"].setdefault(meta["family"], {"cases": 0, "X on the left": 0, "X on the right": 0, "activity (X,partner)": {},
                                                  "reached BLAS": 0, "exception": 0, "refused by design": 0, "with recorded statements": 0,
                                                  "_own": set(), "_partner": set()})
    d["cases"] += 1
    d["X on the left" if meta["side"] == "L" else "X on the right"] += 1
    d["activity (X,partner)"][meta["act"]] = d["activity (X,partner)"].get(meta["act"], 0) + 1
    d["_own"].add(meta["x"])
    d["_partner"].add(meta["partner"])
    if verdict == "refused":
        d["refused by design"] += 1
    elif p and "exc" in p:
        d["exception"] += 1
    elif p and "calls" in p:
        d["reached BLAS"] += 1
        if p.get("tape"):
            d["with recorded statements"] += 1
    if "dense x dense" not in meta["family"]:
        k = stats["per_kind"].setdefault((meta["x"], meta["side"]), {"partners": set(), "acts": set()})
        k["partners"].add(meta["partner"])
        k["acts"].add(meta["act"])


def second_opinion(ctx, pw, stats):
    """thorough tier: the same products through the system BLAS (no spy): only results and Jacobians are judged"""
    try:
        exe = build(sysblas=True)
    except vbuild.BuildError as e:
        ctx.notes["system_blas"] = "not available: " + str(e)[:200]
        return
    save = ctx.rng.getstate()
    g_cases = [c[0] for c in gen_cases(ctx, pw)[::7]]
    ctx.rng.setstate(save)
    impl, crashes = run_impl_all(exe, pw, g_cases)
    bad = 0
    for case, il in zip(g_cases, impl):
        if il is None or il.startswith("CRASH"):
            continue
        v = oracle(case, il)
        if v is not None and v != "refused" and v[0] in ("wrong-product", "jacobian", "shape", "wrong-exception", "missing-exception"):
            bad += 1
            if bad <= 1:
                ctx.violation("with the system BLAS: %s: %s" % (v[1], case[:200]),
                              {"kind": "oracle", "case": case, "build": "system-blas", "pw": pw, "signature": v[0] + ":sysblas:" + classify_case(case), "impl": il})
    ctx.notes["system_blas"] = {"cases": len(g_cases), "crashes": len(crashes), "oracle_failures": bad}


def finish(ctx, fails, stats):
    ctx.notes["routine_flag_combinations"] = dict(sorted(stats["routines"].items()))
    ctx.notes["exceptions_seen"] = stats["exceptions"]
    ctx.notes["refused_by_design_invalid_operation"] = stats["refused"]
    ctx.notes["calls_on_copied_or_converted_operands"] = stats["copies"]
    ctx.notes["cases_with_active_operand"] = stats["active_cases"]
    ctx.notes["operand_kind_pairs"] = len(stats["kind_pairs"])
    ctx.notes["sanitizer_aborts"] = stats["crashes"]
    ctx.notes["tape_compared_exactly"] = {"active products with a tape section": stats["tape_cases"], "statements": stats["tape_statements"],
                                          "operations": stats["tape_operations"],
                                          "products whose tape contains conversion / copy statements": stats["tape_cases_with_conversion_or_copy"]}
    dist = {}
    for fam, d in sorted(stats["dist"].items()):
        e = {k: v for k, v in d.items() if not k.startswith("_")}
        e["distinct own kinds / layouts"] = len(d["_own"])
        e["distinct partner layouts"] = len(d["_partner"])
        dist[fam] = e
    ctx.notes["operand_kind_distribution"] = dist
    if stats["per_kind"]:
        need_m, need_v = len(DENSE_M) + len(DENSE_V), len(DENSE_M)
        vec_kinds = {n for n, c, _, _ in x_kinds() if c in ("V", "FV")} | {"f:" + n for n, c, _, _ in x_kinds(True) if c in ("V", "FV")}
        short = sorted("%s/%s" % k for k, v in stats["per_kind"].items() if len(v["partners"]) < (need_v if k[0] in vec_kinds else need_m))
        ctx.notes["operand_kind_sweep"] = {
            "kinds x sides": len(stats["per_kind"]),
            "min distinct partner layouts per (kind, side)": min(len(v["partners"]) for v in stats["per_kind"].values()),
            "(kind, side) that did not meet every partner layout": short[:20],
            "min distinct activity patterns (X, partner) per (kind, side), expressions and fixed arrays (4 possible)":
                min(len(v["acts"]) for k, v in stats["per_kind"].items() if ":S:" not in ":" + k[0]),
            "min distinct activity patterns per (kind, side), special matrices (activity of X is part of the kind: 2 possible)":
                min(len(v["acts"]) for k, v in stats["per_kind"].items() if ":S:" in ":" + k[0])}
    ctx.assumptions += ["exact regime: integer-valued doubles, |value| <= 99, extents <= 8: every product and sum is exact",
                        "the BLAS contract (Lean spec AdeptModel/Blas.lean and harness/spy_blas.cpp are both transcribed from the Netlib reference); "
                        "alpha = 1, beta = 0 only (the only values matmul.h passes)",
                        "theorems are over commutative rings; rounding of floating-point sums is not covered",
                        "passive symmetric x active, passive band x active matrix are refused by matmul.h with invalid_operation "
                        "('Cannot yet do ...'): counted, not judged as failures"]
    if ctx.violations:
        return
    for p in ctx.pending[:1]:
        ctx.violation("model and implementation disagree on a matmul case (%s build) but the product, the reads and the Jacobian "
                      "match the definition" % p.get("build"), p, tag="c", no_input=True)
    if fails and not ctx.violations:
        ctx.violation("proof obligation of C15 no longer checks: " + fails[0][:400],
                      {"kind": "proof", "theorem": "AdeptProofs/Props/C15.lean", "failures": fails}, tag="p", no_input=True)


def load_corpus():
    d = os.path.join(vbuild.VERIF, "corpus", "C15")
    out = []
    if os.path.isdir(d):
        for fn in sorted(os.listdir(d)):
            out += [l.strip() for l in open(os.path.join(d, fn)) if l.strip() and not l.startswith("#")]
    return out
