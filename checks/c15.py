"""C15 — matrix multiplication returns the true product for every operand form.

proof:  lean/AdeptProofs/Props/C15.lean over AdeptModel/{Blas,Matmul}.lean: for all extents >= 1 and ALL strides,
        matmul(A,B)[i,j] = sum_k A[i,k]*B[k,j] on the gemv and gemm paths (row-contiguous, column-contiguous, copied
        operands in every combination), symv/symm/gbmv paths, every index BLAS reads is an element address of the
        operand, empty_array before inner_dimension_mismatch, pushed derivative statements.
tie:    hand-written model <-> include/adept/matmul.h + adept/cppblas.cpp; the harness links a spy BLAS
        (harness/spy_blas.cpp, reference loops that log every argument and every index touched) under ASan/UBSan;
        the logged Fortran arguments (routine, flags after the row-major rewriting, m n k, lda ldb ldc, increments,
        pointer offsets into the operands), the touched index ranges and the result elements are compared exactly
        with the model's on every case; operand views as built through the public API are compared too.
oracle: the definition sum_k A[i,k]*B[k,j] in Python integers from the operands' logical elements as the harness reads
        them through operator(); expected exception class from the extents alone; Jacobian rows = derivative of the
        defining sum w.r.t. every storage cell of the active operands; "no read outside the operand" from the spy's log.
"""
import os, json, re
import vbuild, vcheck

LEVEL = "proof"
NS = "Adept.Matmul."
REQUIRED = ["C15_gemm_path", "C15_gemv_path", "C15_vecmat_path", "C15_gemm_reads_within", "C15_gemv_reads_within",
            "C15_prepared_operand", "C15_errors_mm", "C15_errors_mv", "C15_errors_special",
            "C15_symv_path", "C15_vecsym_path", "C15_symm_path", "C15_matsym_path", "C15_sym_reads_within",
            "C15_gbmv_path", "C15_vecband_path", "C15_bandmat_path", "C15_matband_path", "C15_gbmv_reads_within",
            "C15_active_product_mm", "C15_active_product_mv"]
H = os.path.join(vbuild.VERIF, "harness")
SRCS = ["drv_matmul.cpp", "drv_matmul_f1.cpp", "drv_matmul_f2.cpp"] + ["drv_matmul_s%d.cpp" % i for i in range(1, 7)]
EXTENTS = [1, 2, 3, 5, 8]


def build(extra=(), sysblas=False):
    srcs = [os.path.join(H, f) for f in SRCS]
    if sysblas:
        return vbuild.build("matmul-sysblas", srcs, defines=["HAVE_BLAS=1", "HAVE_LAPACK=1", "MM_NO_SPY=1"], opt="-O0",
                            extra=list(extra), link=["-llapack", "-lblas"])
    srcs += [os.path.join(H, "spy_blas.cpp"), os.path.join(H, "stub_lapack.cpp")]
    return vbuild.build("matmul", srcs, defines=["HAVE_BLAS=1", "HAVE_LAPACK=1"], opt="-O0", extra=list(extra))


# ------------------------------------------------------------------ operand kinds
def pad(pw, c):
    return ((c + pw - 1) // pw) * pw if c >= 2 * pw else c


def cells_rm(pw, R, C):
    return 0 if R == 0 or C == 0 else pad(pw, C) * R


class G:
    """case generator; every operand spec is (words-before-colon, number of cells)"""

    def __init__(self, rng, pw, vmax):
        self.rng, self.pw, self.vmax = rng, pw, vmax

    def vals(self, n):
        r = self.rng
        return " ".join(str(r.choice([-1, 1]) * r.randint(1, self.vmax)) for _ in range(n))

    def spec(self, head, ncells):
        return head + " : " + self.vals(ncells)

    # dense matrix kinds: logical extents r x c
    def M(self, kind, act, r, c):
        a = "a" if act else "p"
        pw = self.pw
        if kind == "rm":
            return self.spec("M %s r %d %d" % (a, r, c), cells_rm(pw, r, c))
        if kind == "cm":
            return self.spec("M %s c %d %d" % (a, r, c), r * c)
        if kind == "rmT":      # .T() of a row-major c x r matrix: column-contiguous
            return self.spec("M %s r %d %d T" % (a, c, r), cells_rm(pw, c, r))
        if kind == "cmT":      # .T() of a column-major matrix: row-contiguous
            return self.spec("M %s c %d %d T" % (a, c, r), r * c)
        if kind == "rowstr":   # every second row: row-contiguous, leading dimension 2*ld
            return self.spec("M %s r %d %d r:0:%d:2" % (a, 2 * r, c, 2 * r - 2), cells_rm(pw, 2 * r, c))
        if kind == "colstr":   # every second column: strided in both directions
            return self.spec("M %s r %d %d c:0:%d:2" % (a, r, 2 * c, 2 * c - 2), cells_rm(pw, r, 2 * c))
        if kind == "dblstr":
            return self.spec("M %s r %d %d r:1:%d:2 c:0:%d:3" % (a, 2 * r, 3 * c, 2 * r - 1, 3 * c - 3), cells_rm(pw, 2 * r, 3 * c))
        if kind == "revrows":
            return self.spec("M %s r %d %d r:%d:0:-1" % (a, r, c, r - 1), cells_rm(pw, r, c))
        if kind == "revcols":
            return self.spec("M %s r %d %d c:%d:0:-1" % (a, r, c, c - 1), cells_rm(pw, r, c))
        if kind == "revrowsT":  # F-14: reversed rows of a c x r matrix, transposed: offsets (1, -ld)
            return self.spec("M %s r %d %d r:%d:0:-1 T" % (a, c, r, c - 1), cells_rm(pw, c, r))
        if kind == "revboth":
            return self.spec("M %s r %d %d r:%d:0:-1 c:%d:0:-1" % (a, r, c, r - 1, c - 1), cells_rm(pw, r, c))
        if kind == "sub":      # sub-block: row-contiguous, base != 0, leading dimension > columns
            return self.spec("M %s r %d %d r:1:%d:1 c:2:%d:1" % (a, r + 2, c + 3, r, c + 1), cells_rm(pw, r + 2, c + 3))
        if kind == "subT":
            return self.spec("M %s r %d %d r:1:%d:1 c:2:%d:1 T" % (a, c + 2, r + 3, c, r + 1), cells_rm(pw, c + 2, r + 3))
        if kind == "cmsub":    # sub-block of a column-major matrix: column-contiguous
            return self.spec("M %s c %d %d r:2:%d:1 c:1:%d:1" % (a, r + 3, c + 2, r + 1, c), (r + 3) * (c + 2))
        if kind == "cmrowstr":  # every second row of a column-major matrix: strided in both directions
            return self.spec("M %s c %d %d r:0:%d:2" % (a, 2 * r, c, 2 * r - 2), 2 * r * c)
        if kind == "cmcolstr":  # every second column of a column-major matrix: column-contiguous
            return self.spec("M %s c %d %d c:0:%d:2" % (a, r, 2 * c, 2 * c - 2), 2 * r * c)
        if kind == "cmrevcols":  # reversed columns of a column-major matrix: offsets (1, -ld)
            return self.spec("M %s c %d %d c:%d:0:-1" % (a, r, c, c - 1), r * c)
        if kind == "padcols":  # first columns of a wider matrix: padded rows
            return self.spec("M %s r %d %d c:0:%d:1" % (a, r, c + 1, c - 1), cells_rm(pw, r, c + 1))
        if kind == "x2":       # expression operand
            return self.spec("M %s r %d %d x2" % (a, r, c), cells_rm(pw, r, c))
        if kind == "x2T":
            return self.spec("M %s r %d %d T x2" % (a, c, r), cells_rm(pw, c, r))
        raise KeyError(kind)

    def V(self, kind, act, n):
        a = "a" if act else "p"
        if kind == "v":
            return self.spec("V %s %d" % (a, n), n)
        if kind == "vstr":
            return self.spec("V %s %d s:0:%d:2" % (a, 2 * n, 2 * n - 2), 2 * n)
        if kind == "vrev":     # F-13
            return self.spec("V %s %d s:%d:0:-1" % (a, n, n - 1), n)
        if kind == "vrevstr":
            return self.spec("V %s %d s:%d:1:-3" % (a, 3 * n, 3 * n - 2), 3 * n)
        if kind == "vsub":
            return self.spec("V %s %d s:2:%d:1" % (a, n + 3, n + 1), n + 3)
        if kind == "vsubrev":  # reversed part of a longer vector (the witness of F-13)
            return self.spec("V %s %d s:2:%d:1 s:%d:0:-1" % (a, n + 4, n + 1, n - 1), n + 4)
        if kind == "vx2":
            return self.spec("V %s %d x2" % (a, n), n)
        raise KeyError(kind)

    def S(self, tag, act, n, variant=""):
        a = "a" if act else "p"
        band = BANDS.get(tag)

        def size(N):
            if N == 0:
                return 0
            if band:
                off = band[0] + band[1]
                return (N - 1) * (off + 1) + 1
            return (N - 1) * N + N
        if variant == "sub":   # submatrix_on_diagonal of an (n+2) matrix
            return self.spec("S %s %s %d d:1:%d" % (a, tag, n + 2, n), size(n + 2))
        if variant == "subsub":
            return self.spec("S %s %s %d d:1:%d d:1:%d" % (a, tag, n + 3, n + 2, n), size(n + 3))
        if variant in ("T", "x2"):
            return self.spec("S %s %s %d %s" % (a, tag, n, variant), size(n))
        if variant == "subT":
            return self.spec("S %s %s %d d:2:%d T" % (a, tag, n + 2, n + 1), size(n + 2))
        return self.spec("S %s %s %d" % (a, tag, n), size(n))


DENSE_M = ["rm", "cm", "rmT", "cmT", "rowstr", "colstr", "dblstr", "revrows", "revcols", "revrowsT", "revboth", "sub", "subT",
           "cmsub", "cmrowstr", "cmcolstr", "cmrevcols", "padcols"]
DENSE_V = ["v", "vstr", "vrev", "vrevstr", "vsub", "vsubrev"]
BANDS = {"b00": (0, 0), "b11": (1, 1), "b22": (2, 2), "b20": (2, 0), "b02": (0, 2), "b12": (1, 2),
         "cb00": (0, 0), "cb11": (1, 1), "cb22": (2, 2), "cb20": (2, 0), "cb02": (0, 2), "cb12": (1, 2)}
# (tag, variants allowed for the passive type, active variant exists) -- mirrors drv_matmul_s*.cpp
SPECIALS = [("sq", ["", "sub", "T", "x2"], True), ("sqc", ["", "sub"], False),
            ("symL", ["", "sub", "subsub", "T", "x2"], True), ("symU", ["", "sub", "T"], True),
            ("lo", ["", "sub", "T"], True), ("loc", ["", "sub"], False), ("up", ["", "sub"], True), ("upc", ["", "sub"], False),
            ("b00", ["", "sub"], False), ("b11", ["", "sub", "x2"], True), ("b22", ["", "sub"], False),
            ("b20", ["", "sub", "subsub"], False), ("b02", ["", "sub"], False), ("b12", ["", "sub", "T", "subT"], True),
            ("cb00", ["", "sub"], False), ("cb11", ["", "sub"], False), ("cb22", ["", "sub"], False),
            ("cb20", ["", "sub"], False), ("cb02", ["", "sub"], False), ("cb12", ["", "sub", "T"], False)]
FIXED_M = [(1, 1), (2, 3), (3, 2), (3, 3), (5, 8), (8, 5), (1, 3), (3, 1)]
FIXED_V = [1, 2, 3, 5, 8]


def x_kinds():
    """operand kinds that need a plain dense partner: (name, rank, builder(g, act, rows, cols) or fixed size)"""
    out = [("x2", "M", None), ("x2T", "M", None), ("vx2", "V", None)]
    for tag, variants, has_act in SPECIALS:
        for v in variants:
            out.append(("S:%s:%s:p" % (tag, v), "S", (tag, v, False)))
        if has_act:
            out.append(("S:%s::a" % tag, "S", (tag, "", True)))
            out.append(("S:%s:sub:a" % tag, "S", (tag, "sub", True)))
    for rc in FIXED_M:
        out.append(("FM%dx%d" % rc, "FM", rc))
    for n in FIXED_V:
        out.append(("FV%d" % n, "FV", n))
    return out


def ext_class(rng, cls):
    """extent triple (m, k, n) of an extent class"""
    if cls == 0:
        return (1, 1, 1)
    if cls == 1:
        t = [rng.choice([2, 3]) for _ in range(3)]
        t[rng.randrange(3)] = 1
        return tuple(t)
    if cls == 2:
        return tuple(rng.choice([2, 3]) for _ in range(3))
    if cls == 3:
        return tuple(rng.choice([3, 5, 8]) for _ in range(3))
    return tuple(rng.choice(EXTENTS) for _ in range(3))


def case_dense(g, form, lk, rk, la, ra, ext, use_op):
    m, k, n = ext
    if form == "MM":
        l, r = g.M(lk, la, m, k), g.M(rk, ra, k, n)
    elif form == "MV":
        l, r = g.M(lk, la, m, k), g.V(rk, ra, k)
    else:
        l, r = g.V(lk, la, k), g.M(rk, ra, k, n)
    return "%s %s | %s" % ("P" if use_op else "Q", l, r)


def case_x(g, xk, side, partner_kind, partner_rank, pa, ext, use_op, xact=None):
    """X operand (expression / special / fixed) on `side`, plain dense partner of rank partner_rank on the other"""
    name, cat, info = xk
    m, k, n = ext
    rng = g.rng
    if cat == "M":
        xa = rng.random() < 0.5 if xact is None else xact
        xr = 2
    elif cat == "V":
        xa = rng.random() < 0.5 if xact is None else xact
        xr = 1
    elif cat == "S":
        xa, xr = info[2], 2
    elif cat == "FM":
        xa = rng.random() < 0.5 if xact is None else xact
        xr = 2
    else:
        xa = rng.random() < 0.5 if xact is None else xact
        xr = 1
    if xr == 1 and partner_rank == 1:
        return None
    # extents of X (rows, cols) and of the partner
    if cat == "S":
        nn = k
        xs = g.S(info[0], xa, nn, info[1])
        xrows = xcols = nn
    elif cat == "FM":
        xrows, xcols = info
        xs = g.spec("FM %s %d %d" % ("a" if xa else "p", xrows, xcols), xrows * xcols)
    elif cat == "FV":
        xrows = xcols = info
        xs = g.spec("FV %s %d" % ("a" if xa else "p", info), info)
    elif cat == "M":
        xrows, xcols = (m, k) if side == "L" else (k, n)
        xs = g.M(name, xa, xrows, xcols)
    else:
        xrows = xcols = k
        xs = g.V(name, xa, k)
    if side == "L":
        inner = xcols
        ps = g.M(partner_kind, pa, inner, n) if partner_rank == 2 else g.V(partner_kind, pa, inner)
        return "%s %s | %s" % ("P" if use_op else "Q", xs, ps)
    inner = xrows
    ps = g.M(partner_kind, pa, m, inner) if partner_rank == 2 else g.V(partner_kind, pa, inner)
    return "%s %s | %s" % ("P" if use_op else "Q", ps, xs)


def error_cases(g):
    """empty operands and mismatched inner extents, for every product form and operand family"""
    out = []
    E_M = ["M p r 0 0 :", "M a r 0 0 :", "M p c 0 0 :"]
    E_V = ["V p 0 :", "V a 0 :"]
    for a in (False, True):
        for lk in ("rm", "cmT", "colstr", "revrowsT"):
            out.append("P %s | %s" % (g.M(lk, a, 2, 3), g.M("rm", not a, 2, 3)))       # mismatch 3 != 2
            out.append("Q %s | %s" % (g.M(lk, a, 2, 3), g.V("v", a, 2)))
            out.append("P %s | %s" % (g.V("vrev", a, 2), g.M(lk, a, 3, 2)))
            for e in E_M:
                out.append("P %s | %s" % (e, g.M(lk, a, 3, 2)))
                out.append("P %s | %s" % (g.M(lk, a, 3, 2), e))
                out.append("Q %s | %s" % (e, g.V("v", a, 3)))                            # empty AND mismatched: empty_array first
            for e in E_V:
                out.append("P %s | %s" % (g.M(lk, a, 3, 2), e))
                out.append("Q %s | %s" % (e, g.M(lk, a, 3, 2)))
        out.append("P M p r 0 0 : | M a r 0 0 :")
        for tag in ("symL", "symU", "b11", "b20", "cb12", "sq", "lo", "upc"):
            out.append("P %s | %s" % (g.S(tag, False, 3), g.V("v", a, 2)))
            out.append("P %s | %s" % (g.S(tag, False, 3), g.M("cm", a, 2, 3)))
            out.append("Q %s | %s" % (g.V("vstr", a, 2), g.S(tag, False, 3)))
            out.append("Q %s | %s" % (g.M("rm", a, 3, 2), g.S(tag, False, 3)))
            out.append("P S p %s 0 : | %s" % (tag, g.V("v", a, 3)))
            out.append("P %s | S p %s 0 :" % (g.M("rm", a, 3, 3), tag))
            out.append("P %s | V p 0 :" % g.S(tag, False, 2))
            out.append("P %s | M p r 0 0 :" % g.S(tag, False, 2))
        out.append("P %s | %s" % (g.spec("FM %s 2 3" % ("a" if a else "p"), 6), g.V("v", a, 2)))
        out.append("P %s | %s" % (g.M("rm", a, 3, 2), g.spec("FV %s 3" % ("a" if a else "p"), 3)))
    return out


def gen_cases(ctx, pw):
    rng = ctx.rng
    quick = ctx.tier == "quick"
    g = G(rng, pw, 9 if quick else 99)
    cases = []
    classes = [0, 1, 2, 3] if quick else [0, 1, 2, 3, 4, 4, 4, 4]
    acts = [(False, False), (False, True), (True, False), (True, True)]
    n = 0
    # dense x dense: every kind pair in every product form, once per extent class
    for cls in classes:
        for form, lks, rks in (("MM", DENSE_M, DENSE_M), ("MV", DENSE_M, DENSE_V), ("VM", DENSE_V, DENSE_M)):
            for lk in lks:
                for rk in rks:
                    combos = [acts[(n + cls) % 4]] if quick else acts
                    for la, ra in combos:
                        regen = (lambda ext, form=form, lk=lk, rk=rk, la=la, ra=ra, op=(n % 2 == 0):
                                 case_dense(g, form, lk, rk, la, ra, ext, op))
                        cases.append((regen(ext_class(rng, cls)), regen))
                        n += 1
    # expression / special / fixed operands on either side, against plain dense partners
    xs = x_kinds()
    partners = [("M", k) for k in DENSE_M] + [("V", k) for k in DENSE_V]
    for cls in classes:
        for xi, xk in enumerate(xs):
            if quick:
                # a rotating subset of 6 partner kinds per (X kind, side), always containing one vector kind
                base = (xi * 5 + cls * 7)
                sel = [partners[(base + 4 * j) % len(DENSE_M)] for j in range(4)] + \
                      [("V", DENSE_V[(xi + cls + j) % len(DENSE_V)]) for j in range(2)]
            else:
                sel = partners
            for side in ("L", "R"):
                for prank, pk in sel:
                    for pa in ([rng.random() < 0.5] if quick else [False, True]):
                        xact = rng.random() < 0.5
                        regen = (lambda ext, xk=xk, side=side, pk=pk, pr=(2 if prank == "M" else 1), pa=pa, op=(n % 2 == 0), xact=xact:
                                 case_x(g, xk, side, pk, pr, pa, ext, op, xact))
                        c = regen(ext_class(rng, cls))
                        n += 1
                        if c:
                            cases.append((c, regen))
    cases += [(c, None) for c in error_cases(g)]
    return cases


# ------------------------------------------------------------------ parsing the harness output
def ints(s):
    s = s.strip()
    return [] if not s else [None if t == "?" else int(t) for t in s.split(",")]


DESC_RE = re.compile(r"^(L|R) (\d) d=([\d,]+) o=([-\d,]+) b=(-?\d+) a=(\d) v=\[([^\]]*)\] c=\[([^\]]*)\]$")
RES_RE = re.compile(r"^res (\d) d=([\d,]+) o=([-\d,]+) v=\[([^\]]*)\]$")


def parse_line(line):
    """-> dict(L, R, exc | calls, res, J) or None"""
    parts = line.split(" ; ")
    if len(parts) < 3:
        return None
    out = {}
    for p in parts[:2]:
        m = DESC_RE.match(p)
        if not m:
            return None
        d = [int(x) for x in m.group(3).split(",")]
        out[m.group(1)] = {"rank": int(m.group(2)), "d": d, "o": [int(x) for x in m.group(4).split(",")], "b": int(m.group(5)),
                           "a": m.group(6) == "1", "v": ints(m.group(7)), "c": ints(m.group(8))}
    if "L" not in out or "R" not in out:
        return None
    if parts[2].startswith("EXC "):
        out["exc"] = parts[2][4:].strip()
        return out
    if not parts[2].startswith("calls") or len(parts) < 4:
        return None
    out["calls"] = parts[2].split()[1:]
    m = RES_RE.match(parts[3])
    if not m:
        return None
    out["res"] = {"rank": int(m.group(1)), "d": [int(x) for x in m.group(2).split(",")], "v": ints(m.group(4))}
    out["J"] = []
    if len(parts) > 4 and parts[4].startswith("J"):
        for t in parts[4].split()[1:]:
            mm = re.match(r"^(\d+),(\d+):L\[([^\]]*)\]R\[([^\]]*)\]$", t)
            if not mm:
                return None
            out["J"].append((int(mm.group(1)), int(mm.group(2)), ints(mm.group(3)), ints(mm.group(4))))
    return out


def spec_info(case):
    """what the oracle may know from the case text alone: per side (family, passive-special tag or None, scale, cell values)"""
    w = case.split()
    bar = w.index("|")
    res = []
    for ws in (w[1:bar], w[bar + 1:]):
        col = ws.index(":")
        head, vals = ws[:col], [int(x) for x in ws[col + 1:]]
        fam = head[0]
        act = head[1] == "a"
        x2 = head[-1] == "x2"
        tag = head[2] if fam == "S" else None
        res.append({"fam": fam, "act": act, "x2": x2, "tag": tag, "vals": vals, "transposed": "T" in head})
    return res


def oracle(case, line):
    """judge property C15 on one implementation output line; returns (signature, message) or None"""
    p = parse_line(line)
    if p is None:
        return ("unparsable", "unparsable harness output %r" % line[:300])
    L, R = p["L"], p["R"]
    sl, sr = spec_info(case)
    # operands as the harness built them are consistent with the cell values of the case (sanity of the harness itself)
    for D, s, nm in ((L, sl, "left"), (R, sr, "right")):
        sc = 2 if s["x2"] else 1
        for v, c in zip(D["v"], D["c"]):
            exp = 0 if c < 0 else (sc * s["vals"][c] if 0 <= c < len(s["vals"]) else None)
            if exp is None or v != exp:
                return ("operand", "%s operand: logical element read through operator() is %s but its storage cell %s holds %s"
                        % (nm, v, c, None if exp is None else exp // sc))
        if D["a"] != s["act"]:
            return ("operand", "%s operand activity differs from the case" % nm)
    # logical matrices: a left vector is 1 x k, a right vector k x 1
    def as_matrix(D, left):
        if D["rank"] == 2:
            r, c = D["d"]
        elif left:
            r, c = (1, D["d"][0]) if D["d"][0] else (0, 0)
        else:
            r, c = (D["d"][0], 1) if D["d"][0] else (0, 0)
        return r, c, [D["v"][i * c:(i + 1) * c] for i in range(r)], [D["c"][i * c:(i + 1) * c] for i in range(r)]
    lr, lc, LV, LC = as_matrix(L, True)
    rr, rc, RV, RC = as_matrix(R, False)
    # expected outcome from the extents alone
    expect = None
    if lr == 0 or rr == 0:
        expect = "empty_array"
    elif lc != rr:
        expect = "inner_dimension_mismatch"
    if "exc" in p:
        if expect is not None:
            return None if p["exc"] == expect else ("wrong-exception", "raised %s, expected %s" % (p["exc"], expect))
        if p["exc"] == "invalid_operation" and refused(sl, sr, L, R):
            return "refused"
        return ("unexpected-exception", "raised %s on conforming non-empty operands" % p["exc"])
    if expect is not None:
        return ("missing-exception", "no exception, expected %s" % expect)
    # no read outside the operands, no rejected BLAS argument
    for c in p["calls"]:
        if ";x=0;" not in c:
            return ("xerbla", "BLAS rejected an argument: %s" % c)
        if not c.endswith(";in=ok]"):
            return ("read-outside", "BLAS touched memory that is not an element of the operand: %s" % c)
    # the product
    res = p["res"]
    want_rank = L["rank"] + R["rank"] - 2
    want_d = [lr, rc] if want_rank == 2 else ([lr] if L["rank"] == 2 else [rc])
    if res["rank"] != want_rank or res["d"] != want_d:
        return ("shape", "result has rank %d extents %s, expected rank %d extents %s" % (res["rank"], res["d"], want_rank, want_d))
    prod = [[sum(LV[i][k] * RV[k][j] for k in range(lc)) for j in range(rc)] for i in range(lr)]
    flat = [x for row in prod for x in row]
    if res["v"] != flat:
        bad = [i for i, (a, b) in enumerate(zip(res["v"], flat)) if a != b]
        return ("wrong-product", "result %s differs from sum_k A[i,k]*B[k,j] = %s (first at flat index %d)" % (res["v"], flat, bad[0] if bad else -1))
    # derivatives of the defining sum w.r.t. every storage cell of the active operands
    if L["a"] or R["a"]:
        if not p["J"]:
            return ("jacobian", "an operand is active but no Jacobian was produced")
        scl, scr = (2 if sl["x2"] else 1), (2 if sr["x2"] else 1)
        for (i, j, JL, JR) in p["J"]:
            if want_rank == 1 and L["rank"] == 1:
                i, j = 0, i
            if L["a"]:
                exp = [0] * len(sl["vals"])
                for k in range(lc):
                    if LC[i][k] >= 0:
                        exp[LC[i][k]] += scl * RV[k][j]
                if JL != exp:
                    return ("jacobian", "d result[%d,%d] / d left cells = %s, derivative of the defining sum = %s" % (i, j, JL, exp))
            elif JL:
                return ("jacobian", "Jacobian w.r.t. a passive left operand")
            if R["a"]:
                exp = [0] * len(sr["vals"])
                for k in range(lc):
                    if RC[k][j] >= 0:
                        exp[RC[k][j]] += scr * LV[i][k]
                if JR != exp:
                    return ("jacobian", "d result[%d,%d] / d right cells = %s, derivative of the defining sum = %s" % (i, j, JR, exp))
            elif JR:
                return ("jacobian", "Jacobian w.r.t. a passive right operand")
    return None


def refused(sl, sr, L, R):
    """combinations matmul.h refuses by design with invalid_operation ("Cannot yet do ..."): a passive symmetric matrix with
    an active partner; a passive band matrix with an active *matrix* partner"""
    for s, o, O in ((sl, sr, R), (sr, sl, L)):
        if s["fam"] == "S" and not s["act"] and not s["x2"]:
            if s["tag"] in ("symL", "symU") and o["act"]:
                return True
            if s["tag"] in BANDS and o["act"] and O["rank"] == 2:
                return True
    return False


# ------------------------------------------------------------------ running
def strip_j(line):
    i = line.find(" ; J ")
    return line if i < 0 else line[:i]


def run_impl_all(exe, pw, cases, max_crashes=25):
    """run all cases; a sanitizer abort costs only the case it happened in.  -> (lines aligned with cases, crashes)"""
    out = [None] * len(cases)
    crashes = []
    pos = 0
    while pos < len(cases):
        text = "cfg %d\n" % pw + "\n".join(cases[pos:]) + "\n"
        lines, rc, err = vcheck.run_impl(exe, [], text)
        got = lines[1:] if lines else []
        if len(got) >= len(cases) - pos and rc != 0:
            # every case answered but the process did not exit cleanly (LeakSanitizer report at exit)
            crashes.append((-1, rc, err[-2500:]))
        for i, l in enumerate(got):
            if pos + i < len(cases):
                out[pos + i] = l
        pos += len(got)
        if pos < len(cases):
            crashes.append((pos, rc, err[-2500:]))
            out[pos] = "CRASH rc=%s" % rc
            pos += 1
            if len(crashes) >= max_crashes:
                break
    return out, crashes


def run_model_all(pw, cases):
    return vcheck.run_model("matmul", "cfg %d\n" % pw + "\n".join(cases) + "\n")[1:]


def classify_case(case):
    w = case.split()
    bar = w.index("|")
    def k(ws):
        col = ws.index(":")
        h = ws[:col]
        if h[0] in ("M", "V"):
            ops = ["T" if o == "T" else o.split(":")[0] + ("-" if o.count(":") == 3 and o.split(":")[3].startswith("-") else "") for o in h[(5 if h[0] == "M" else 3):]]
            return h[0] + (h[2] if h[0] == "M" else "") + "".join(ops)
        return "".join(h[:1] + h[2:3] + [o.split(":")[0] for o in h[4:]]) if h[0] == "S" else h[0]
    return k(w[1:bar]) + "*" + k(w[bar + 1:])


def simplify_values(c):
    """replace all cell values by 1..9 repeating"""
    out, k, inval = [], 1, False
    for t in c.split():
        if t == ":":
            inval = True; out.append(t); continue
        if t == "|":
            inval = False; out.append(t); continue
        if inval:
            out.append(str(k)); k = k % 9 + 1
        else:
            out.append(t)
    return " ".join(out)


def shrink(case, regen, still_fails, budget=60):
    """same operand kinds and activities with the smallest extents that still fail, then with simple values"""
    best = case
    if regen is not None:
        trips = sorted(((m, k, n) for m in EXTENTS for k in EXTENTS for n in EXTENTS), key=lambda t: (t[0] * t[1] * t[2], t))
        for t in trips[:budget]:
            try:
                c = regen(t)
            except Exception:
                c = None
            if c and len(c) < len(best) and still_fails(c):
                best = c
                break
    c2 = simplify_values(best)
    if c2 != best and still_fails(c2):
        best = c2
    return best


def run(ctx, replay):
    thms = [NS + t for t in vcheck.prop_theorems("AdeptProofs/Props/C15.lean", "C15_")]
    fails = vcheck.lean_gate(ctx, ["AdeptProofs.Props.C15", "AdeptProofs.Refute.Matmul"], thms, required=[NS + r for r in REQUIRED])
    exe = build()
    lines, rc, err = vcheck.run_impl(exe, [], "cfg 0\n")
    pw = int(lines[0].split()[1]) if lines and lines[0].startswith("cfg ") else 0
    if pw <= 0:
        raise vbuild.BuildError("matmul driver does not answer the cfg query: rc=%s %s" % (rc, err[-800:]))
    builds = [("sse2-default", exe, pw)]
    if ctx.tier == "thorough" and "avx" in cpu_flags():
        e2 = build(extra=["-mavx"])
        l2 = vcheck.run_impl(e2, [], "cfg 0\n")[0]
        builds.append(("avx", e2, int(l2[0].split()[1])))
    ctx.pending = []
    ctx.notes["packet_widths"] = {b[0]: b[2] for b in builds}
    stats = {"routines": {}, "exceptions": {}, "refused": 0, "copies": 0, "active_cases": 0, "kind_pairs": set(), "crashes": 0}
    if replay:
        r = json.load(open(replay))
        cases = [r["case"]]
        for label, e, w in builds:
            judge(ctx, e, label, w, cases, stats, verbose=True)
        finish(ctx, fails, stats)
        return
    corpus = load_corpus()
    for label, e, w in builds:
        if corpus:
            judge(ctx, e, label, w, corpus, stats, tag="corpus")
        cases = gen_cases(ctx, w)
        judge(ctx, e, label, w, cases, stats)
    if ctx.tier == "thorough":
        second_opinion(ctx, builds[0][2], stats)
    ctx.cov["rule"] = ("one case = one product A**B or matmul(A,B) with integer cell values (padding cells included): dense operand kinds %s x vector "
                       "kinds %s in the forms matrix*matrix, matrix*vector, vector*matrix (every kind pair once per extent class; "
                       "quick: classes all-ones / one extent 1 / {2,3} / {3,5,8}, activity pattern rotating; thorough: + random triples "
                       "from {1,2,3,5,8}, all four activity patterns, values up to 99, AVX build if available); expression operands "
                       "2.0*A, FixedArray matrices %s and vectors %s, and the special matrices %s (passive; T / x2 / submatrix_on_diagonal "
                       "variants; active where instantiated) on either side against plain dense partners; empty and mismatched operands "
                       "for every family.  non-trivial: a product that reaches BLAS or raises the expected exception; distinct: "
                       "different case text" % (DENSE_M, DENSE_V, FIXED_M, FIXED_V, [s[0] for s in SPECIALS]))
    finish(ctx, fails, stats)


def cpu_flags():
    try:
        for l in open("/proc/cpuinfo"):
            if l.startswith("flags"):
                return set(l.split(":")[1].split())
    except OSError:
        pass
    return set()


def judge(ctx, exe, label, pw, cases, stats, tag="gen", verbose=False):
    regens = [c[1] if isinstance(c, tuple) else None for c in cases]
    cases = [c[0] if isinstance(c, tuple) else c for c in cases]
    impl, crashes = run_impl_all(exe, pw, cases)
    model = run_model_all(pw, cases)
    stats["crashes"] += len([c for c in crashes if c[0] >= 0])
    crash_at = {c[0]: c for c in crashes}
    if -1 in crash_at:
        ctx.pending.append({"kind": "harness", "correspondence": "the driver answered every case but exited with status %s" % crash_at[-1][1],
                            "build": label, "stderr": crash_at[-1][2]})
    nbad = 0
    for i, (case, regen) in enumerate(zip(cases, regens)):
        il = impl[i]
        ml = model[i] if i < len(model) else None
        if verbose:
            print("case : %s\nimpl : %s\nmodel: %s" % (case, il, ml))
        if il is None:
            continue   # not run (too many crashes)
        if il.startswith("CRASH"):
            _, rc, err = crash_at[i]
            kind = "asan" if "AddressSanitizer" in err else ("ubsan" if "runtime error" in err else "abort")
            m = re.search(r"SUMMARY: (.*)", err)
            sig = "crash:" + kind + ":" + classify_case(case)
            nbad += 1
            if nbad <= 3:
                def still_crash(c2, exe=exe, pw=pw):
                    o, cr = run_impl_all(exe, pw, [c2])
                    return any(c[0] >= 0 for c in cr)
                small = shrink(case, regen, still_crash, budget=30)
                ctx.violation("the product aborts under the sanitizers (%s) [%s build]: %s" % (m.group(1) if m else kind, label, small[:200]),
                              {"kind": "oracle", "case": small, "original_case": case, "build": label, "pw": pw, "signature": sig,
                               "stderr": err, "model": run_model_all(pw, [small])[0]})
            continue
        if il == "bad-op" or il.startswith("EXC-build"):
            ctx.pending.append({"kind": "harness", "correspondence": "case not accepted by the harness", "case": case, "impl": il, "model": ml, "build": label})
            continue
        verdict = oracle(case, il)
        p = parse_line(il)
        key = classify_case(case)
        stats["kind_pairs"].add(key)
        if p and "calls" in p:
            for c in p["calls"]:
                r = c.split("[")[0] + ":" + c.split("[")[1].split(";")[0]
                stats["routines"][r] = stats["routines"].get(r, 0) + 1
                if "T" in c.split(";")[2].split(","):
                    stats["copies"] += 1
            if p["L"]["a"] or p["R"]["a"]:
                stats["active_cases"] += 1
        if p and "exc" in p:
            stats["exceptions"][p["exc"]] = stats["exceptions"].get(p["exc"], 0) + 1
        ctx.count_case((label, case), nontrivial=True,
                       sample={"build": label, "case": case[:300], "impl": il[:400]})
        if verdict == "refused":
            stats["refused"] += 1
            verdict = None
        if verdict is not None:
            sig, msg = verdict
            nbad += 1
            if nbad <= 3:
                def still(c2, exe=exe, pw=pw, sig=sig):
                    o, cr = run_impl_all(exe, pw, [c2])
                    if o[0] is None or o[0].startswith("CRASH") or o[0] == "bad-op":
                        return False
                    v = oracle(c2, o[0])
                    return v is not None and v != "refused" and v[0] == sig
                small = shrink(case, regen, still)
                o2 = run_impl_all(exe, pw, [small])[0][0]
                v2 = oracle(small, o2)
                ctx.violation("%s [%s build]: %s" % (v2[1] if v2 and v2 != "refused" else msg, label, small[:240]),
                              {"kind": "oracle", "case": small, "original_case": case, "build": label, "pw": pw,
                               "signature": sig + ":" + key, "impl": o2, "model": run_model_all(pw, [small])[0], "message": msg})
        elif ml is None or strip_j(il) != ml:
            ctx.cov["disagreements_checked"] += 1
            if len(ctx.pending) < 3:
                a, b = strip_j(il).split(" ; "), (ml or "").split(" ; ")
                d = vcheck.first_diff(a, b)
                ctx.pending.append({"kind": "correspondence", "correspondence": "AdeptModel/Matmul.lean+Blas.lean <-> matmul.h/cppblas.cpp",
                                    "case": case, "build": label, "pw": pw, "impl": il, "model": ml,
                                    "first_difference": {"section": d, "impl": a[d] if d is not None and d < len(a) else None,
                                                         "model": b[d] if d is not None and d < len(b) else None}})
    ctx.cov["traces_validated_against_impl"] += len(cases)
    return nbad


def second_opinion(ctx, pw, stats):
    """thorough tier: the same products through the system BLAS (no spy): only results and Jacobians are judged"""
    try:
        exe = build(sysblas=True)
    except vbuild.BuildError as e:
        ctx.notes["system_blas"] = "not available: " + str(e)[:200]
        return
    save = ctx.rng.getstate()
    g_cases = [c[0] for c in gen_cases(ctx, pw)[::7]]
    ctx.rng.setstate(save)
    impl, crashes = run_impl_all(exe, pw, g_cases)
    bad = 0
    for case, il in zip(g_cases, impl):
        if il is None or il.startswith("CRASH"):
            continue
        v = oracle(case, il)
        if v is not None and v != "refused" and v[0] in ("wrong-product", "jacobian", "shape", "wrong-exception", "missing-exception"):
            bad += 1
            if bad <= 1:
                ctx.violation("with the system BLAS: %s: %s" % (v[1], case[:200]),
                              {"kind": "oracle", "case": case, "build": "system-blas", "pw": pw, "signature": v[0] + ":sysblas:" + classify_case(case), "impl": il})
    ctx.notes["system_blas"] = {"cases": len(g_cases), "crashes": len(crashes), "oracle_failures": bad}


def finish(ctx, fails, stats):
    ctx.notes["routine_flag_combinations"] = dict(sorted(stats["routines"].items()))
    ctx.notes["exceptions_seen"] = stats["exceptions"]
    ctx.notes["refused_by_design_invalid_operation"] = stats["refused"]
    ctx.notes["calls_on_copied_or_converted_operands"] = stats["copies"]
    ctx.notes["cases_with_active_operand"] = stats["active_cases"]
    ctx.notes["operand_kind_pairs"] = len(stats["kind_pairs"])
    ctx.notes["sanitizer_aborts"] = stats["crashes"]
    ctx.assumptions += ["exact regime: integer-valued doubles, |value| <= 99, extents <= 8: every product and sum is exact",
                        "the BLAS contract (Lean spec AdeptModel/Blas.lean and harness/spy_blas.cpp are both transcribed from the Netlib reference); "
                        "alpha = 1, beta = 0 only (the only values matmul.h passes)",
                        "theorems are over commutative rings; rounding of floating-point sums is not covered",
                        "passive symmetric x active, passive band x active matrix are refused by matmul.h with invalid_operation "
                        "('Cannot yet do ...'): counted, not judged as failures"]
    if ctx.violations:
        return
    for p in ctx.pending[:1]:
        ctx.violation("model and implementation disagree on a matmul case (%s build) but the product, the reads and the Jacobian "
                      "match the definition" % p.get("build"), p, tag="c", no_input=True)
    if fails and not ctx.violations:
        ctx.violation("proof obligation of C15 no longer checks: " + fails[0][:400],
                      {"kind": "proof", "theorem": "AdeptProofs/Props/C15.lean", "failures": fails}, tag="p", no_input=True)


def load_corpus():
    d = os.path.join(vbuild.VERIF, "corpus", "C15")
    out = []
    if os.path.isdir(d):
        for fn in sorted(os.listdir(d)):
            out += [l.strip() for l in open(os.path.join(d, fn)) if l.strip() and not l.startswith("#")]
    return out
