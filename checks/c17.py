"""C17 — special matrices behave as the dense matrices they stand for.

translate: translate/engines.py regenerates lean/AdeptModel/Generated/Engines.lean from include/adept/SpecialMatrix.h
           (every engine struct: index, pack_offset, data_size, get_row_range, upper/lower_offset, check_*_diag,
           set_extras, value_at_location, row_offset, get_scalar/get_reference zero tests, transpose_engine).
proof:     lean/AdeptProofs/Props/C17.lean over the *generated* definitions + AdeptModel/Special.lean
           (all engines, all band widths, all dim >= 1, all offsets >= pack_offset, all (i,j)).
tie:       exhaustive correspondence over a fixed list of 24 engine instantiations x sizes 1..9 (1..24 thorough) x
           all (i,j) x operations: harness/drv_special.cpp (real library, ASan/UBSan) vs `adept_model special`.
oracle:    independent of the model: the dense equivalent is the matrix read element by element through
           `operator() const` by the implementation itself; every other operation's result is judged against the
           same operation on that dense matrix (Python), and the read itself against the hand-written pattern
           (mirror / zero outside triangle or band / distinct raw elements).
compositions: X = M.submatrix_on_diagonal(a,b) (a view whose offset exceeds the packed one) followed by diag_vector(k)
           for every k of both signs (read, and write through every element), .T() (reads, conversion, .T().diag_vector(k)),
           element writes at every (i,j), a further submatrix_on_diagonal, and assignment from an expression — for every
           block of sizes 1..6 (1..10 thorough); judged against the dense block D[a..b, a..b].
self-referential statements (right-hand side reads the target's own storage): `selfsub`, `selfT`, `selfexpr`,
           `selfdiag` for sizes 1..7 (1..12 thorough): every equal-size pair of diagonal blocks (disjoint, touching at
           one corner either way, overlapping, identical) x 5 right-hand-side forms, M = M.T(), M = 2.0*M + M,
           diag_vector(k) = F(diag_vector(+-k)).  Oracle: evaluate the whole right-hand side on the OLD dense view,
           then store (pattern positions only; mirrored for symmetric engines); the same statement executed by the
           library on the dense Matrix is judged the same way (unmasked); `alias=0` is accepted only if target and
           source share no raw element.  Model: SM.assignExpr (is_aliased_ as coded, temporary copy / in-place path).
compound operators (`cmp`): all eight (+= -= *= /= with an expression and with a scalar) on V = M.submatrix_on_diagonal(a,b) or
           its .T() lvalue, right-hand sides scalar / dense Matrix / F(Y) with F in {Y, 2Y, Y.T(), 2Y+Y.T()} and Y a block of the
           second matrix N or of M ITSELF (identical, shifted-overlapping, corner-touching, disjoint).  Directed sweep: every
           engine x orientation x n = 1..5 x operator x form x every block pair, every run; random lines for larger n.
           Oracle: (old V) OP (rhs evaluated on the OLD dense views) stored at the canonical positions of V's engine (mirrored
           for symmetric engines), IEEE double arithmetic in Python; every other raw element unchanged.  Model: SM.compound /
           SM.compoundScalar = SM.assignExpr on `noalias(*this) OP rhs` (values of `/=` compared where every quotient is an
           integer, otherwise the alias decision only: the model's values are integers).
active special matrices (`act`): AV = x (active scalar), AV = 5.0, AV = F(BV) for AV = A.submatrix_on_diagonal(a,b) or its .T()
           lvalue, while recording: values AND the recorded statements (SpyStack).  Oracle: one statement per canonical
           position of AV's engine in row order, lhs = gradient index of the stored element written (raw element named by the
           passive read of the same position), operations as the scalar statement denotes (1*x / none / multipliers and the
           stored elements of B, nothing for a structural zero).  Model: SM.assignActiveScalar, SM.recPassiveScalar, SM.recExpr.
"""
import json, os, sys, time
import vbuild, vcheck

sys.path.insert(0, os.path.join(vbuild.VERIF, "translate"))
import engines as engines_tr

LEVEL = "proof"
NS = "Adept.Special."
REQUIRED = ["C17_engines_covered", "C17_zero_outside", "C17_access_overloads_agree", "C17_stored_in_range",
            "C17_stored_injective", "C17_mirror", "C17_row_range", "C17_row_range_covers", "C17_transpose_engine",
            "C17_read", "C17_read_mirror", "C17_write_hits_one", "C17_lvalue", "C17_transpose_view",
            "C17_rhs_traversal", "C17_expression_rows", "C17_to_dense", "C17_assign_raw", "C17_assign_view",
            "C17_diag_vector", "C17_submatrix", "C17_diag_matrix_view", "C17_alias_conservative",
            "C17_self_assign_semantics", "C17_compound_semantics", "C17_compound_scalar_semantics", "C17_compound_view",
            "C17_written_positions", "C17_active_scalar_statements", "C17_passive_scalar_statements",
            "C17_active_expr_statements", "C17_leaf_gradient"]

# main + one translation unit per engine pair (engine + transpose_engine) (compiled in parallel; harness/drv_special_ops.h holds the operation table)
DRIVERS = [os.path.join(vbuild.VERIF, "harness", f) for f in
           ["drv_special.cpp"] + ["drv_special_g%d.cpp" % g for g in range(1, 13)]]

BANDS = [(0, 0), (1, 1), (2, 2), (0, 2), (3, 1), (4, 4), (2, 0), (1, 3)]
ENGINES = ([("SquareEngine_ROW_MAJOR", 0, 0), ("SquareEngine_COL_MAJOR", 0, 0),
            ("SymmEngine_ROW_LOWER_COL_UPPER", 0, 0), ("SymmEngine_ROW_UPPER_COL_LOWER", 0, 0),
            ("LowerEngine_ROW_MAJOR", 0, 0), ("LowerEngine_COL_MAJOR", 0, 0),
            ("UpperEngine_ROW_MAJOR", 0, 0), ("UpperEngine_COL_MAJOR", 0, 0)]
           + [("BandEngine_ROW_MAJOR", l, u) for (l, u) in BANDS]
           + [("BandEngine_COL_MAJOR", l, u) for (l, u) in BANDS])
TYPEDEFS = {("SquareEngine_ROW_MAJOR", 0, 0): "SquareMatrix", ("SymmEngine_ROW_LOWER_COL_UPPER", 0, 0): "SymmMatrix",
            ("LowerEngine_ROW_MAJOR", 0, 0): "LowerMatrix", ("UpperEngine_ROW_MAJOR", 0, 0): "UpperMatrix",
            ("BandEngine_ROW_MAJOR", 0, 0): "DiagMatrix", ("BandEngine_ROW_MAJOR", 1, 1): "TridiagMatrix",
            ("BandEngine_ROW_MAJOR", 2, 2): "PentadiagMatrix"}


# ------------------------------------------------------------------ hand-written specification (oracle side)
def is_symm(e):
    return e.startswith("SymmEngine")


def in_pattern(e, L, U, i, j):
    if e.startswith("BandEngine"):
        return -L <= j - i <= U
    if e.startswith("LowerEngine"):
        return j <= i
    if e.startswith("UpperEngine"):
        return i <= j
    return True


def canonical(e, L, U, i, j):
    if e == "SymmEngine_ROW_LOWER_COL_UPPER":
        return j <= i
    if e == "SymmEngine_ROW_UPPER_COL_LOWER":
        return i <= j
    return in_pattern(e, L, U, i, j)


# ------------------------------------------------------------------ case generation
def ops_for(e, L, U, n, lvalue, rng, full_sub=True):
    pre = "%s %d %d %d" % (e, L, U, n)
    out = ["info " + pre, "get " + pre, "ptr %s a" % pre]
    if lvalue:
        out.append("ptr %s p" % pre)
    out += ["dense " + pre, "fromdense %s s" % pre, "fromdense %s a" % pre, "scalar " + pre, "T " + pre,
            "expr " + pre, "exprT " + pre, "assign " + pre, "assignT " + pre]
    for i in range(n):
        for j in range(n):
            out.append("wr %s a %d %d" % (pre, i, j))
            if lvalue:
                out.append("wr %s p %d %d" % (pre, i, j))
    for k in range(-n + 1, n):
        out.append("diag %s %d" % (pre, k))
        for t in range(n - abs(k)):
            out.append("wrdiag %s %d %d" % (pre, k, t))
    pairs = [(a, b) for a in range(-1, n + 1) for b in range(-1, n + 1)]
    if not full_sub:
        edge = {-1, 0, 1, n - 2, n - 1, n}
        keep = [p for p in pairs if p[0] in edge or p[1] in edge or p[0] == p[1]]
        rest = [p for p in pairs if p not in set(keep)]
        rng.shuffle(rest)
        pairs = keep + rest[:40]
    for (a, b) in pairs:
        out.append("sub %s %d %d" % (pre, a, b))
    if (e, L, U) == ("BandEngine_ROW_MAJOR", 0, 0):
        out += ["dmat %s %d" % (pre, s) for s in (1, 2, 3, 5)]
    return out


def composed_ops_for(e, L, U, n, lvalue, rng, full=True):
    """operations on the view X = M.submatrix_on_diagonal(a,b) for every block (a,b) (plus two invalid ranges)"""
    pre = "%s %d %d %d" % (e, L, U, n)
    out = ["sinfo %s -1 0" % pre, "sdiag %s 0 %d 0" % (pre, n)]
    for a in range(n):
        for b in range(a, n):
            m = b - a + 1
            ab = "%s %d %d" % (pre, a, b)
            out += ["sinfo " + ab, "sT " + ab, "sassign " + ab]
            for k in range(-m + 1, m):
                out += ["sdiag %s %d" % (ab, k), "sTdiag %s %d" % (ab, k)]
                ts = list(range(m - abs(k)))
                if not full and len(ts) > 2:
                    ts = [0, ts[-1], rng.choice(ts[1:-1])]
                out += ["swrdiag %s %d %d" % (ab, k, t) for t in ts]
            cells = [(i, j) for i in range(m) for j in range(m)]
            if not full and len(cells) > 9:
                cells = [(0, 0), (0, m - 1), (m - 1, 0), (m - 1, m - 1)] + rng.sample(cells, 5)
            for (i, j) in cells:
                out.append("swr %s a %d %d" % (ab, i, j))
                if lvalue:
                    out.append("swr %s p %d %d" % (ab, i, j))
            subs = [(a2, b2) for a2 in range(m) for b2 in range(a2, m)]
            if not full and len(subs) > 8:
                subs = [(0, m - 1), (0, 0), (m - 1, m - 1)] + rng.sample(subs, 5)
            out += ["ssub %s %d %d" % (ab, a2, b2) for (a2, b2) in subs]
            out += ["ssub %s -1 0" % ab, "ssub %s 0 %d" % (ab, m)]
    return out


NDIRECTED = 5      # compound operators / active assignments: exhaustive directed sweep up to this size in every run
BLOCK_FORMS = ("k2", "cp", "sum", "T", "mixT")
DIAG_FORMS = ("k2", "cp", "sum", "rev")


def self_ops_for(e, L, U, n, rng, all_forms=True):
    """self-referential statements: every equal-size pair of diagonal blocks x right-hand-side forms, whole-matrix
    forms, diag_vector(k) = F(diag_vector(+-k)); one size-mismatch and one out-of-range probe"""
    pre = "%s %d %d %d" % (e, L, U, n)
    out = ["selfT " + pre, "selfexpr " + pre]
    for m in range(1, n + 1):
        for a in range(0, n - m + 1):
            for c in range(0, n - m + 1):
                # blocks [a,a+m-1] <- [c,c+m-1]: |a-c| >= m disjoint, = m-1 one shared corner, < m-1 overlapping, 0 identical
                near = abs(a - c) in (0, 1, m - 2, m - 1, m)
                forms = BLOCK_FORMS if (all_forms or near) else ("k2", BLOCK_FORMS[1 + rng.randrange(4)])
                for f in forms:
                    out.append("selfsub %s %d %d %d %d %s" % (pre, a, a + m - 1, c, c + m - 1, f))
    if n >= 2:
        out.append("selfsub %s 0 %d 0 %d k2" % (pre, n - 1, n - 2))     # size mismatch
        out.append("selfsub %s 0 %d 1 %d cp" % (pre, n - 2, n))         # source out of range
    for k in range(-n + 1, n):
        for k2 in sorted({k, -k}):
            for f in DIAG_FORMS:
                out.append("selfdiag %s %d %d %s" % (pre, k, k2, f))
    return out



CMP_OPS = ("add", "sub", "mul", "div")
CMP_FORMS = ("cp", "k2", "T", "mixT")
ACT_KINDS = ("x", "c", "cp", "k2", "T", "mixT")


def transpose_engine(e, L, U):
    """hand-written: Engine::transpose_engine"""
    if e.startswith("SymmEngine"):
        return (e, L, U)
    if e.startswith("SquareEngine"):
        return ("SquareEngine_COL_MAJOR" if e.endswith("ROW_MAJOR") else "SquareEngine_ROW_MAJOR", 0, 0)
    if e.startswith("BandEngine"):
        return ("BandEngine_COL_MAJOR" if e.endswith("ROW_MAJOR") else "BandEngine_ROW_MAJOR", U, L)
    other = "Upper" if e.startswith("Lower") else "Lower"
    return (other + "Engine_" + ("COL_MAJOR" if e.endswith("ROW_MAJOR") else "ROW_MAJOR"), 0, 0)


def overlap_class(a, c, m):
    d = abs(a - c)
    return "identical" if d == 0 else "corner" if d == m - 1 else "overlap" if d < m - 1 else "disjoint"


def cmp_line(pre, tv, a, b, op, form, src="-", c=0, d=0):
    return "cmp %s %s %d %d %s %s %s %d %d" % (pre, tv, a, b, op, form, src, c, d)


def cmp_ops_for(e, L, U, n, rng, directed, stats, nrandom=0):
    """compound operators: directed = every target block x operator x orientation x form (right-hand sides in the
    target's own storage for EVERY equal-size source block; scalar / dense / second-matrix operands for the aligned
    block); otherwise `nrandom` random lines"""
    pre = "%s %d %d %d" % (e, L, U, n)
    out = []

    def add(tv, a, b, op, form, src="-", c=0, d=0):
        out.append(cmp_line(pre, tv, a, b, op, form, src, c, d))
        if src == "m":
            key = "self:" + overlap_class(a, c, b - a + 1)
        else:
            key = {"-": "scalar" if form == "c" else "dense", "n": "other-matrix"}[src]
        tk = "target:" + ("whole" if (a, b) == (0, n - 1) else "block") + (".T()" if tv == "t" else "")
        for k in (key, "op:" + op, tk):
            stats[k] = stats.get(k, 0) + 1

    if directed:
        for m in range(n, 0, -1):
            for a in range(0, n - m + 1):
                for tv in ("v", "t"):
                    for op in CMP_OPS:
                        add(tv, a, a + m - 1, op, "c")
                        add(tv, a, a + m - 1, op, "D")
                        for f in CMP_FORMS:
                            add(tv, a, a + m - 1, op, f, "n", a, a + m - 1)
                            for c in range(0, n - m + 1):
                                add(tv, a, a + m - 1, op, f, "m", c, c + m - 1)
        if n >= 2:
            out.append(cmp_line(pre, "v", 0, n - 1, "sub", "cp", "m", 0, n - 2))    # size mismatch
            out.append(cmp_line(pre, "t", 0, n - 2, "add", "k2", "m", 1, n))        # source out of range
            out.append(cmp_line(pre, "v", -1, n - 2, "mul", "c"))                   # target out of range
    for _ in range(nrandom):
        m = rng.randint(1, n)
        a = rng.randint(0, n - m)
        tv, op = rng.choice("vt"), rng.choice(CMP_OPS)
        r = rng.random()
        if r < 0.1:
            add(tv, a, a + m - 1, op, "c")
        elif r < 0.2:
            add(tv, a, a + m - 1, op, "D")
        elif r < 0.35:
            c = rng.randint(0, n - m)
            add(tv, a, a + m - 1, op, rng.choice(CMP_FORMS), "n", c, c + m - 1)
        else:
            # near the target: identical / overlapping / corner / just disjoint more often than far away
            c = min(max(a + rng.choice((0, 0, 1, -1, m - 1, 1 - m, m, -m, rng.randint(-n, n))), 0), n - m)
            add(tv, a, a + m - 1, op, rng.choice(CMP_FORMS), "m", c, c + m - 1)
    return out


def act_ops_for(e, L, U, n, rng, directed, stats, nrandom=0):
    """assignments to active matrices: directed = every block x orientation x kind; otherwise random lines"""
    pre = "%s %d %d %d" % (e, L, U, n)
    out = []

    def add(tv, a, b, kind):
        out.append("act %s %s %d %d %s" % (pre, tv, a, b, kind))
        tk = "target:" + ("whole" if (a, b) == (0, n - 1) else "block") + (".T()" if tv == "t" else "")
        for k in ("kind:" + kind, tk):
            stats[k] = stats.get(k, 0) + 1

    if directed:
        for a in range(n):
            for b in range(a, n):
                for tv in ("v", "t"):
                    for kind in ACT_KINDS:
                        add(tv, a, b, kind)
        out.append("act %s v 0 %d x" % (pre, n))        # out of range
    for _ in range(nrandom):
        a = rng.randint(0, n - 1)
        add(rng.choice("vt"), a, rng.randint(a, n - 1), rng.choice(ACT_KINDS))
    return out


# ------------------------------------------------------------------ oracle
def ints(s):
    if s == "-":
        return []
    return [int(x) for x in s.split(",")]


def fields(line):
    d = {}
    for tok in line.split():
        k, _, v = tok.partition("=")
        d[k] = v
    return d


def transpose(D, n):
    return [D[j * n + i] for i in range(n) for j in range(n)]


class Judge:
    """judges one (engine, n) block from the implementation's output alone"""

    def __init__(self, e, L, U, n):
        self.e, self.L, self.U, self.n = e, L, U, n
        self.D = None      # dense equivalent of M as read by the implementation
        self.size = None

    def pat(self, i, j):
        return in_pattern(self.e, self.L, self.U, i, j)

    def dn(self):
        # N has raw element k = 1001 + k where M has k + 1
        return [v + 1000 if v != 0 else 0 for v in self.D]

    def expect_changes(self, i, j):
        cells = {(i, j)}
        if is_symm(self.e):
            cells.add((j, i))
        return sorted(cells)

    def judge(self, op, args, out):
        """returns None or a message"""
        e, L, U, n = self.e, self.L, self.U, self.n
        try:
            if out.startswith("exception:") or out in ("bad-op", "unsupported"):
                return "unexpected result %r" % out
            if op == "info":
                f = fields(out)
                self.size = int(f["size"])
                if f["contiguous"] != "1":
                    return "a freshly constructed matrix reports is_contiguous() == false"
                return None
            if op == "dmat":
                st = int(args[0])
                want = [(i * st + 1 if i == j else 0) for i in range(n) for j in range(n)]
                f = fields(out)
                for k, what in (("get", "v.diag_matrix()(i,j)"), ("conv", "Matrix(v.diag_matrix())"), ("convT", "Matrix(v.diag_matrix().T())")):
                    if ints(f[k]) != want:
                        return "%s is not diag(v) for the stride-%d view v" % (what, st)
                return None
            if op == "get":
                D = ints(out)
                if len(D) != n * n:
                    return "wrong number of elements"
                self.D = D
                seen = {}
                for i in range(n):
                    for j in range(n):
                        v = D[i * n + j]
                        if not self.pat(i, j):
                            if v != 0:
                                return "M(%d,%d)=%d outside the pattern (structural zero expected)" % (i, j, v)
                            continue
                        if v == 0:
                            return "M(%d,%d) reads 0 at a stored position (raw elements hold k+1)" % (i, j)
                        if self.size is not None and not (1 <= v <= self.size):
                            return "M(%d,%d) reads raw element %d outside [0,%d)" % (i, j, v - 1, self.size)
                        if is_symm(e) and D[j * n + i] != v:
                            return "M(%d,%d)=%d but M(%d,%d)=%d (symmetric engine)" % (i, j, v, j, i, D[j * n + i])
                        key = (min(i, j), max(i, j)) if is_symm(e) else (i, j)
                        if v in seen and seen[v] != key:
                            return "positions %s and %s share raw element %d" % (seen[v], key, v - 1)
                        seen[v] = key
                return None
            if self.D is None:
                return None
            D = self.D
            if op == "ptr":
                toks = out.split(",")
                if len(toks) != n * n:
                    return "wrong number of elements"
                for i in range(n):
                    for j in range(n):
                        t = toks[i * n + j]
                        if self.pat(i, j):
                            if t == "z" or "!" in t or int(t) != D[i * n + j] - 1:
                                return "&M(%d,%d)-data = %s but M(%d,%d) reads raw element %d" % (i, j, t, i, j, D[i * n + j] - 1)
                        elif t != "z":
                            return "lvalue M(%d,%d) outside the pattern did not throw (offset %s)" % (i, j, t)
                return None
            if op in ("wr", "wrdiag"):
                if op == "wr":
                    i, j = int(args[1]), int(args[2])
                else:
                    k, t = int(args[0]), int(args[1])
                    i, j = (t, t + k) if k >= 0 else (t - k, t)
                if not self.pat(i, j):
                    return None if out == "oob" else "write to (%d,%d) outside the pattern did not throw: %s" % (i, j, out)
                if out == "oob":
                    return "write to stored position (%d,%d) threw index_out_of_bounds" % (i, j)
                f = fields(out)
                want = ",".join("%d:%d:1000" % c for c in self.expect_changes(i, j))
                if f["chg"] != want:
                    return "write to (%d,%d) changed dense entries {%s}, expected {%s}" % (i, j, f["chg"], want)
                if f["raw"] != "%d:1000" % (D[i * n + j] - 1):
                    return "write to (%d,%d) changed raw elements {%s}, expected only %d" % (i, j, f["raw"], D[i * n + j] - 1)
                return None
            if op == "dense":
                return None if ints(out) == D else "Matrix(M) differs from the element-wise read of M"
            if op in ("fromdense", "scalar", "assign", "assignT"):
                f = fields(out)
                raw, view = ints(f["raw"]), ints(f["view"])
                if op == "fromdense":
                    if args[0] == "s":
                        src = lambda i, j: 100 * min(i, j) + max(i, j) + 1
                    elif e == "SymmEngine_ROW_LOWER_COL_UPPER":
                        src = lambda i, j: 100 * max(i, j) + min(i, j) + 1   # lower triangle of the source is read
                    elif e == "SymmEngine_ROW_UPPER_COL_LOWER":
                        src = lambda i, j: 100 * min(i, j) + max(i, j) + 1   # upper triangle of the source is read
                    else:
                        src = lambda i, j: 100 * i + j + 1
                elif op == "scalar":
                    src = lambda i, j: 5
                else:
                    N = self.dn()
                    if op == "assignT":
                        N = transpose(N, n)
                    src = lambda i, j: 2 * D[i * n + j] + N[i * n + j]
                nstored = 0
                for i in range(n):
                    for j in range(n):
                        want = src(i, j) if self.pat(i, j) else 0
                        if view[i * n + j] != want:
                            return "after the assignment M(%d,%d)=%d, the dense equivalent has %d" % (i, j, view[i * n + j], want)
                        if canonical(e, L, U, i, j):
                            nstored += 1
                            if raw[D[i * n + j] - 1] != want:
                                return "raw element of (%d,%d) holds %d, expected %d" % (i, j, raw[D[i * n + j] - 1], want)
                touched = sum(1 for v in raw if v != -1)
                if touched != nstored:
                    return "%d raw elements written, %d stored positions" % (touched, nstored)
                return None
            if op == "T":
                f = fields(out)
                Dt = transpose(D, n)
                if ints(f["conv"]) != Dt:
                    return "Matrix(M.T()) is not the transpose of M"
                if ints(f["get"]) != Dt:
                    return "M.T()(i,j) is not M(j,i)"
                if ints(f["convTT"]) != D:
                    return "Matrix(M.T().T()) is not M"
                return None
            if op == "diag":
                k = int(args[0])
                cells = [(t, t + k) if k >= 0 else (t - k, t) for t in range(n - abs(k))]
                if not any(self.pat(i, j) for (i, j) in cells):
                    return None if out == "oob" else "diag_vector(%d) lies outside the pattern but did not throw" % k
                if out == "oob":
                    return "diag_vector(%d) threw although the diagonal is stored" % k
                want = [D[i * n + j] for (i, j) in cells]
                return None if ints(out) == want else "diag_vector(%d) = %s, dense equivalent has %s" % (k, out, want)
            if op == "sub":
                a, b = int(args[0]), int(args[1])
                if not (0 <= a <= b < n):
                    return None if out == "oob" else "submatrix_on_diagonal(%d,%d) did not throw" % (a, b)
                if out == "oob":
                    return "submatrix_on_diagonal(%d,%d) threw" % (a, b)
                m = b - a + 1
                want = [D[(a + i) * n + (a + j)] for i in range(m) for j in range(m)]
                f = fields(out)
                if ints(f["get"]) != want:
                    return "submatrix_on_diagonal(%d,%d)(i,j) is not M(%d+i,%d+j)" % (a, b, a, a)
                if ints(f["conv"]) != want:
                    return "Matrix(submatrix_on_diagonal(%d,%d)) differs from the dense sub-block" % (a, b)
                if ints(f["convT"]) != transpose(want, m):
                    return "Matrix(submatrix_on_diagonal(%d,%d).T()) is not the transposed sub-block" % (a, b)
                return None
            if op in ("selfsub", "selfT", "selfexpr", "selfdiag"):
                return self.judge_self(op, args, out)
            if op in ("sinfo", "sdiag", "sTdiag", "swrdiag", "swr", "sT", "ssub", "sassign"):
                return self.judge_composed(op, args, out)
            if op == "cmp":
                return self.judge_cmp(args, out)
            if op == "act":
                return self.judge_act(args, out)
            if op in ("expr", "exprT"):
                N = self.dn()
                if op == "exprT":
                    N = transpose(N, n)
                want = [2 * D[k] + N[k] for k in range(n * n)]
                return None if ints(out) == want else "M*2+N%s differs from the same expression on the dense equivalents" % (".T()" if op == "exprT" else "")
            return "unknown op"
        except Exception as ex:  # malformed output is a failure of the implementation side, not of the oracle
            return "unparsable result %r (%s)" % (out[:120], ex)


def diag_cells(n, k):
    return [(t, t + k) if k >= 0 else (t - k, t) for t in range(n - abs(k))]


def _judge_self(self, op, args, out):
    """self-referential statement: the whole right-hand side is evaluated on the OLD dense view D, then stored.
    writes = [(I, J, value)] in statement order, in the semantics of the dense statement."""
    e, L, U, n, D = self.e, self.L, self.U, self.n, self.D
    old = lambda i, j: D[i * n + j]
    through_lvalue = False      # diag_vector views write raw elements directly (any stored position)
    if op == "selfsub":
        a, b, c, d = [int(x) for x in args[:4]]
        f = args[4]
        ok = lambda lo, hi: 0 <= lo <= hi < n
        if not (ok(a, b) and ok(c, d)):
            return None if out == "oob" else "submatrix_on_diagonal with an invalid range did not throw: %s" % out[:60]
        if b - a != d - c:
            return None if out == "mismatch" else "blocks of different size did not throw size_mismatch: %s" % out[:60]
        m = b - a + 1
        X = lambda i, j: old(c + i, c + j)
        F = {"k2": lambda i, j: 2 * X(i, j), "cp": X, "sum": lambda i, j: 2 * X(i, j) + X(i, j),
             "T": lambda i, j: X(j, i), "mixT": lambda i, j: 2 * X(i, j) + X(j, i)}[f]
        writes = [(a + i, a + j, F(i, j)) for i in range(m) for j in range(m)]
        src = [(c + i, c + j) for i in range(m) for j in range(m)]
        stmt = "M.submatrix_on_diagonal(%d,%d) = %s" % (a, b, {"k2": "2.0*X", "cp": "X", "sum": "2.0*X + X", "T": "X.T()",
                                                                 "mixT": "2.0*X + X.T()"}[f].replace("X", "M.submatrix_on_diagonal(%d,%d)" % (c, d)))
    elif op == "selfT":
        writes = [(i, j, old(j, i)) for i in range(n) for j in range(n)]
        src = [(i, j) for i in range(n) for j in range(n)]
        stmt = "M = M.T()"
    elif op == "selfexpr":
        writes = [(i, j, 3 * old(i, j)) for i in range(n) for j in range(n)]
        src = [(i, j) for i in range(n) for j in range(n)]
        stmt = "M = 2.0*M + M"
    else:
        k, k2, f = int(args[0]), int(args[1]), args[2]
        tc, sc = diag_cells(n, k), diag_cells(n, k2)
        stored = lambda cells: any(self.pat(i, j) for (i, j) in cells)
        if not (stored(tc) and stored(sc)):
            return None if out == "oob" else "diag_vector outside the pattern did not throw: %s" % out[:60]
        if len(tc) != len(sc):
            return None if out == "mismatch" else "diagonals of different length did not throw size_mismatch"
        w = [old(i, j) for (i, j) in sc]
        R = {"k2": [2 * x for x in w], "cp": w, "sum": [3 * x for x in w], "rev": [2 * x for x in reversed(w)]}[f]
        writes = [(tc[t][0], tc[t][1], R[t]) for t in range(len(tc))]
        src = sc
        through_lvalue = True
        stmt = "M.diag_vector(%d) = %s" % (k, {"k2": "2.0*w", "cp": "w", "sum": "2.0*w + w", "rev": "2.0*w(stride(len-1,0,-1))"}[f]
                                           .replace("w", "M.diag_vector(%d)" % k2))
    if out in ("oob", "mismatch"):
        return "%s threw (%s)" % (stmt, out)
    fl = fields(out)
    view, raw, dense = ints(fl["view"]), ints(fl["raw"]), ints(fl["dense"])
    # the statement on the dense equivalent (library) against evaluate-then-store on D (Python)
    want_dense = list(D)
    for (I, J, v) in writes:
        want_dense[I * n + J] = v
    # the special matrix: only stored positions are written (designated triangle of a symmetric engine, mirrored)
    want_view = list(D)
    want_raw = list(range(1, len(raw) + 1))
    target_raw = set()
    for (I, J, v) in writes:
        if not (self.pat(I, J) if through_lvalue else canonical(e, L, U, I, J)):
            continue
        want_view[I * n + J] = v
        if is_symm(e):
            want_view[J * n + I] = v
        want_raw[D[I * n + J] - 1] = v
        target_raw.add(D[I * n + J])
    for k in range(n * n):
        if view[k] != want_view[k]:
            return ("after %s M(%d,%d)=%d, but evaluating the right-hand side first and then storing gives %d (dense Matrix "
                    "after the same statement: %d) [alias=%s]" % (stmt, k // n, k % n, view[k], want_view[k], dense[k], fl["alias"]))
    if raw != want_raw:
        k = [x != y for x, y in zip(raw, want_raw)].index(True)
        return "after %s raw element %d holds %d, expected %d" % (stmt, k, raw[k], want_raw[k])
    if fl["alias"] == "0":
        shared = target_raw & {D[i * n + j] for (i, j) in src if self.pat(i, j)}
        if shared:
            return "%s: is_aliased reports no aliasing although target and source share raw element(s) %s" % (
                stmt, sorted(x - 1 for x in shared)[:4])
    if dense != want_dense:
        k = [x != y for x, y in zip(dense, want_dense)].index(True)
        return "DENSE:the same statement on the dense Matrix gives D(%d,%d)=%d, evaluate-then-store gives %d [%s]" % (
            k // n, k % n, dense[k], want_dense[k], stmt.replace("M", "D"))
    return None


Judge.judge_self = _judge_self


def _judge_composed(self, op, args, out):
    """operations on X = M.submatrix_on_diagonal(a,b): X stands for the dense block D[a..b, a..b]"""
    e, L, U, n, D = self.e, self.L, self.U, self.n, self.D
    a, b = int(args[0]), int(args[1])
    rest = args[2:]
    if not (0 <= a <= b < n):
        return None if out == "oob" else "submatrix_on_diagonal(%d,%d) did not throw: %s" % (a, b, out[:60])
    m = b - a + 1
    X = lambda i, j: D[(a + i) * n + (a + j)]
    what = "X = M.submatrix_on_diagonal(%d,%d): " % (a, b)
    if op == "sinfo":
        if out == "oob":
            return what + "threw"
        f = fields(out)
        ids = [X(i, j) - 1 for i in range(m) for j in range(m) if self.pat(a + i, a + j)]
        size = int(f["size"])
        if not (min(ids) == X(0, 0) - 1 and max(ids) - min(ids) < size):
            return what + "data_range (length %d from raw element %d) does not span its stored elements %d..%d" % (
                size, X(0, 0) - 1, min(ids), max(ids))
        return None
    if op in ("sdiag", "sTdiag"):
        k = int(rest[0])
        cells = diag_cells(m, k) if op == "sdiag" else [(j, i) for (i, j) in diag_cells(m, k)]
        name = what + ("X.diag_vector(%d)" if op == "sdiag" else "X.T().diag_vector(%d)") % k
        if not any(self.pat(a + i, a + j) for (i, j) in cells):
            return None if out == "oob" else name + " lies outside the pattern but did not throw"
        if out == "oob":
            return name + " threw although the diagonal is stored"
        want = [X(i, j) for (i, j) in cells]
        return None if ints(out) == want else "%s = %s, the dense block has %s" % (name, out, want)
    if op in ("swrdiag", "swr"):
        if op == "swr":
            i, j = int(rest[1]), int(rest[2])
            name = what + "X(%d,%d) = 1000" % (i, j)
        else:
            k, t = int(rest[0]), int(rest[1])
            i, j = diag_cells(m, k)[t]
            name = what + "X.diag_vector(%d)(%d) = 1000" % (k, t)
        I, J = a + i, a + j
        if not self.pat(I, J):
            return None if out == "oob" else "%s outside the pattern did not throw: %s" % (name, out[:80])
        if out == "oob":
            return name + " threw index_out_of_bounds at a stored position"
        f = fields(out)
        want = ",".join("%d:%d:1000" % c for c in self.expect_changes(I, J))
        if f["chg"] != want:
            return "%s changed dense entries {%s} of M, expected {%s}" % (name, f["chg"], want)
        if f["raw"] != "%d:1000" % (D[I * n + J] - 1):
            return "%s changed raw elements {%s}, expected only %d" % (name, f["raw"], D[I * n + J] - 1)
        return None
    blk = [X(i, j) for i in range(m) for j in range(m)]
    if op == "sT":
        if out == "oob":
            return what + "threw"
        f = fields(out)
        Bt = transpose(blk, m)
        if ints(f["conv"]) != Bt:
            return what + "Matrix(X.T()) is not the transposed dense block"
        if ints(f["get"]) != Bt:
            return what + "X.T()(i,j) is not X(j,i)"
        if ints(f["convTT"]) != blk:
            return what + "Matrix(X.T().T()) is not the dense block"
        return None
    if op == "ssub":
        a2, b2 = int(rest[0]), int(rest[1])
        if not (0 <= a2 <= b2 < m):
            return None if out == "oob" else what + "X.submatrix_on_diagonal(%d,%d) did not throw" % (a2, b2)
        if out == "oob":
            return what + "X.submatrix_on_diagonal(%d,%d) threw" % (a2, b2)
        m2 = b2 - a2 + 1
        want = [X(a2 + i, a2 + j) for i in range(m2) for j in range(m2)]
        f = fields(out)
        if ints(f["get"]) != want:
            return what + "X.submatrix_on_diagonal(%d,%d)(i,j) is not M(%d+i,%d+j)" % (a2, b2, a + a2, a + a2)
        if ints(f["conv"]) != want:
            return what + "Matrix(X.submatrix_on_diagonal(%d,%d)) differs from the dense sub-block" % (a2, b2)
        if ints(f["convT"]) != transpose(want, m2):
            return what + "Matrix(X.submatrix_on_diagonal(%d,%d).T()) is not the transposed sub-block" % (a2, b2)
        return None
    if op == "sassign":
        if out == "oob":
            return what + "threw"
        f = fields(out)
        raw, view = ints(f["raw"]), ints(f["view"])
        N = self.dn()
        want_view = [(-1 if self.pat(i, j) else 0) for i in range(n) for j in range(n)]
        want_raw = [-1] * len(raw)
        for i in range(m):
            for j in range(m):
                I, J = a + i, a + j
                if canonical(e, L, U, I, J):
                    v = 2 * D[I * n + J] + N[J * n + I]
                    want_view[I * n + J] = v
                    if is_symm(e):
                        want_view[J * n + I] = v
                    want_raw[D[I * n + J] - 1] = v
        if view != want_view:
            k = [x != y for x, y in zip(view, want_view)].index(True)
            return "after S.submatrix_on_diagonal(%d,%d) = 2*X + Y.T(): S(%d,%d)=%d, the dense equivalent has %d" % (
                a, b, k // n, k % n, view[k], want_view[k])
        if raw != want_raw:
            k = [x != y for x, y in zip(raw, want_raw)].index(True)
            return "after S.submatrix_on_diagonal(%d,%d) = 2*X + Y.T(): raw element %d holds %d, expected %d" % (a, b, k, raw[k], want_raw[k])
        return None
    return "unknown op"


Judge.judge_composed = _judge_composed



def nums(s):
    if s == "-":
        return []
    return [float(x) for x in s.split(",")]


def fmt(v):
    return "%d" % v if v == v and abs(v) < 1e15 and v == int(v) else repr(v)


def apply_op(op, x, y):
    """IEEE double arithmetic of the element-wise operation (Python floats are IEEE doubles)"""
    if op == "add":
        return x + y
    if op == "sub":
        return x - y
    if op == "mul":
        return x * y
    if y == 0:
        return float("nan") if x == 0 or x != x else (float("inf") if x > 0 else float("-inf"))
    return x / y


OPSYM = {"add": "+=", "sub": "-=", "mul": "*=", "div": "/="}


def view_geometry(self, tv, a):
    """the view V = M.submatrix_on_diagonal(a,b) (tv = v) or its .T() (tv = t): engine of V and the position of M that
    V(i,j) stands for"""
    ve = (self.e, self.L, self.U) if tv == "v" else transpose_engine(self.e, self.L, self.U)
    pos = (lambda i, j: (a + i, a + j)) if tv == "v" else (lambda i, j: (a + j, a + i))
    return ve, pos


def _judge_cmp(self, args, out):
    """compound operator on a view of M: (old V) OP rhs, rhs evaluated on the OLD dense views, stored at the canonical
    positions of V's engine; everything else unchanged"""
    e, L, U, n, D = self.e, self.L, self.U, self.n, self.D
    tv, op, form, src = args[0], args[3], args[4], args[5]
    a, b, c, d = int(args[1]), int(args[2]), int(args[6]), int(args[7])
    leaf = form in CMP_FORMS
    ok = lambda lo, hi: 0 <= lo <= hi < n
    if not ok(a, b) or (leaf and not ok(c, d)):
        return None if out == "oob" else "submatrix_on_diagonal with an invalid range did not throw: %s" % out[:60]
    if leaf and b - a != d - c:
        return None if out == "mismatch" else "blocks of different size did not throw size_mismatch: %s" % out[:60]
    m = b - a + 1
    dv = op == "div"
    fm = (lambda k: 8.0 * (k + 1)) if dv else (lambda k: k + 1.0)
    fn = (lambda k: float((1, 2, 4)[k % 3])) if dv else (lambda k: 1001.0 + k)
    Mold = lambda I, J: fm(D[I * n + J] - 1) if D[I * n + J] else 0.0
    Nold = lambda I, J: fn(D[I * n + J] - 1) if D[I * n + J] else 0.0
    (ve, vL, vU), pos = view_geometry(self, tv, a)
    S = Mold if src == "m" else Nold
    Y = (lambda i, j: S(c + i, c + j)) if tv == "v" else (lambda i, j: S(c + j, c + i))
    Ypos = (lambda i, j: (c + i, c + j)) if tv == "v" else (lambda i, j: (c + j, c + i))
    R = {"c": lambda i, j: 2.0,
         "D": (lambda i, j: float((1, 2, 4)[(i + 2 * j) % 3])) if dv else (lambda i, j: 100.0 * i + j + 1),
         "cp": Y, "k2": lambda i, j: 2.0 * Y(i, j), "T": lambda i, j: Y(j, i),
         "mixT": lambda i, j: 2.0 * Y(i, j) + Y(j, i)}[form]
    vname = "M.submatrix_on_diagonal(%d,%d)%s" % (a, b, ".T()" if tv == "t" else "")
    yname = "%s.submatrix_on_diagonal(%d,%d)%s" % ("M" if src == "m" else "N", c, d, ".T()" if tv == "t" else "")
    stmt = "%s %s %s" % (vname, OPSYM[op], {"c": "2.0", "D": "Dn", "cp": "Y", "k2": "2.0*Y", "T": "Y.T()", "mixT": "2.0*Y + Y.T()"}[form]
                         .replace("Y", yname))
    if out in ("oob", "mismatch"):
        return "%s threw (%s)" % (stmt, out)
    fl = fields(out)
    view, raw = nums(fl["view"]), nums(fl["raw"])
    want_view = [Mold(i, j) for i in range(n) for j in range(n)]
    want_raw = [fm(k) for k in range(len(raw))]
    target_raw = set()
    for i in range(m):
        for j in range(m):
            if not canonical(ve, vL, vU, i, j):
                continue
            I, J = pos(i, j)
            v = apply_op(op, Mold(I, J), R(i, j))
            want_view[I * n + J] = v
            if is_symm(e):
                want_view[J * n + I] = v
            want_raw[D[I * n + J] - 1] = v
            target_raw.add(D[I * n + J])
    for k in range(n * n):
        if view[k] != want_view[k]:
            return ("after %s M(%d,%d)=%s, but (old target) %s (right-hand side on the old values) on the dense equivalents gives %s "
                    "[alias=%s]" % (stmt, k // n, k % n, fmt(view[k]), OPSYM[op][0], fmt(want_view[k]), fl["alias"]))
    if raw != want_raw:
        k = [x != y for x, y in zip(raw, want_raw)].index(True)
        return "after %s raw element %d holds %s, expected %s" % (stmt, k, fmt(raw[k]), fmt(want_raw[k]))
    if fl["alias"] == "0" and leaf and src == "m":
        read = set()
        for i in range(m):
            for j in range(m):
                I, J = Ypos(i, j)
                if self.pat(I, J):
                    read.add(D[I * n + J])
        shared = target_raw & read
        if shared:
            return "%s: is_aliased reports no aliasing although target and source share raw element(s) %s" % (
                stmt, sorted(x - 1 for x in shared)[:4])
    return None


Judge.judge_cmp = _judge_cmp


def _judge_act(self, args, out):
    """assignment to an active view while recording: values and the recorded statements"""
    e, L, U, n, D = self.e, self.L, self.U, self.n, self.D
    tv, a, b, kind = args[0], int(args[1]), int(args[2]), args[3]
    if not (0 <= a <= b < n):
        return None if out == "oob" else "submatrix_on_diagonal with an invalid range did not throw: %s" % out[:60]
    m = b - a + 1
    (ve, vL, vU), pos = view_geometry(self, tv, a)
    vname = "A.submatrix_on_diagonal(%d,%d)%s" % (a, b, ".T()" if tv == "t" else "")
    stmt = "%s = %s" % (vname, {"x": "x", "c": "5.0", "cp": "BV", "k2": "2.0*BV", "T": "BV.T()", "mixT": "2.0*BV + BV.T()"}[kind])
    if out in ("oob", "mismatch"):
        return "%s threw (%s)" % (stmt, out)
    fl = fields(out)
    view, raw = nums(fl["view"]), nums(fl["raw"])
    tape = [] if fl["tape"] == "-" else fl["tape"].split(";")
    Bold = lambda I, J: 1000.0 + D[I * n + J] if D[I * n + J] else 0.0
    Bv = lambda i2, j2: Bold(*pos(i2, j2))

    def bterm(mult, i, j):      # what the leaf BV pushes when it is read at V-coordinates (i,j)
        I, J = pos(i, j)
        return ["%d*b%d" % (mult, D[I * n + J] - 1)] if self.pat(I, J) else []

    want_view = [float(v) for v in D]
    want_raw = [k + 1.0 for k in range(len(raw))]
    want_tape = []
    for i in range(m):
        for j in range(m):
            if not canonical(ve, vL, vU, i, j):
                continue
            I, J = pos(i, j)
            if kind == "x":
                v, ops = 7.0, ["1*x"]
            elif kind == "c":
                v, ops = 5.0, []
            elif kind == "cp":
                v, ops = Bv(i, j), bterm(1, i, j)
            elif kind == "k2":
                v, ops = 2.0 * Bv(i, j), bterm(2, i, j)
            elif kind == "T":
                v, ops = Bv(j, i), bterm(1, j, i)
            else:
                v, ops = 2.0 * Bv(i, j) + Bv(j, i), bterm(2, i, j) + bterm(1, j, i)
            want_view[I * n + J] = v
            if is_symm(e):
                want_view[J * n + I] = v
            want_raw[D[I * n + J] - 1] = v
            want_tape.append("a%d:%s" % (D[I * n + J] - 1, "+".join(ops)))
    for k in range(n * n):
        if view[k] != want_view[k]:
            return "after %s (active, recording) A(%d,%d)=%s, the dense equivalent has %s" % (stmt, k // n, k % n, fmt(view[k]), fmt(want_view[k]))
    if raw != want_raw:
        k = [x != y for x, y in zip(raw, want_raw)].index(True)
        return "after %s (active, recording) raw element %d holds %s, expected %s" % (stmt, k, fmt(raw[k]), fmt(want_raw[k]))
    if tape != want_tape:
        k = min(len(tape), len(want_tape))
        for t in range(k):
            if tape[t] != want_tape[t]:
                k = t
                break
        return ("%s (active, recording): recorded statement %d is `%s`, expected `%s` (lhs = gradient index of the stored element "
                "written, in row order; %d statements recorded, %d stored positions written)" % (
                    stmt, k, tape[k] if k < len(tape) else "<none>", want_tape[k] if k < len(want_tape) else "<none>",
                    len(tape), len(want_tape)))
    return None


Judge.judge_act = _judge_act


def model_text(op, out):
    """the part of an implementation line that the Lean model reproduces (the dense Matrix statement is not modelled)"""
    if op.startswith("self") and " dense=" in out:
        return out[:out.index(" dense=")]
    return out


def integral_values(out):
    try:
        f = fields(out)
        return all(v == int(v) for v in nums(f["raw"]) + nums(f["view"]))
    except Exception:
        return False


def model_pair(op, args, out, mline):
    """(implementation text, model text) to compare.  The model's values are integers: for `/=` the values are
    compared where every quotient is an integer, otherwise only the alias decision (the values are then judged by the
    oracle alone)."""
    if op == "cmp" and args[3] == "div" and " raw=" in out and not integral_values(out):
        cut = lambda t: t[:t.index(" raw=")] if (t and " raw=" in t) else t
        return cut(out), cut(mline)
    return model_text(op, out), mline


def split_line(line):
    w = line.split()
    return w[0], w[1], int(w[2]), int(w[3]), int(w[4]), w[5:]


def signature(e, L, U, op):
    return "%s(%d,%d):%s" % (e, L, U, op)


# ------------------------------------------------------------------ run
def run_lines(ctx, exe, lines, model_ok, label="main"):
    """impl + (model) + oracle over a list of op lines grouped by (engine, n); returns number of oracle failures"""
    text = "\n".join(lines) + "\n"
    tm = ctx.notes.setdefault("seconds", {"impl": 0.0, "model": 0.0, "oracle": 0.0})
    t0 = time.time()
    impl, rc, err = vcheck.run_impl(exe, [], text)
    tm["impl"] = round(tm["impl"] + time.time() - t0, 1)
    model = None
    if model_ok:
        try:
            t0 = time.time()
            model = vcheck.run_model("special", text)
            tm["model"] = round(tm["model"] + time.time() - t0, 1)
        except Exception as ex:   # a model driver that does not run is a broken correspondence, never a silent skip
            ctx.notes["model_driver_error"] = str(ex)[-800:]
            if not any(p.get("model_driver_error") for p in ctx.pending):
                ctx.pending.insert(0, {"kind": "correspondence", "correspondence": "adept_model special does not run",
                                       "ops": [lines[0]], "impl": None, "model": None, "model_driver_error": str(ex)[-1500:]})
            model = None
    nbad = 0
    judge, key = None, None
    t0 = time.time()
    for k, line in enumerate(lines):
        op, e, L, U, n, args = split_line(line)
        if (e, L, U, n) != key:
            key = (e, L, U, n)
            judge = Judge(e, L, U, n)
        if k >= len(impl):
            ctx.violation("the implementation stopped after %d of %d operations (rc=%s): %s" % (len(impl), len(lines), rc, err[-1500:]),
                          {"kind": "oracle", "ops": lines[max(0, k - 3):k + 1], "impl_stderr": err[-4000:], "rc": rc,
                           "signature": signature(e, L, U, op) + ":crash"})
            nbad += 1
            break
        out = impl[k]
        ctx.count_case(line, nontrivial=(n >= 2),
                       sample={"op": line, "impl": out[:160]} if (k % 997 == 0) else None)
        msg = judge.judge(op, args, out)
        if msg is not None:
            nbad += 1
            ctx.cov["oracle_failures"] = ctx.cov.get("oracle_failures", 0) + 1
            sig = signature(e, L, U, op if op not in ("cmp", "act") else "%s:%s" % (op, args[3]))
            if msg.startswith("DENSE:"):      # the special matrix is right; the dense Array statement is not (C04's subject)
                sig, msg = sig + ":dense-statement", msg[6:]
            if sig in ctx.seen_sigs:      # one report per (engine, operation); sizes are visited in increasing order
                continue
            ctx.seen_sigs.add(sig)
            ctx.violation("%s [%s]" % (msg, line),
                          {"kind": "oracle", "ops": ["info %s %d %d %d" % (e, L, U, n), "get %s %d %d %d" % (e, L, U, n), line],
                           "impl": out, "model": (model[k] if model and k < len(model) else None), "message": msg,
                           "cpp_type": TYPEDEFS.get((e, L, U), "SpecialMatrix<Real,%s%s>" % (e, "<%d,%d>" % (L, U) if e.startswith("Band") else "")),
                           "signature": sig})
        elif model is not None and (k >= len(model) or (lambda pr: pr[0] != pr[1])(model_pair(op, args, out, model[k]))):
            ctx.cov["disagreements_checked"] += 1
            if len(ctx.pending) < 3:
                ctx.pending.append({"kind": "correspondence",
                                    "correspondence": "AdeptModel/Generated/Engines.lean + AdeptModel/Special.lean <-> SpecialMatrix.h",
                                    "ops": [line], "impl": model_text(op, out), "model": model[k] if k < len(model) else None})
        elif model is not None and op == "cmp" and args[3] == "div" and " raw=" in out and not integral_values(out):
            ctx.cov["div_values_oracle_only"] = ctx.cov.get("div_values_oracle_only", 0) + 1
    ctx.cov["traces_validated_against_impl"] += len(lines) if model is not None else 0
    tm["oracle"] = round(tm["oracle"] + time.time() - t0, 1)
    return nbad


def caps(exe):
    lines = ["caps %s %d %d 1" % (e, L, U) for (e, L, U) in ENGINES]
    out, rc, err = vcheck.run_impl(exe, [], "\n".join(lines) + "\n")
    if len(out) != len(lines):
        raise vbuild.BuildError("drv_special does not answer `caps`: rc=%s %s" % (rc, err[-1500:]))
    return {ENGINES[k]: out[k] == "lvalue=1" for k in range(len(lines))}


def run(ctx, replay):
    ctx.pending = []
    ctx.seen_sigs = set()
    fails = []
    # 1 translate
    gen_ok = True
    try:
        path, changed = engines_tr.write(vbuild.REPO, os.path.join(vcheck.LEAN, "AdeptModel", "Generated", "Engines.lean"))
        ctx.notes["generated"] = {"file": os.path.relpath(path, vcheck.LEAN), "rewritten": changed}
    except engines_tr.TranslateError as ex:
        gen_ok = False
        fails.append("translate/engines.py cannot parse include/adept/SpecialMatrix.h any more: %s" % ex)
        ctx.cov["obligations"] += len(REQUIRED)
    # 2 lean gate
    model_ok = gen_ok
    if gen_ok:
        thms = [NS + t for t in vcheck.prop_theorems("AdeptProofs/Props/C17.lean", "C17_")]
        fails += vcheck.lean_gate(ctx, ["AdeptProofs.Props.C17"], thms, required=[NS + r for r in REQUIRED])
        if fails:
            rc, out = vcheck.lake_build(["adept_model"])
            model_ok = (rc == 0)
            if not model_ok:
                ctx.notes["model_driver_build"] = out[-1500:]
    # 3 build impl
    exe = vbuild.build("special", DRIVERS)
    lv = caps(exe)
    ctx.notes["passive_lvalue_compiles"] = {"%s(%d,%d)" % k: v for k, v in lv.items() if not v}
    if replay:
        r = json.load(open(replay))
        if r.get("ops"):
            run_lines(ctx, exe, r["ops"], model_ok, "replay")
        report(ctx, fails)
        return
    # 4/5 correspondence + oracle: corpus of past failures first
    cdir = os.path.join(vbuild.VERIF, "corpus", "C17")
    if os.path.isdir(cdir):
        for fn in sorted(os.listdir(cdir)):
            lines = [l.strip() for l in open(os.path.join(cdir, fn)) if l.strip() and not l.startswith("#")]
            if lines:
                run_lines(ctx, exe, lines, model_ok, "corpus/" + fn)
    nmax = 9 if ctx.tier == "quick" else 24
    nself = 7 if ctx.tier == "quick" else 12
    ncomp = 6 if ctx.tier == "quick" else 10
    ctx.notes["sizes"] = "1..%d" % nmax
    ctx.notes["sizes_self_referential"] = "1..%d" % nself
    ctx.notes["sizes_compositions"] = "1..%d" % ncomp
    ctx.notes["engines"] = ["%s(%d,%d)" % k for k in ENGINES]
    bad = 0
    nrand = 60 if ctx.tier == "quick" else 400
    cmp_stats, act_stats = {}, {}
    for (e, L, U) in ENGINES:
        lines = []
        for n in range(1, nmax + 1):
            lines += ops_for(e, L, U, n, lv[(e, L, U)], ctx.rng, full_sub=(n <= 12))
            if n <= ncomp:
                lines += composed_ops_for(e, L, U, n, lv[(e, L, U)], ctx.rng, full=(n <= 6))
            if n <= nself:
                lines += self_ops_for(e, L, U, n, ctx.rng, all_forms=(n <= 7))
            lines += cmp_ops_for(e, L, U, n, ctx.rng, n <= NDIRECTED, cmp_stats, nrandom=(0 if n <= NDIRECTED else nrand))
            lines += act_ops_for(e, L, U, n, ctx.rng, n <= NDIRECTED, act_stats, nrandom=(0 if n <= NDIRECTED else nrand // 2))
        bad += run_lines(ctx, exe, lines, model_ok)
    ctx.notes["compound_operator_inputs"] = dict(sorted(cmp_stats.items()))
    ctx.notes["active_assignment_inputs"] = dict(sorted(act_stats.items()))
    ctx.notes["compound_and_active_distribution"] = (
        "directed sweep for n = 1..%d in every run: every engine x {V, V.T()} x every target block x {+=,-=,*=,/=} x {scalar, dense, "
        "F(N block), F(M block c..c+m-1 for EVERY c)} with F in {Y, 2Y, Y.T(), 2Y+Y.T()}; every block x {V, V.T()} x {x, 5.0, BV, 2BV, "
        "BV.T(), 2BV+BV.T()} for active matrices; n = %d..%d: %d random compound lines (65%% on the target's own storage, source block "
        "at distance 0, +-1, +-(m-1), +-m or uniform; 15%% second matrix, 10%% scalar, 10%% dense) and %d random active lines per "
        "engine and size" % (NDIRECTED, NDIRECTED + 1, nmax, nrand, nrand // 2))
    ctx.cov["rule"] = ("every op line `<op> <engine> <L> <U> <n> args` is one evaluation: 24 engine instantiations (7 typedefs, their "
                       "column-major / opposite-orientation counterparts, band shapes (0,0) (1,1) (2,2) (0,2) (3,1) (4,4) (2,0) (1,3) in both "
                       "orders) x n = 1..%d x {info, get, ptr, dense, fromdense s/a, scalar, T, expr, exprT, assign, assignT} + write at "
                       "EVERY (i,j) (active lvalue; passive too where it compiles) + diag_vector(k) for every k + write through every "
                       "diag_vector element + submatrix_on_diagonal(a,b) for every pair in -1..n (n > 12: edges + 40 random pairs); "
                       "+ v.diag_matrix() for strides 1,2,3,5; + for n <= %d the compositions X = M.submatrix_on_diagonal(a,b) for EVERY block, then "
                       "X.diag_vector(k) / X.T().diag_vector(k) for every k of both signs, a write through every diag_vector element, a write at "
                       "every X(i,j) (active; passive where it compiles), X.T(), every X.submatrix_on_diagonal(a2,b2), X = expr (n > 6: "
                       "sampled writes and sub-sub-blocks); + for n <= %d the self-referential statements M.submatrix_on_diagonal(a,b) = "
                       "F(M.submatrix_on_diagonal(c,d)) for EVERY equal-size block pair (disjoint / one shared corner either way / overlapping / "
                       "identical) x F in {2X, X, 2X+X, X.T(), 2X+X.T()} (n > 7: 2X + one random F away from the corner cases), M = M.T(), "
                       "M = 2.0*M + M, M.diag_vector(k) = F(M.diag_vector(+-k)) for every k x {2w, w, 2w+w, 2*reversed w}, each also executed "
                       "on the dense Matrix and judged by evaluate-then-store on the old dense view; each result compared with the model (exact text) and judged by the dense-equivalent oracle; "
                       "+ compound operators (cmp) and assignments to active matrices with the recorded statements (act): see "
                       "notes.compound_and_active_distribution; "
                       "non-trivial = n >= 2; distinct = different op line" % (nmax, ncomp, nself))
    ctx.cov["exhaustive"] = True
    ctx.cov["exhaustive_domain"] = "all (i,j), all k, all (a,b) for the listed engines and sizes"
    ctx.assumptions += ["C++ Index arithmetic does not overflow (the Lean model is over unbounded Int)",
                        "aliasing right-hand sides: special-matrix leaves on the target's own storage (blocks, transposes, the matrix "
                        "itself) and diag_vector views; aliasing through dense Array views of other kinds is C04's subject",
                        "values are small integers, exact in double (compound `/=`: IEEE quotients, judged by the oracle in double "
                        "arithmetic; compared with the integer-valued model where every quotient is an integer, otherwise the model "
                        "is compared on the alias decision only — counted in coverage.div_values_oracle_only)",
                        "Engine::push_rhs (not translated) pushes exactly where Engine::value_at_location reads a stored element "
                        "(same test in the header; the correspondence runs compare every recorded operation)"]
    if (fails or ctx.pending) and not ctx.violations and ctx.tier == "quick":
        # a proof or the correspondence broke and the quick sizes show no property failure: search further with the oracle
        for (e, L, U) in ENGINES:
            lines = []
            for n in range(10, 13):
                lines += ops_for(e, L, U, n, lv[(e, L, U)], ctx.rng, full_sub=False)
            for n in range(8, 11):
                lines += (["info %s %d %d %d" % (e, L, U, n), "get %s %d %d %d" % (e, L, U, n)]
                          + self_ops_for(e, L, U, n, ctx.rng, all_forms=False)
                          + cmp_ops_for(e, L, U, n, ctx.rng, False, {}, nrandom=200)
                          + act_ops_for(e, L, U, n, ctx.rng, False, {}, nrandom=100)
                          + (composed_ops_for(e, L, U, n, lv[(e, L, U)], ctx.rng, full=False) if n == 8 else []))
            run_lines(ctx, exe, lines, False, "search")
        ctx.notes["extended_search"] = "n = 10..12, oracle only"
    report(ctx, fails)


def report(ctx, fails):
    if fails:
        ctx.notes["gate_failures"] = [f[:1500] for f in fails]
    if ctx.violations:
        return
    for p in ctx.pending[:1]:
        ctx.violation("model and implementation disagree on `%s` (impl %r, model %r); the dense-equivalent oracle found no input on "
                      "which the property itself fails" % (p["ops"][0], (p["impl"] or "")[:80], (p["model"] or "")[:80]),
                      p, tag="c", no_input=True)
    if fails and not ctx.violations:
        ctx.violation("proof obligation of C17 no longer checks: " + fails[0][:600],
                      {"kind": "proof", "theorem": "AdeptProofs/Props/C17.lean (+ Lemmas/Special.lean, Generated/Engines.lean)",
                       "failures": fails}, tag="p", no_input=True)
