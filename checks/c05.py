"""C05 — vectorized evaluation equals scalar evaluation on every instruction set  (level: other = proof + exploration)

proved: lean/AdeptProofs/Props/C05.lean — for EVERY packet size W > 1, length, address and expression tree: the loop
        partition [0,istart) u [istart,iend) u [iend,n), W | iend-istart, istart < W, alignment of every packet access of
        the body (target and leaves, every row), the alignment negotiation over expression trees, the row-padding rule,
        and that the vectorized reduction accumulates every element exactly once (= the scalar fold over a commutative
        monoid); the `is_vectorizable` trait of EVERY expression node class (census regenerated from the sources by
        translate/vectrait.py on every run) obeys the rule Node.sound, the model's Expr.vectorizable is the meaning of those
        declarations, and a statement whose tree contains a non-vectorizable node anywhere (spread along the last dimension,
        outer_product, pow / abs / comparisons / mixed element types, IndexedArray ...) runs NO packets.  Three code sites are false at full strength in their pinned form (F-51, F-52, F-53): proved for the
        repaired form, as _partial for every form, refuted on witnesses in AdeptProofs/Refute/Simd.lean.
tie:    hook H2 (RJHOGAN_ADEPT_2_VERIF) records (istartvec, iendvec, packets processed) in the packet loops of
        Array::assign_expression_ (rank 1, rank > 1) and reduce_inactive; harness/drv_simd*.cpp builds the statements on
        sub-views of over-allocated arrays and reports the geometry the library itself holds (addresses, offsets);
        AdeptModel/Simd.lean (driver family `simd`) must predict the three integers EXACTLY, exhaustively over lengths
        0..4W+3 x alignment offsets 0..W-1 of the target and of the operands x contiguous/strided x padded/unpadded
        rows, per instruction-set build (SSE2, AVX, AVX2+FMA, AVX-512F; -ffp-contract=off), float and double; family
        `nodes` (harness/drv_simd_node.h): statements over spread<d> (first / last dimension, ranks 2 and 3, n around 2W),
        outer_product, pow, abs, isnan, comparisons, mixed float/double, IndexedArray, transposes, nested dimension reductions,
        scalar broadcast, where / either_or, alone and nested in element-wise operations, assigned and reduced: directed
        sweep + random cases per build, same hook comparison (the driver, not the library, says which node is which).
        Which of the pinned/repaired forms the three sites have is read from the sources (small translator below) and
        validated by the same comparison.
oracle: (logic runs) every element of the result equals a plain scalar loop on exact small-integer data, nothing outside
        the target view is written, no fault (a misaligned aligned-load raises SIGSEGV; the driver reports it).
explored, NOT proved: lane-wise equality of the intrinsics with the scalar operation and all rounding: results of
        + - * / sqrt min max, unary minus, a*b+c and two mixed expressions compared bit for bit with a scalar build
        (packet size 1) of the same sources on special and random finite values; reductions within n*eps*sum|x_i|;
        fastexp scalar == packet bit for bit in one default-flags (-O2, contraction on) build per instruction set,
        <= 2 ulp from expl() where the result is a normal number well inside the range, agreement between instruction
        sets, recorded derivative == value.
"""
import os, re, json, struct, math, subprocess, sys
from concurrent.futures import ThreadPoolExecutor
import vbuild, vcheck

LEVEL = "other"
NS = "Adept.Simd."
REQUIRED = ["C05_partition_assign", "C05_partition_reduce", "C05_body_aligned_partial", "C05_body_aligned",
            "C05_reduce_body_aligned", "C05_negotiation_agree", "C05_negotiation_clash", "C05_negotiation_forces_scalar",
            "C05_negotiation_forces_scalar_reduce", "C05_negotiation_vector_taken", "C05_row_padding_rule",
            "C05_row_padding_rows", "C05_row_padding_fresh", "C05_rows_aligned_partial", "C05_rows_aligned",
            "C05_reduce_split_perm", "C05_reduce_split_value", "C05_every_node_vectorizable_trait_sound",
            "C05_model_nodes_match_census", "C05_nonvectorizable_node_anywhere", "C05_nonvectorizable_runs_no_packets"]
REFUTE = ["C05_refute_fixed_offset", "C05_refute_fixed_rows", "C05_refute_outer_offsets"]

# name, compiler flags, /proc/cpuinfo flags needed, W(float), W(double)
ISAS = [("sse2", ["-msse2"], ["sse2"], 4, 2),
        ("avx", ["-mavx"], ["avx"], 8, 4),
        ("avx2fma", ["-mavx2", "-mfma"], ["avx2", "fma"], 8, 4),
        ("avx512f", ["-mavx512f"], ["avx512f"], 16, 8)]
LIBS = ["Array", "Stack", "StackStorageOrig", "Storage", "jacobian", "settings", "index"]
DRV = ["drv_simd.cpp", "drv_simd_asg_f.cpp", "drv_simd_asg_d.cpp", "drv_simd_red_f.cpp", "drv_simd_red_d.cpp",
       "drv_simd_node_f.cpp", "drv_simd_node_d.cpp", "drv_simd_num.cpp"]
ASAN = ["-fsanitize=address", "-fno-omit-frame-pointer"]
ENV = {"ASAN_OPTIONS": "handle_segv=0:allow_user_segv_handler=1:detect_leaks=0:abort_on_error=0:halt_on_error=1"}
FUNCS = ["sum", "product", "maxval", "minval", "mean", "norm2"]

SIG_F28 = "c05:fixedarray-alignment-offset-inverted"
SIG_F29 = "c05:fixedarray-rows-not-padded"
SIG_F30 = "c05:outer-offsets-not-tested"


# ------------------------------------------------------------------ translator: which form do the three sites have
def _strip(s):
    s = re.sub(r"//[^\n]*", "", s)
    return re.sub(r"\s+", "", s)


SITES = {
    "fixedToBoundary": ("FixedArray.h", r"template\s*<int n>\s*int alignment_offset_\(\) const \{(.*?)\n    \}",
                        "return(reinterpret_cast<std::size_t>(data_)/sizeof(Type))%n;",
                        "return(n-(reinterpret_cast<std::size_t>(data_)/sizeof(Type))%n)%n;"),
    "fixedRowsChecked": ("FixedArray.h", r"bool all_arrays_contiguous_\(\) const \{(.*?)\}",
                         "returntrue;",
                         "returnrank<2||dimension_<rank-1>::value%Packet<Type>::size==0;"),
    "allOuterChecked": ("Array.h", r"enable_if<\(ARank>1\)&&Packet<Type>::is_vectorized,bool>::type\s*columns_aligned_\(\) const \{(.*?)\n    \}",
                        "returnoffset_[Rank-2]%Packet<Type>::size==0;",
                        "for(inti=0;i<Rank-1;++i){if(offset_[i]%Packet<Type>::size!=0){returnfalse;}}returntrue;"),
}
SITE_ORDER = ["fixedToBoundary", "fixedRowsChecked", "allOuterChecked"]


def detect_cfg():
    """-> ({site: True (repaired) / False (pinned) / None (unrecognised)}, {site: normalised body})"""
    cfg, bodies = {}, {}
    for name, (fn, rx, pinned, repaired) in SITES.items():
        try:
            txt = open(os.path.join(vbuild.REPO, "include", "adept", fn)).read()
        except OSError:
            cfg[name] = None; bodies[name] = "(cannot read %s)" % fn
            continue
        ms = re.findall(rx, txt, flags=re.S)
        body = _strip(ms[0]) if len(ms) == 1 else "(%d matches)" % len(ms)
        bodies[name] = body
        cfg[name] = False if body == pinned else True if body == repaired else None
    return cfg, bodies


def hook_present():
    inc = os.path.join(vbuild.REPO, "include", "adept")
    missing = []
    for fn, need in (("Packet.h", 1), ("Array.h", 4), ("reduce.h", 2)):
        try:
            n = open(os.path.join(inc, fn)).read().count("verif_simd_()")
        except OSError:
            n = 0
        if n < need:
            missing.append("%s (%d of %d hook sites)" % (fn, n, need))
    return missing


def cpu_flags():
    try:
        for line in open("/proc/cpuinfo"):
            if line.startswith("flags"):
                return set(line.split(":", 1)[1].split())
    except OSError:
        pass
    return set()


# ------------------------------------------------------------------ builds
def build_all(isas, hook, want_fx=True, want_scalar=True, only=None):
    H = os.path.join(vbuild.VERIF, "harness")
    lib = [os.path.join(vbuild.REPO, "adept", s + ".cpp") for s in LIBS]
    srcs = lib + [os.path.join(H, d) for d in DRV]
    num_srcs = lib + [os.path.join(H, d) for d in ("drv_simd.cpp", "drv_simd_num.cpp")]
    defs = ["VERIF_HAVE_H2"] if hook else []
    num_defs = defs + ["VERIF_SIMD_NUM_ONLY"]
    vbuild.header_hash()
    jobs = {}
    with ThreadPoolExecutor(max_workers=10) as ex:
        for name, flags, _, _, _ in isas:
            if only is None or only == "isa:" + name:
                jobs["isa:" + name] = ex.submit(vbuild.build, "simd-" + name, srcs, defines=defs, san="none",
                                                extra=flags + ASAN, with_lib=False)
            if want_fx and (only is None or only == "fx:" + name):
                jobs["fx:" + name] = ex.submit(vbuild.build, "simd-fx-" + name, num_srcs, defines=num_defs, san="none",
                                               extra=flags + ["-ffp-contract=fast"], with_lib=False, opt="-O2")
        if want_scalar:
            jobs["scalar"] = ex.submit(vbuild.build, "simd-scalar", num_srcs, san="none", with_lib=False,
                                       defines=num_defs + ["ADEPT_DOUBLE_PACKET_SIZE=1", "ADEPT_FLOAT_PACKET_SIZE=1"])
        return {k: f.result() for k, f in jobs.items()}


def run_ops(exe, ops, max_deaths=3):
    """run the driver over ops; a process death is the result of the op it died on, the rest is resumed"""
    out = [None] * len(ops)
    pos, deaths = 0, []
    while pos < len(ops):
        lines, rc, err = vcheck.run_impl(exe, [], "\n".join(ops[pos:]) + "\n", env=ENV, timeout=3000)
        lines = lines[:len(ops) - pos]
        for i, l in enumerate(lines):
            out[pos + i] = l
        if len(lines) >= len(ops) - pos:
            break
        k = pos + len(lines)
        out[k] = "DIED rc=%s %s" % (rc, " ".join((vcheck.san_summary(err) or err[-600:]).split())[:700])
        deaths.append(k)
        pos = k + 1
        if len(deaths) >= max_deaths:
            break
    return out


# ------------------------------------------------------------------ logic families (exhaustive)
def pal(x, W):
    return (x + W - 1) // W * W


def gen_logic(T, W, tier):
    """harness ops of the main (no finding expected) logic families for element type T with packet size W"""
    ops = []
    N = 4 * W + 3
    full = tier == "thorough" or W <= 8
    offs = list(range(W))
    few = sorted(set([0, 1, W // 2, W - 1]))
    # -- packing rule, ranks 2 and 3
    for n in list(range(1, N + 1)) + [5 * W, 5 * W + 1, 8 * W - 1]:
        ops.append("pack %s 3,%d" % (T, n))
        ops.append("pack %s 2,3,%d" % (T, n))
        if n % 3 == 0:
            ops.append("packc %s 2,3,%d" % (T, n))
    # -- rank 1, two operands: every length x every offset of target and both operands
    for n in range(0, N + 1):
        for t in offs:
            for k1 in offs:
                k2s = offs if full else sorted(set([0, 1, t, k1, (k1 + 1) % W, W - 1]))
                for k2 in k2s:
                    ops.append("asg1 %s 0 %d %d,1 %d,1 %d,1 0,1" % (T, n, t, k1, k2))
    # -- other statement shapes: every length x target offset x operand offset
    for shape in (1, 2, 3, 4, 6, 7, 8, 9):
        for n in range(0, N + 1):
            for t in (offs if full else few):
                for k1 in offs:
                    if shape in (7, 8, 9):
                        for k2 in (k1, (k1 + 1) % W):
                            ops.append("asg1 %s %d %d %d,1 %d,1 %d,1 0,1" % (T, shape, n, t, k1, k2))
                    else:
                        ops.append("asg1 %s %d %d %d,1 %d,1 0,1 0,1" % (T, shape, n, t, k1))
    # -- three operands
    for shape in (5, 10):
        for n in sorted(set([0, 1, 2 * W - 1, 2 * W, 2 * W + 1, 3 * W + 2, N])):
            for t in offs:
                for k1 in (offs if full else few):
                    for k2 in sorted(set([k1, t])):
                        for k3 in sorted(set([k1, (k1 + 1) % W])):
                            ops.append("asg1 %s %d %d %d,1 %d,1 %d,1 %d,1" % (T, shape, n, t, k1, k2, k3))
    # -- strided target / operands: never vectorized
    for (ts, s1, s2) in ((2, 1, 1), (1, 2, 1), (1, 1, 2), (2, 2, 2), (1, 3, 1)):
        for n in range(0, N + 1, 3):
            for k in (0, 1):
                ops.append("asg1 %s 0 %d %d,%d %d,%d %d,%d 0,1" % (T, n, k, ts, k, s1, k, s2))
    # -- rank 2: fresh (library padding) and column sub-views of contiguous arrays with aligned / unaligned pitch
    ks = offs if full else few
    for shape in (0, 2):
        for m in ((1, 3) if tier == "thorough" else (2,)):
            for n in range(1, N + 1):
                tgts = [(0, 0)] + [(k, pal(k + n, W) + d) for k in ks for d in (0, 1)]
                srcs = [(0, 0)] + [(k, pal(k + n, W) + d) for k in ks for d in (0, 1)]
                if not full or shape == 2:
                    srcs = [(0, 0)] + [(k, pal(k + n, W) + d) for k in few for d in (0, 1)]
                for (tk, tP) in tgts:
                    for (k1, P1) in srcs:
                        ops.append("asg2 %s %d %d %d %d,%d %d,%d 0,0" % (T, shape, m, n, tk, tP, k1, P1))
    # -- tall narrow blocks: at least two packets of ROWS but a row shorter than two packets (down to shorter than the alignment
    #    offset of its first element): the row LENGTH, not the number of rows, decides whether the packet partition is used
    for shape in (0, 2):
        for m in (2 * W - 1, 2 * W, 2 * W + 1, 4 * W):
            for n in sorted(set(list(range(1, W + 1)) + [2 * W - 1, 2 * W])):
                for k in range(0, W):
                    P = pal(k + n, W)
                    ops.append("asg2 %s %d %d %d %d,%d %d,%d 0,0" % (T, shape, m, n, k, P, k, P))
                    if k in few:
                        ops.append("asg2 %s %d %d %d %d,%d %d,%d 0,0" % (T, shape, m, n, k, P + W, k, P))
                        ops.append("asg2 %s %d %d %d 0,0 %d,%d 0,0" % (T, shape, m, n, k, P))
    for n in range(1, N + 1):   # second operand in a view as well, three leaves
        for k in few:
            P = pal(k + n, W)
            ops.append("asg2 %s 5 2 %d %d,%d %d,%d %d,%d" % (T, n, k, P, k, P, k, P + W))
            ops.append("asg2 %s 0 2 %d %d,%d %d,%d %d,%d" % (T, n, k, P, k, P, (k + 1) % W, P + W))
    # -- rank 3: fresh / contiguous (permuted views are in the probe family)
    for n in range(1, N + 1):
        for (d0, d1) in ((2, 3), (3, 2)):
            for (kt, ka) in ((0, 0), (0, 1), (1, 0), (1, 1)):
                ops.append("asg3 %s 0 %d %d %d %d %d" % (T, d0, d1, n, kt, ka))
    # -- reductions
    for func in FUNCS:
        for n in range(0, N + 1):
            for k1 in offs:
                ops.append("red1 %s %s 0 %d %d,1 0,1" % (T, func, n, k1))
                if func in ("sum", "maxval") or (k1 in few and func != "product"):
                    for k2 in (offs if (func == "sum" and full) else sorted(set([k1, (k1 + 1) % W]))):
                        ops.append("red1 %s %s 1 %d %d,1 %d,1" % (T, func, n, k1, k2))
                if k1 in few:
                    ops.append("red1 %s %s 2 %d %d,1 0,1" % (T, func, n, k1))
            for k in (0, 1):
                if n % 3 == 0:
                    ops.append("red1 %s %s 0 %d %d,2 0,1" % (T, func, n, k))
    for func in ("sum", "product", "maxval", "minval", "norm2"):
        for m in ((1, 3) if tier == "thorough" else (2,)):
            for n in range(1, N + 1):
                for (k1, P1) in [(0, 0)] + [(k, pal(k + n, W) + d) for k in (ks if func == "sum" else few) for d in (0, 1)]:
                    ops.append("red2 %s %s 0 %d %d %d,%d 0,0" % (T, func, m, n, k1, P1))
                    if func == "sum":
                        ops.append("red2 %s %s 1 %d %d %d,%d 0,0" % (T, func, m, n, k1, P1))
    # -- FixedArray leaves in the classes where pinned and repaired forms agree (kf % W in {0, W/2}; aligned rows)
    for N_ in (8, 19, 35, 67):
        for kf in (0, W // 2):
            for t in offs:
                for shape in (0, 2):
                    ops.append("asgf %s %d %d %d %d %d" % (T, shape, N_, t, kf, t if shape != 2 else kf))
            for func in ("sum", "maxval", "product"):
                ops.append("redf %s %s %d %d" % (T, func, N_, kf))
    for shp, n in (("3x8", 8), ("2x32", 32)):
        if n % W == 0:
            for kf in (0, W // 2):
                for tP in (0, pal(n, W), pal(n, W) + 1):
                    ops.append("asgf2 %s %s %d %d" % (T, shp, kf, tP))
                ops.append("redf2 %s sum %s %d" % (T, shp, kf))
    return ops


def gen_probe(T, W):
    """(op, signature) pairs: the classes in which the pinned form of a site is wrong (findings F-51, F-52, F-53)"""
    out = []
    for N_ in (8, 19, 35, 67):
        for t in range(W):
            # tgt = f: assign_expression_ takes the FixedArray BY VALUE, so the leaf that is read is a copy on the stack whose
            # alignment the driver cannot know (reported as F:?): judged by the oracle only, no model comparison
            out.append(("asgf %s 1 %d %d 0 %d" % (T, N_, t, t), SIG_F28))
        for kf in range(W):
            if kf in (0, W // 2):
                continue
            for t in range(W):
                for shape in (0, 2):
                    out.append(("asgf %s %d %d %d %d %d" % (T, shape, N_, t, kf, t if shape != 2 else (W - kf) % W), SIG_F28))
            for func in ("sum", "maxval"):
                out.append(("redf %s %s %d %d" % (T, func, N_, kf), SIG_F28))
    for shp, n in (("3x5", 5), ("3x8", 8), ("2x19", 19), ("2x32", 32), ("2x35", 35)):
        if n % W != 0:
            for kf in (0, W // 2):
                for tP in (0, pal(n, W), pal(n, W) + 1):
                    out.append(("asgf2 %s %s %d %d" % (T, shp, kf, tP), SIG_F29))
                out.append(("redf2 %s sum %s %d" % (T, shp, kf), SIG_F29))
    for n in range(1, 4 * W + 4):
        for (d0, d1) in ((2, 3), (3, 2), (2, 2), (4, 2)):
            for (kt, ka) in ((0, 2), (2, 0), (2, 2), (1, 2)):
                out.append(("asg3 %s 0 %d %d %d %d %d" % (T, d0, d1, n, kt, ka), SIG_F30))
    return out


# ------------------------------------------------------------------ nodes that are not element-wise packet operations
N1KINDS = ["pow(a,b)", "pow(a,2)", "abs(a-b)", "a+abs(b)", "a<b", "float+double", "a(iv)+b", "a+sum(M,0)", "where=either_or",
           "where=a+b", "2*a+1", "isnan(a)", "-a+pow(2,b)"]
N2KINDS = ["spread<1>(u,n)", "spread<0>(v,m)", "spread<1>+B", "spread<0>*B", "outer(u,v)", "outer+B", "2*outer", "A.T()", "A.T()+B",
           "pow(B,2)", "-spread<1>", "spread<0>+spread<1>", "3*spread<0>-B"]
N3KINDS = ["spread<0>(M,d0)", "spread<1>(M,d1)", "spread<2>(M,n)"]
NRKINDS = ["spread<1>", "spread<0>", "outer", "pow(v,2)", "v(iv)", "A.T()", "spread<0>+spread<1>"]
NFUNCS = ["sum", "maxval", "minval", "mean", "norm2"]


def node_kind(op):
    w = op.split()
    if w[0] == "nod1":
        return "rank1 " + N1KINDS[int(w[2])]
    if w[0] == "nod2":
        return "rank2 " + N2KINDS[int(w[2])]
    if w[0] == "nod3":
        return "rank3 " + N3KINDS[int(w[2])]
    return "reduce " + NRKINDS[int(w[3])]


def gen_nodes(T, W, tier):
    """directed sweep over the statements whose tree contains a node that is not an element-wise packet operation"""
    ops = []
    N = 4 * W + 3
    offs3 = sorted(set([(0, 0, 0), (1, 1, 1), (W // 2, W // 2, W // 2), (W - 1, W - 1, 0)]))
    for kind in range(len(N1KINDS)):
        for n in range(0, N + 1):
            for (t, k1, k2) in offs3:
                ops.append("nod1 %s %d %d %d %d %d" % (T, kind, n, t, k1, k2))
    ns = sorted(set([1, W - 1, W, 2 * W - 1, 2 * W, 2 * W + 1, 3 * W - 1, 3 * W, 4 * W, N]))
    ms = sorted(set([1, 2, 3, W + 1] + ([2 * W, 2 * W + 1] if tier == "thorough" else [])))
    for kind in range(len(N2KINDS)):
        for m in ms:
            for n in ns:
                tg = [(0, 0, 0), (0, 0, 1)] + [(k, pal(k + n, W) + d, kk) for (k, d) in ((1, 0), (W - 1, 1)) for kk in (k, (k + 1) % W)]
                tg = sorted(set(tg))
                for (tk, tP, k) in tg:
                    ops.append("nod2 %s %d %d %d %d,%d %d,1 %d,1" % (T, kind, m, n, tk, tP, k, k))
                if n in (2 * W, 2 * W + 1):     # strided vector arguments: never on the packet path
                    ops.append("nod2 %s %d %d %d 0,0 0,2 0,1" % (T, kind, m, n))
                    ops.append("nod2 %s %d %d %d 0,0 0,1 0,2" % (T, kind, m, n))
    for kind in range(len(N3KINDS)):
        for (d0, d1) in ((2, 3), (3, 2)):
            for n in range(1, N + 1):
                for kt in (0, 1):
                    ops.append("nod3 %s %d %d %d %d %d" % (T, kind, d0, d1, n, kt))
    for func in NFUNCS:
        for kind in range(len(NRKINDS)):
            for m in (1, 2, 3):
                for n in sorted(set([1, W, 2 * W - 1, 2 * W, 2 * W + 1, 3 * W, N])):
                    for k in sorted(set([0, 1, W - 1])):
                        ops.append("nodr %s %s %d %d %d %d,1 %d,1" % (T, func, kind, m, n, k, k))
                    if n == 2 * W + 1:
                        ops.append("nodr %s %s %d %d %d 0,2 0,2" % (T, func, kind, m, n))
    return ops


def gen_nodes_random(rng, T, W, count):
    ops = []
    N = 4 * W + 3
    for _ in range(count):
        fam = rng.choice(["nod1", "nod2", "nod2", "nod3", "nodr"])
        k = lambda: rng.randrange(W)
        st = lambda: rng.choice([1, 1, 1, 1, 2, 3])
        n = rng.choice([rng.randrange(1, N + 1), rng.randrange(2 * W - 1, 2 * W + 2), rng.randrange(1, 6 * W)])
        if fam == "nod1":
            ops.append("nod1 %s %d %d %d %d %d" % (T, rng.randrange(len(N1KINDS)), rng.randrange(0, N + 1), k(), k(), k()))
        elif fam == "nod2":
            tk = k()
            tP = rng.choice([0, pal(tk + n, W), pal(tk + n, W) + 1, pal(tk + n, W) + W])
            ops.append("nod2 %s %d %d %d %d,%d %d,%d %d,%d" % (T, rng.randrange(len(N2KINDS)), rng.randrange(1, W + 3), n, tk, tP,
                                                               k(), st(), k(), st()))
        elif fam == "nod3":
            ops.append("nod3 %s %d %d %d %d %d" % (T, rng.randrange(3), rng.randrange(1, 5), rng.randrange(1, 5), min(n, 200), rng.randrange(2)))
        else:
            ops.append("nodr %s %s %d %d %d %d,%d %d,%d" % (T, rng.choice(NFUNCS), rng.randrange(len(NRKINDS)), rng.randrange(1, 4),
                                                          min(n, N), k(), st(), k(), st()))
    return ops


def run_translator():
    """regenerate the census of the is_vectorizable trait from the working tree -> (returncode, message)"""
    tr = subprocess.run([sys.executable, os.path.join(vbuild.VERIF, "translate", "vectrait.py")], stdout=subprocess.PIPE,
                        stderr=subprocess.STDOUT, text=True, env=dict(os.environ, VERIF_REPO=vbuild.REPO))
    return tr.returncode, tr.stdout.strip()


def model_line(g, bits):
    w = g.split()
    if w[0] in ("asg", "red"):
        return " ".join(w[:2] + [bits] + w[2:])
    return " ".join(w)


def expected_site(g, vec):
    w = g.split()
    if not vec or w[0] not in ("asg", "red"):
        return 0
    if w[0] == "red":
        return 3
    return 1 if w[2].split(":")[3] == "-" else 2


def judge_logic(label, exe, ops, bits, W_of):
    """run ops on one build; returns dict(cases, vec, packets, corr=[mismatch dicts], fail=[oracle failure dicts])"""
    res = {"cases": 0, "vec": 0, "packets": 0, "corr": [], "fail": [], "nontrivial": set(), "ops_by": {}}
    out = run_ops(exe, ops)
    parsed, mlines, midx = [], [], []
    for i, (op, line) in enumerate(zip(ops, out)):
        if line is None:
            continue
        res["cases"] += 1
        if op.startswith("nod"):
            kd = node_kind(op)
            res["ops_by"][kd] = res["ops_by"].get(kd, 0) + 1
        if not line.startswith("G "):
            res["fail"].append({"op": op, "line": line, "why": "driver did not answer (%s)" % line[:200]})
            parsed.append(None)
            continue
        parts = [p.strip() for p in line.split(" | ")]
        if len(parts) != 3 or not parts[1].startswith("H "):
            res["fail"].append({"op": op, "line": line, "why": "unparsable driver line"})
            parsed.append(None)
            continue
        g, h, r = parts[0][2:], parts[1][2:], parts[2]
        if "F:?" in g:      # geometry unknown to the driver: oracle only
            res["oracle_only"] = res.get("oracle_only", 0) + 1
            if r != "R ok":
                res["fail"].append({"op": op, "line": line, "why": r})
            if " pk=0" not in h:
                res["nontrivial"].add(op)
            parsed.append(None)
            continue
        parsed.append((i, op, g, h, r, line))
        mlines.append(model_line(g, bits))
        midx.append(len(parsed) - 1)
    model = vcheck.run_model("simd", "\n".join(mlines) + "\n") if mlines else []
    if len(model) != len(mlines):
        res["corr"].append({"op": "(all)", "why": "model driver answered %d of %d lines" % (len(model), len(mlines))})
        return res
    for mi, pi in enumerate(midx):
        i, op, g, h, r, line = parsed[pi]
        hw = dict(t.split("=") for t in h.split() if "=" in t)
        if "vec" in hw:
            hook = "vec=%s is=%s ie=%s pk=%s" % (hw["vec"], hw["is"], hw["ie"], hw["pk"])
            vec, pk = hw["vec"] == "1", int(hw["pk"])
            site_ok = int(hw["site"]) == expected_site(g, vec)
            Wrep = int(g.split()[1])
            if Wrep != W_of[op.split()[1]]:
                res["corr"].append({"op": op, "why": "build reports packet size %d, expected %d" % (Wrep, W_of[op.split()[1]])})
        else:
            hook, vec, pk, site_ok = h, False, 0, True      # pack: "off …"
        if vec:
            res["vec"] += 1
        if pk > 0:
            res["packets"] += pk
            res["nontrivial"].add(op)
        faulted = r.startswith("FAULT") or r.startswith("DIED")
        if r != "R ok":
            res["fail"].append({"op": op, "line": line, "model": model[mi], "why": r})
        if (hook != model[mi] and not faulted) or not site_ok:
            res["corr"].append({"op": op, "line": line, "model_input": mlines[mi], "model": model[mi], "impl": hook,
                                "why": "hook counters differ from the model" if site_ok else "hook site id unexpected"})
        elif faulted and model[mi].split()[:3] != hook.split()[:3]:
            res["corr"].append({"op": op, "line": line, "model_input": mlines[mi], "model": model[mi], "impl": hook,
                                "why": "hook counters (before the fault) differ from the model"})
        # harness sanity: the view sits where it was asked to sit
        w = op.split()
        if w[0] == "asg1" and int(w[3]) > 0:
            a = int(g.split()[2].split(":")[1]); t = int(w[4].split(",")[0]); Wv = int(g.split()[1])
            if (a - t) % Wv != 0:
                res["corr"].append({"op": op, "line": line, "why": "harness geometry: target not at the requested alignment"})
    return res


# ------------------------------------------------------------------ numerics (exploration)
def gen_numerics(rng, tier):
    ops = []
    big, seeds = (2048, 1) if tier == "quick" else (8192, 4)
    for T in "fd":
        for shape in range(12):
            r = rng.randrange(16)
            ops.append("num %s %d 2200 %d %d %d %d 0 1" % (T, shape, r, r, r, r))
            for cls in (1, 2, 3, 4, 5):
                for s in range(seeds):
                    r = rng.randrange(16)
                    ops.append("num %s %d %d %d %d %d %d %d %d" % (T, shape, big, r, r, r, r, cls, rng.randrange(1, 1 << 30)))
            for n in (5, 16, 31, 33, 67):     # short rows: head and tail elements come from the scalar loop
                r = rng.randrange(16)
                ops.append("num %s %d %d %d %d %d %d 2 %d" % (T, shape, n, r, r, r, r, rng.randrange(1, 1 << 30)))
    return ops


def gen_rnum(rng, tier):
    ops = []
    reps = 2 if tier == "quick" else 25
    for T in "fd":
        for func in FUNCS:
            classes = (0, 1, 2, 4, 5) if func in ("maxval", "minval") else (2, 4)
            for cls in classes:
                for n in (16, 33, 37, 100, 257, 1000) + (() if func == "product" else (4099, 8192)):
                    for _ in range(reps):
                        ops.append("rnum %s %s %d %d %d %d" % (T, func, n, rng.randrange(16), cls, rng.randrange(1, 1 << 30)))
    return ops


def unhex(T, h):
    if T == "d":
        return struct.unpack(">d", bytes.fromhex(h))[0]
    return struct.unpack(">f", bytes.fromhex(h))[0]


def ordinal(T, h):
    """monotone integer image of a bit pattern (distance = number of representable values between)"""
    u = int(h, 16)
    top = 1 << (63 if T == "d" else 31)
    return -(u & (top - 1)) if u & top else u


def hook_of(line):
    m = re.match(r"H (.*?) \| (.*)$", line)
    if not m:
        return None, line
    return dict(t.split("=") for t in m.group(1).split()), m.group(2)


def judge_numerics(label, ops, out_isa, out_ref, W_of, stats):
    """elementwise bitwise comparison of an ISA build with the scalar build; returns list of failures"""
    fails = []
    for op, li, lr in zip(ops, out_isa, out_ref):
        w = op.split()
        T, shape, n = w[1], int(w[2]), int(w[3])
        if li is None or lr is None:
            continue
        hi, bi = hook_of(li)
        hr, br = hook_of(lr)
        if hi is None or not bi.startswith("V ") or not br.startswith("V "):
            fails.append({"op": op, "why": "no result: isa=%s ref=%s" % (li[:160], lr[:160])})
            continue
        stats["statements"] += 1
        stats["elements"] += n
        if n >= 2 * W_of[T]:
            if int(hi["pk"]) > 0:
                stats["statements_on_packet_path"] += 1
            else:
                fails.append({"op": op, "why": "packet path not taken (hook: %s) although all views share one alignment" % hi,
                              "no_input": True})
        if bi == br:
            continue
        vi, vr = bi[2:].split(","), br[2:].split(",")
        for j, (a, b) in enumerate(zip(vi, vr)):
            if a == b:
                continue
            fa, fb = unhex(T, a), unhex(T, b)
            if fa != fa and fb != fb:
                stats["nan_payload_or_sign_differs"] += 1
            elif fa == fb:
                stats["zero_sign_differs"][str(shape)] = stats["zero_sign_differs"].get(str(shape), 0) + 1
            else:
                fails.append({"op": op, "index": j, "isa_bits": a, "scalar_bits": b, "isa": repr(fa), "scalar": repr(fb),
                              "why": "element %d: %s build gives %r, scalar build gives %r" % (j, label, fa, fb)})
                break
    return fails


def judge_rnum(label, ops, out_isa, out_ref, W_of, stats):
    fails = []
    for op, li, lr in zip(ops, out_isa, out_ref):
        w = op.split()
        T, func, n = w[1], w[2], int(w[3])
        if li is None or lr is None:
            continue
        hi, bi = hook_of(li)
        hr, br = hook_of(lr)
        mi = re.match(r"V (\w+) A (\w+) Q (\w+) N (\d+)", bi or "")
        mr = re.match(r"V (\w+) A (\w+) Q (\w+) N (\d+)", br or "")
        if not mi or not mr:
            fails.append({"op": op, "why": "no result: isa=%s ref=%s" % (li[:160], lr[:160])})
            continue
        stats["reductions"] += 1
        if n >= 2 * W_of[T] and int(hi["pk"]) > 0:
            stats["reductions_on_packet_path"] += 1
        vi, vr = unhex(T, mi.group(1)), unhex(T, mr.group(1))
        A, Q = unhex("d", mr.group(2)), unhex("d", mr.group(3))
        eps = 2.0 ** -52 if T == "d" else 2.0 ** -23
        tiny = 2.0 ** -1022 if T == "d" else 2.0 ** -126
        if mi.group(1) == mr.group(1):
            continue
        if func in ("maxval", "minval"):
            ok = vi == vr
            bound = 0.0
        elif not (math.isfinite(vr) and math.isfinite(vi)):
            stats["reductions_skipped_nonfinite"] += 1
            continue
        else:
            if func == "sum":
                bound = n * eps * A
            elif func == "mean":
                bound = eps * A + eps * abs(vr)
            elif func == "norm2":
                bound = n * eps * math.sqrt(Q)
            else:
                if abs(vr) < tiny / eps:
                    stats["reductions_skipped_nonfinite"] += 1
                    continue
                bound = n * eps * abs(vr)
            bound += 0 if abs(vr) >= tiny else tiny * eps * n   # subnormal results: absolute spacing
            ok = abs(vi - vr) <= bound
            if bound > 0:
                stats["max_reduction_error_over_bound"] = max(stats["max_reduction_error_over_bound"], abs(vi - vr) / bound)
        if not ok:
            fails.append({"op": op, "isa": repr(vi), "scalar": repr(vr), "bound": bound,
                          "why": "%s of %d values: %s build %r, scalar build %r, |difference| %.3g > bound %.3g"
                                 % (func, n, label, vi, vr, abs(vi - vr), bound)})
    return fails


# ------------------------------------------------------------------ fastexp (exploration)
FX_LIM = {"d": 700.0, "f": 86.0}


def gen_fexp(rng, tier):
    ops = []
    for T in "fd":
        pages0 = 3 if T == "d" else 1        # binades x 16 points
        pages1 = 4 if T == "d" else 1        # k*ln2/2 +- 3 ulp
        for p in range(pages0):
            ops.append("fexp %s 8192 %d 0 %d" % (T, rng.randrange(16), p))
        for p in range(pages1):
            ops.append("fexp %s 8192 %d 1 %d" % (T, rng.randrange(16), p))
        ops.append("fexp %s 528 %d 2 0" % (T, rng.randrange(16)))
        for _ in range(2 if tier == "quick" else 60):
            ops.append("fexp %s 8192 %d 3 %d" % (T, rng.randrange(16), rng.randrange(1, 1 << 30)))
        for _ in range(1 if tier == "quick" else 4):
            ops.append("fexp %s 8192 %d 4 %d" % (T, rng.randrange(16), rng.randrange(1, 1 << 30)))
        for n in (9, 17, 35, 67):
            ops.append("fexp %s %d %d 3 %d" % (T, n, rng.randrange(16), rng.randrange(1, 1 << 30)))
    ops.append("fexpd 2048 0 0")
    ops.append("fexpd 2048 1 1")
    ops.append("fexpd 528 2 0")
    for _ in range(1 if tier == "quick" else 6):
        ops.append("fexpd 4096 3 %d" % rng.randrange(1, 1 << 30))
    return ops


def judge_fexp(label, ops, out, W_of, stats, store):
    fails = []
    for op, line in zip(ops, out):
        w = op.split()
        if line is None:
            continue
        if w[0] == "fexpd":
            m = re.match(r"V (\S+) \| M (\S+) \| SV (\S+) \| SM (\S+)$", line)
            if not m:
                fails.append({"op": op, "why": "no result: %s" % line[:200]})
                continue
            V, M, SV, SM = [g.split(",") for g in m.groups()]
            stats["derivatives"] += len(V) + len(SV)
            for j in range(len(V)):
                if V[j] != M[j] or SV[j] != SM[j] or V[j] != SV[j]:
                    fails.append({"op": op, "index": j, "why": "active fastexp element %d: value %s multiplier %s; scalar value %s "
                                  "multiplier %s (all four must be one bit pattern)" % (j, V[j], M[j], SV[j], SM[j])})
                    break
            continue
        T, n = w[1], int(w[2])
        h, body = hook_of(line)
        m = re.match(r"X (\S+) \| S (\S+) \| P (\S+) \| E (\S+)$", body or "")
        if not m:
            fails.append({"op": op, "why": "no result: %s" % line[:200]})
            continue
        X, S, P, E = [g.split(",") for g in m.groups()]
        stats["values"] += n
        if n >= 2 * W_of[T]:
            if int(h["pk"]) > 0:
                stats["statements_on_packet_path"] += 1
            else:
                fails.append({"op": op, "why": "fastexp statement did not take the packet path (hook %s)" % h, "no_input": True})
        if S != P:
            j = next(i for i in range(n) if S[i] != P[i])
            fails.append({"op": op, "index": j, "x_bits": X[j], "scalar_bits": S[j], "packet_bits": P[j],
                          "why": "fastexp(%r): scalar form %s, array (packet) form %s in one default-flags %s build"
                                 % (unhex(T, X[j]), S[j], P[j], label)})
        lim = FX_LIM[T]
        worst = None
        for j in range(n):
            e = int(E[j])
            if e < 0:
                continue
            x = unhex(T, X[j])
            if abs(x) <= lim:
                stats["values_in_region"] += 1
                if e > stats["max_milli_ulp_" + T]:
                    stats["max_milli_ulp_" + T] = e
                    stats["argmax_" + T] = repr(x)
                if e > 2000 and (worst is None or e > worst[0]):
                    worst = (e, j, x)
        if worst:
            fails.append({"op": op, "index": worst[1], "x": repr(worst[2]), "milli_ulp": worst[0],
                          "why": "fastexp(%r) is %.3f ulp from expl() in the %s build (|x| <= %g)" % (worst[2], worst[0] / 1000.0, label, lim)})
        store[op] = (T, X, P)
    return fails


def cross_isa(stores, stats):
    """largest distance (in representable values) between two instruction sets' fastexp on the same input, inside the region"""
    fails = []
    labels = sorted(stores)
    for op in stores[labels[0]] if labels else []:
        cols = [(l, stores[l].get(op)) for l in labels if stores[l].get(op)]
        if len(cols) < 2:
            continue
        T, X, _ = cols[0][1]
        lim = FX_LIM[T]
        for j in range(len(X)):
            x = unhex(T, X[j])
            if abs(x) > lim:
                continue
            os_ = [ordinal(T, c[1][2][j]) for c in cols]
            d = max(os_) - min(os_)
            if d > stats["max_cross_isa_ulp_" + T]:
                stats["max_cross_isa_ulp_" + T] = d
            if d > 2 and len(fails) < 3:
                fails.append({"op": op, "index": j, "x": repr(x), "why": "fastexp(%r) differs by %d ulp between builds %s"
                              % (x, d, {c[0]: c[1][2][j] for c in cols})})
    return fails


# ------------------------------------------------------------------ run
def theorem_lists():
    thms = [NS + t for t in vcheck.prop_theorems("AdeptProofs/Props/C05.lean", "C05_")]
    ref = [NS + t for t in vcheck.prop_theorems("AdeptProofs/Refute/Simd.lean", "C05_refute")]
    return thms, ref


def report_fail(ctx, label, fam, f, sig=None, tag="v"):
    obj = {"kind": fam, "build": label, "op": f.get("op"), "detail": f}
    if sig:
        obj["signature"] = sig
    return ctx.violation("%s [%s build, %s] op: %s" % (f["why"][:500], label, fam, f.get("op")), obj, tag=tag,
                         no_input=bool(f.get("no_input")))


def run(ctx, replay):
    """A run against a tree other than /repo (a seeded change) that was not given a private Lean project (VERIF_LEAN) would leave the
    census of THAT tree in the shared lean/AdeptModel/Generated: put the previous table back when the run is over."""
    gen = os.path.join(vcheck.LEAN, "AdeptModel", "Generated", "VecTraits.lean")
    shared = "VERIF_LEAN" not in os.environ and os.path.realpath(vbuild.REPO) != "/repo"
    before = open(gen).read() if shared and os.path.exists(gen) else None
    try:
        return run_(ctx, replay)
    finally:
        if before is not None and open(gen).read() != before:
            tmp = gen + ".tmp%d" % os.getpid()
            open(tmp, "w").write(before)
            os.replace(tmp, gen)


def run_(ctx, replay):
    # regenerate the census of the is_vectorizable trait (every class deriving from Expression<>) from the working tree
    trc, trmsg = run_translator()
    ctx.notes["translator"] = trmsg[-1500:]
    thms, ref = theorem_lists()
    fails = vcheck.lean_gate(ctx, ["AdeptProofs.Props.C05", "AdeptProofs.Refute.Simd"], thms + ref,
                             required=[NS + r for r in REQUIRED + REFUTE])
    if trc != 0:
        fails.insert(0, "translator translate/vectrait.py failed: " + trmsg[-1200:])
        ctx.cov["discharged"] = 0
    elif "UNSOUND trait" in trmsg and fails:
        fails.insert(0, "census of the is_vectorizable trait: " + " | ".join(l.strip() for l in trmsg.split("\n") if "UNSOUND" in l)[:1200])
    ctx.cov["exhaustive"] = False
    ctx.notes["explanation"] = (
        "other = proof + exploration. PROVED in Lean for every packet size, length, address and expression tree: loop partition, "
        "alignment of every packet access, alignment negotiation, row-padding rule, reduction accumulates each element exactly once, "
        "the is_vectorizable trait of every expression node class obeys its rule (census regenerated from the sources) and a tree "
        "with a non-vectorizable node anywhere runs no packets (theorems listed under 'theorems'); tied to the C++ by exact comparison of the hook counters (istartvec, iendvec, packets) "
        "with the model on an exhaustive enumeration per instruction-set build. EXPLORED, not proved: that packet operations equal "
        "the scalar operations lane by lane, all rounding statements, fastexp accuracy (sampling; counts below).")
    cfg, bodies = detect_cfg()
    ctx.notes["code_sites"] = {k: ("repaired" if v else "pinned" if v is False else "UNRECOGNISED: " + bodies[k][:200]) for k, v in cfg.items()}
    unknown = [k for k in SITE_ORDER if cfg[k] is None]
    bits = "".join("1" if cfg[k] else "0" for k in SITE_ORDER)
    missing = hook_present()
    flags = cpu_flags()
    isas = [i for i in ISAS if all(f in flags for f in i[2])]
    ctx.notes["instruction_sets"] = {"available": [i[0] for i in isas], "skipped": [i[0] for i in ISAS if i not in isas]}
    ctx.assumptions += [
        "lane-wise equality of SIMD intrinsics with the scalar operation, IEEE rounding, libm's expl as reference: observed, not proved",
        "arrays built over user pointers / resize_contiguous are covered by the model through their actual offsets; the row-padding "
        "theorem's hypothesis (every outer offset a multiple of W) is what columns_aligned_ tests, see F-53",
        "reduce_split is stated per row; a rank > 1 reduction repeats it for every row with the same accumulators",
    ]
    if missing:
        ctx.violation("hook H2 is missing from the working tree (%s): without the counters in the packet loops of "
                      "Array::assign_expression_ and reduce_inactive the check cannot show that the SIMD path was the one compared; "
                      "apply /verif/fixes/H2-hook.patch" % "; ".join(missing),
                      {"kind": "hook-missing", "hook": "H2", "missing": missing, "correspondence": "hook counters"}, tag="h", no_input=True)
        return
    if unknown:
        ctx.violation("translator cannot recognise the form of code site(s) %s (neither the pinned nor the repaired text)" % unknown,
                      {"kind": "translator", "sites": {k: bodies[k] for k in unknown}}, tag="t", no_input=True)
    if not isas:
        ctx.violation("no SIMD instruction set available on this host", {"kind": "no-isa"}, tag="n", no_input=True)
        return

    try:
        probe = vcheck.run_model("simd", "pack 2 3:5\n")
    except RuntimeError as e:
        probe = [str(e)[-300:]]
    if probe != ["off 6"]:
        ctx.violation("the model driver does not serve family `simd` (%s): lean/Driver/Main.lean needs `import Driver.Simd` and the "
                      "dispatch line `| [\"simd\"] => runFamily SimdDrv.step (); return 0`" % probe,
                      {"kind": "model-driver", "correspondence": "adept_model simd", "answer": probe}, tag="m", no_input=True)
        return
    if replay:
        return run_replay(ctx, json.load(open(replay)), isas, bits, fails)

    exes = build_all(isas, True)
    stats = {"logic": {}, "nodes": {}, "numerics": {}, "reductions": {}, "fastexp": {}}
    nrand = 120 if ctx.tier == "quick" else 1500
    node_random = {(i[0], T): gen_nodes_random(ctx.rng, T, {"f": i[3], "d": i[4]}[T], nrand) for i in isas for T in "fd"}
    num_ops, rnum_ops, fx_ops = gen_numerics(ctx.rng, ctx.tier), gen_rnum(ctx.rng, ctx.tier), gen_fexp(ctx.rng, ctx.tier)
    ref_num = run_ops(exes["scalar"], num_ops)
    ref_rnum = run_ops(exes["scalar"], rnum_ops)
    info = run_ops(exes["scalar"], ["info"])[0]
    if info != "info Wf=1 Wd=1 hook=1":
        ctx.violation("scalar reference build is not scalar: " + str(info), {"kind": "build", "info": info}, tag="b", no_input=True)

    def work(isa):
        name, _, _, Wf, Wd = isa
        W_of = {"f": Wf, "d": Wd}
        r = {"name": name, "logic": [], "probe": [], "nodes": [], "W": W_of}
        exe = exes["isa:" + name]
        r["info"] = run_ops(exe, ["info"])[0]
        for T in "fd":
            ops = gen_logic(T, W_of[T], ctx.tier)
            r["logic"].append((T, judge_logic(name, exe, ops, bits, W_of)))
            pr = gen_probe(T, W_of[T])
            jr = judge_logic(name, exe, [p[0] for p in pr], bits, W_of)
            r["probe"].append((T, jr, dict(pr)))
            nops = gen_nodes(T, W_of[T], ctx.tier)
            r["nodes"].append((T, len(nops), judge_logic(name, exe, nops + node_random[(name, T)], bits, W_of)))
        st = {"statements": 0, "elements": 0, "statements_on_packet_path": 0, "nan_payload_or_sign_differs": 0, "zero_sign_differs": {}}
        r["num_fail"] = judge_numerics(name, num_ops, run_ops(exe, num_ops), ref_num, W_of, st)
        r["num_stats"] = st
        st2 = {"reductions": 0, "reductions_on_packet_path": 0, "reductions_skipped_nonfinite": 0, "max_reduction_error_over_bound": 0.0}
        r["rnum_fail"] = judge_rnum(name, rnum_ops, run_ops(exe, rnum_ops), ref_rnum, W_of, st2)
        r["rnum_stats"] = st2
        st3 = {"values": 0, "values_in_region": 0, "statements_on_packet_path": 0, "derivatives": 0, "max_milli_ulp_f": 0,
               "max_milli_ulp_d": 0, "argmax_f": None, "argmax_d": None}
        store = {}
        r["fx_fail"] = judge_fexp(name, fx_ops, run_ops(exes["fx:" + name], fx_ops), W_of, st3, store)
        r["fx_stats"], r["fx_store"] = st3, store
        return r

    with ThreadPoolExecutor(max_workers=len(isas)) as ex:
        results = list(ex.map(work, isas))

    pending = []
    site_of_sig = {SIG_F28: "fixedToBoundary", SIG_F29: "fixedRowsChecked", SIG_F30: "allOuterChecked"}
    for r in results:
        name = r["name"]
        exp_info = "info Wf=%d Wd=%d hook=1" % (r["W"]["f"], r["W"]["d"])
        if r["info"] != exp_info:
            ctx.violation("build %s reports '%s', expected '%s'" % (name, r["info"], exp_info), {"kind": "build", "build": name}, tag="b", no_input=True)
        ls = {"cases": 0, "vector_branch_entered": 0, "cases_with_packets": 0, "packets": 0, "probe_cases": 0, "probe_failures": 0}
        for T, j in r["logic"]:
            ls["cases"] += j["cases"]; ls["vector_branch_entered"] += j["vec"]; ls["packets"] += j["packets"]
            ls["cases_with_packets"] += len(j["nontrivial"])
            ctx.cov["evaluations"] += j["cases"]
            ctx.cov["distinct_nontrivial"] += len(j["nontrivial"])
            ctx.cov["traces_validated_against_impl"] += j["cases"]
            for f in j["fail"][:2]:
                report_fail(ctx, name, "logic", f)
            for c in j["corr"]:
                pending.append((name, c))
            if j["cases"] and not j["nontrivial"]:
                ctx.violation("build %s, type %s: the packet path was never taken in %d logic cases" % (name, T, j["cases"]),
                              {"kind": "coverage", "build": name}, tag="c", no_input=True)
        for T, j, sigs in r["probe"]:
            ls["probe_cases"] += j["cases"]; ls["probe_failures"] += len(j["fail"])
            ctx.cov["evaluations"] += j["cases"]
            ctx.cov["traces_validated_against_impl"] += j["cases"]
            ctx.cov["distinct_nontrivial"] += len(j["nontrivial"])
            seen = set()
            for f in j["fail"]:
                sig = sigs.get(f["op"])
                if cfg.get(site_of_sig.get(sig)) is not False:
                    sig = None      # the site is repaired (or unknown): a failure here is not the known finding
                if sig in seen:
                    continue
                seen.add(sig)
                report_fail(ctx, name, "probe", f, sig=sig)
            for c in j["corr"]:
                pending.append((name, c))
        ns_ = {"cases": 0, "directed": 0, "random": 0, "cases_with_packets": 0, "packets": 0, "vector_branch_entered": 0, "by_kind": {}}
        for T, ndir, j in r["nodes"]:
            ns_["cases"] += j["cases"]; ns_["directed"] += ndir; ns_["random"] += j["cases"] - min(ndir, j["cases"])
            ns_["cases_with_packets"] += len(j["nontrivial"]); ns_["packets"] += j["packets"]; ns_["vector_branch_entered"] += j["vec"]
            for op, cnt in j.get("ops_by", {}).items():
                ns_["by_kind"][op] = ns_["by_kind"].get(op, 0) + cnt
            ctx.cov["evaluations"] += j["cases"]
            ctx.cov["distinct_nontrivial"] += j["cases"]     # every case of this family has a node that is not element-wise
            ctx.cov["traces_validated_against_impl"] += j["cases"]
            for f in j["fail"][:2]:
                report_fail(ctx, name, "nodes", f)
            for c in j["corr"]:
                pending.append((name, c))
            if j["cases"] and not j["nontrivial"]:
                ctx.violation("build %s, type %s: no statement of the node family (spread along the first dimension, nested "
                              "reductions, scalar broadcast) took the packet path in %d cases" % (name, T, j["cases"]),
                              {"kind": "coverage", "build": name}, tag="c", no_input=True)
        stats["nodes"][name] = ns_
        stats["logic"][name] = ls
        stats["numerics"][name] = r["num_stats"]
        stats["reductions"][name] = r["rnum_stats"]
        stats["fastexp"][name] = r["fx_stats"]
        ctx.cov["evaluations"] += r["num_stats"]["statements"] + r["rnum_stats"]["reductions"] + len(fx_ops)
        for f in r["num_fail"][:2]:
            report_fail(ctx, name, "numerics", f)
        for f in r["rnum_fail"][:2]:
            report_fail(ctx, name, "reductions", f)
        for f in r["fx_fail"][:2]:
            report_fail(ctx, name, "fastexp", f)
    cst = {"max_cross_isa_ulp_f": 0, "max_cross_isa_ulp_d": 0}
    for f in cross_isa({r["name"]: r["fx_store"] for r in results}, cst)[:2]:
        report_fail(ctx, "all", "fastexp-cross-isa", f)
    stats["fastexp"]["cross_isa"] = cst
    ctx.cov["disagreements_checked"] += len(pending)
    ctx.notes["families"] = stats
    ctx.cov["samples"] = [{"format": "driver op -> G <geometry the library reports = model input> | H <hook H2 counters> | R <oracle>; "
                                     "asg1 <type> <shape> <n> <target offset,stride> <operand offset,stride>...",
                           "example": "asg1 f 0 19 3,1 3,1 3,1 0,1 = float, tgt = a + b, 19 elements, all three views 3 past a boundary"}]
    ctx.cov["samples"].append({"format": "nod2 <type> <kind> <m> <n> <target offset,pitch> <u offset,stride> <v offset,stride> (kinds: "
                               + ", ".join("%d %s" % kv for kv in enumerate(N2KINDS)) + ")",
                               "example": "nod2 f 0 3 9 0,0 1,1 1,1 = float, tgt(3x9, fresh) = spread<1>(u,9): model line 'asg 4 <cfg> T:.. SPL A:..' "
                                          "-> vec=0 is=0 ie=0 pk=0, hook silent, every element equals u(i)"})
    for r in results:
        for T, j in r["logic"]:
            ctx.cov["samples"] += [{"build": r["name"], "op": op} for op in sorted(j["nontrivial"])[:1]]
    ctx.cov["samples"] = ctx.cov["samples"][:6]
    ctx.cov["rule"] = (
        "LOGIC (exhaustive, per instruction-set build and element type): every length 0..4W+3 x every alignment offset 0..W-1 of the "
        "target and of both operands for a+b (W=16 in the quick tier: second operand over 6 representative offsets), eight other "
        "statement shapes over every length x target offset x operand offset, three-operand shapes, strided mixes, rank-2 statements "
        "over fresh (library-padded) arrays and column sub-views with aligned / unaligned row pitch, rank-3 fresh / contiguous / permuted, "
        "FixedArray leaves at every address residue, six reductions over ranks 1 and 2, the packing rule for ranks 2 and 3; a case is "
        "non-trivial if at least one packet was processed (hook counter), distinct = different (build, statement). "
        "NODES (directed + random, per build and element type; every case non-trivial: its tree contains a node that is not an "
        "element-wise packet operation): rank 1 x 13 kinds (pow, pow-scalar, abs, comparison, isnan, float+double, IndexedArray, nested "
        "sum(M,0), where/either_or, scalar broadcast) x every length 0..4W+3 x 4 offset triples; rank 2 x 13 kinds (spread<1> = last "
        "dimension, spread<0>, outer_product, transposes, alone and nested in element-wise operations) x rows {1,2,3,W+1} x row length "
        "{1,W-1,W,2W-1,2W,2W+1,3W-1,3W,4W,4W+3} x fresh / offset column-view targets x vector offsets, strided vectors; rank 3 "
        "spread<0|1|2>(matrix) x every n 1..4W+3; 5 reductions x 7 kinds; plus random cases (kind, lengths around 2W and up to 6W, "
        "offsets 0..W-1, strides 1..3) drawn from the run's seed; counts per kind in notes.families.nodes.<build>.by_kind. "
        "NUMERICS (exploration): 12 expression shapes x 6 value classes (grid of special finite values incl. +-0, subnormals, extremes; "
        "random bit patterns; moderate; cancelling a*b+c; tiny; huge), bitwise against the scalar build; 6 reductions against "
        "n*eps*sum|x|; fastexp on every binade, +-3 ulp around every k*ln2/2, range ends, random.")
    finish(ctx, pending, fails)


def finish(ctx, pending, fails):
    if pending and not ctx.violations:
        name, c = pending[0]
        ctx.violation("model and implementation disagree (%s build): %s; op %s: model %s, hook %s — the scalar-equality oracle found no "
                      "statement whose result is wrong" % (name, c["why"], c.get("op"), c.get("model"), c.get("impl")),
                      {"kind": "correspondence", "correspondence": "AdeptModel/Simd.lean <-> hook H2 counters", "build": name,
                       "op": c.get("op"), "detail": c, "n_disagreements": len(pending)}, tag="c", no_input=True)
    if fails and not ctx.violations:
        ctx.violation("proof obligation of C05 no longer checks: " + fails[0][:400],
                      {"kind": "proof", "theorem": "AdeptProofs/Props/C05.lean", "failures": fails}, tag="p", no_input=True)


def run_replay(ctx, r, isas, bits, fails):
    kind, label, op = r.get("kind"), r.get("build"), r.get("op")
    isa = next((i for i in isas if i[0] == label), None)
    pending = []
    if not op or (isa is None and kind != "fastexp-cross-isa"):
        finish(ctx, pending, fails)
        return
    W_of = {"f": isa[3], "d": isa[4]} if isa else {}
    if kind in ("logic", "probe", "nodes", "correspondence"):
        exes = build_all([isa], True, want_fx=False, want_scalar=False)
        j = judge_logic(label, exes["isa:" + label], [op], bits, W_of)
        ctx.cov["evaluations"] += j["cases"]
        for f in j["fail"]:
            report_fail(ctx, label, kind, f, sig=r.get("signature"))
        pending += [(label, c) for c in j["corr"]]
    elif kind in ("numerics", "reductions"):
        exes = build_all([isa], True, want_fx=False)
        a, b = run_ops(exes["isa:" + label], [op]), run_ops(exes["scalar"], [op])
        if kind == "numerics":
            st = {"statements": 0, "elements": 0, "statements_on_packet_path": 0, "nan_payload_or_sign_differs": 0, "zero_sign_differs": {}}
            fl = judge_numerics(label, [op], a, b, W_of, st)
        else:
            st = {"reductions": 0, "reductions_on_packet_path": 0, "reductions_skipped_nonfinite": 0, "max_reduction_error_over_bound": 0.0}
            fl = judge_rnum(label, [op], a, b, W_of, st)
        ctx.cov["evaluations"] += 1
        for f in fl:
            report_fail(ctx, label, kind, f)
    elif kind in ("fastexp", "fastexp-cross-isa"):
        use = isas if kind == "fastexp-cross-isa" else [isa]
        exes = build_all(use, True, want_scalar=False)
        stores = {}
        for i in use:
            st = {"values": 0, "values_in_region": 0, "statements_on_packet_path": 0, "derivatives": 0, "max_milli_ulp_f": 0,
                  "max_milli_ulp_d": 0, "argmax_f": None, "argmax_d": None}
            store = {}
            for f in judge_fexp(i[0], [op], run_ops(exes["fx:" + i[0]], [op]), {"f": i[3], "d": i[4]}, st, store):
                report_fail(ctx, i[0], "fastexp", f)
            stores[i[0]] = store
        ctx.cov["evaluations"] += len(use)
        if kind == "fastexp-cross-isa":
            for f in cross_isa(stores, {"max_cross_isa_ulp_f": 0, "max_cross_isa_ulp_d": 0}):
                report_fail(ctx, "all", kind, f)
    finish(ctx, pending, fails)
