"""C04 — array statements have element-wise value semantics despite aliasing / layout.

proof:  lean/AdeptProofs/Props/C04.lean (+ Lemmas/Assign*.lean, Refute/Assign.lean): data_range sound for any stride
        signs, alias test conservative, the loops as coded (running index, advance_index carries, index != max_index,
        is_gap) = folds in index order, in-order loop = "evaluate all, then store" when safe, temporary-copy path,
        hence assign / op= / scalar / where / either_or / FixedArray / IndexedArray semantics for ALL ranks, extents,
        strides, overlaps; reductions definitional.
tie:    hand-written model AdeptModel/{Assign,Reduce}.lean <-> Array.h / FixedArray.h / IndexedArray.h / where.h /
        reduce.h: random statements on views sliced out of one allocation (shifted / reversed / transposed / strided /
        partial overlaps, padded and unpadded, row- and column-major, both default orders), the WHOLE memory image of
        every allocation (padding included) and the is_aliased() verdict compared exactly after every statement.
        Also: A.where(mask) OP= rhs (where.h ADEPT_WHERE_OPERATOR; does not compile on the pinned tree: compile probe on every run, known
        finding where-compound-does-not-compile, executed through the repaired macro body until it does), FixedArray.where, and
        initializer lists as statements (oracle: listed elements stored, every other element of the target zero).
oracle: in the harness, independent of the model: read the whole right-hand side (and the mask) through operator()
        into temporaries, then store through operator(); reductions are re-folded in Python from the element list
        read through operator().
"""
import os, json, glob, hashlib, math
from concurrent.futures import ThreadPoolExecutor
import vbuild, vcheck

LEVEL = "proof"
NS = "Adept.Assign."
REQUIRED = ["C04_every_node_alias_test_forwards", "C04_dataRange_sound", "C04_alias_conservative", "C04_assign_loop_is_fold", "C04_where_loop_is_fold",
            "C04_seq_eq_par", "C04_copy_path", "C04_assign_semantics", "C04_compound_semantics", "C04_scalar_broadcast",
            "C04_where_semantics_partial", "C04_either_or_semantics_partial", "C04_fixed_semantics_partial",
            "C04_indexed_semantics", "C04_indexed_last_write_wins", "C04_indexed_compound_semantics_partial",
            "C04_reduce_whole_def", "C04_reduce_dim_def",
            "C04_where_compound_semantics_partial", "C04_where_unselected_untouched", "C04_fixed_where_semantics_partial",
            "C04_fixed_where_compound_semantics_partial",
            "C04_initlist_vector_semantics", "C04_initlist_vector_addr", "C04_initlist_matrix_rows", "C04_initlist_rows_zero_full_refuted"]
REQUIRED_REFUTE = ["F25_where_semantics_full_refuted", "F38_either_or_semantics_full_refuted",
                   "F22_fixed_semantics_full_refuted", "F39_indexed_compound_semantics_full_refuted"]
HARNESS = os.environ.get("VERIF_C04_HARNESS", os.path.join(vbuild.VERIF, "harness"))
ALLOC_GAP = 1000          # allocation k of a case lives at absolute element address (k+1)*ALLOC_GAP in the model


# ------------------------------------------------------------------ build
_probe = {}


def where_compound_compiles():
    """does `A.where(mask) OP= rhs` instantiate on the tree under test?  (-fsyntax-only on harness/drv_assign_probe.cpp)"""
    if "ok" not in _probe:
        import subprocess
        p = subprocess.run(["g++", "-std=c++17", "-fsyntax-only", "-I" + os.path.join(vbuild.REPO, "include"),
                            os.path.join(HARNESS, "drv_assign_probe.cpp")], stdout=subprocess.PIPE, stderr=subprocess.STDOUT, text=True)
        _probe["ok"] = p.returncode == 0
        errs = [l for l in p.stdout.splitlines() if "error" in l]
        _probe["msg"] = (errs[0] if errs else p.stdout[:300])[:400]
    return _probe["ok"]


def build(variant):
    srcs = [os.path.join(HARNESS, "drv_assign.cpp")] + sorted(glob.glob(os.path.join(HARNESS, "drv_assign_r*.cpp")))
    hh = hashlib.sha256(b"".join(open(f, "rb").read() for f in sorted(glob.glob(os.path.join(HARNESS, "drv_assign*.h"))))).hexdigest()[:12]
    extra = ["-std=c++17", "-I" + HARNESS]
    opt = None
    if variant == "sse2-O0":
        opt = "-O0"
    elif variant == "avx":
        extra += ["-mavx"]
    defines = ["C04_HDR=" + hh] + (["VERIF_WHERE_COMPOUND_NATIVE=1"] if where_compound_compiles() else [])
    return vbuild.build("assign", srcs, defines=defines, extra=extra, opt=opt)


def cpu_has(flag):
    try:
        for l in open("/proc/cpuinfo"):
            if l.startswith("flags"):
                return flag in l.split(":")[1].split()
    except OSError:
        pass
    return False


# ------------------------------------------------------------------ generator
def fill_values(seed, n):
    out = []
    for i in range(n):
        x = (seed * 1103515245 + 12345 + i * 2654435761) & 0xffffffff
        out.append(((x >> 16) % 11) - 5)
    return out


def slice_dims(sd, specs):
    """extents of src(specs) (None if invalid)"""
    out = []
    for d, sp in zip(sd, specs):
        if sp == ":":
            out.append(d)
        elif sp[0] == "n":
            if not (0 <= int(sp[1:]) < d):
                return None
        else:
            b, e, st = [int(x) for x in sp[1:].split(",")]
            if st == 0 or not (0 <= b < d and 0 <= e < d):
                return None
            if (st > 0 and b > e) or (st < 0 and b < e):
                return None
            out.append(abs(e - b) // abs(st) + 1)
    return out


ASG_SHAPES = ["L", "add L L", "sub L L", "mul L L", "add L c", "sub c L", "mul c L", "mul L c", "add mul L L L",
              "sub L mul c L", "na L", "add na L L", "na add L L", "add L na L", "mul add L L sub L c", "div L c", "div L L"]
CMP_SHAPES = ["L", "add L L", "sub c L", "mul L c", "add mul L L L", "add L na L", "c"]
DIV_SHAPES = ["L", "c"]
WHR_SHAPES = ["L", "mul L L", "add na L L"]
EO_SHAPES = ["L", "add L c"]
FIX_SHAPES = ["L", "add L L", "mul L L", "add L c", "add na L L"]
IDX_SHAPES = ["L", "add L c", "mul L L", "add na L L", "W"]
ICMP_SHAPES = ["L", "add L c"]
MASKS = ["gt L c", "lt L L", "ne L c", "not gt L c", "and gt L c lt L c", "ge add L L c", "B"]
EO_MASKS = ["gt L c", "lt L L", "B"]
WC_SHAPES = ["L", "add L L", "add L c"]      # right-hand sides of A.where(mask) OP= rhs (harness menu M_WC) besides a scalar
FW_SHAPES = ["L", "add L c"]                 # right-hand sides of FixedArray.where(mask) = / += / *= rhs (M_FW)
WC_OPS = ["wcadd", "wcsub", "wcmul", "wcdiv"]
FW_OPS = ["fwhr", "fwcadd", "fwcmul", "fweo"]
RFNS = ["sum", "mean", "product", "minval", "maxval", "norm2"]


class Gen:
    """one self-contained case: allocations, views sliced out of them, 1-3 statements / reductions"""

    def __init__(self, rng, t, order, allow_row_mode=True):
        self.r, self.t, self.order = rng, t, order
        self.ops = []
        self.views = {}      # vid -> dict(dims, alloc, how)
        self.allocs = {}     # aid -> dict(seed, fixed, vid)
        self.idx = {}        # id -> list
        self.bools = {}      # id -> (dims, bits)
        self.iviews = {}     # wid -> dict(view, sel, dims)
        self.nv = self.na = self.ni = self.nb = self.nw = 0
        self.stmts = []      # (index into ops, meta)
        self.emit("reset")
        if order == "c":
            self.emit("order c")
        self.allow_row = allow_row_mode and order == "r"

    def emit(self, s):
        self.ops.append(s)
        return len(self.ops) - 1

    # ---- allocations and views
    def new_alloc(self, dims, mode=None):
        r = self.r
        aid, vid = self.na, self.nv
        self.na += 1; self.nv += 1
        if mode is None:
            mode = r.choice(["def", "def", "col"] + (["row"] if self.allow_row else []))
        self.emit("alloc %d %d %d %s %s" % (aid, vid, len(dims), " ".join(map(str, dims)), mode))
        seed = r.randrange(1 << 20)
        self.emit("fill %d seed %d" % (aid, seed))
        self.allocs[aid] = dict(seed=seed, fixed=0, vid=vid, mode=mode)
        self.views[vid] = dict(dims=list(dims), alloc=aid, how="whole")
        return vid

    def new_fixed(self, kind):
        aid, vid = self.na, self.nv
        self.na += 1; self.nv += 1
        self.emit("falloc %d %d %d" % (aid, vid, kind))
        seed = self.r.randrange(1 << 20)
        self.emit("fill %d seed %d" % (aid, seed))
        self.allocs[aid] = dict(seed=seed, fixed=kind, vid=vid, mode="fixed")
        self.views[vid] = dict(dims={4: [4], 23: [2, 3], 33: [3, 3], 234: [2, 3, 4]}[kind], alloc=aid, how="whole")
        return vid

    def new_view(self, src, specs, how, post=None):
        sd = self.views[src]["dims"]
        d = slice_dims(sd, specs)
        if d is None or not d:
            return None
        if post == "T":
            if len(d) != 2:
                return None
            d = [d[1], d[0]]
        elif post and post[0] == "P":
            if len(d) != 3:
                return None
            d = [d[int(post[1])], d[int(post[2])], d[int(post[3])]]
        vid = self.nv; self.nv += 1
        self.emit("view %d %d %s%s" % (vid, src, " ".join(specs), (" " + post) if post else ""))
        self.views[vid] = dict(dims=d, alloc=self.views[src]["alloc"], how=how)
        return vid

    def random_slice(self, src, want_rank=None):
        """a random sub-view of src: ranges with strides of both signs, scalar indices to drop dimensions"""
        r = self.r
        sd = self.views[src]["dims"]
        rank = len(sd)
        want = want_rank or r.randint(1, rank)
        drop = set(r.sample(range(rank), rank - want)) if want < rank else set()
        specs = []
        for k, d in enumerate(sd):
            if k in drop:
                specs.append("n%d" % r.randrange(d))
                continue
            x = r.random()
            if x < 0.2:
                specs.append(":")
                continue
            st = r.choice([1, 1, 1, -1, -1, 2, -2, 3])
            n = r.randint(1, max(1, (d - 1) // abs(st) + 1))
            n = max(n, min(2, (d - 1) // abs(st) + 1))
            span = (n - 1) * abs(st)
            lo = r.randint(0, d - 1 - span)
            b, e = (lo, lo + span) if st > 0 else (lo + span, lo)
            specs.append("s%d,%d,%d" % (b, e, st))
        post = None
        if want == 2 and r.random() < 0.2:
            post = "T"
        if want == 3 and r.random() < 0.2:
            post = r.choice(["P021", "P102", "P120", "P201", "P210"])
        return self.new_view(src, specs, "slice", post)

    def partner(self, lv, kind=None):
        """a view with the extents of lv, related to it in a chosen way"""
        r = self.r
        L = self.views[lv]
        d = L["dims"]
        kind = kind or r.choice(["same", "reversed", "reversed1", "shifted", "transposed", "other", "other", "interleaved", "sibling"])
        if kind == "same":
            return lv, "same"
        if kind == "reversed":
            v = self.new_view(lv, ["s%d,0,-1" % (x - 1) for x in d], "reversed")
            return (v, "reversed") if v is not None else self.partner(lv, "other")
        if kind == "reversed1":
            k = r.randrange(len(d))
            v = self.new_view(lv, ["s%d,0,-1" % (x - 1) if j == k else ":" for j, x in enumerate(d)], "reversed1")
            return (v, "reversed1") if v is not None else self.partner(lv, "other")
        if kind == "transposed":
            if len(d) == 2 and d[0] == d[1]:
                return self.new_view(lv, [":", ":"], "transposed", "T"), "transposed"
            if len(d) == 3:
                perms = [p for p in ["P021", "P102", "P120", "P201", "P210"] if [d[int(p[1])], d[int(p[2])], d[int(p[3])]] == d]
                if perms:
                    return self.new_view(lv, [":"] * 3, "transposed", r.choice(perms)), "transposed"
            return self.partner(lv, "reversed")
        if kind in ("shifted", "interleaved", "sibling"):
            # another window of the same extents on the allocation's whole array, built with the same recipe family
            whole = self.allocs[L["alloc"]]["vid"]
            wd = self.views[whole]["dims"]
            for _ in range(8):
                cand = self.window(whole, d, kind)
                if cand is not None:
                    return cand, kind
            return self.partner(lv, "other")
        # other allocation
        mode = None
        vid = self.new_alloc([x + r.randint(0, 2) for x in d], mode)
        v = self.window(vid, d, "other")
        return (v if v is not None else vid), "other"

    def window(self, whole, d, how):
        """a view of extents d on `whole` (same rank or higher), random position / stride / sign"""
        r = self.r
        wd = self.views[whole]["dims"]
        if len(wd) < len(d):
            return None
        ks = sorted(r.sample(range(len(wd)), len(d)))
        specs = []
        j = 0
        for k, x in enumerate(wd):
            if k in ks:
                n = d[j]; j += 1
                maxst = (x - 1) // (n - 1) if n > 1 else 1
                if maxst < 1:
                    return None
                st = r.randint(1, min(maxst, 2 if how != "interleaved" else 3))
                span = (n - 1) * st
                lo = r.randint(0, x - 1 - span)
                if r.random() < 0.35:
                    specs.append("s%d,%d,%d" % (lo + span, lo, -st))
                else:
                    specs.append("s%d,%d,%d" % (lo, lo + span, st))
            else:
                specs.append("n%d" % r.randrange(x))
        return self.new_view(whole, specs, how)

    def new_idx(self, n, hi, repeats):
        r = self.r
        if repeats:
            xs = [r.randrange(hi) for _ in range(n)]
        else:
            if n > hi:
                return None
            xs = r.sample(range(hi), n)
        i = self.ni; self.ni += 1
        self.emit("idx %d %d %s" % (i, n, " ".join(map(str, xs))))
        self.idx[i] = xs
        return i

    def new_bools(self, dims):
        n = 1
        for x in dims:
            n *= x
        bits = [self.r.randint(0, 1) for _ in range(n)]
        b = self.nb; self.nb += 1
        self.emit("bools %d %d %s %s" % (b, len(dims), " ".join(map(str, dims)), " ".join(map(str, bits))))
        self.bools[b] = (list(dims), bits)
        return b

    def new_iview(self, pv, want_rank=None, repeats=None):
        """an IndexedArray over view pv; returns wid or None"""
        r = self.r
        pd = self.views[pv]["dims"]
        kinds = {1: ["i"], 2: ["ii", "ia", "ai", "ni", "in"], 3: ["iii", "aia", "nia"]}[len(pd)]
        if want_rank is not None:
            kinds = [k for k in kinds if sum(c != "n" for c in k) == want_rank]
        if not kinds:
            return None
        kind = r.choice(kinds)
        rep = r.random() < 0.35 if repeats is None else repeats
        sel, dims, seltxt = [], [], []
        for c, d in zip(kind, pd):
            if c == "i":
                n = r.randint(1, d + (1 if rep else 0)) if rep else r.randint(1, d)
                i = self.new_idx(n, d, rep)
                if i is None:
                    return None
                sel.append(("i", i)); dims.append(n); seltxt.append("i%d" % i)
            elif c == "a":
                sel.append(("a", None)); dims.append(d); seltxt.append("a")
            else:
                k = r.randrange(d)
                sel.append(("n", k)); seltxt.append("n%d" % k)
        w = self.nw; self.nw += 1
        self.emit("iview %d %d %s" % (w, pv, " ".join(seltxt)))
        self.iviews[w] = dict(view=pv, sel=sel, dims=dims, kind=kind)
        return w

    def iview_for(self, lv, d):
        """an IndexedArray with extents d (over an existing view, a fresh parent or the target's allocation); wid or None"""
        r = self.r
        src = r.choice([v for v, dd in self.views.items() if len(dd["dims"]) >= len(d)])
        for _ in range(6):
            cand = self.new_iview(src, len(d))
            if cand is not None and self.iviews[cand]["dims"] == d:
                return cand
        # build index vectors of the right lengths over a fresh parent
        pv = self.new_alloc([x_ + 1 for x_ in d]) if r.random() < 0.5 else self.allocs[self.views[lv]["alloc"]]["vid"]
        pd = self.views[pv]["dims"]
        if len(pd) != len(d) or any(n > p for n, p in zip(d, pd)):
            return None
        sel, seltxt = [], []
        for n, p in zip(d, pd):
            i = self.new_idx(n, p, r.random() < 0.3)
            sel.append(("i", i)); seltxt.append("i%d" % i)
        w = self.nw; self.nw += 1
        self.emit("iview %d %d %s" % (w, pv, " ".join(seltxt)))
        self.iviews[w] = dict(view=pv, sel=sel, dims=list(d), kind="i" * len(d))
        return w

    # ---- expressions
    def leaves_for(self, lv, n, dims=None):
        """n leaf views with the extents of lv (or dims)"""
        out, hows = [], []
        for _ in range(n):
            if dims is not None and lv is None:
                vid = self.new_alloc([x + self.r.randint(0, 1) for x in dims])
                v = self.window(vid, dims, "other")
                out.append(v if v is not None else vid); hows.append("other")
            else:
                v, how = self.partner(lv)
                out.append(v); hows.append(how)
        return out, hows

    def expr(self, shape, lv, dims=None):
        """instantiate a shape: returns (tokens, leaf views, hows)"""
        toks, leaves, hows = [], [], []
        for w in shape.split():
            if w == "L":
                v, h = self.leaves_for(lv, 1, dims)
                toks.append("v%d" % v[0]); leaves += v; hows += h
            elif w == "c":
                toks.append("c%d" % self.r.choice([-3, -2, -1, 1, 2, 3, 0]))
            else:
                toks.append(w)
        return toks, leaves, hows

    def mask(self, shape, lv):
        toks, leaves, hows = [], [], []
        for w in shape.split():
            if w == "L":
                v, h = self.leaves_for(lv, 1)
                toks.append("v%d" % v[0]); leaves += v; hows += h
            elif w == "c":
                toks.append("c%d" % self.r.randint(-3, 3))
            elif w == "B":
                toks.append("b%d" % self.new_bools(self.views[lv]["dims"]))
            else:
                toks.append(w)
        return toks, leaves, hows

    def dumps(self):
        for aid in sorted(self.allocs):
            self.emit("dump %d" % aid)

    def stmt(self, text, meta):
        i = self.emit(text)
        meta = dict(meta); meta["op"] = i
        self.stmts.append(meta)
        self.dumps()

    # ---- statements
    def pick_target(self, rank=None):
        r = self.r
        cands = [v for v, d in self.views.items() if not self.allocs[d["alloc"]]["fixed"] and (rank is None or len(d["dims"]) == rank)]
        if not cands or r.random() < 0.5:
            whole = r.choice([v for v, d in self.views.items() if d["how"] == "whole" and not self.allocs[d["alloc"]]["fixed"]])
            v = self.random_slice(whole, rank if (rank and rank <= len(self.views[whole]["dims"])) else None)
            if v is not None and (rank is None or len(self.views[v]["dims"]) == rank):
                return v
        return r.choice(cands) if cands else None

    def gen_statement(self):
        r = self.r
        y0 = r.random()
        if y0 < 0.07:
            return self.gen_where_compound()
        if y0 < 0.10:
            return self.gen_fixed_where()
        if y0 < 0.15:
            return self.gen_initlist()
        if y0 < 0.18:
            lv = self.pick_target()
            shape = r.choice(FIX_SHAPES)
            toks, leaves, hows = self.expr(shape, lv)
            return self.stmt("asgi v%d %s" % (lv, " ".join(toks)), dict(kind="asgi", lhs=lv, leaves=leaves, hows=hows, shape=shape, toks=toks))
        x = r.random()
        if x < 0.27:
            lv = self.pick_target()
            shape = r.choice(ASG_SHAPES)
            if shape.startswith("div") and self.t == "d":
                shape = "div L c"
            toks, leaves, hows = self.expr(shape, lv)
            if shape == "div L c" and self.t == "d":
                toks[-1] = r.choice(["c1", "c-1"])
            # (not on the object that owns the allocation alone: there the move legitimately replaces the allocation, which the
            # harness's memory images are keyed on; C07 owns that case)
            op = "asge" if r.random() < 0.25 and self.views[lv]["how"] != "whole" else "asg"
            self.stmt("%s v%d %s" % (op, lv, " ".join(toks)), dict(kind=op, lhs=lv, leaves=leaves, hows=hows, shape=shape, toks=toks))
        elif x < 0.33:
            # special operands: spread / outer_product / IndexedArray on the right
            lv = self.pick_target(r.choice([2, 2, 3, 1]))
            if lv is None:
                return
            d = self.views[lv]["dims"]
            y = r.random()
            if len(d) >= 2 and y < 0.45:
                sd = r.randrange(len(d))
                if sd == 2:
                    shape = "S2"
                else:
                    shape = r.choice(["S%d" % sd, "add S%d L" % sd])
                od = [x_ for j, x_ in enumerate(d) if j != sd]
                # operand: a view of rank-1 lower on the same allocation if possible
                whole = self.allocs[self.views[lv]["alloc"]]["vid"]
                ov = None
                for _ in range(6):
                    ov = self.window(whole, od, "spread-operand")
                    if ov is not None:
                        break
                if ov is None:
                    ov = self.leaves_for(None, 1, od)[0][0]
                toks = ["spr", str(sd), str(d[sd]), "v%d" % ov]
                leaves, hows = [ov], ["spread-operand"]
                if shape.startswith("add"):
                    t2, l2, h2 = self.expr("L", lv)
                    toks = ["add"] + toks + t2; leaves += l2; hows += h2
                self.stmt("asg v%d %s" % (lv, " ".join(toks)), dict(kind="asg", lhs=lv, leaves=leaves, hows=hows, shape=shape, toks=toks))
            elif len(d) == 2 and y < 0.75:
                whole = self.allocs[self.views[lv]["alloc"]]["vid"]
                a = b = None
                for _ in range(6):
                    a = a if a is not None else self.window(whole, [d[0]], "outer-operand")
                    b = b if b is not None else self.window(whole, [d[1]], "outer-operand")
                if a is None:
                    a = self.leaves_for(None, 1, [d[0]])[0][0]
                if b is None:
                    b = self.leaves_for(None, 1, [d[1]])[0][0]
                shape = r.choice(["O", "sub O L"])
                toks = ["out", "v%d" % a, "v%d" % b]
                leaves, hows = [a, b], ["outer-operand"] * 2
                if shape != "O":
                    t2, l2, h2 = self.expr("L", lv)
                    toks = ["sub"] + toks + t2; leaves += l2; hows += h2
                self.stmt("asg v%d %s" % (lv, " ".join(toks)), dict(kind="asg", lhs=lv, leaves=leaves, hows=hows, shape=shape, toks=toks))
            else:
                # v = w(idx)  with w on the same allocation or another
                w = self.iview_for(lv, d)
                if w is None:
                    return
                shape = r.choice(["W", "add W L"])
                toks, leaves, hows = ["w%d" % w], [], []
                if shape != "W":
                    t2, l2, h2 = self.expr("L", lv)
                    toks = ["add"] + toks + t2; leaves += l2; hows += h2
                self.stmt("asg v%d %s" % (lv, " ".join(toks)), dict(kind="asg", lhs=lv, leaves=leaves, hows=hows, shape=shape, toks=toks, wleaves=[w]))
        elif x < 0.50:
            lv = self.pick_target()
            op = r.choice(["cadd", "csub", "cmul", "cadd", "cdiv"])
            if op == "cdiv":
                shape = r.choice(DIV_SHAPES) if self.t == "i" else "c"
            else:
                shape = r.choice(CMP_SHAPES)
            toks, leaves, hows = self.expr(shape, lv)
            if op == "cdiv" and shape == "c":
                toks = [r.choice(["c1", "c-1"] if self.t == "d" else ["c1", "c-1", "c2", "c-2", "c3"])]
            wl = []
            if op != "cdiv" and r.random() < 0.12:
                w = self.iview_for(lv, self.views[lv]["dims"])
                if w is not None:
                    wl, shape, toks, leaves, hows = [w], "W", ["w%d" % w], [], []
            self.stmt("%s v%d %s" % (op, lv, " ".join(toks)), dict(kind=op, lhs=lv, leaves=leaves, hows=hows, shape=shape, toks=toks,
                                                                  wleaves=wl))
        elif x < 0.56:
            lv = self.pick_target()
            self.stmt("sca v%d %d" % (lv, r.randint(-9, 9)), dict(kind="sca", lhs=lv, leaves=[], hows=[], shape="scalar", toks=[]))
        elif x < 0.68:
            lv = self.pick_target()
            ms = r.choice(MASKS)
            mt, ml, mh = self.mask(ms, lv)
            if r.random() < 0.25:
                rt, rl, rh, rs = ["s%d" % r.randint(-9, 9)], [], [], "scalar"
            else:
                rs = r.choice(WHR_SHAPES)
                rt, rl, rh = self.expr(rs, lv)
            wl = []
            if r.random() < 0.3:
                # the right-hand side is (or contains) an integer-vector-indexed array: assign_conditional_ re-positions it
                # with set_location after every run of false mask elements
                w = self.iview_for(lv, self.views[lv]["dims"])
                if w is not None:
                    wl = [w]
                    if r.random() < 0.5:
                        rs, rt, rl, rh = "W", ["w%d" % w], [], []
                    else:
                        t2, l2, h2 = self.expr("L", lv)
                        rs, rt, rl, rh = "add W L", ["add", "w%d" % w] + t2, l2, h2
            self.stmt("whr v%d %s ; %s" % (lv, " ".join(mt), " ".join(rt)),
                      dict(kind="whr", lhs=lv, leaves=rl, hows=rh, mleaves=ml, mhows=mh, shape=rs, mshape=ms, toks=rt, mtoks=mt,
                           wleaves=wl))
        elif x < 0.73:
            lv = self.pick_target()
            ms = r.choice(EO_MASKS)
            mt, ml, mh = self.mask(ms, lv)
            if r.random() < 0.35:
                ct, cl, ch, cs_ = ["s%d" % r.randint(-9, 9)], [], [], "scalar"
            else:
                cs_ = r.choice(EO_SHAPES)
                ct, cl, ch = self.expr(cs_, lv)
            if r.random() < 0.5:
                dt, dl, dh, ds = ["s%d" % r.randint(-9, 9)], [], [], "scalar"
            else:
                ds = "L"
                dt, dl, dh = self.expr("L", lv)
            self.stmt("weo v%d %s ; %s ; %s" % (lv, " ".join(mt), " ".join(ct), " ".join(dt)),
                      dict(kind="weo", lhs=lv, leaves=cl + dl, hows=ch + dh, tleaves=cl, mleaves=ml, mhows=mh,
                           shape=cs_ + "|" + ds, mshape=ms, toks=ct + dt, mtoks=mt))
        elif x < 0.83:
            # IndexedArray target
            pv = self.pick_target()
            w = self.new_iview(pv)
            if w is None:
                return
            d = self.iviews[w]["dims"]
            y = r.random()
            if y < 0.12:
                self.stmt("isca w%d %d" % (w, r.randint(-9, 9)), dict(kind="isca", lhs=pv, iw=w, leaves=[], hows=[], shape="scalar", toks=[]))
                return
            op = "iasg" if y < 0.6 else r.choice(["icadd", "icsub", "icmul"])
            if op == "icmul":
                # with a repeated index the library accumulates (open finding F-39): a product over many repeats of one cell
                # leaves the exact integer regime (signed overflow, which UBSan stops on) — keep the multiplicity small
                mult = 1
                for (c_, val) in self.iviews[w]["sel"]:
                    if c_ == "i":
                        xs = self.idx[val]
                        mult *= max(xs.count(v_) for v_ in set(xs))
                if mult > 3:
                    op = "icadd"
            shape = r.choice(IDX_SHAPES if op == "iasg" else ICMP_SHAPES)
            if shape == "W":
                # the same kind of indexed view over the same or another array, extents equal
                src = self.iviews[w]
                w2 = self.nw; self.nw += 1
                sel2, seltxt = [], []
                pv2 = pv if r.random() < 0.6 else None
                if pv2 is None:
                    pv2 = self.new_alloc(self.views[pv]["dims"])
                for (c, val), dpar in zip(src["sel"], self.views[pv]["dims"]):
                    if c == "i":
                        i = self.new_idx(len(self.idx[val]), dpar, True)
                        sel2.append(("i", i)); seltxt.append("i%d" % i)
                    elif c == "a":
                        sel2.append(("a", None)); seltxt.append("a")
                    else:
                        k = r.randrange(dpar); sel2.append(("n", k)); seltxt.append("n%d" % k)
                self.emit("iview %d %d %s" % (w2, pv2, " ".join(seltxt)))
                self.iviews[w2] = dict(view=pv2, sel=sel2, dims=list(d), kind=src["kind"])
                toks, leaves, hows = ["w%d" % w2], [], []
                self.stmt("%s w%d %s" % (op, w, " ".join(toks)), dict(kind=op, lhs=pv, iw=w, leaves=leaves, hows=hows, shape=shape, toks=toks, wleaves=[w2]))
                return
            # leaves of the indexed view's extents: windows on the same allocation or elsewhere
            toks, leaves, hows = [], [], []
            whole = self.allocs[self.views[pv]["alloc"]]["vid"]
            for wd in shape.split():
                if wd == "L":
                    v = None
                    if r.random() < 0.6:
                        for _ in range(5):
                            v = self.window(whole, d, "window")
                            if v is not None:
                                break
                    how = "window"
                    if v is None:
                        v = self.leaves_for(None, 1, d)[0][0]; how = "other"
                    toks.append("v%d" % v); leaves.append(v); hows.append(how)
                elif wd == "c":
                    toks.append("c%d" % r.choice([-3, -2, -1, 1, 2, 3]))
                else:
                    toks.append(wd)
            self.stmt("%s w%d %s" % (op, w, " ".join(toks)), dict(kind=op, lhs=pv, iw=w, leaves=leaves, hows=hows, shape=shape, toks=toks))
        elif x < 0.87:
            fixed = [a for a, d in self.allocs.items() if d["fixed"]]
            if not fixed:
                aid_vid = self.new_fixed(r.choice([4, 23, 33, 234, 234]))
                fixed = [self.views[aid_vid]["alloc"]]
            aid = r.choice(fixed)
            lv = self.allocs[aid]["vid"]
            op = r.choice(["fasg", "fasg", "fcadd", "fcmul"])
            if r.random() < 0.3:
                # through the Array view of the FixedArray: a target WITHOUT a Storage object, assigned an expression or an
                # rvalue Array (must be stored in place, never swapped with the temporary)
                op = r.choice(["asg", "asge", "asge"])
                shape = r.choice(["L", "add L L", "mul L c", "sub c L"])
                toks, leaves, hows = self.expr(shape, lv)
                self.stmt("%s v%d %s" % (op, lv, " ".join(toks)), dict(kind=op, lhs=lv, leaves=leaves, hows=hows, shape=shape, toks=toks))
                return
            shape = r.choice(FIX_SHAPES if op == "fasg" else EO_SHAPES)
            toks, leaves, hows = self.expr(shape, lv)
            self.stmt("%s f%d %s" % (op, aid, " ".join(toks)), dict(kind=op, lhs=lv, leaves=leaves, hows=hows, shape=shape, toks=toks))
        else:
            self.gen_reduction()

    def wrhs(self, lv, shapes, op):
        """right-hand side of a (compound) where: scalar or one of `shapes`; division keeps to divisors that divide"""
        r = self.r
        if op.endswith("div"):
            return [r.choice(["s1", "s-1"] if self.t == "d" else ["s1", "s-1", "s2", "s-2", "s3"])], [], [], "scalar"
        if r.random() < 0.25:
            return ["s%d" % r.randint(-4, 4)], [], [], "scalar"
        rs = r.choice(shapes)
        rt, rl, rh = self.expr(rs, lv)
        return rt, rl, rh, rs

    def gen_where_compound(self, lv=None, op=None, ms=None):
        r = self.r
        lv = self.pick_target() if lv is None else lv
        op = op or r.choice(WC_OPS)
        ms = ms or r.choice(EO_MASKS)
        mt, ml, mh = self.mask(ms, lv)
        rt, rl, rh, rs = self.wrhs(lv, WC_SHAPES, op)
        self.stmt("%s v%d %s ; %s" % (op, lv, " ".join(mt), " ".join(rt)),
                  dict(kind=op, lhs=lv, leaves=rl, hows=rh, mleaves=ml, mhows=mh, shape=rs, mshape=ms, toks=rt, mtoks=mt))

    def gen_fixed_where(self, aid=None, op=None, ms=None):
        r = self.r
        if aid is None:
            fixed = [a for a, d in self.allocs.items() if d["fixed"]]
            if not fixed:
                fixed = [self.views[self.new_fixed(r.choice([4, 23, 33, 234]))]["alloc"]]
            aid = r.choice(fixed)
        lv = self.allocs[aid]["vid"]
        op = op or r.choice(FW_OPS)
        ms = ms or r.choice(EO_MASKS)
        mt, ml, mh = self.mask(ms, lv)
        if op == "fweo":
            if r.random() < 0.5:
                ct, cl, ch, cs_ = ["s%d" % r.randint(-9, 9)], [], [], "scalar"
            else:
                cs_ = "L"; ct, cl, ch = self.expr("L", lv)
            if r.random() < 0.5:
                dt, dl, dh, ds = ["s%d" % r.randint(-9, 9)], [], [], "scalar"
            else:
                ds = "L"; dt, dl, dh = self.expr("L", lv)
            self.stmt("fweo f%d %s ; %s ; %s" % (aid, " ".join(mt), " ".join(ct), " ".join(dt)),
                      dict(kind="fweo", lhs=lv, leaves=cl + dl, hows=ch + dh, tleaves=cl, mleaves=ml, mhows=mh,
                           shape=cs_ + "|" + ds, mshape=ms, toks=ct + dt, mtoks=mt))
            return
        rt, rl, rh, rs = self.wrhs(lv, FW_SHAPES, op)
        self.stmt("%s f%d %s ; %s" % (op, aid, " ".join(mt), " ".join(rt)),
                  dict(kind=op, lhs=lv, leaves=rl, hows=rh, mleaves=ml, mhows=mh, shape=rs, mshape=ms, toks=rt, mtoks=mt))

    def gen_initlist(self, kind=None, fill=None):
        """target = {x..} / {{..},{..}}: Array view of rank 1-2 (any stride / sign), FixedArray<4>, <2,3>, <3,3>, IndexedArray of rank 1.
        fill: "full" (as many elements as the target), "short" (short rows / short vector), "rows" (fewer rows), None: random"""
        r = self.r
        kind = kind or r.choice(["ilst", "ilst", "ilst", "filst", "iilst"])
        fill = fill or r.choice(["full", "short", "short", "rows"])
        iw = None
        if kind == "ilst":
            lv = self.pick_target(r.choice([1, 2]))
            if lv is None or len(self.views[lv]["dims"]) > 2:
                return
            d = self.views[lv]["dims"]; tgt = "v%d" % lv
        elif kind == "filst":
            lv = self.new_fixed(r.choice([4, 23, 33]))
            d = self.views[lv]["dims"]; tgt = "f%d" % self.views[lv]["alloc"]
        else:
            pv = self.pick_target()
            iw = self.new_iview(pv, 1)
            if iw is None:
                return
            lv, d, tgt, fill = pv, self.iviews[iw]["dims"], "w%d" % iw, "full"
        maxlen = 5 if len(d) == 1 else 4
        if d[-1] > maxlen and (fill == "full" or kind == "iilst"):
            if kind == "iilst":
                return
            fill = "short"
        nrows = 1 if len(d) == 1 else min(d[0], 3)
        if len(d) == 2 and (fill == "rows" or d[0] > 3):
            nrows = r.randint(1, max(1, min(d[0] - 1, 3)))
        rows = []
        for i in range(nrows):
            n = min(d[-1], maxlen)
            if fill != "full" and not (fill == "rows" and r.random() < 0.5):
                n = r.randint(0, n)
            rows.append([r.randint(-9, 9) for _ in range(n)])
        txt = "%s %s %d %s" % (kind, tgt, nrows, " ".join("%d %s" % (len(x), " ".join(map(str, x))) if x else "0" for x in rows))
        self.stmt(" ".join(txt.split()), dict(kind=kind, lhs=lv, iw=iw, leaves=[], hows=[], shape="initlist/" + fill, toks=[],
                                              nrows=nrows))

    def gen_reduction(self):
        r = self.r
        av = self.pick_target()
        d = self.views[av]["dims"]
        y = r.random()
        if y < 0.40:
            fn = r.choice(RFNS)
            if len(d) >= 2 and r.random() < 0.6:
                self.stmt("redd %s %d v%d" % (fn, r.randrange(len(d)), av), dict(kind="redd", fn=fn, lhs=av, leaves=[], hows=[], shape="L", toks=[]))
            else:
                self.stmt("red %s v%d" % (fn, av), dict(kind="red", fn=fn, lhs=av, leaves=[], hows=[], shape="L", toks=[]))
        elif y < 0.60:
            shape = r.choice(["add L c", "mul L L"])
            toks, leaves, hows = self.expr(shape, av)
            fn = r.choice(["sum", "maxval"])
            if len(d) >= 2 and r.random() < 0.6:
                self.stmt("redd %s %d %s" % (fn, r.randrange(len(d)), " ".join(toks)), dict(kind="redd", fn=fn, lhs=av, leaves=leaves, hows=hows, shape=shape, toks=toks))
            else:
                self.stmt("red %s %s" % (fn, " ".join(toks)), dict(kind="red", fn=fn, lhs=av, leaves=leaves, hows=hows, shape=shape, toks=toks))
        elif y < 0.70:
            # reductions of spread / outer_product
            if r.random() < 0.5 and len(d) <= 2:
                sd = r.randrange(len(d) + 1)
                n = r.randint(1, 3)
                fn = r.choice(["sum", "maxval"])
                toks = "spr %d %d v%d" % (sd, n, av)
                if r.random() < 0.5:
                    self.stmt("redd %s %d %s" % (fn, r.randrange(len(d) + 1), toks), dict(kind="redd", fn=fn, lhs=av, leaves=[], hows=[], shape="S", toks=toks.split()))
                else:
                    self.stmt("red %s %s" % (fn, toks), dict(kind="red", fn=fn, lhs=av, leaves=[], hows=[], shape="S", toks=toks.split()))
            else:
                a = self.pick_target(1); b = self.pick_target(1)
                if a is None or b is None:
                    return
                fn = r.choice(["sum", "maxval"])
                toks = "out v%d v%d" % (a, b)
                if r.random() < 0.5:
                    self.stmt("redd %s %d %s" % (fn, r.randrange(2), toks), dict(kind="redd", fn=fn, lhs=a, leaves=[], hows=[], shape="O", toks=toks.split()))
                else:
                    self.stmt("red %s %s" % (fn, toks), dict(kind="red", fn=fn, lhs=a, leaves=[], hows=[], shape="O", toks=toks.split()))
        elif y < 0.85:
            ms = r.choice(MASKS)
            mt, ml, mh = self.mask(ms, av)
            fn = r.choice(["all", "any", "count"])
            if len(d) >= 2 and r.random() < 0.6:
                self.stmt("reddb %s %d %s" % (fn, r.randrange(len(d)), " ".join(mt)), dict(kind="reddb", fn=fn, lhs=av, leaves=ml, hows=mh, shape=ms, toks=mt))
            else:
                self.stmt("redb %s %s" % (fn, " ".join(mt)), dict(kind="redb", fn=fn, lhs=av, leaves=ml, hows=mh, shape=ms, toks=mt))
        else:
            a = self.pick_target(1)
            if a is None:
                return
            z = r.random()
            if z < 0.3:
                mt, ml, mh = self.mask(r.choice(MASKS), a)
                self.stmt("find %s" % " ".join(mt), dict(kind="find", fn="find", lhs=a, leaves=ml, hows=mh, shape="mask", toks=mt))
            elif z < 0.7:
                fn = r.choice(["minloc", "maxloc"])
                self.stmt("%s v%d" % (fn, a), dict(kind=fn, fn=fn, lhs=a, leaves=[], hows=[], shape="L", toks=[]))
            else:
                t1, l1, h1 = self.expr(r.choice(["L", "add L c"]), a)
                t2, l2, h2 = self.expr(r.choice(["L", "mul c L"]), a)
                self.stmt("dot %s %s" % (" ".join(t1), " ".join(t2)), dict(kind="dot", fn="dot", lhs=a, leaves=l1 + l2, hows=h1 + h2, shape="dot", toks=t1 + t2))


def gen_case(rng, t, order):
    g = Gen(rng, t, order)
    rank = rng.choice([1, 1, 2, 2, 2, 3, 3])
    # extents: small, sometimes wide enough in the last dimension to be padded (>= 2 packets)
    dims = [rng.randint(2, 5) for _ in range(rank)]
    if rank >= 2 and rng.random() < 0.5:
        dims[-1] = rng.choice([4, 5, 6, 7, 9])
    if rank == 1:
        dims = [rng.randint(3, 9)]
    g.new_alloc(dims)
    if rng.random() < 0.25:
        g.new_alloc([rng.randint(2, 5) for _ in range(rng.choice([1, 2]))])
    for _ in range(rng.randint(1, 3)):
        n0 = len(g.stmts)
        for _try in range(4):
            g.gen_statement()
            if len(g.stmts) > n0:
                break
    return dict(type=t, order=order, ops=g.ops, stmts=g.stmts, views=g.views, allocs=g.allocs, iviews=g.iviews, idx=g.idx)


def reduction_sweep(rng, t, order, n_arrays):
    """systematic reductions: every function, whole and along EVERY dimension, on arrays whose extents are pairwise
    different (a wrong stride or extent cannot cancel), through whole / reversed / permuted / strided views"""
    cases = []
    for _ in range(n_arrays):
        g = Gen(rng, t, order)
        rank = rng.choice([2, 3, 3])
        dims = rng.sample([2, 3, 4, 5], rank)
        whole = g.new_alloc(dims)
        vs = [whole]
        v = g.new_view(whole, ["s%d,0,-1" % (x - 1) if rng.random() < 0.6 else ":" for x in dims], "reversed")
        if v is not None:
            vs.append(v)
        post = "T" if rank == 2 else rng.choice(["P021", "P102", "P120", "P201", "P210"])
        v = g.new_view(whole, [":"] * rank, "transposed", post)
        if v is not None:
            vs.append(v)
        v = g.random_slice(whole, rank)
        if v is not None:
            vs.append(v)
        for v in vs:
            d = g.views[v]["dims"]
            for fn in RFNS:
                if rng.random() < 0.5:
                    g.stmt("red %s v%d" % (fn, v), dict(kind="red", fn=fn, lhs=v, leaves=[], hows=[], shape="L", toks=[]))
                for k in range(len(d)):
                    g.stmt("redd %s %d v%d" % (fn, k, v), dict(kind="redd", fn=fn, lhs=v, leaves=[], hows=[], shape="L", toks=[]))
            for fn in ("all", "any", "count"):
                c = rng.randint(-3, 3)
                k = rng.randrange(len(d))
                g.stmt("reddb %s %d gt v%d c%d" % (fn, k, v, c), dict(kind="reddb", fn=fn, lhs=v, leaves=[v], hows=["same"], shape="gt L c", toks=[]))
            k = rng.randrange(len(d))
            g.stmt("redd sum %d mul v%d v%d" % (k, v, v), dict(kind="redd", fn="sum", lhs=v, leaves=[v, v], hows=["same"] * 2, shape="mul L L", toks=[]))
        # rank-1 functions on a row / column of the array
        specs = ["n%d" % rng.randrange(x) for x in dims]
        k = rng.randrange(rank)
        specs[k] = rng.choice([":", "s%d,0,-1" % (dims[k] - 1)])
        v1 = g.new_view(whole, specs, "slice")
        if v1 is not None:
            for op in ("minloc v%d", "maxloc v%d", "find gt v%d c0", "dot v%d v%d", "redb count ne v%d c1", "red norm2 v%d"):
                txt = op % ((v1, v1) if op.count("%d") == 2 else v1)
                kind = txt.split()[0]
                g.stmt(txt, dict(kind=kind, fn=txt.split()[1] if kind in ("red", "redb") else kind, lhs=v1, leaves=[], hows=[], shape="L", toks=[]))
        cases.append(dict(type=t, order=order, ops=g.ops, stmts=g.stmts, views=g.views, allocs=g.allocs, iviews=g.iviews, idx=g.idx))
    return cases


def special_sweep(rng, t, order, n_arrays):
    """outer_product and spread whose operands are rows / columns / sub-vectors of the TARGET itself (each operand position
    on its own: left only, right only, both), plain and compound, whole target and sub-block target: the alias test of
    these expression nodes must see every operand"""
    cases = []
    for _ in range(n_arrays):
        g = Gen(rng, t, order, allow_row_mode=False)
        n, m = rng.sample([2, 3, 4, 5], 2)
        M = g.new_alloc([n, m], "def")
        x = g.new_alloc([n], "def"); y = g.new_alloc([m], "def")
        rowk = lambda: g.new_view(M, ["n%d" % rng.randrange(n), ":"], "outer-operand")      # extents [m]
        colk = lambda: g.new_view(M, [":", "n%d" % rng.randrange(m)], "outer-operand")      # extents [n]
        combos = [("right", x, rowk()), ("left", colk(), y), ("both", colk(), rowk())]
        rng.shuffle(combos)
        for which, a, b in combos:
            if a is None or b is None:
                continue
            op = rng.choice(["asg", "asg", "csub", "cadd"])
            toks = ["out", "v%d" % a, "v%d" % b]
            g.stmt("%s v%d %s" % (op, M, " ".join(toks)), dict(kind=op, lhs=M, leaves=[a, b], hows=["outer-operand"] * 2, shape="O", toks=toks))
        # spread of a row / column of the target into the target
        r0 = rowk(); c0 = colk()
        if r0 is not None:
            toks = ["spr", "0", str(n), "v%d" % r0]
            g.stmt("asg v%d %s" % (M, " ".join(toks)), dict(kind="asg", lhs=M, leaves=[r0], hows=["spread-operand"], shape="S0", toks=toks))
        if c0 is not None:
            toks = ["spr", "1", str(m), "v%d" % c0]
            g.stmt("asg v%d %s" % (M, " ".join(toks)), dict(kind="asg", lhs=M, leaves=[c0], hows=["spread-operand"], shape="S1", toks=toks))
        cases.append(dict(type=t, order=order, ops=g.ops, stmts=g.stmts, views=g.views, allocs=g.allocs, iviews=g.iviews, idx=g.idx))
    return cases


def mask_bits(pattern, n, rng):
    if pattern == "all":
        return [1] * n
    if pattern == "none":
        return [0] * n
    if pattern == "alt":
        return [i % 2 for i in range(n)]
    if pattern == "gaps":
        # runs of selected elements separated by runs of unselected ones of varying length (the is_gap resynchronisation)
        bits, v = [], 1
        while len(bits) < n:
            bits += [v] * rng.randint(1, 3); v = 1 - v
        return bits[:n]
    return [rng.randint(0, 1) for _ in range(n)]


def where_compound_sweep(rng, t, order, reps):
    """directed, every run: A.where(mask) OP= rhs for rank 1-3 x every operator x mask pattern all / none / alternating / with gaps
    (boolArray) and masks over the target itself / another array, x right-hand side scalar / array of another allocation /
    expression / overlapping view of the target (reversed, shifted, transposed ...); the same for FixedArray.where
    (= / += / *= / either_or) on FixedArray<4>, <2,3>, <3,3>, <2,3,4>"""
    cases = []
    pats = ["all", "none", "alt", "gaps"]
    for _ in range(reps):
        for rank in (1, 2, 3):
            for op in WC_OPS:
                g = Gen(rng, t, order)
                dims = [rng.randint(3, 7)] if rank == 1 else [rng.randint(2, 4) for _ in range(rank - 1)] + [rng.choice([3, 4, 5, 6])]
                A = g.new_alloc(dims)
                n = 1
                for x in dims:
                    n *= x
                rng.shuffle(pats)
                for k, pat in enumerate(pats):
                    lv = A if k % 2 == 0 else (g.random_slice(A, rank) or A)
                    ld = g.views[lv]["dims"]
                    ln = 1
                    for x in ld:
                        ln *= x
                    b = g.nb; g.nb += 1
                    bits = mask_bits(pat, ln, rng)
                    g.emit("bools %d %d %s %s" % (b, len(ld), " ".join(map(str, ld)), " ".join(map(str, bits))))
                    g.bools[b] = (list(ld), bits)
                    kind = ["scalar", "other", "expr", "overlap"][(k + rng.randrange(4)) % 4]
                    if op == "wcdiv" or kind == "scalar":
                        rt, rl, rh, rs = g.wrhs(lv, [], "wcdiv") if op == "wcdiv" else (["s%d" % rng.randint(-4, 4)], [], [], "scalar")
                    elif kind == "other":
                        v = g.leaves_for(None, 1, ld)[0][0]
                        rt, rl, rh, rs = ["v%d" % v], [v], ["other"], "L"
                    elif kind == "expr":
                        rs = rng.choice(["add L L", "add L c"]); rt, rl, rh = g.expr(rs, lv)
                    else:
                        v, how = g.partner(lv, rng.choice(["reversed", "reversed1", "shifted", "transposed", "interleaved", "same"]))
                        rt, rl, rh, rs = ["v%d" % v], [v], [how], "L"
                    g.stmt("%s v%d b%d ; %s" % (op, lv, b, " ".join(rt)),
                           dict(kind=op, lhs=lv, leaves=rl, hows=rh, mleaves=[], mhows=[], shape=rs, mshape="B:" + pat, toks=rt, mtoks=["b%d" % b]))
                # masks that are comparisons: over the target itself (identical positions) and over a partner
                g.gen_where_compound(lv=A, op=op, ms="gt L c")
                g.gen_where_compound(lv=A, op=op, ms="lt L L")
                cases.append(dict(type=t, order=order, ops=g.ops, stmts=g.stmts, views=g.views, allocs=g.allocs, iviews=g.iviews, idx=g.idx))
        for fk in (4, 23, 33, 234):
            g = Gen(rng, t, order)
            fv = g.new_fixed(fk)
            aid = g.views[fv]["alloc"]
            fd = g.views[fv]["dims"]
            fn = 1
            for x in fd:
                fn *= x
            for op in FW_OPS:
                pat = rng.choice(pats)
                b = g.nb; g.nb += 1
                bits = mask_bits(pat, fn, rng)
                g.emit("bools %d %d %s %s" % (b, len(fd), " ".join(map(str, fd)), " ".join(map(str, bits))))
                g.bools[b] = (list(fd), bits)
                if op == "fweo":
                    g.gen_fixed_where(aid=aid, op=op, ms=rng.choice(EO_MASKS))
                    continue
                v = g.leaves_for(None, 1, fd)[0][0]
                g.stmt("%s f%d b%d ; v%d" % (op, aid, b, v),
                       dict(kind=op, lhs=fv, leaves=[v], hows=["other"], mleaves=[], mhows=[], shape="L", mshape="B:" + pat, toks=["v%d" % v], mtoks=["b%d" % b]))
                g.gen_fixed_where(aid=aid, op=op)
            cases.append(dict(type=t, order=order, ops=g.ops, stmts=g.stmts, views=g.views, allocs=g.allocs, iviews=g.iviews, idx=g.idx))
    return cases


def initlist_sweep(rng, t, order, reps):
    """directed, every run: every target kind x full / short rows / fewer rows"""
    cases = []
    for _ in range(reps):
        for kind in ("ilst", "filst", "iilst"):
            g = Gen(rng, t, order)
            g.new_alloc([rng.randint(2, 4), rng.randint(2, 4)])
            g.new_alloc([rng.randint(2, 5)])
            for fill in ("full", "short", "rows", "short", "rows"):
                g.gen_initlist(kind, fill)
            cases.append(dict(type=t, order=order, ops=g.ops, stmts=g.stmts, views=g.views, allocs=g.allocs, iviews=g.iviews, idx=g.idx))
    return cases


def packet_sweep(rng, t, order, n_arrays):
    """statements whose innermost dimension is long enough for the packet (SIMD) loops of assign_expression_ and
    reduce_inactive, on views that start at every offset 0..3 from the (aligned) allocation and have every length 4..13:
    misaligned heads, tails that are not a whole packet, rows whose alignment alternates (odd row length), operands with
    equal and with different misalignment"""
    cases = []
    for _ in range(n_arrays):
        g = Gen(rng, t, order, allow_row_mode=False)
        N = rng.randint(15, 19)
        rank = rng.choice([1, 1, 2])
        if rank == 1:
            A = g.new_alloc([N], "def"); B = g.new_alloc([N], "def"); C = g.new_alloc([N], "def")
            pre = []
        else:
            rows = rng.randint(2, 3)
            dd = [rows, N] if order == "r" else [N, rows]
            A = g.new_alloc(dd, "def"); B = g.new_alloc(dd, "def"); C = g.new_alloc(dd, "def")
            pre = [":"]
        combos = [(a, n) for a in range(4) for n in range(4, 14) if a + n <= N]
        rng.shuffle(combos)
        for a, n in combos[:10]:
            def win(src, off):
                sp = "s%d,%d,1" % (off, off + n - 1)
                specs = (pre + [sp]) if order == "r" else ([sp] + pre)
                return g.new_view(src, specs, "window")
            b = rng.choice([a, a, (a + 1) % 4, (a + 2) % 4])
            if b + n > N:
                b = a
            va, vb = win(A, a), win(B, b)
            vc = win(C, rng.choice([a, b, 0]) if rng.random() < 0.7 and max(a, b) + n <= N else 0)
            if va is None or vb is None or vc is None:
                continue
            for fn in rng.sample(["sum", "maxval", "minval", "mean"], 2):
                g.stmt("red %s v%d" % (fn, va), dict(kind="red", fn=fn, lhs=va, leaves=[], hows=[], shape="L", toks=[]))
            toks = ["mul", "v%d" % va, "v%d" % vb]
            g.stmt("red sum %s" % " ".join(toks), dict(kind="red", fn="sum", lhs=va, leaves=[va, vb], hows=["window"] * 2,
                                                          shape="mul L L", toks=toks))
            op = rng.choice(["add", "mul", "sub"])
            toks = [op, "v%d" % va, "v%d" % vb]
            if rank == 2:
                k = rng.randrange(2)
                g.stmt("redd sum %d v%d" % (k, va), dict(kind="redd", fn="sum", lhs=va, leaves=[], hows=[], shape="L", toks=[]))
            g.stmt("asg v%d %s" % (vc, " ".join(toks)), dict(kind="asg", lhs=vc, leaves=[va, vb], hows=["window"] * 2,
                                                           shape="%s L L" % op, toks=toks))
            g.stmt("cadd v%d v%d" % (vc, va), dict(kind="cadd", lhs=vc, leaves=[va], hows=["window"], shape="L", toks=["v%d" % va]))
        cases.append(dict(type=t, order=order, ops=g.ops, stmts=g.stmts, views=g.views, allocs=g.allocs, iviews=g.iviews, idx=g.idx))
    return cases


# ------------------------------------------------------------------ evaluation of one case
def cells_of(vinfo):
    """absolute addresses of a view, in index order"""
    base, dims, strides = vinfo
    out = [base]
    for d, s in zip(dims, strides):
        out = [a + i * s for a in out for i in range(d)]
    return out


def canon_model_rvals(line, t):
    """turn the model's exact Q:num/den and S:rad tokens into what the C++ element type yields"""
    out = []
    for w in line.split():
        if w.startswith("Q:"):
            a, b = w[2:].split("/")
            a, b = int(a), int(b)
            if t == "i":
                q = abs(a) // b
                out.append(str(q if a >= 0 else -q))
            else:
                out.append(fmt(a / b))
        elif w.startswith("S:"):
            n = int(w[2:])
            out.append(str(int(math.sqrt(n))) if t == "i" else fmt(math.sqrt(n)))
        else:
            out.append(w)
    return " ".join(out)


def fmt(x):
    if x == math.floor(x) and abs(x) < 9.0e15:
        return "%d" % int(x)
    return "%.17g" % x


def py_reduce(kind, fn, dims, el, meta_op, t):
    """expected reduction result from the element list (index order), as the line the harness prints"""
    def fold(fn, xs):
        if fn == "sum":
            return sum(xs)
        if fn == "mean":
            s = sum(xs)
            if t == "i":
                q = abs(s) // len(xs)
                return q if s >= 0 else -q
            return s / len(xs)
        if fn == "product":
            p = 1
            for x in xs:
                p *= x
            return p
        if fn == "minval":
            return min(xs)
        if fn == "maxval":
            return max(xs)
        if fn == "norm2":
            s = sum(x * x for x in xs)
            return int(math.sqrt(s)) if t == "i" else math.sqrt(s)
        if fn == "all":
            return int(all(xs))
        if fn == "any":
            return int(any(xs))
        if fn == "count":
            return sum(1 for x in xs if x)
        raise ValueError(fn)
    w = meta_op.split()
    if kind in ("red", "redb", "dot"):
        return "R " + fmt(fold("sum" if kind == "dot" else fn, el))
    if kind in ("redd", "reddb"):
        d = int(w[2])
        # index tuples in row-major order
        idx = [[]]
        for n in dims:
            idx = [i + [k] for i in idx for k in range(n)]
        strips = {}
        order = []
        for ix, x in zip(idx, el):
            key = tuple(ix[:d] + ix[d + 1:])
            if key not in strips:
                strips[key] = []; order.append(key)
            strips[key].append(x)
        order.sort()
        return "R " + " ".join(fmt(fold(fn, strips[k])) for k in order)
    if kind == "find":
        return ("R " + " ".join(str(i) for i, x in enumerate(el) if x)).rstrip() if any(el) else "R"
    if kind == "minloc":
        return "R %d" % el.index(min(el))
    if kind == "maxloc":
        return "R %d" % el.index(max(el))
    raise ValueError(kind)


STMT_KINDS = ("asg", "asge", "asgi", "cadd", "csub", "cmul", "cdiv", "sca", "whr", "weo", "iasg", "icadd", "icsub", "icmul", "isca", "fasg", "fcadd", "fcmul",
              "wcadd", "wcsub", "wcmul", "wcdiv", "fwhr", "fwcadd", "fwcmul", "fweo", "ilst", "filst", "iilst")
FIXED_KINDS = ("fasg", "fcadd", "fcmul", "fwhr", "fwcadd", "fwcmul", "fweo", "filst")
RED_KINDS = ("red", "redd", "redb", "reddb", "find", "minloc", "maxloc", "dot")


def model_text(ops, il):
    """translate the implementation's op stream + answers into the model's op stream; returns (lines, map op index -> model line index)"""
    out, mp = [], {}
    allocs, views, fixed_vid = {}, {}, {}
    for i, (op, ans) in enumerate(zip(ops, il)):
        w = op.split()
        k = w[0]
        if k == "reset":
            allocs, views, fixed_vid = {}, {}, {}
            mp[i] = len(out); out.append("reset")
        elif k == "order":
            continue
        elif k in ("alloc", "falloc"):
            a = ans.split()
            if a[0] != "A":
                return None, "allocation failed: %r -> %r" % (op, ans)
            aid, vid = int(w[1]), int(w[2])
            n = int(a[1]); r = int(a[4])
            allocs[aid] = dict(base=(aid + 1) * ALLOC_GAP, n=n)
            dims = [int(x) for x in a[5:5 + r]]; strides = [int(x) for x in a[5 + r:5 + 2 * r]]
            views[vid] = (allocs[aid]["base"] + int(a[3]), dims, strides, aid)
            if k == "falloc":
                fixed_vid[aid] = vid
            out.append("view %d %d %d %s %s" % (vid, views[vid][0], r, " ".join(map(str, dims)), " ".join(map(str, strides))))
        elif k == "fill":
            aid = int(w[1])
            vals = fill_values(int(w[3]), allocs[aid]["n"]) if w[2] == "seed" else [int(x) for x in w[2:]]
            allocs[aid]["vals"] = vals
            out.append("mem %d %d %s" % (allocs[aid]["base"], allocs[aid]["n"], " ".join(map(str, vals))))
        elif k == "view":
            a = ans.split()
            if a[0] != "V":
                return None, "view failed: %r -> %r" % (op, ans)
            vid = int(w[1]); aid = int(a[1]); r = int(a[3])
            dims = [int(x) for x in a[4:4 + r]]; strides = [int(x) for x in a[4 + r:4 + 2 * r]]
            views[vid] = (allocs[aid]["base"] + int(a[2]), dims, strides, aid)
            out.append("view %d %d %d %s %s" % (vid, views[vid][0], r, " ".join(map(str, dims)), " ".join(map(str, strides))))
        elif k in ("idx", "bools"):
            out.append(op)
        elif k == "iview":
            vid = int(w[2])
            sel = []
            for s, d in zip(w[3:], views[vid][1]):
                if s[0] == "i":
                    sel.append(s)
                elif s == "a":
                    sel.append("l" + ",".join(str(j) for j in range(d)))
                else:
                    sel.append("n" + s[1:])
            out.append("iview %s v%d %d %s" % (w[1], vid, len(sel), " ".join(sel)))
        elif k == "dump":
            aid = int(w[1])
            mp[i] = len(out); out.append("dump %d %d" % (allocs[aid]["base"], allocs[aid]["n"]))
        elif k in STMT_KINDS or k in RED_KINDS:
            if ans.startswith("hazard") or ans.startswith("bad-op") or ans.startswith("EXC"):
                continue
            if k in FIXED_KINDS:
                op = "%s v%d %s" % (k, fixed_vid[int(w[1][1:])], " ".join(w[2:]))
            if k == "asgi":
                # Array::assign_inactive(e) on a passive array: alias test, temporary (filled by assign_inactive again), then
                # assign_expression_ — the model's `assign`
                op = "asg " + " ".join(w[1:])
            if k == "asge":
                # `lhs = eval(e)`: an rvalue Array on the right.  eval() has evaluated the whole of e into a temporary before
                # anything is stored, whatever noalias() wrappers e contains: the meaning is that of `lhs = e` without them
                # (aliased -> the model's temporary-copy path, not aliased -> the in-place loop, which is the same function)
                op = "asg " + " ".join(x for x in w[1:] if x != "na")
            mp[i] = len(out); out.append(op)
        else:
            return None, "unknown op %r" % op
    return (out, mp, views, allocs), None


def classify(meta, views, iviews, idxs):
    """overlap facts of one statement from the views the implementation reported"""
    L = views.get(meta["lhs"])
    if L is None:
        return {}
    if meta.get("iw") is not None:
        iw = iviews[meta["iw"]]
        pv = views[iw["view"]]
        tcells = []
        lists = []
        for (c, val), d in zip(iw["sel"], pv[1]):
            lists.append(idxs[val] if c == "i" else list(range(d)) if c == "a" else [val])
        coords = [[]]
        for l in lists:
            coords = [c + [x] for c in coords for x in l]
        tcells = [pv[0] + sum(i * s for i, s in zip(c, pv[2])) for c in coords]
    else:
        tcells = cells_of(L[:3])
    tset = set(tcells)
    def rel(v):
        c = cells_of(views[v][:3])
        if not (set(c) & tset):
            return "disjoint"
        if c == tcells:
            return "identical"
        return "overlap"
    f = {"tcells": tcells, "repeated_target": len(tset) != len(tcells), "tdims": list(L[1])}
    f["leaf_rel"] = [rel(v) for v in meta.get("leaves", [])]
    f["mask_rel"] = [rel(v) for v in meta.get("mleaves", [])]
    f["true_rel"] = [rel(v) for v in meta.get("tleaves", [])]
    wrel = []
    for w in meta.get("wleaves", []):
        pv = views[iviews[w]["view"]]
        wrel.append("overlap" if set(cells_of(pv[:3])) & tset else "disjoint")
    f["w_rel"] = wrel
    signs = set()
    for v in [meta["lhs"]] + list(meta.get("leaves", [])) + list(meta.get("mleaves", [])):
        for s in views[v][2]:
            signs.add("neg" if s < 0 else "pos")
    f["signs"] = "+".join(sorted(signs))
    return f


def noalias_exempt(meta, facts):
    """the user wrapped an operand that overlaps the target other than at identical positions in noalias"""
    toks = meta.get("toks", [])
    shape = meta.get("shape", "")
    if "na" not in shape.split():
        return False
    # which leaves are under `na`: walk the shape
    under = []
    ws = shape.split()
    def walk(p, na):
        w = ws[p]
        if w in ("add", "sub", "mul", "div"):
            p = walk(p + 1, na); return walk(p, na)
        if w == "na":
            return walk(p + 1, True)
        if w == "L":
            under.append(na)
        return p + 1
    try:
        walk(0, False)
    except IndexError:
        return False
    rels = facts.get("leaf_rel", [])
    return any(u and r == "overlap" for u, r in zip(under, rels))


def signature(meta, facts):
    """signature of a known open finding this failing statement belongs to, or None"""
    k = meta["kind"]
    if k in ("whr", "wcadd", "wcsub", "wcmul", "wcdiv") and "overlap" in facts.get("mask_rel", []):
        return "where-mask-aliases-target"
    if k in ("fwhr", "fwcadd", "fwcmul"):
        # FixedArray::assign_conditional: no alias test (F-22) and a lazily evaluated mask (F-25)
        if "overlap" in facts.get("leaf_rel", []):
            return "fixedarray-target-no-alias-check"
        if "overlap" in facts.get("mask_rel", []):
            return "where-mask-aliases-target"
    if k == "fweo":
        if any(r != "disjoint" for r in facts.get("mask_rel", [])) or any(r != "disjoint" for r in facts.get("true_rel", [])):
            return "either-or-operand-aliases-target"
        if "overlap" in facts.get("leaf_rel", []):
            return "fixedarray-target-no-alias-check"
    if k == "weo":
        if any(r != "disjoint" for r in facts.get("mask_rel", [])) or any(r != "disjoint" for r in facts.get("true_rel", [])):
            return "either-or-operand-aliases-target"
    if k in ("fasg", "fcadd", "fcmul") and "overlap" in facts.get("leaf_rel", []):
        return "fixedarray-target-no-alias-check"
    if k == "ilst":
        # fewer rows in the list than the (rank-2, non-empty) Array target has
        nrows = meta.get("nrows") or (int(meta["toks"][0]) if meta.get("toks") else None)
        td = facts.get("tdims", [])
        if nrows is not None and len(td) == 2 and nrows < td[0]:
            return "initlist-fewer-rows-not-zeroed"
    if k in ("icadd", "icsub", "icmul") and facts.get("repeated_target"):
        return "indexed-compound-repeated-index"
    return None


def run_cases(ctx, exe, label, t, cases, judge=True):
    """run a batch of cases of one element type; returns list of per-case results"""
    text = "".join("\n".join(c["ops"]) + "\n" for c in cases)
    impl, rc, err = vcheck.run_impl(exe, [t], text)
    results = []
    pos = 0
    mtexts, parsed = [], []
    for c in cases:
        n = len(c["ops"])
        il = impl[pos:pos + n]; pos += n
        if len(il) < n:
            results.append(dict(case=c, crash="implementation stopped: rc=%s %s" % (rc, err[-1500:]), impl=il))
            parsed.append(None)
            break
        mt, e = model_text(c["ops"], il)
        if mt is None:
            results.append(dict(case=c, internal=e, impl=il)); parsed.append(None)
            continue
        results.append(dict(case=c, impl=il)); parsed.append(mt)
        mtexts.append("\n".join(mt[0]) + "\n")
    model = vcheck.run_model("assign", "".join(mtexts)) if mtexts else []
    mpos = 0
    for res, mt in zip(results, parsed):
        if mt is None:
            continue
        lines, mp, views, allocs = mt
        res["model"] = model[mpos:mpos + len(lines)]; mpos += len(lines)
        res["mp"], res["views"], res["mlines"], res["allocs"] = mp, views, lines, allocs
    rest = cases[len(results):]
    if rest:
        # a crash ends the process: the remaining cases of the batch get a process of their own
        results += run_cases(ctx, exe, label, t, rest, judge=False)
    if judge:
        for res in results:
            judge_case(ctx, res, label, t)
    return results


def judge_case(ctx, res, label, t):
    c = res["case"]
    res["oracle_bad"], res["diff"], res["known"], res["exempt"] = [], [], [], 0
    if "crash" in res or "internal" in res:
        return
    ops, il, ml, mp = c["ops"], res["impl"], res["model"], res["mp"]
    metas = {m["op"]: m for m in c.get("stmts", [])}
    for i, (op, ans) in enumerate(zip(ops, il)):
        k = op.split()[0]
        if ans.startswith("bad-op") or ans.startswith("EXC"):
            res["diff"].append((i, "the harness rejected a generated op: %r -> %r" % (op, ans), "generator"))
            continue
        if i not in mp:
            continue
        m = ml[mp[i]] if mp[i] < len(ml) else "<missing>"
        if k in STMT_KINDS:
            core, _, orc = ans.partition(" o=")
            if k == "asge":
                # the alias verdict concerns the expression inside eval(); only the stored result is compared (dump lines)
                core = core.split(" a=")[0]; m = m.split(" a=")[0]
            if core != m:
                res["diff"].append((i, "statement answer: impl %r, model %r" % (core, m), "alias-flag"))
            if orc.startswith("bad"):
                res["oracle_bad"].append((i, orc))
        elif k == "dump":
            if ans != m:
                res["diff"].append((i, "memory image after op %d differs: impl %r, model %r" % (i, ans, m), "image"))
        elif k in RED_KINDS:
            core, _, el = ans.partition(" | E ")
            mm = canon_model_rvals(m, t)
            if core != mm:
                res["diff"].append((i, "reduction: impl %r, model %r" % (core, mm), "reduction"))
            hd, _, vals = el.partition(":")
            dims = [int(x) for x in hd.split()[1:]]
            e = [int(x) for x in vals.split()]
            meta = metas.get(i, dict(kind=k, fn=op.split()[1] if k in ("red", "redd", "redb", "reddb") else k))
            exp = py_reduce(k, meta.get("fn"), dims, e, op, t)
            if core != exp:
                res["oracle_bad"].append((i, "reduction %r gives %r, the fold of its elements %s gives %r" % (op, core, e[:12], exp)))


def report_case(ctx, res, label, t, exe, do_shrink=True):
    """turn the judgement of one case into violations / known findings / counters"""
    c = res["case"]
    if "crash" in res:
        ctx.violation("implementation stopped on an array-statement case (%s, type %s): %s" % (label, t, res["crash"][-600:]),
                      dict(kind="crash", build=label, type=t, ops=c["ops"], stderr=res["crash"][-3000:]))
        return
    if "internal" in res:
        ctx.violation("harness/protocol problem: " + res["internal"], dict(kind="correspondence", build=label, type=t, ops=c["ops"]), tag="c", no_input=True)
        return
    metas = {m["op"]: m for m in c.get("stmts", [])}
    views = res["views"]
    diffs = res["diff"]
    for i, orc in res["oracle_bad"]:
        meta = metas.get(i)
        op = c["ops"][i]
        if meta is None:
            meta = dict(kind=op.split()[0], lhs=None)
        facts = classify(meta, views, c.get("iviews", {}), c.get("idx", {})) if meta.get("lhs") in views else {}
        diff_here = [d for d in diffs if d[0] >= i and d[0] <= i + len(c.get("allocs", {})) + 1]
        if meta["kind"] in STMT_KINDS and noalias_exempt(meta, facts) and not diff_here:
            res["exempt"] += 1
            ctx.notes["noalias_exempt"] = ctx.notes.get("noalias_exempt", 0) + 1
            continue
        sig = signature(meta, facts) if meta["kind"] in STMT_KINDS and not diff_here else None
        ops = c["ops"]
        if do_shrink and sig is None:
            ops = shrink(exe, t, c["ops"], want="oracle")
        what = "%s: result differs from 'evaluate the whole right-hand side, then store' [%s, type %s, %s-major default] %s" % (
            op, label, t, "row" if c.get("order", "r") == "r" else "column", orc[:200])
        if meta["kind"] in RED_KINDS:
            what = "[%s, type %s] %s" % (label, t, orc[:300])
        obj = dict(kind="oracle", build=label, type=t, ops=ops, statement=op, oracle=orc, impl=run_one(exe, t, ops), ops_unshrunk=c["ops"])
        if sig:
            obj["signature"] = sig
        ctx.violation(what, obj)
        res["known"].append(sig)
    if diffs and not any(True for _ in res["oracle_bad"] if False):
        # correspondence failure: model and implementation disagree
        gen = [d for d in diffs if d[2] == "generator"]
        if gen:
            ctx.pending.append(dict(kind="correspondence", correspondence="checks/c04.py generator <-> harness/drv_assign.cpp", build=label,
                                    type=t, ops=c["ops"], first_difference=gen[0][1]))
            return
        real = [d for d in diffs]
        # a disagreement the oracle also sees is reported through the oracle (with input); otherwise park it
        if not res["oracle_bad"] or all(k is not None for k in res["known"]) or res["exempt"]:
            ctx.cov["disagreements_checked"] += 1
            if len(ctx.pending) < 3:
                ops = shrink(exe, t, c["ops"], want="model") if do_shrink else c["ops"]
                ctx.pending.append(dict(kind="correspondence", correspondence="AdeptModel/Assign.lean + Reduce.lean <-> Array.h / IndexedArray.h / where.h / reduce.h",
                                        build=label, type=t, ops=ops, first_difference=real[0][1]))


def run_one(exe, t, ops):
    return vcheck.run_impl(exe, [t], "\n".join(ops) + "\n")[0]


def shrink(exe, t, ops, want):
    """delta-debug the op list of one case (ops that lose their operands answer bad-op and simply stop failing)"""
    head = [o for o in ops if o.split()[0] in ("reset", "order")]
    body = [o for o in ops if o.split()[0] not in ("reset", "order")]

    def fails(sub):
        o = head + sub
        il = run_one(exe, t, o)
        if len(il) != len(o):
            return False
        if want == "oracle":
            for a, b in zip(o, il):
                k = a.split()[0]
                if " o=bad" in b:
                    return True
                if k in RED_KINDS and " | E " in b:
                    core, _, el = b.partition(" | E ")
                    hd, _, vals = el.partition(":")
                    try:
                        exp = py_reduce(k, a.split()[1], [int(x) for x in hd.split()[1:]], [int(x) for x in vals.split()], a, t)
                    except Exception:
                        continue
                    if exp != core:
                        return True
            return False
        mt, e = model_text(o, il)
        if mt is None:
            return False
        lines, mp, _, _ = mt
        ml = vcheck.run_model("assign", "\n".join(lines) + "\n")
        for i, (a, b) in enumerate(zip(o, il)):
            if i in mp and mp[i] < len(ml):
                k = a.split()[0]
                core = b.partition(" o=")[0].partition(" | E ")[0]
                m = canon_model_rvals(ml[mp[i]], t) if k in RED_KINDS else ml[mp[i]]
                if core != m:
                    return True
        return False

    try:
        if not fails(body):
            return ops
        small = vcheck.ddmin(list(body), fails, max_tests=160)
        return head + small
    except Exception:
        return ops


# ------------------------------------------------------------------ corpus: the witnesses of section 6, run first
BUILTIN_CORPUS = [
    ("F-02 scalar into a reversed view (fixed d7b9c2b)", "d", ["reset", "alloc 0 0 1 5 def", "fill 0 1 1 1 1 1", "view 1 0 s4,0,-1", "sca v1 7", "dump 0"], None),
    ("F-03 compound assignment with shifted overlap (fixed)", "d", ["reset", "alloc 0 0 1 5 def", "fill 0 1 2 3 4 5", "view 1 0 s1,4,1", "view 2 0 s0,3,1", "cadd v1 v2", "dump 0"], None),
    ("F-28 spread operand aliasing the target (fixed)", "d", ["reset", "alloc 0 0 2 3 3 def", "fill 0 1 2 3 4 5 6 7 8 9", "view 1 0 : n0", "asg v0 spr 0 3 v1", "dump 0"], None),
    ("F-28 outer_product operands aliasing the target (fixed)", "d", ["reset", "alloc 0 0 2 3 3 def", "fill 0 1 2 3 4 5 6 7 8 9", "view 1 0 : n1", "view 2 0 n1 :", "asg v0 out v1 v2", "dump 0"], None),
    ("F-25 where: mask over the reversed target", "d", ["reset", "alloc 0 0 1 5 def", "fill 0 1 2 3 4 5", "view 1 0 s4,0,-1", "whr v0 gt v1 c3 ; v1", "dump 0"], "where-mask-aliases-target"),
    ("F-38 either_or: mask re-evaluated after the first pass", "d", ["reset", "alloc 0 0 1 2 def", "fill 0 1 5", "weo v0 gt v0 c3 ; s0 ; s10", "dump 0"], "either-or-operand-aliases-target"),
    ("F-38 either_or: true branch evaluated after the false branch was stored", "d", ["reset", "alloc 0 0 1 4 def", "fill 0 1 2 3 4", "view 1 0 s3,0,-1", "bools 0 1 4 1 1 0 0", "weo v0 b0 ; v1 ; s0", "dump 0"], "either-or-operand-aliases-target"),
    ("F-22 FixedArray target, reversed right-hand side", "d", ["reset", "falloc 0 0 4", "fill 0 1 2 3 4", "view 1 0 s3,0,-1", "fasg f0 v1", "dump 0"], "fixedarray-target-no-alias-check"),
    ("initializer list with fewer rows than the matrix: the other rows keep their values", "d", ["reset", "alloc 0 0 2 3 2 def", "fill 0 9 9 9 9 9 9", "ilst v0 1 2 1 2", "dump 0"], "initlist-fewer-rows-not-zeroed"),
    ("where-compound: rhs is the reversed target, mask over the target at identical positions", "i", ["reset", "alloc 0 0 1 5 def", "fill 0 0 1 36 48 60", "view 1 0 s4,0,-1", "wcadd v0 gt v0 c2 ; v1", "dump 0"], None),
    ("where-compound with gaps in the mask on a FixedArray", "d", ["reset", "falloc 0 0 4", "fill 0 1 2 3 4", "alloc 1 1 1 4 def", "fill 1 5 6 7 8", "bools 0 1 4 1 0 0 1", "fwcadd f0 b0 ; v1", "dump 0"], None),
    ("F-39 indexed compound assignment with a repeated index", "d", ["reset", "alloc 0 0 1 3 def", "fill 0 10 20 30", "alloc 1 1 1 2 def", "fill 1 1 2", "idx 0 2 1 1", "iview 0 0 i0", "icadd w0 v1", "dump 0"], "indexed-compound-repeated-index"),
]


def corpus_case(name, t, ops, expect):
    # reconstruct the meta information the classifier needs from the ops themselves
    c = dict(type=t, order="r", ops=ops, stmts=[], views={}, allocs={}, iviews={}, idx={}, name=name, expect=expect)
    for i, o in enumerate(ops):
        w = o.split()
        if w[0] in ("alloc", "falloc"):
            c["allocs"][int(w[1])] = dict(fixed=int(w[3]) if w[0] == "falloc" else 0, vid=int(w[2]))
        if w[0] == "idx":
            c["idx"][int(w[1])] = [int(x) for x in w[3:]]
        if w[0] == "iview":
            sel = [("i", int(s[1:])) if s[0] == "i" else ("a", None) if s == "a" else ("n", int(s[1:])) for s in w[3:]]
            c["iviews"][int(w[1])] = dict(view=int(w[2]), sel=sel)
        if w[0] in STMT_KINDS:
            meta = dict(kind=w[0], op=i, leaves=[], mleaves=[], tleaves=[], toks=w[2:], shape="")
            if w[1][0] == "v":
                meta["lhs"] = int(w[1][1:])
            elif w[1][0] == "f":
                meta["lhs"] = c["allocs"][int(w[1][1:])]["vid"]
            else:
                meta["iw"] = int(w[1][1:]); meta["lhs"] = c["iviews"][meta["iw"]]["view"]
            rest = w[2:]
            if w[0] in ("whr", "weo", "fweo", "fwhr", "fwcadd", "fwcmul", "wcadd", "wcsub", "wcmul", "wcdiv"):
                parts = " ".join(rest).split(" ; ")
                meta["mleaves"] = [int(x[1:]) for x in parts[0].split() if x[0] == "v" and x[1:].isdigit()]
                meta["leaves"] = [int(x[1:]) for p in parts[1:] for x in p.split() if x[0] == "v" and x[1:].isdigit()]
                if w[0] in ("weo", "fweo"):
                    meta["tleaves"] = [int(x[1:]) for x in parts[1].split() if x[0] == "v" and x[1:].isdigit()]
            else:
                meta["leaves"] = [int(x[1:]) for x in rest if x[0] == "v" and x[1:].isdigit()]
            c["stmts"].append(meta)
    return c


def load_corpus():
    out = [corpus_case(n, t, ops, e) for (n, t, ops, e) in BUILTIN_CORPUS]
    d = os.path.join(vbuild.VERIF, "corpus", "C04")
    if os.path.isdir(d):
        for fn in sorted(os.listdir(d)):
            lines = [l.strip() for l in open(os.path.join(d, fn)) if l.strip() and not l.startswith("#")]
            if lines and lines[0].startswith("type "):
                out.append(corpus_case(fn, lines[0].split()[1], lines[1:], None))
    return out


# ------------------------------------------------------------------ run
def account(ctx, res, label, t):
    c = res["case"]
    if "views" not in res:
        return
    for m in c.get("stmts", []):
        ans = res["impl"][m["op"]] if m["op"] < len(res["impl"]) else ""
        if ans.startswith("hazard"):
            ctx.notes["hazard_skipped"] = ctx.notes.get("hazard_skipped", 0) + 1
            continue
        facts = classify(m, res["views"], c.get("iviews", {}), c.get("idx", {})) if m.get("lhs") in res["views"] else {}
        rels = facts.get("leaf_rel", []) + facts.get("mask_rel", []) + facts.get("w_rel", [])
        dist = ctx.notes.setdefault("distribution", dict(kinds={}, ranks={}, overlap={}, how={}, signs={}, alias_flag={}, layouts={}, types={}, where_masks={}, where_rhs={}, initlist={}))
        def inc(k, v):
            dist[k][v] = dist[k].get(v, 0) + 1
        inc("kinds", m["kind"]); inc("types", t)
        if m["kind"] in WC_OPS or m["kind"] in FW_OPS:
            inc("where_masks", m.get("mshape", "?")); inc("where_rhs", m.get("shape", "?"))
        if m["kind"] in ("ilst", "filst", "iilst"):
            inc("initlist", "%s:%s" % (m["kind"], m.get("shape", "?")))
        if m.get("lhs") in res["views"]:
            inc("ranks", str(len(res["views"][m["lhs"]][1])))
            aid = res["views"][m["lhs"]][3]
            whole = res["views"].get(c["allocs"].get(aid, {}).get("vid"))
            n = 1
            for x_ in (whole[1] if whole else []):
                n *= x_
            padded = whole is not None and res.get("allocs", {}).get(aid, {}).get("n", n) > n
            inc("layouts", "%s/%s%s" % (c.get("order", "r"), c["allocs"].get(aid, {}).get("mode", "?"), "/padded" if padded else ""))
        for r_ in rels:
            inc("overlap", r_)
        for h in m.get("hows", []) + m.get("mhows", []):
            inc("how", h)
        if facts.get("signs"):
            inc("signs", facts["signs"])
        if " a=" in ans:
            inc("alias_flag", ans.split(" a=")[1][0])
        nontrivial = any(r_ != "disjoint" for r_ in rels) or m["kind"] in ("sca", "isca", "ilst", "filst", "iilst") or m["kind"] in RED_KINDS
        ctx.count_case((label, t, c.get("order"), tuple(c["ops"][:m["op"] + 1])), nontrivial=nontrivial,
                       sample=dict(build=label, type=t, statement=c["ops"][m["op"]], answer=ans[:120], relations=rels))


def run(ctx, replay):
    # regenerate the census of the alias test (every class that defines is_aliased_) from the working tree
    import subprocess, sys
    tr = subprocess.run([sys.executable, os.path.join(vbuild.VERIF, "translate", "alias.py")], stdout=subprocess.PIPE,
                        stderr=subprocess.STDOUT, text=True)
    ctx.notes["translator"] = tr.stdout.strip()[-400:]
    thms = [NS + x for x in vcheck.prop_theorems("AdeptProofs/Props/C04.lean", "C04_")]
    thms += [NS + x for x in vcheck.prop_theorems("AdeptProofs/Refute/Assign.lean", "F")]
    fails = vcheck.lean_gate(ctx, ["AdeptProofs.Props.C04", "AdeptProofs.Refute.Assign"], thms,
                             required=[NS + r for r in REQUIRED + REQUIRED_REFUTE])
    if tr.returncode != 0:
        fails.insert(0, "translator translate/alias.py failed: " + tr.stdout[-1200:])
        ctx.cov["discharged"] = 0
    variants = ["sse2-O0"] if ctx.tier == "quick" else ["sse2"] + (["avx"] if cpu_has("avx") else [])
    with ThreadPoolExecutor(max_workers=len(variants)) as ex:
        exes = list(ex.map(build, variants))
    ctx.pending = []
    native = where_compound_compiles()
    ctx.notes["where_compound"] = ("native operators (A.where(mask) OP= rhs compiles)" if native else
                                   "A.where(mask) OP= rhs does NOT compile on this tree (%s): executed through the macro body with the "
                                   "operand repaired, A.assign_conditional(mask, noalias(A) OP rhs)" % _probe.get("msg", ""))
    if not native:
        ctx.violation("A.where(mask) += rhs (and -=, *=, /=) cannot be instantiated: where.h ADEPT_WHERE_OPERATOR builds noalias(*this) OP c "
                      "with *this the Where proxy instead of the array: " + _probe.get("msg", ""),
                      dict(kind="compile", signature="where-compound-does-not-compile", source="harness/drv_assign_probe.cpp",
                           compiler_says=_probe.get("msg", ""), ops=[]))
    if replay:
        r = json.load(open(replay))
        t = r.get("type", "d")
        for label, exe in zip(variants, exes):
            if r.get("build") and r["build"] != label and r["build"] in variants:
                continue
            c = corpus_case("replay", t, r["ops"], None)
            res = run_cases(ctx, exe, label, t, [c])[0]
            for i, o in enumerate(c["ops"]):
                a = res["impl"][i] if i < len(res["impl"]) else "<none>"
                m = res.get("model", [])[res["mp"][i]] if i in res.get("mp", {}) and res["mp"][i] < len(res.get("model", [])) else ""
                print("%-44s | %-60s | %s" % (o, a, m))
            report_case(ctx, res, label, t, exe, do_shrink=False)
        finish(ctx, fails)
        return
    nstmt = 2400 if ctx.tier == "quick" else 16000
    per_variant = nstmt // len(variants)
    corpus = load_corpus()
    for label, exe in zip(variants, exes):
        # corpus first
        for t in ("d", "i"):
            cs = [c for c in corpus if c["type"] == t]
            if not cs:
                continue
            for res in run_cases(ctx, exe, label, t, cs):
                c = res["case"]
                bad = bool(res.get("oracle_bad"))
                if c.get("expect") is None and (bad or res.get("diff") or "crash" in res):
                    pass   # reported below as a violation
                if c.get("expect") and not bad and "crash" not in res:
                    ctx.notes.setdefault("findings_no_longer_reproduced", []).append(c["name"])
                report_case(ctx, res, label, t, exe, do_shrink=False)
                account(ctx, res, label, t)
        # systematic reductions (every function x every dimension, pairwise different extents)
        for t in ("d", "i"):
            for order in (("r",) if ctx.tier == "quick" else ("r", "c")):
                results = run_cases(ctx, exe, label, t, reduction_sweep(ctx.rng, t, order, 3 if ctx.tier == "quick" else 12))
                for res in results:
                    report_case(ctx, res, label, t, exe)
                    account(ctx, res, label, t)
        # outer_product / spread with operands taken from the target itself
        for t in ("d", "i"):
            for order in (("r",) if ctx.tier == "quick" else ("r", "c")):
                results = run_cases(ctx, exe, label, t, special_sweep(ctx.rng, t, order, 4 if ctx.tier == "quick" else 16))
                for res in results:
                    report_case(ctx, res, label, t, exe)
                    account(ctx, res, label, t)
        # compound conditional assignment and FixedArray.where: directed sweep
        for t in ("d", "i"):
            for order in (("r",) if ctx.tier == "quick" else ("r", "c")):
                results = run_cases(ctx, exe, label, t, where_compound_sweep(ctx.rng, t, order, 1 if ctx.tier == "quick" else 4))
                for res in results:
                    report_case(ctx, res, label, t, exe)
                    account(ctx, res, label, t)
        for t in ("d", "i"):
            results = run_cases(ctx, exe, label, t, initlist_sweep(ctx.rng, t, "r", 2 if ctx.tier == "quick" else 8))
            for res in results:
                report_case(ctx, res, label, t, exe)
                account(ctx, res, label, t)
        # packet-loop sweep: every start offset x every inner length around the packet boundaries
        for t in ("d", "i"):
            for order in (("r",) if ctx.tier == "quick" else ("r", "c")):
                results = run_cases(ctx, exe, label, t, packet_sweep(ctx.rng, t, order, 3 if ctx.tier == "quick" else 16))
                for res in results:
                    report_case(ctx, res, label, t, exe)
                    account(ctx, res, label, t)
        done = 0
        batch = 0
        while done < per_variant:
            for t in ("d", "i"):
                orders = ["r", "r", "c"] if ctx.tier == "quick" else ["r", "c"]
                cases = [gen_case(ctx.rng, t, ctx.rng.choice(orders)) for _ in range(60)]
                results = run_cases(ctx, exe, label, t, cases)
                for res in results:
                    report_case(ctx, res, label, t, exe)
                    account(ctx, res, label, t)
                    done += sum(1 for m in res["case"]["stmts"] if m["op"] < len(res["impl"]) and not res["impl"][m["op"]].startswith("hazard"))
                if any("crash" in res for res in results):
                    done = per_variant
                    break
            batch += 1
            if batch > 400:
                break
        ctx.cov["traces_validated_against_impl"] += done
    ctx.notes["builds"] = variants
    ctx.cov["rule"] = ("random cases: 1-2 heap allocations (rank 1-3, extents 2-9, resize / resize_row_major / resize_column_major, default order "
                       "row- or column-major) + optional FixedArray, views built by the real slicing operators (ranges and strides of both signs, "
                       "scalar indices, .T(), permute, views of views); per statement the operands are partners of the target: the same view, "
                       "reversed (all / one dimension), transposed in place, shifted / interleaved / sibling windows of the same allocation, or "
                       "views of another allocation; statements = / += -= *= /= / scalar / where / either_or / IndexedArray = op= / FixedArray = op= "
                       "from a menu of 17 expression shapes (incl. noalias, spread, outer_product, IndexedArray operands) and 7 mask shapes, and "
                       "compound conditional assignment A.where(mask) += -= *= /= rhs (3 mask shapes x scalar / L / add L L / add L c), FixedArray.where "
                       "= / += / *= / either_or, initializer lists v = {..} / M = {{..},..} on Array views, FixedArray and IndexedArray targets (full, "
                       "short rows, fewer rows); directed sweeps in every run: where-compound rank 1-3 x 4 operators x boolArray masks all / none / "
                       "alternating / with gaps x rhs scalar / other array / expression / overlapping view of the target (+ comparison masks over the "
                       "target and a partner), FixedArray.where on the four FixedArray kinds, initializer lists on every target kind x fill; and "
                       "whole / per-dimension reductions, find, minloc, maxloc, dot_product.  Compared per statement: is_aliased() verdict and the "
                       "whole image of every allocation vs the Lean model; oracle verdict of the harness.  non-trivial = some operand overlaps the "
                       "target (or scalar / reduction); distinct = different (build, type, order, op prefix).")
    ctx.cov["exhaustive"] = False
    ctx.assumptions += ["exact regime: int and integer-valued double, |values| < 2^30 / 2^50 (statements leaving it are skipped by the harness and counted)",
                        "integer index vectors do not overlap the array they index (they live in their own allocations) and stay in range",
                        "user-written noalias() around an operand that overlaps the target other than element-for-element is outside the property (counted as noalias_exempt)",
                        "active arrays are C03's business; this check runs the passive paths only"]
    if ctx.pending and not ctx.violations:
        # correspondence broke and no property failure was seen: search harder with the oracle alone
        for label, exe in zip(variants, exes):
            for t in ("d", "i"):
                cases = [gen_case(ctx.rng, t, ctx.rng.choice(["r", "c"])) for _ in range(400)]
                for res in run_cases(ctx, exe, label + "/search", t, cases):
                    if res.get("oracle_bad") or "crash" in res:
                        report_case(ctx, res, label, t, exe)
    finish(ctx, fails)


def finish(ctx, fails):
    if ctx.violations:
        return
    for p in ctx.pending[:1]:
        ctx.violation("model and implementation disagree on an array statement (%s build, type %s): %s; the evaluate-then-store oracle found no "
                      "statement on which the property itself fails" % (p["build"], p["type"], p["first_difference"][:300]), p, tag="c", no_input=True)
    if fails and not ctx.violations:
        ctx.violation("proof obligation of C04 no longer checks: " + fails[0][:400],
                      {"kind": "proof", "theorem": "AdeptProofs/Props/C04.lean", "failures": fails}, tag="p", no_input=True)
