"""C07 — array data lives while referenced; only copy-construction and link share it.

proof:  lean/AdeptProofs/Props/C07.lean (invariant of the storage life-cycle model for ALL finite histories, generic over
        the kind of object: exact reference counts, no dangling owner, exactly-once release, gradients registered exactly
        while active data live, no leak, who shares with whom, ownership and independence after `=`, a REJECTED operation
        is the identity, temporaries / by-value parameters net out to nothing)
tie:    hand-written model AdeptModel/Storage.lean  <->  Storage.h add_link/remove_link, the constructors, destructor,
        link, clear, resize, copy and move assignment, swap, soft_link, construction from and assignment of std::initializer_lists
        (vectors of the three classes, nested lists for Array<2>, FixedArray) and every view-returning member function of
        Array<1> (int, active, passive double), Array<2> and SpecialMatrix (symmetric, tridiagonal, diagonal; passive and active),
        including the CROSS-CLASS views Array::diag_matrix(), inactive_link()/value(), diag_vector of special matrices,
        FixedArray slices and FixedArray::diag_matrix().
        harness/drv_storage.cpp interprets the same histories with REAL objects and real moves
        (std::move, noinline functions taking and returning arrays by value, slices and external-memory arrays as
        rvalues, std::vector growth, std::swap) and with ALLOCATION FAULTS (the data allocations of internal::alloc_aligned
        are interposed: `failnext k` makes the k-th next one throw std::bad_alloc); after every step n_storage_objects(), n_gradients_registered(),
        storage()->n_links(), the allocation and offset every data() points at, extents, strides and all values are
        compared exactly with the model.  ASan/LSan/UBSan on.
oracle: shadow ownership table built here from the implementation's output alone (does not use the model):
        reference counts equal the number of live referrers, created-deleted equals the number of storages still
        referred to, gradients registered equal the sizes of the active storages referred to, nobody with a storage
        points at released memory (liveness asked from ASan) or outside its allocation, constructors / link / views
        share exactly the source's allocation with the geometry re-derived here from the request, `=` leaves the
        target in place or in an unshared storage of its own with the source's values, a write only shows through
        objects of the written allocation, a request that must be rejected IS rejected with the documented exception
        and a thrown exception changes nothing (no count, no object, no value), std::bad_alloc fires only on schedule and
        leaves every other object untouched and the object it hit as it was or EMPTY, the final count is 0.
"""
import os, re, json
from concurrent.futures import ProcessPoolExecutor
import vbuild, vcheck

LEVEL = "proof"
NS = "Adept.Storage."
REQUIRED = ["C07_failed_allocation_state", "C07_storageless_release_is_noop", "C07_inv_init", "C07_inv_step", "C07_inv_reachable", "C07_inv_meaning", "C07_freed_once", "C07_no_storage_fault", "C07_no_leak",
            "C07_gradients_exact", "C07_rejected_is_identity", "C07_rejected_op_erasable", "C07_view_ctor_rejects_first",
            "C07_shares_exactly", "C07_temporary_roundtrip", "C07_swap_exchanges", "C07_soft_external_hold_nothing",
            "C07_assign_owns", "C07_assign_no_new_alias", "C07_assign_independent", "C07_view_zero_extent_canonical",
            "C07_list_ctor_fresh_owner", "C07_list_assign_in_place"]
MODEL_FILE = ("AdeptModel/Storage.lean <-> Storage.h / Array.h / SpecialMatrix.h life cycle (ctor, dtor, views, link, clear, "
              "resize, =, move =, swap)")
SRC = os.path.join(vbuild.VERIF, "harness", "drv_storage.cpp")

VIEW_FNS = {"sl": 3, "row": 4, "col": 4, "sub": 6, "idx": 1, "tr": 0, "diag": 1, "sod": 2, "rsh": 2, "perm": 2, "dm": 0, "il": 0}
# kinds: v intVector, m intMatrix, a aVector, s / t passive symmetric / tridiagonal SpecialMatrix<int>, g DiagMatrix<int>
# (intVector::diag_matrix()), G active DiagMatrix (aVector::diag_matrix()), S active symmetric matrix, p Array<1,double,false>
# (value() of an aVector)
ALLK = "vmastgGSp"
VEC, ARR, SPEC, ACT, SYMM = "vap", "vmap", "stgGS", "aGS", "sS"
BAND = {"t": 1, "g": 0, "G": 0}
FORMS = ("", "link", "ac", "am", "fn", "fnv", "amfn", "amfnv")
KIND_SFX = {"": "v", "m": "m", "a": "a", "s": "s", "t": "t", "g": "g", "G": "G", "S": "S", "p": "p"}
SFX_OF = {v: k for k, v in KIND_SFX.items()}
PLAIN_ASSIGN = ("ac", "am", "amfn", "amdup")
OTHER_ASSIGN = ("amext", "amextfn", "amfix", "amfresh", "amsum")


def split_cmd(c):
    """-> (form, fn) when c is a view command"""
    for f in FORMS:
        if c.startswith(f) and c[len(f):] in VIEW_FNS:
            return f, c[len(f):]
    return None


def classify(c):
    """coarse class of an op name: ('view', form, fn) | ('new', kind) | ('newd', kind) | ('newfn', kind) | (c,)"""
    sc = split_cmd(c)
    if sc:
        return ("view",) + sc
    if c == "newm":
        return ("newm",)
    if c.startswith("inew") and c[4:] in ("", "a", "p"):
        return ("new", KIND_SFX[c[4:]])        # a vector constructed from an initializer list of n values: a fresh owner of n elements
    if c.startswith("newd") and c[4:] in KIND_SFX:
        return ("newd", KIND_SFX[c[4:]])
    if c.startswith("newfn") and c[5:] in KIND_SFX:
        return ("newfn", KIND_SFX[c[5:]])
    if c.startswith("new") and c[3:] in KIND_SFX:
        return ("new", KIND_SFX[c[3:]])
    return (c,)


def is_assign(c):
    cl = classify(c)
    return c in PLAIN_ASSIGN or c in OTHER_ASSIGN or (cl[0] == "view" and cl[1] in ("ac", "am", "amfn", "amfnv"))


def is_create(c):
    cl = classify(c)
    return (cl[0] in ("new", "newd", "newfn", "newm") or c == "inewm" or c in ("ext", "extfn", "fsl", "fdiag", "cp", "cpc", "cpm", "soft", "sum", "vpush")
            or (cl[0] == "view" and cl[1] in ("", "fn", "fnv")))


# ------------------------------------------------------------------ geometry (independent of the model and of the harness)
def tdiv(a, b):
    q = abs(a) // abs(b)
    return q if (a >= 0) == (b >= 0) else -q


def rel_cells(kind, d0, d1, s0, s1):
    if kind in VEC:
        return [k * s0 for k in range(d0)]
    if kind == "m":
        return [i * s0 + j * s1 for i in range(d0) for j in range(d1)]
    if kind in SYMM:
        return [i * s0 + j for i in range(d0) for j in range(i + 1)]
    w = BAND[kind]
    return [i * s0 + j for i in range(d0) for j in range(d0) if abs(i - j) <= w]


def extent(kind, d0, d1, s0, s1):
    if kind in VEC:
        return 0 if d0 == 0 else (d0 - 1) * s0 + 1
    if kind == "m":
        return 0 if d0 == 0 or d1 == 0 else (d0 - 1) * s0 + (d1 - 1) * s1 + 1
    if kind in SYMM:
        return 0 if d0 == 0 else (d0 - 1) * s0 + d0
    return 0 if d0 == 0 else (d0 - 1) * (s0 + 1) + 1


def packed(kind, n0, n1):
    """(d0, d1, s0, s1, volume) of a freshly resized object"""
    if kind in VEC:
        return n0, 0, 1, 0, n0
    if kind == "m":
        return n0, n1, n1, 1, n0 * n1
    if kind in SYMM:
        return n0, 0, n0, 0, n0 * n0
    if kind == "t":
        return n0, 0, 2, 0, (n0 - 1) * 3 + 1
    return n0, 0, 0, 0, n0


def resize_outcome(kind, strict, n0, n1):
    """'exc' | 'clear' | (n0, n1): what resize must do (documented behaviour, walked as the C++ does)"""
    if kind in VEC:
        return "exc" if n0 < 0 else "clear" if n0 == 0 else (n0, 0)
    if kind == "m":
        if strict and (n0 < 0 or n1 < 0):
            return "exc"
        for n in (n0, n1):
            if n < 0:
                return "exc"
            if n == 0:
                return "clear"
        return (n0, n1)
    if not strict and n0 != n1:
        return "exc"
    return "exc" if n0 < 0 else "clear" if n0 == 0 else (n0, n0)


def dims1(kind, n):
    return (n, 2) if kind == "m" else (n, 0)


def expected_view(b, fn, a):
    """what the request must give, from the source's observed geometry:
    ('exc', class) | ('empty', kind) | ('ok', kind, delta, d0, d1, s0, s1)"""
    k = b.kind

    def rng(lo, hi, st):
        return tdiv(hi + st - lo, st)

    if fn == "sl":
        lo, hi, st = a
        v = ("ok", k, lo * b.s0, rng(lo, hi, st), 0, st * b.s0, 0)
    elif fn == "row":
        i, lo, hi, st = a
        v = ("ok", "v", i * b.s0 + lo * b.s1, rng(lo, hi, st), 0, st * b.s1, 0)
    elif fn == "col":
        lo, hi, st, j = a
        v = ("ok", "v", lo * b.s0 + j * b.s1, rng(lo, hi, st), 0, st * b.s0, 0)
    elif fn == "sub":
        lo0, hi0, st0, lo1, hi1, st1 = a
        v = ("ok", "m", lo0 * b.s0 + lo1 * b.s1, rng(lo0, hi0, st0), rng(lo1, hi1, st1), st0 * b.s0, st1 * b.s1)
    elif fn == "idx":
        v = ("ok", "v", a[0] * b.s0, b.d1, 0, b.s1, 0)
    elif fn == "tr":
        v = ("ok", "m", 0, b.d1, b.d0, b.s1, b.s0) if k == "m" else ("ok", k, 0, b.d0, 0, b.s0, 0)
    elif fn == "dm":               # a DiagMatrix on the vector's data: SAME Storage, offset_ = offset_[0] - 1
        v = ("ok", "G" if k == "a" else "g", 0, b.d0, 0, b.s0 - 1, 0)
    elif fn == "il":               # inactive_link() / value(): a passive object on the same data
        v = ("ok", "p" if k == "a" else k, 0, b.d0, b.d1, b.s0, b.s1)
    elif fn == "diag":
        kk = a[0]
        if k == "m":
            if b.d0 != b.d1:
                return ("exc", "invalid_operation")
            v = ("ok", "v", (b.s1 * kk if kk >= 0 else b.s0 * -kk), b.d0 - abs(kk), 0, b.s0 + b.s1, 0)
        elif k in SYMM:
            v = ("ok", "a" if k in ACT else "v", abs(kk) * b.s0, b.d0 - abs(kk), 0, b.s0 + 1, 0)
        else:
            if abs(kk) > BAND[k]:
                return ("exc", "index_out_of_bounds")
            v = ("ok", "a" if k in ACT else "v", (kk if kk >= 0 else -kk * b.s0), b.d0 - abs(kk), 0, b.s0 + 1, 0)
    elif fn == "sod":
        i0, i1 = a
        if k == "m" and b.d0 != b.d1:
            return ("exc", "invalid_operation")
        if i0 < 0 or i0 > i1 or i1 >= b.d0:
            return ("exc", "index_out_of_bounds")
        n = i1 - i0 + 1
        v = ("ok", "m", i0 * (b.s0 + b.s1), n, n, b.s0, b.s1) if k == "m" else ("ok", k, (b.s0 + 1) * i0, n, 0, b.s0, 0)
    elif fn == "rsh":
        d0, d1 = a
        if d0 * d1 != b.d0:
            return ("exc", "invalid_dimension")
        v = ("ok", "m", 0, d0, d1, d1 * b.s0, b.s0)
    elif fn == "perm":
        i0, i1 = a
        if i0 not in (0, 1) or i1 not in (0, 1) or i0 == i1:
            return ("exc", "invalid_dimension")
        v = ("ok", "m", 0, b.d0, b.d1, b.s0, b.s1) if i0 == 0 else ("ok", "m", 0, b.d1, b.d0, b.s1, b.s0)
    else:
        return None
    if v[1] in ARR and (v[3] < 0 or v[4] < 0):
        return ("exc", "invalid_dimension")      # an Array never has a negative extent
    if v[1] == "m" and (v[3] == 0 or v[4] == 0):
        v = v[:3] + (0, 0) + v[5:]               # an empty selection is the canonical empty array: ALL extents zero (as resize)
    if v[1] in ACT and b.st == "-":
        return ("exc", "invalid_operation")      # an active view of data without a Storage has no gradient index
    return v


# ------------------------------------------------------------------ parsing the observation line
OBJ_RE = re.compile(r"(\d+)\(K=(\w) st=(\S+) nl=(\S+)(?: sz=(\d+))? at=(\S+) L=(\S+) len=(\d+)(?:x(\d+))?"
                    r"(?: str=(-?\d+)(?:x(-?\d+))?)?(?: gi=(-?\d+))?(?: v=(\S+))?\)")
EXT_RE = re.compile(r"X(\d+):([01]):(\S*)")


class O:
    __slots__ = ("kind", "st", "nl", "sz", "at", "alloc", "off", "L", "d0", "d1", "s0", "s1", "gi", "v")

    def struct(self):
        return (self.kind, self.st, self.at, self.d0, self.d1, self.s0, self.s1)

    def geom(self):
        return (self.alloc, self.off, self.d0, self.d1, self.s0, self.s1)

    def ncells(self):
        return len(rel_cells(self.kind, self.d0, self.d1, self.s0, self.s1))

    def cellmap(self):
        """absolute element index within the allocation -> value"""
        if self.v in (None, "!"):
            return None
        cs = rel_cells(self.kind, self.d0, self.d1, self.s0, self.s1)
        return {self.off + c: x for c, x in zip(cs, self.v)}

    def empty(self):
        return self.d0 == 0


def parse(line):
    """-> (status, n, g, f, {handle: O}, {ext: (live, vals)}) or None"""
    parts = line.split(" |")
    if len(parts) != 4 or not parts[1].startswith(" n="):
        return None
    try:
        m = re.match(r" n=(-?\d+) g=(-?\d+) f=(\d+)$", parts[1])
        n, g, f = int(m.group(1)), int(m.group(2)), int(m.group(3))
        objs = {}
        txt = parts[2]
        cnt = 0
        for m in OBJ_RE.finditer(txt):
            o = O()
            o.kind, o.st, o.nl = m.group(2), m.group(3), m.group(4)
            o.sz = int(m.group(5)) if m.group(5) is not None else None
            o.at, o.L = m.group(6), m.group(7)
            o.d0 = int(m.group(8)); o.d1 = int(m.group(9)) if m.group(9) is not None else 0
            o.s0 = int(m.group(10)) if m.group(10) is not None else 0          # no strides are printed without data
            o.s1 = int(m.group(11)) if m.group(11) is not None else 0
            o.gi = int(m.group(12)) if m.group(12) is not None else None
            v = m.group(13)
            o.v = None if v is None else ("!" if v == "!" else [int(t) for t in v.split(",")])
            if o.at in ("0", "?"):
                o.alloc, o.off = (None if o.at == "0" else "?"), 0
            else:
                al, fo = o.at.split("+")
                o.alloc, o.off = al, int(fo)
            objs[int(m.group(1))] = o
            cnt += 1
        if cnt != txt.count("(K="):
            return None
        exts = {}
        for m in EXT_RE.finditer(parts[3]):
            exts[int(m.group(1))] = (m.group(2) == "1", [int(t) for t in m.group(3).split(",")] if m.group(3) else [])
        return parts[0], n, g, f, objs, exts
    except Exception:
        return None


# ------------------------------------------------------------------ oracle (implementation output only)
ALLOWED_EXC = {
    "link": {"empty_array"},
    "sum": {"size_mismatch"}, "amsum": {"size_mismatch"}, "stdswp": {"size_mismatch"},
    "ext": {"invalid_dimension"}, "extfn": {"invalid_dimension"},
    "amext": {"invalid_dimension", "size_mismatch"}, "amextfn": {"invalid_dimension", "size_mismatch"},
    "amfix": {"size_mismatch"}, "amfresh": {"size_mismatch"},
    "ac": {"size_mismatch"}, "am": {"size_mismatch"}, "amfn": {"size_mismatch"}, "amdup": {"size_mismatch"},
    "rs": {"invalid_dimension"}, "rsi": {"invalid_dimension"}, "rs2": {"invalid_dimension"}, "rsi2": {"invalid_dimension"},
    "fnrs": {"invalid_dimension"}, "newm": {"invalid_dimension"},
    "ial": {"size_mismatch"},
}


def targets_of(c, cl, a):
    if is_create(c):
        return {a[0]}
    if c in ("link", "rs", "rsi", "rs2", "rsi2", "clr", "del", "vpop", "ial") or is_assign(c) or (cl[0] == "view" and cl[1] == "link"):
        t = {a[0]}
        if c == "am":
            t.add(a[1])
        return t
    if c in ("swp", "stdswp"):
        return {a[0], a[1]}
    return set()


def must_throw(c, cl, a, prev):
    """the exception class the documented behaviour demands for this request, None if it must succeed, '?' if the
    oracle does not decide (size mismatch of assignments is decided by the assignment rules)"""
    if cl[0] == "view":
        b = prev.get(a[1])
        if b is None:
            return "?"
        ev = expected_view(b, cl[2], a[2:])
        if ev is None:
            return "?"
        if ev[0] == "exc":
            return ev[1]
        return None if cl[1] in ("", "fn", "fnv", "link") else "?"
    if cl[0] in ("new", "newfn"):
        n0, n1 = dims1(cl[1], a[1])
        return "invalid_dimension" if resize_outcome(cl[1], cl[1] in SPEC, n0, n1) == "exc" else None
    if c == "newm":
        return "invalid_dimension" if resize_outcome("m", False, a[1], a[2]) == "exc" else None
    if c in ("inewm", "fnewl"):
        return None
    if c == "ial" and a[0] in prev:
        # a list longer than a NON-empty vector is rejected; an empty() vector (also an empty view) is resized to the list
        return "size_mismatch" if prev[a[0]].d0 != 0 and a[1] > prev[a[0]].d0 else None
    if c in ("rs", "rsi", "rs2", "rsi2") and a[0] in prev:
        k = prev[a[0]].kind
        if c in ("rs", "rsi"):
            n0, n1 = (a[1], a[1]) if k in SPEC else (a[1], 0)
            strict = c == "rsi"
        else:
            n0, n1 = a[1], a[2]
            strict = (c == "rsi2") if k == "m" else False
        return "invalid_dimension" if resize_outcome(k, strict, n0, n1) == "exc" else None
    if c in ("ext", "extfn"):
        return "invalid_dimension" if a[3] < 0 else None
    if c == "link" and a[1] in prev:
        return "empty_array" if prev[a[1]].alloc is None else None
    if c == "sum" and a[1] in prev and a[2] in prev:
        return "size_mismatch" if prev[a[1]].d0 != prev[a[2]].d0 else None
    if c in ("cp", "cpc", "cpm", "soft", "clr", "del", "w", "fnw", "swp", "vpush", "vpop", "fsl", "fdiag", "xw", "xend", "xnew", "fnew", "end",
             "failnext", "fnewl") \
            or cl[0] == "newd":
        return None
    return "?"


def oracle(hist, lines):
    """hist: ops without the leading reset; lines: implementation output for them.  -> (step, message) or None"""
    prev_objs, prev_exts, prev_n, prev_g, prev_f = {}, {}, 0, 0, 0
    seen_labels = set()
    soft = set()          # handles that are deliberately uncounted views (soft links and what was made from them)
    active_labels = set() # storages that have been seen held by an active object
    for i, (op, line) in enumerate(zip(hist, lines)):
        w = op.split()
        c = w[0]
        cl = classify(c)
        if line in ("bad-op", "skip-dangling"):
            continue
        if line.startswith("fault"):
            return i, "implementation driver printed %r" % line
        p = parse(line)
        if p is None:
            return i, "unparsable observation %r" % line[:200]
        status, n, g, f, objs, exts = p
        a = [int(t) for t in w[1:]]
        want = must_throw(c, cl, a, prev_objs)
        if c == "failnext":
            if f != a[0]:
                return i, "fault schedule not armed"
        elif f > prev_f:
            return i, "fault countdown went up"
        if status == "exc:bad_alloc":
            # an allocation failed on schedule: counts, links and every OTHER object are judged by the global rules and
            # the frame below; the object the operation worked on is as it was or EMPTY (no data pointer, no extents, no
            # Storage): nothing may be left pointing at data it has released (finding F-74, fixed)
            if not (prev_f >= 1 and f == 0):
                return i, "%s threw bad_alloc although no allocation fault was scheduled (countdown %d -> %d)" % (op, prev_f, f)
            tg = targets_of(c, cl, a)
            if set(objs) != set(prev_objs):
                return i, "%s threw bad_alloc: live handles %s, before %s (a constructor that throws leaves no object)" % (
                    op, sorted(objs), sorted(prev_objs))
            for k, o in objs.items():
                o0 = prev_objs[k]
                if k in tg:
                    blank = o.alloc is None and o.st == "-" and o.d0 == 0 and o.d1 == 0
                    if o.struct() != o0.struct() and not blank and c != "stdswp":      # std::swap: three statements
                        return i, ("%s threw bad_alloc and left array %d neither as it was nor empty: storage %s (it held %s), "
                                   "data() at %s (live=%s), extents %dx%d" % (op, k, o.st, o0.st, o.at, o.L, o.d0, o.d1))
                    if blank:
                        soft.discard(k)
                elif o.struct() != o0.struct() or (o.v != o0.v and "!" not in (o.v, o0.v) and not (
                        c == "stdswp" and o.alloc in {prev_objs[t].alloc for t in tg if t in prev_objs})):
                    # (std::swap is three statements: its first assignment may have stored before the second one failed)
                    return i, "%s threw bad_alloc and changed array %d, which it does not name as a target" % (op, k)
        elif status.startswith("exc:"):
            ecls = status[4:]
            allowed = ALLOWED_EXC.get(c, set())
            if cl[0] == "view":
                allowed = {"invalid_dimension", "invalid_operation", "index_out_of_bounds"}
                if cl[1] in ("ac", "am", "amfn", "amfnv"):
                    allowed = allowed | {"size_mismatch"}
            if cl[0] in ("new", "newfn"):
                allowed = {"invalid_dimension"}
            if ecls not in allowed:
                return i, "unexpected exception %s from %s (reference count underflow?)" % (ecls, c)
            if want is None:
                return i, "%s threw %s but the request is valid and must succeed" % (op, ecls)
            if want != "?" and want != ecls:
                return i, "%s threw %s, the documented exception for this request is %s" % (op, ecls, want)
            if c in PLAIN_ASSIGN and a[0] in prev_objs and a[1] in prev_objs:
                t, b = prev_objs[a[0]], prev_objs[a[1]]
                degenerate = any(o.kind == "m" and o.d0 > 0 and o.d1 == 0 for o in (t, b))   # an n x 0 matrix is not empty()
                if not degenerate and (t.empty() or (t.d0, t.d1) == (b.d0, b.d1)):
                    return i, "%s threw size_mismatch although the target is empty or the extents agree" % op
            # a thrown exception leaves every object, count and value as it was (std::swap is three statements: a
            # copy construction and two assignments, each of which is atomic; the second assignment may throw after
            # the first has stored — only the global rules judge it)
            if c == "stdswp":
                pass
            elif set(objs) != set(prev_objs) or any(objs[k].struct() != prev_objs[k].struct() or objs[k].v != prev_objs[k].v
                                                  or objs[k].nl != prev_objs[k].nl for k in objs):
                return i, "%s threw %s but the arrays are not as they were before the call" % (op, ecls)
            elif n != prev_n:
                return i, "%s threw %s but n_storage_objects() changed" % (op, ecls)
            elif g != prev_g:
                return i, "%s threw %s but n_gradients_registered() changed" % (op, ecls)
        elif status != "ok":
            return i, "unknown status %r" % status
        elif want not in (None, "?"):
            return i, "%s was accepted; it must be rejected with %s" % (op, want)
        # ---------------- global rules, every line
        cnt, act = {}, {}
        for k, o in objs.items():
            if o.st not in ("-",):
                cnt[o.st] = cnt.get(o.st, 0) + 1
        for k, o in objs.items():
            if o.alloc == "?":
                return i, "array %d: data() points into no known allocation" % k
            if o.st == "?" or o.nl == "!":
                return i, "array %d refers to a Storage object that has been deleted" % k
            if o.st != "-":
                if o.alloc != o.st:
                    return i, "array %d holds storage %s but its data() points at %s" % (k, o.st, o.at)
                if o.L != "1":
                    return i, "array %d holds storage %s whose data have been released" % (k, o.st)
                if int(o.nl) != cnt[o.st]:
                    return i, "storage %s: n_links()=%s but %d live arrays refer to it" % (o.st, o.nl, cnt[o.st])
                if o.off + extent(o.kind, o.d0, o.d1, o.s0, o.s1) > o.sz:
                    return i, "array %d addresses elements [%d,%d) of storage %s, which has %d" % (
                        k, o.off, o.off + extent(o.kind, o.d0, o.d1, o.s0, o.s1), o.st, o.sz)
                if o.kind in ACT:
                    active_labels.add(o.st)
                    if o.gi != o.off:
                        return i, "active array %d: gradient index is %s elements from its storage's, data() is %d" % (k, o.gi, o.off)
        if n != len(cnt):
            return i, "n_storage_objects()=%d but %d storages are referred to by live arrays (leak or double release)" % (n, len(cnt))
        for k, o in objs.items():
            if o.st in active_labels:      # a Storage created active keeps its gradients while ANY object (also a passive
                act[o.st] = o.sz           # value() of it) refers to it
        if g != sum(act.values()):
            return i, ("n_gradients_registered()=%d but the active storages referred to by live arrays hold %d elements "
                       "(gradients not released with the data, or released twice)" % (g, sum(act.values())))
        # ---------------- frame: who may have changed structurally
        targets = targets_of(c, cl, a) if status in ("ok", "exc:bad_alloc") or c == "stdswp" else set()
        if c == "end":
            if objs or n != 0 or g != 0:
                return i, "after destroying every array %d arrays / %d storages / %d gradients remain" % (len(objs), n, g)
            prev_objs, prev_exts, prev_n, prev_g, prev_f = objs, exts, n, g, f
            continue
        expect_handles = set(prev_objs)
        if status == "ok" and is_create(c):
            expect_handles.add(a[0])
        if status == "ok" and c in ("del", "vpop"):
            expect_handles.discard(a[0])
        if set(objs) != expect_handles:
            return i, "live handles %s, expected %s" % (sorted(objs), sorted(expect_handles))
        for k, o in objs.items():
            if k not in targets and k in prev_objs and o.struct() != prev_objs[k].struct():
                return i, "%s changed array %d (%s -> %s), which it does not name as a target" % (op, k, prev_objs[k].struct(), o.struct())
        # ---------------- per-operation rules
        if status == "ok":
            msg = op_rule(c, cl, a, objs, prev_objs, exts, prev_exts, seen_labels, soft)
            if msg:
                return i, msg
            # values: a change shows only through views of the allocation that was written
            written = written_allocs(c, cl, a, objs, prev_objs)
            for k, o in objs.items():
                if k in prev_objs and k not in targets and o.v != prev_objs[k].v and o.v != "!" and prev_objs[k].v != "!":
                    if o.alloc not in written:
                        return i, "%s changed the values seen by array %d (%s), which lives in another allocation than the one written" % (op, k, o.at)
        soft &= set(objs)
        for k, o in objs.items():
            if o.st != "-":
                seen_labels.add(o.st)
            elif o.alloc is not None and o.alloc.startswith("S") and k not in soft:
                # only soft links (and what was made from them) may look into library storage without holding it
                return i, "array %d has no storage yet its data() points into library storage %s (live=%s)" % (k, o.alloc, o.L)
        prev_objs, prev_exts, prev_n, prev_g, prev_f = objs, exts, n, g, f
    return None


def written_allocs(c, cl, a, objs, prev):
    if c in ("w", "fnw"):
        return {prev[a[0]].alloc}
    if c == "ial":
        return {prev[a[0]].alloc, objs[a[0]].alloc} if a[0] in objs and a[0] in prev else set()
    if c in ("xw", "xend"):
        return {"X%d" % a[0]}
    if is_assign(c):
        return {objs[a[0]].alloc} if a[0] in objs else set()
    if c == "stdswp":
        return {objs[a[0]].alloc, objs[a[1]].alloc}
    return set()


def view_values(b, ev):
    """values the view reads, from the source's observed values"""
    cm = b.cellmap()
    if cm is None:
        return "!" if b.v == "!" else []
    _, kind, delta, d0, d1, s0, s1 = ev
    cs = rel_cells(kind, d0, d1, s0, s1)
    try:
        return [cm[b.off + delta + c] for c in cs]
    except KeyError:
        return "!"


def op_rule(c, cl, a, objs, prev, exts, prev_exts, seen_labels, soft):
    """rules for a successful operation; returns a message or None"""
    def is_blank(o):
        return o.alloc is None and o.st == "-" and o.d0 == 0 and o.d1 == 0

    def fresh_owner(o, kind, outcome, what):
        if o.kind != kind:
            return "%s has kind %s, expected %s" % (what, o.kind, kind)
        if outcome == "clear":
            return None if is_blank(o) else "%s with a zero extent must leave an empty array without data" % what
        d0, d1, s0, s1, vol = packed(kind, outcome[0], outcome[1])
        if (o.st == "-" or o.st in seen_labels or o.nl != "1" or o.off != 0 or (o.d0, o.d1, o.s0, o.s1) != (d0, d1, s0, s1)
                or o.sz != vol):
            return "%s must own a new unshared storage of %d elements (got st=%s nl=%s sz=%s at=%s len=%dx%d str=%sx%s)" % (
                what, vol, o.st, o.nl, o.sz, o.at, o.d0, o.d1, o.s0, o.s1)
        return None

    def shares(o, b, want_geom, want_st, what):
        if o.geom() != want_geom:
            return "%s: new array is at %s len %dx%d str %sx%s, expected %s" % (what, o.at, o.d0, o.d1, o.s0, o.s1, want_geom)
        if o.st != want_st:
            return "%s: array holds storage %s, source holds %s" % (what, o.st, b.st)
        return None

    def view_geom(b, ev):
        _, kind, delta, d0, d1, s0, s1 = ev
        return (b.alloc, b.off + delta, d0, d1, s0, s1)

    def holds(o, want, what):
        if o.v in ("!", None):
            return None
        got = [int(round(float(x))) for x in o.v]
        return None if got == want else "%s reads %s, the initializer list gives %s" % (what, got, want)

    if c.startswith("inew") and c != "inewm":
        # constructed from a list of n values: a fresh owner of exactly n elements holding the list
        msg = fresh_owner(objs[a[0]], cl[1], resize_outcome(cl[1], False, a[1], 0), "array constructed from an initializer list")
        return msg or holds(objs[a[0]], list(range(a[2], a[2] + a[1])), "array constructed from a list")
    if c == "inewm":
        msg = fresh_owner(objs[a[0]], "m", resize_outcome("m", False, 2, 3), "matrix constructed from a nested initializer list")
        want = list(range(a[2], a[2] + 6)) if a[1] == 0 else list(range(a[2], a[2] + 4)) + [0, 0]
        return msg or holds(objs[a[0]], want, "matrix constructed from a nested list")
    if c == "ial":
        o, o0 = objs[a[0]], prev[a[0]]
        if o0.d0 == 0:
            soft.discard(a[0])
            msg = fresh_owner(o, o0.kind, resize_outcome(o0.kind, False, a[1], 0), "empty vector assigned an initializer list")
            return msg or holds(o, list(range(a[2], a[2] + a[1])), "empty vector assigned a list")
        if o.struct() != o0.struct():
            return "assignment of an initializer list moved a non-empty vector: %s -> %s" % (o0.struct(), o.struct())
        return holds(o, list(range(a[2], a[2] + a[1])) + [0] * (o0.d0 - a[1]), "vector assigned a list")
    if cl[0] in ("new", "newfn"):
        n0, n1 = dims1(cl[1], a[1])
        return fresh_owner(objs[a[0]], cl[1], resize_outcome(cl[1], cl[1] in SPEC, n0, n1), "new array")
    if c == "newm":
        return fresh_owner(objs[a[0]], "m", resize_outcome("m", False, a[1], a[2]), "new matrix")
    if c in ("rs", "rsi", "rs2", "rsi2"):
        soft.discard(a[0])
        k = prev[a[0]].kind
        if c in ("rs", "rsi"):
            n0, n1 = (a[1], a[1]) if k in SPEC else (a[1], 0)
            strict = c == "rsi"
        else:
            n0, n1 = a[1], a[2]
            strict = (c == "rsi2") if k == "m" else False
        return fresh_owner(objs[a[0]], k, resize_outcome(k, strict, n0, n1), "resized array")
    if cl[0] == "newd" or c == "clr":
        o = objs[a[0]]
        soft.discard(a[0])
        if not is_blank(o):
            return "%s must give an empty array with no data and no storage" % c
        return None
    if c == "fdiag":
        o = objs[a[0]]
        if o.st != "-" or o.at != "X%d+0" % a[1] or (o.kind, o.d0, o.s0) != ("g", 4, 0):
            return "FixedArray::diag_matrix() must be a DiagMatrix over the FixedArray's memory holding no storage (got %s st=%s at=%s)" % (
                o.kind, o.st, o.at)
        return None
    if c in ("ext", "extfn", "fsl"):
        o = objs[a[0]]
        off, n = (a[2], a[3]) if c != "fsl" else (a[2], a[3] - a[2] + 1)
        if o.st != "-" or o.at != "X%d+%d" % (a[1], off) or o.d0 != n or o.kind != "v" or o.s0 != 1:
            return "array over external memory must point at it and hold no storage (got st=%s at=%s len=%d)" % (o.st, o.at, o.d0)
        return None
    if c in ("cp", "cpc", "cpm", "soft", "vpush"):
        o, b = objs[a[0]], prev[a[1]]
        if o.kind != b.kind:
            return "%s: kind %s from a source of kind %s" % (c, o.kind, b.kind)
        msg = shares(o, b, b.geom(), "-" if c == "soft" else b.st, c)
        if msg:
            return msg
        if c == "soft" and o.alloc is not None and o.alloc.startswith("S"):
            soft.add(a[0])
        if c != "soft" and a[1] in soft and o.st == "-":
            soft.add(a[0])
        return None
    if cl[0] == "view" and cl[1] in ("", "fn", "fnv", "link"):
        o, b = objs[a[0]], prev[a[1]]
        ev = expected_view(b, cl[2], a[2:])
        if ev is None or ev[0] != "ok":
            return "%s succeeded although the request must be rejected (%s)" % (c, ev)
        if o.kind != ev[1]:
            return "%s: result of kind %s, expected %s" % (c, o.kind, ev[1])
        if cl[1] == "link" and a[0] == a[1]:
            return None            # a >>= a(view): the source is a itself, judged by the global rules
        msg = shares(o, b, view_geom(b, ev), b.st, c)
        if msg:
            return msg
        vv = view_values(b, ev)
        if vv != "!" and o.v not in ("!", None) and o.v != vv:
            return "%s: the view reads %s, the source holds %s there" % (c, o.v, vv)
        if a[1] in soft and o.st == "-":
            soft.add(a[0])
        else:
            soft.discard(a[0])
        return None
    if c == "link":
        o, b = objs[a[0]], prev[a[1]]
        if a[0] == a[1]:
            return None if is_blank(o) else "a.link(a) must leave a cleared"
        msg = shares(o, b, b.geom(), b.st, c)
        if msg:
            return msg
        if a[1] in soft and o.st == "-":
            soft.add(a[0])
        else:
            soft.discard(a[0])
        return None
    if c in ("w", "fnw"):
        o = objs[a[0]]
        if o.v != "!" and o.v[a[1]] != a[2]:
            return "%s: element reads %d after the write" % (c, o.v[a[1]])
        return None
    if c == "swp":
        for x, y in ((a[0], a[1]), (a[1], a[0])):
            if objs[x].struct() != prev[y].struct() or objs[x].nl != prev[y].nl or objs[x].v != prev[y].v:
                return "swap: array %d is not what array %d was" % (x, y)
        if a[0] != a[1] and (a[0] in soft) != (a[1] in soft):
            soft ^= {a[0], a[1]}
        return None
    if c == "stdswp":
        return None                # judged by the global rules (counts, ownership, frame)
    if c == "sum":
        o, b, b2 = objs[a[0]], prev[a[1]], prev[a[2]]
        msg = fresh_owner(o, b.kind, "clear" if b.d0 == 0 else (b.d0, 0), "result of b + c")
        if msg:
            return msg
        if b.d0 and b.v != "!" and b2.v != "!" and o.v != [p + q for p, q in zip(b.v, b2.v)]:
            return "sum: result reads %s" % (o.v,)
        return None
    if is_assign(c):
        return assign_rule(c, cl, a, objs, prev, prev_exts, seen_labels, soft)
    return None


def assign_rule(c, cl, a, objs, prev, prev_exts, seen_labels, soft):
    o, o0 = objs[a[0]], prev[a[0]]
    is_am = c == "am" and o0.kind in ARR               # SpecialMatrix has no move assignment
    if is_am and a[0] != a[1] and objs[a[1]].struct() not in (prev[a[1]].struct(), o0.struct()):
        return "move assignment left its source neither untouched nor with the target's old data"
    if is_am and a[0] != a[1] and a[0] in soft and objs[a[1]].struct() == o0.struct() != prev[a[1]].struct():
        soft.add(a[1])                               # swap: the source now is the (empty) uncounted view
    # value and extents of the right-hand side before the statement
    sdims = None
    if c in PLAIN_ASSIGN:
        b = prev[a[1]]
        src = b.v if b.ncells() else []
        sdims = (b.d0, b.d1)
    elif cl[0] == "view":
        b = prev[a[1]]
        ev = expected_view(b, cl[2], a[2:])
        if ev is None or ev[0] != "ok":
            return "%s succeeded although the view must be rejected (%s)" % (c, ev)
        src = view_values(b, ev)
        sdims = (ev[3], ev[4])
    elif c in ("amext", "amextfn"):
        src = prev_exts[a[1]][1][a[2]:a[2] + a[3]]
        sdims = (a[3], 0)
    elif c == "amfix":
        src = prev_exts[a[1]][1][a[2]:a[3] + 1]
        sdims = (a[3] - a[2] + 1, 0)
    elif c == "amsum":
        b, b2 = prev[a[1]], prev[a[2]]
        if b.d0 != b2.d0:
            return "sum of arrays of different length was accepted"
        src = "!" if "!" in (b.v, b2.v) else [p + q for p, q in zip(b.v or [], b2.v or [])]
        sdims = (b.d0, 0)
    else:                                             # amfresh
        n0, n1 = dims1(o0.kind, a[1])
        if resize_outcome(o0.kind, o0.kind in SPEC, n0, n1) == "clear":
            src, sdims = [], (0, 0)
        else:
            pk = packed(o0.kind, n0, n1)
            src = [a[2] + j for j in range(len(rel_cells(o0.kind, pk[0], pk[1], pk[2], pk[3])))]
            sdims = (n0, n1 if o0.kind == "m" else 0)
    if o0.kind in SPEC:
        sdims = (sdims[0], 0)
    # extents: an empty target takes the source's, a non-empty one must match (else the statement must have thrown)
    if not o0.empty() and (o0.d0, o0.d1) != sdims:
        return "%s: extents %s assigned to a non-empty target of extents %s without size_mismatch" % (c, sdims, (o0.d0, o0.d1))
    have = o.v if o.ncells() else []
    if src != "!" and have != "!" and have != (src or []):
        return "%s: target reads %s, the right-hand side was %s" % (c, have, src)
    if o.struct() == o0.struct():
        return None                                  # stored in place (or nothing to do)
    if o.alloc is None and o.st == "-" and o.d0 == 0:
        soft.discard(a[0])
        return None                                  # empty = empty
    # the target moved: it must now own an unshared library storage
    soft.discard(a[0])
    if o.st == "-" or o.alloc != o.st or o.nl != "1":
        return ("after %s the target does not own its data: it points at %s (storage %s, n_links %s)"
                % (c, o.at, o.st, o.nl))
    if o.st in seen_labels:
        # not new: only a move from an lvalue may hand over an existing storage, and then it is a swap
        if not is_am or prev[a[1]].st != o.st or prev[a[1]].nl != "1":
            return "after %s the target holds storage %s, which already existed and was not the source's own" % (c, o.st)
        if objs[a[1]].struct() != o0.struct():
            return "move assignment took the source's storage without handing the target's old data to the source"
    if not o0.empty() and not (o0.st != "-" and o0.nl == "1"):
        return "%s replaced the data of a non-empty target that was a view or shared (must be stored in place)" % c
    return None


# ------------------------------------------------------------------ generator
class Gen:
    """random life-cycle histories over all kinds; keeps an approximate shadow (kind and extents) so that most ops are
    well-formed; a fraction of the requests is deliberately INVALID (reversed ranges, diagonals beyond the matrix,
    wrong reshape, bad sub-matrix bounds, negative extents, link to empty, mismatching sizes) and must be rejected"""

    def __init__(self, rng, length, kinds=ALLK):
        self.r, self.length = rng, length
        self.ops = []
        self.kind = {}     # handle -> kind
        self.dim = {}      # handle -> (d0, d1) or None (unknown)
        self.bag = {k: [] for k in ALLK}
        self.ext = {}      # block -> [size, live, fixed]
        self.nk = 0
        self.nx = 0
        self.maxpool = rng.choice([3, 4, 6, 8])
        self.kinds = kinds
        self.pbad = rng.choice([0.0, 0.1, 0.1, 0.2, 0.35])
        self.pfault = rng.choice([0.0, 0.0, 0.0, 0.04, 0.1])     # allocation faults scheduled before a random operation

    def fresh(self):
        self.nk += 1
        return self.nk

    def newkind(self):
        return self.r.choice([k for k in "vvvvvmmmaaassttgGSSp" if k in self.kinds])

    def d0(self, k):
        d = self.dim.get(k)
        return d[0] if d else 0

    def nonempty(self, k):
        d = self.dim.get(k)
        return bool(d) and d[0] > 0 and (self.kind[k] != "m" or d[1] > 0)

    def pick(self, nonempty=False, kind=None):
        ks = [k for k in self.kind if (not nonempty or self.nonempty(k)) and (kind is None or self.kind[k] in kind)]
        return self.r.choice(ks) if ks else None

    def ncells(self, k):
        d = self.dim.get(k)
        if not d:
            return 0
        kd = self.kind[k]
        return {"v": d[0], "a": d[0], "p": d[0], "m": d[0] * d[1], "s": d[0] * (d[0] + 1) // 2, "S": d[0] * (d[0] + 1) // 2,
                "t": max(0, 3 * d[0] - 2), "g": d[0], "G": d[0]}[kd]

    def rrange(self, n, bad=False):
        r = self.r
        st = r.choice([1, 1, 1, 2, 2, 3])
        lo = r.randrange(n)
        hi = r.randrange(lo, n)
        if lo >= 1 and r.random() < 0.06:
            hi = lo - 1                                  # empty view that still holds a link
        if bad and n >= 3:
            lo = r.randrange(2, n); hi = r.randrange(0, lo - 1); st = r.choice([1, 1, 2])
        return lo, hi, st

    @staticmethod
    def rlen(lo, hi, st):
        return max(0, tdiv(hi + st - lo, st))

    def view(self, b):
        """-> (fn, args, result kind, result dims or None) for a view of b; sometimes an invalid request"""
        r = self.r
        kd, (n0, n1) = self.kind[b], self.dim[b]
        bad = r.random() < self.pbad
        if kd in VEC and kd != "p" and r.random() < 0.15:
            return "dm", [], ("G" if kd == "a" else "g"), (n0, 0)            # DiagMatrix view of the vector
        if kd in "vmapstg" and r.random() < 0.1:
            return "il", [], ("p" if kd == "a" else kd), (n0, n1)             # inactive_link() / value()
        if kd in VEC:
            if kd == "v" and r.random() < 0.2:
                divs = [d for d in range(1, n0 + 1) if n0 % d == 0]
                d0 = r.choice(divs); d1 = n0 // d0
                if bad:
                    d0, d1 = r.choice([(d0 + 1, d1), (-d0, -d1), (0, d1), (-1, -n0), (d0, d1 + 1)])
                return "rsh", [d0, d1], "m", ((d0, d1) if d0 > 0 and d1 > 0 else None)
            lo, hi, st = self.rrange(n0, bad)
            return "sl", [lo, hi, st], kd, (self.rlen(lo, hi, st), 0)
        if kd == "m":
            fn = r.choice(["row", "col", "sub", "idx", "tr", "diag", "sod", "perm"])
            if fn == "row":
                lo, hi, st = self.rrange(n1, bad)
                return fn, [r.randrange(n0), lo, hi, st], "v", (self.rlen(lo, hi, st), 0)
            if fn == "col":
                lo, hi, st = self.rrange(n0, bad)
                return fn, [lo, hi, st, r.randrange(n1)], "v", (self.rlen(lo, hi, st), 0)
            if fn == "sub":
                a0 = self.rrange(n0, bad and r.random() < 0.5); a1 = self.rrange(n1, bad)
                return fn, list(a0) + list(a1), "m", (self.rlen(*a0), self.rlen(*a1))
            if fn == "idx":
                return fn, [r.randrange(n0)], "v", (n1, 0)
            if fn == "tr":
                return fn, [], "m", (n1, n0)
            if fn == "perm":
                i0, i1 = r.choice([(1, 0), (0, 1)]) if not bad else r.choice([(0, 0), (1, 1), (0, 2), (-1, 0), (2, 1)])
                return fn, [i0, i1], "m", ((n1, n0) if (i0, i1) == (1, 0) else (n0, n1))
            if fn == "diag":
                k = r.randrange(-(min(n0, n1) - 1), min(n0, n1)) if min(n0, n1) > 0 else 0
                if bad:
                    k = r.choice([n0 + 1, -(n0 + 1), n0 + 3])
                return fn, [k], "v", (max(0, n0 - abs(k)) if n0 == n1 else 0, 0)
            i0 = r.randrange(n0); i1 = r.randrange(i0, n0)
            if bad:
                i0, i1 = r.choice([(i1 + 1, i0), (-1, i1), (i0, n0), (i0, n0 + 2)])
            return "sod", [i0, i1], "m", (i1 - i0 + 1,) * 2
        # special matrices (symmetric, tridiagonal, diagonal; passive and active)
        if kd in SYMM and r.random() < 0.2:
            return "tr", [], kd, (n0, 0)
        if r.random() < 0.5:
            k = r.randrange(-(n0 - 1), n0) if kd in SYMM else r.choice([-1, 0, 0, 1]) if kd == "t" else 0
            if kd == "t" and n0 == 1:
                k = 0
            if bad:
                k = r.choice([n0 + 1, -(n0 + 1), 2, -2, n0 + 2, 1, -1])
                if abs(k) == n0:
                    k = n0 + 1
            return "diag", [k], ("a" if kd in ACT else "v"), (max(0, n0 - abs(k)), 0)
        i0 = r.randrange(n0); i1 = r.randrange(i0, n0)
        if bad:
            i0, i1 = r.choice([(i1 + 1, i0), (-1, i1), (i0, n0), (i0, n0 + 2)])
        return "sod", [i0, i1], kd, (i1 - i0 + 1, 0)

    def liveext(self, fixed=None):
        xs = [x for x, e in self.ext.items() if e[1] and (fixed is None or e[2] == fixed)]
        return self.r.choice(xs) if xs else None

    def val(self):
        return self.r.randrange(-99, 1000)

    def emit(self, s):
        self.ops.append(s)

    def setobj(self, k, kind, dim):
        self.kind[k] = kind
        self.dim[k] = dim

    def mutate_source(self, src):
        """the environment changes what the right-hand side was made of"""
        r = self.r
        kind, h = src
        if kind == "obj" and h in self.kind and self.ncells(h) > 0:
            self.emit("w %d %d %d" % (h, r.randrange(self.ncells(h)), self.val()))
        elif kind == "ext" and h in self.ext and self.ext[h][1]:
            if r.random() < 0.25:
                self.emit("xend %d" % h); self.ext[h][1] = False
            else:
                self.emit("xw %d %d %d" % (h, r.randrange(self.ext[h][0]), self.val()))

    def size_for(self, kd, small=False):
        r = self.r
        if kd in VEC:
            return (r.choice([0, 0, 1, 2, 3, 3, 4, 5, 6]), 0)
        if kd == "m":
            return (r.choice([1, 2, 2, 3, 3, 4]), r.choice([1, 2, 3, 3, 4]))
        return (r.choice([1, 2, 3, 3, 4]), 0)

    def create(self):
        r = self.r
        k = self.fresh(); kd = self.newkind()
        n0, n1 = self.size_for(kd)
        x = r.random()
        if x < 0.12:
            self.emit("newd%s %d" % (SFX_OF[kd], k)); self.setobj(k, kd, (0, 0)); return
        if x < 0.12 + self.pbad * 0.3:                  # a constructor that must throw: no object
            if kd == "m":
                self.emit("newm %d %d %d %d" % (k, r.choice([-1, 2]), r.choice([-2, -1]), self.val()))
            else:
                self.emit("new%s%s %d %d %d" % (r.choice(["", "fn"]), SFX_OF[kd], k, r.choice([-1, -2]), self.val()))
            return
        if kd in VEC and 1 <= n0 <= 4 and r.random() < 0.3:
            # constructed from an initializer list
            self.emit("inew%s %d %d %d" % (SFX_OF[kd], k, n0, self.val())); self.setobj(k, kd, (n0, 0))
            return
        if kd == "m" and r.random() < 0.2:
            self.emit("inewm %d %d %d" % (k, r.randrange(2), self.val())); self.setobj(k, kd, (2, 3))
            return
        if kd == "m":
            if r.random() < 0.25:
                self.emit("newfnm %d %d %d" % (k, n0, self.val())); self.setobj(k, kd, (n0, 2))
            else:
                self.emit("newm %d %d %d %d" % (k, n0, n1, self.val())); self.setobj(k, kd, (n0, n1))
        else:
            self.emit("new%s%s %d %d %d" % ("fn" if r.random() < 0.25 else "", SFX_OF[kd], k, n0, self.val()))
            self.setobj(k, kd, (n0, 0) if n0 > 0 else (0, 0))

    def step(self):
        r = self.r
        K, D = self.kind, self.dim
        x = r.random()
        if K and r.random() < self.pfault:
            self.emit("failnext %d" % r.choice([1, 1, 1, 1, 2, 3]))
            x = r.choice([0.01, 0.5, 0.5, 0.6, 0.72, 0.74, 0.78, 0.81])     # then something that allocates
        if not K or (len(K) < 2 and x < 0.5):
            x = 0.0
        if len(K) > self.maxpool and x < 0.30:
            x = 0.95
        if x < 0.08:          # fresh arrays of every kind, often small or empty
            self.create()
        elif x < 0.11:        # external memory
            if len(self.ext) < 4 and r.random() < 0.7 or not self.ext:
                self.nx += 1
                if r.random() < 0.4:
                    self.emit("%s %d %d" % (r.choice(["fnew", "fnewl"]), self.nx, self.val())); self.ext[self.nx] = [4, True, True]
                else:
                    n = r.randrange(1, 7)
                    self.emit("xnew %d %d %d" % (self.nx, n, self.val())); self.ext[self.nx] = [n, True, False]
            else:
                xb = self.liveext()
                if xb is not None:
                    self.mutate_source(("ext", xb))
        elif x < 0.15:        # array over external memory / FixedArray slice
            xb = self.liveext()
            if xb is None:
                return
            k = self.fresh(); size, _, fixed = self.ext[xb]
            if fixed and r.random() < 0.2:
                self.emit("fdiag %d %d" % (k, xb)); self.setobj(k, "g", (4, 0))
            elif fixed:
                lo = r.randrange(4); hi = r.randrange(lo, 4)
                self.emit("fsl %d %d %d %d" % (k, xb, lo, hi)); self.setobj(k, "v", (hi - lo + 1, 0))
            else:
                off = r.randrange(size); n = r.randrange(0, size - off + 1)
                if r.random() < self.pbad * 0.5:
                    self.emit("%s %d %d %d %d" % (r.choice(["ext", "extfn"]), k, xb, off, -1))
                    return
                self.emit("%s %d %d %d %d" % (r.choice(["ext", "ext", "extfn"]), k, xb, off, n)); self.setobj(k, "v", (n, 0))
        elif x < 0.22:        # shallow copies, also into a std::vector
            b = self.pick()
            k = self.fresh()
            if K[b] in "va" and r.random() < 0.2:     # (sum_of is instantiated for v and a only)
                cands = [k2 for k2 in K if K[k2] == K[b] and (D[k2] == D[b] or r.random() < 0.15)]
                self.emit("sum %d %d %d" % (k, b, r.choice(cands)))
            elif r.random() < 0.25:
                self.emit("vpush %d %d" % (k, b)); self.bag[K[b]].append(k)
            else:
                self.emit("%s %d %d" % (r.choice(["cp", "cpc", "cpm"]), k, b))
            self.setobj(k, K[b], D[b])
        elif x < 0.34:        # views held in new objects (also through functions)
            b = self.pick(nonempty=True)
            if b is None:
                return
            fn, args, rk, rd = self.view(b)
            k = self.fresh()
            form = r.choice(["fn", "fnv"]) if fn == "sl" and r.random() < 0.3 else ""
            self.emit("%s%s %d %d %s" % (form, fn, k, b, " ".join(map(str, args))))
            self.setobj(k, rk, rd)          # if the request is rejected the handle stays unused (ops on it are bad-op)
        elif x < 0.37:
            b = self.pick(); k = self.fresh()
            self.emit("soft %d %d" % (k, b)); self.setobj(k, K[b], D[b])
        elif x < 0.45:        # link, also to itself, to empty arrays and to temporaries
            a = self.pick()
            if r.random() < 0.5:
                cands = [b for b in K if self.nonempty(b)]
                r.shuffle(cands)
                for b in cands[:4]:
                    fn, args, rk, rd = self.view(b)
                    if rk == K[a]:
                        self.emit("link%s %d %d %s" % (fn, a, b, " ".join(map(str, args)))); D[a] = rd
                        return
            b = a if r.random() < 0.08 else self.pick(kind=K[a])
            self.emit("link %d %d" % (a, b))
            D[a] = D[b] if self.nonempty(b) else None
        elif x < 0.70:        # assignment, mostly from temporaries; then the source is changed
            self.assign()
        elif x < 0.76:        # resize / clear, preferably of shared data
            a = self.pick()
            kd = K[a]
            if kd in VEC and r.random() < 0.3:
                # assignment of an initializer list: to an empty vector (resized), a longer one (stored in front, rest zero), a shorter one (rejected)
                n = r.randrange(1, 5)
                self.emit("ial %d %d %d" % (a, n, self.val()))
                if not self.nonempty(a):
                    D[a] = (n, 0)
            elif r.random() < 0.4:
                self.emit("clr %d" % a); D[a] = (0, 0)
            elif kd in VEC or (kd in SPEC and r.random() < 0.6):
                n = r.choice([-2, -1, 0, 1, 2, 3, 4, 6] if kd in VEC else [-1, 0, 1, 2, 3, 4])
                self.emit("%s %d %d %d" % (r.choice(["rs", "rs", "rsi"]), a, n, self.val()))
                if n >= 0:
                    D[a] = (n, 0)
            else:
                n0 = r.choice([-1, 0, 1, 2, 3, 4]); n1 = r.choice([-1, 0, 1, 2, 3]) if kd == "m" or r.random() < 0.3 else n0
                self.emit("%s %d %d %d %d" % (r.choice(["rs2", "rsi2"]), a, n0, n1, self.val()))
                if kd == "m":
                    D[a] = (n0, n1) if n0 > 0 and n1 > 0 else ((0, 0) if n0 >= 0 and n1 >= 0 else D[a])
                elif n0 == n1 and n0 >= 0:
                    D[a] = (n0, 0)
        elif x < 0.80:        # through functions: by-value parameters
            b = self.pick()
            if self.ncells(b) > 0 and r.random() < 0.6:
                self.emit("fnw %d %d %d" % (b, r.randrange(self.ncells(b)), self.val()))
            else:
                self.emit("fnrs %d %d" % (b, r.choice([-1, 0, 1, 3, 5])))
        elif x < 0.83:        # swap
            a = self.pick(); b = self.pick(kind=K[a])
            op = r.choice(["swp", "stdswp"]) if K[a] in ARR else "stdswp"
            self.emit("%s %d %d" % (op, a, b))
            if op == "swp":
                D[a], D[b] = D[b], D[a]
            elif not self.nonempty(a) or not self.nonempty(b):
                D[a] = D[b] = None
        elif x < 0.91:        # writes
            a = self.pick(nonempty=True)
            if a is None or self.ncells(a) == 0:
                return
            self.emit("w %d %d %d" % (a, r.randrange(self.ncells(a)), self.val()))
        else:                 # destruction: parents before views as often as not
            a = self.pick()
            inbag = [k for k in ALLK if a in self.bag[k]]
            if inbag:
                a = self.bag[inbag[0]].pop()
                self.emit("vpop %d" % a)
            else:
                self.emit("del %d" % a)
            del K[a]; del D[a]

    def assign(self):
        r = self.r
        K, D = self.kind, self.dim
        a = self.pick()
        kd = K[a]
        forms = ["ac", "am", "am", "amfn", "amdup", "acview", "amview", "amview", "amfresh"]
        if kd == "v":
            forms += ["amext", "amext", "amfix", "amfix", "amextfn"]
        if kd in "va":
            forms += ["amsum"]
        if kd in VEC:
            forms += ["amfnsl"]
        form = r.choice(forms)
        src = None
        want = D[a] if self.nonempty(a) and r.random() < 0.8 else None   # extents that will be accepted
        empty_target = not self.nonempty(a)
        if form in PLAIN_ASSIGN:
            cands = [k for k in K if K[k] == kd and (want is None or D[k] == want)]
            b = a if r.random() < 0.07 else (r.choice(cands) if cands else self.pick(kind=kd))
            self.emit("%s %d %d" % (form, a, b)); src = ("obj", b)
            if empty_target:
                D[a] = D[b]
                if form == "am" and a != b and kd in ARR:
                    D[b] = None
        elif form in ("acview", "amview", "amfnsl"):
            cands = [b for b in K if self.nonempty(b)]
            r.shuffle(cands)
            for b in cands[:6]:
                fn, args, rk, rd = self.view(b)
                if rk != kd or (form == "amfnsl" and fn != "sl"):
                    continue
                if want is not None and fn == "sl" and args[2] == 1 and args[0] + want[0] <= self.d0(b):
                    args[1] = args[0] + want[0] - 1; rd = (want[0], 0)
                pre = {"acview": "ac", "amview": "am", "amfnsl": r.choice(["amfn", "amfnv"])}[form]
                self.emit("%s%s %d %d %s" % (pre, fn, a, b, " ".join(map(str, args)))); src = ("obj", b)
                if empty_target:
                    D[a] = rd
                break
            else:
                return
        elif form in ("amext", "amextfn"):
            xb = self.liveext(fixed=False)
            if xb is None:
                return
            size = self.ext[xb][0]
            off = r.randrange(size); n = r.randrange(0, size - off + 1)
            if want is not None and want[0] <= size:
                off = r.randrange(size - want[0] + 1); n = want[0]
            self.emit("%s %d %d %d %d" % (form, a, xb, off, n)); src = ("ext", xb)
            if empty_target:
                D[a] = (n, 0)
        elif form == "amfix":
            xb = self.liveext(fixed=True)
            if xb is None:
                return
            lo = r.randrange(4); hi = r.randrange(lo, 4)
            if want is not None and want[0] <= 4:
                lo = r.randrange(4 - want[0] + 1); hi = lo + want[0] - 1
            self.emit("amfix %d %d %d %d" % (a, xb, lo, hi)); src = ("ext", xb)
            if empty_target:
                D[a] = (hi - lo + 1, 0)
        elif form == "amsum":
            cands = [k for k in K if K[k] == kd and (want is None or D[k] == want)]
            if not cands:
                return
            b = r.choice(cands)
            c2 = r.choice([k for k in cands if D[k] == D[b]] if r.random() < 0.85 else cands)
            self.emit("amsum %d %d %d" % (a, b, c2)); src = ("obj", b)
            if empty_target:
                D[a] = D[b]
        else:
            n = want[0] if want is not None and (kd != "m" or want[1] == 2) else r.choice([0, 1, 2, 3, 4])
            self.emit("amfresh %d %d %d" % (a, n, self.val()))
            if empty_target:
                D[a] = (n, 2 if kd == "m" else 0) if n > 0 else (0, 0)
        if src is not None and r.random() < 0.7:
            self.mutate_source(src)

    def run(self):
        guard = 0
        while len(self.ops) < self.length and guard < 10 * self.length:
            guard += 1
            self.step()
        return self.ops[:self.length]


def random_history(rng, maxlen):
    length = rng.choice([maxlen // 4, maxlen // 2, maxlen, maxlen])
    kinds = rng.choice([ALLK, ALLK, ALLK, "vmast", "v", "va", "vm", "mst", "st", "a", "vgap", "aGSp", "sSg"])
    return Gen(rng, max(4, length), kinds).run()


# ------------------------------------------------------------------ directed matrix
TARGETS = {
    "empty_default": ["newd 1"],
    "empty_cleared": ["new 1 3 1", "clr 1"],
    "owner": ["new 1 3 1"],
    "owner_shared": ["new 1 3 1", "cp 10 1"],
    "view": ["new 10 5 100", "sl 1 10 1 3 1"],
    "view_parent_gone": ["new 10 5 100", "sl 1 10 1 3 1", "del 10"],
    "strided_view": ["new 10 6 100", "sl 1 10 0 4 2"],
    "extview": ["xnew 9 5 200", "ext 1 9 1 3"],
    "fixedview": ["fnew 9 200", "fsl 1 9 1 3"],
    "soft": ["new 10 3 100", "soft 1 10"],
    "empty_view_holding_link": ["new 10 4 100", "sl 1 10 2 1 1"],
    "empty_over_external": ["xnew 9 5 200", "ext 1 9 2 0"],
}


def sources(n):
    return {
        "owner": ["new 2 %d 50" % n],
        "owner_shared": ["new 2 %d 50" % n, "cp 11 2"],
        "view": ["new 11 6 50", "sl 2 11 1 %d 1" % n],
        "view_parent_gone": ["new 11 6 50", "sl 2 11 1 %d 1" % n, "del 11"],
        "extview": ["xnew 8 5 300", "ext 2 8 0 %d" % n],
        "fixedslice": ["fnew 8 300", "fsl 2 8 0 %d" % (n - 1)],
        "soft": ["new 11 %d 50" % n, "soft 2 11"],
        "empty": ["newd 2"],
        "empty_over_external": ["xnew 8 5 300", "ext 2 8 1 0"],
    }


def directed_lists():
    """objects constructed from / assigned initializer lists: every rank-1 target of TARGETS (and their active / value() counterparts)
    assigned lists shorter than, as long as and longer than the target, with sharers watching, parents dying, allocation faults;
    list-constructed vectors of every class and length, matrices (full and ragged), FixedArrays, then shared, viewed, released"""
    out = []
    for t, pre in sorted(TARGETS.items()):
        for n in (1, 3, 4):
            out.append(pre + ["cp 20 1", "ial 1 %d 500" % n, "w 1 0 77", "ial 20 2 600", "del 10", "ial 1 %d 700" % n, "xend 9", "del 1", "ial 20 1 5", "end"])
            out.append(pre + ["failnext 1", "ial 1 %d 500" % n, "ial 1 %d 510" % n, "clr 1", "failnext 1", "ial 1 %d 520" % n, "ial 1 2 530", "end"])
    for sfx in ("", "a", "p"):
        for n in (1, 2, 3, 4):
            out.append(["inew%s 1 %d 5" % (sfx, n), "cp 2 1", "sl 3 1 0 %d 1" % (n - 1), "sl 4 1 %d %d 1" % (n - 1, max(0, n - 2)) if n > 1 else "sl 4 1 0 0 1",
                        "ial 4 2 40", "del 1", "ial 2 %d 9" % n, "ial 3 4 1", "inew%s 5 %d 50" % (sfx, n), "link 5 2", "ial 5 1 3", "clr 2", "ial 2 3 60",
                        "failnext 1", "inew%s 6 %d 70" % (sfx, n), "inew%s 7 %d 80" % (sfx, n), "am 7 3", "ial 7 1 0", "end"])
    for r in (0, 1):
        out.append(["inewm 1 %d 10" % r, "idx 2 1 1", "row 3 1 0 0 2 1", "ial 2 2 90", "del 1", "ial 3 3 95", "inewm 4 %d 20" % (1 - r), "ac 4 1", "cp 5 4", "clr 4",
                    "failnext 1", "inewm 6 %d 30" % r, "inewm 7 %d 30" % r, "tr 8 7", "del 7", "end"])
    out.append(["fnewl 9 200", "fsl 1 9 1 3", "ial 1 2 7", "fdiag 2 9", "fnewl 8 300", "fsl 3 8 0 3", "ial 3 4 1", "new 4 2 5", "amfix 4 8 0 1", "xend 9", "end"])
    return out


def directed():
    """rank-1 passive arrays: every kind of target x every kind of source x every form of assignment / link / release,
    each followed by changes of the source, the end of the external memory, a store through the target and an early
    destruction"""
    out = []
    tail = ["w 2 0 -9", "xw 8 0 -8", "w 1 0 77", "w 11 1 -7", "xend 8", "del 2", "w 1 1 78", "xend 9", "del 11", "del 10"]
    for tname, tp in TARGETS.items():
        for n in (3, 2):
            for sname, sp in sources(n).items():
                for form in ("ac", "am", "amfn", "amdup", "link", "stdswp", "swp"):
                    out.append(tp + sp + ["%s 1 2" % form] + tail)
                    out.append(tp + sp + ["%s 2 1" % form] + tail)
                for form in ("acsl", "amsl", "linksl", "amfnsl", "amfnvsl"):
                    out.append(tp + sp + ["%s 1 2 0 %d 1" % (form, n - 1)] + tail)
                    out.append(tp + sp + ["%s 1 2 0 %d 2" % (form, n - 1)] + tail)
                out.append(tp + sp + ["amsum 1 2 2"] + tail)
                out.append(tp + sp + ["sum 3 1 2", "w 3 0 4"] + tail)
            out.append(tp + ["xnew 8 5 300", "amext 1 8 1 %d" % n] + tail)
            out.append(tp + ["xnew 8 5 300", "amextfn 1 8 1 %d" % n] + tail)
            out.append(tp + ["fnew 8 300", "amfix 1 8 0 %d" % (n - 1)] + tail)
            out.append(tp + ["amfresh 1 %d 60" % n] + tail)
        for selfop in ("ac 1 1", "am 1 1", "amfn 1 1", "amdup 1 1", "link 1 1", "amsl 1 1 0 1 1", "acsl 1 1 1 2 1", "linksl 1 1 0 1 1",
                       "swp 1 1", "stdswp 1 1", "amsum 1 1 1", "amfnvsl 1 1 0 1 1"):
            out.append(tp + [selfop] + tail)
        for op in ("clr 1", "rs 1 2 0", "rs 1 0 0", "rs 1 -1 0", "rsi 1 -3 0", "rsi 1 4 9", "del 1", "fnrs 1 2", "fnrs 1 -1", "fnw 1 0 5",
                   "cp 3 1", "cpc 3 1", "cpm 3 1", "sl 3 1 0 1 1", "soft 3 1", "fnsl 3 1 0 1 1", "fnvsl 3 1 0 1 1", "vpush 3 1",
                   "rsh 3 1 1 3", "rsh 3 1 3 1"):
            out.append(tp + [op, "w 1 0 5", "w 3 0 6", "w 10 1 7", "del 10", "w 1 1 8", "w 3 1 9", "xend 9", "del 1", "w 3 0 1"])
    return out


# subjects of every kind: handle 1 is the object the request is made on (6 / 3x3 / 3 elements where it has any)
def subjects(kd):
    if kd == "v":
        return {
            "owner": ["new 1 6 1"], "owner_shared": ["new 1 6 1", "cp 10 1"],
            "view": ["new 10 8 1", "sl 1 10 1 6 1"], "view_parent_gone": ["new 10 8 1", "sl 1 10 1 6 1", "del 10"],
            "strided_view": ["new 10 12 1", "sl 1 10 0 10 2"], "soft": ["new 10 6 1", "soft 1 10"],
            "extview": ["xnew 9 8 5", "ext 1 9 1 6"], "row_of_matrix": ["newm 10 3 6 1", "idx 1 10 1"],
            "in_vector": ["new 10 6 1", "vpush 1 10"],
        }
    if kd == "a":
        return {
            "owner": ["newa 1 6 1"], "owner_shared": ["newa 1 6 1", "cp 10 1"],
            "view": ["newa 10 8 1", "sl 1 10 1 6 1"], "view_parent_gone": ["newa 10 8 1", "sl 1 10 1 6 1", "del 10"],
            "soft": ["newa 10 6 1", "soft 1 10"], "function_result": ["newfna 1 6 1"],
        }
    if kd == "m":
        return {
            "owner": ["newm 1 3 3 1"], "owner_shared": ["newm 1 3 3 1", "cpc 10 1"],
            "view": ["newm 10 5 5 1", "sub 1 10 1 3 1 0 4 2"], "view_parent_gone": ["newm 10 4 4 1", "sod 1 10 1 3", "del 10"],
            "transposed": ["newm 10 3 3 1", "tr 1 10"], "reshaped": ["new 10 9 1", "rsh 1 10 3 3"],
            "soft": ["newm 10 3 3 1", "soft 1 10"],
        }
    if kd == "p":
        return {
            "owner": ["newp 1 6 1"], "owner_shared": ["newp 1 6 1", "cp 10 1"],
            "value_of_active": ["newa 10 6 1", "il 1 10"], "value_of_active_gone": ["newa 10 6 1", "il 1 10", "del 10"],
            "view": ["newp 10 8 1", "sl 1 10 1 6 1"], "soft": ["newp 10 6 1", "soft 1 10"],
        }
    sfx = kd
    out = {
        "owner": ["new%s 1 3 1" % sfx], "owner_shared": ["new%s 1 3 1" % sfx, "cp 10 1"],
        "view": ["new%s 10 5 1" % sfx, "sod 1 10 1 3"], "view_parent_gone": ["new%s 10 5 1" % sfx, "sod 1 10 2 4", "del 10"],
        "soft": ["new%s 10 3 1" % sfx, "soft 1 10"],
    }
    if kd in "gG":
        vec = "new" if kd == "g" else "newa"
        out["diag_matrix_of_vector"] = ["%s 10 3 1" % vec, "dm 1 10"]
        out["diag_matrix_vector_gone"] = ["%s 10 3 1" % vec, "dm 1 10", "del 10"]
        out["diag_matrix_of_strided_view"] = ["%s 11 7 1" % vec, "sl 10 11 1 5 2", "dm 1 10", "del 11"]
    if kd == "g":
        out["diag_matrix_of_fixed_array"] = ["fnew 9 1", "fdiag 1 9"]
    if kd == "s":
        out["inactive_link"] = ["news 10 3 1", "il 1 10"]
        out["inactive_link_source_gone"] = ["news 10 3 1", "il 1 10", "del 10"]
    return out


# requests that MUST be rejected (3 = a non-empty target of the result's kind where one is needed, 5 = an empty array)
def rejects(kd):
    if kd in VEC:
        new = "new" + SFX_OF[kd]
        out = [["sl 2 1 4 1 1"], ["sl 2 1 5 0 1"], ["sl 2 1 5 1 2"], ["fnsl 2 1 4 1 1"], ["fnvsl 2 1 5 2 1"],
               ["%s 3 2 0" % new, "linksl 3 1 4 1 1"], ["%s 3 2 0" % new, "amsl 3 1 4 1 1"], ["%s 3 2 0" % new, "acsl 3 1 5 1 1"],
               ["newd%s 3" % kd.replace("v", ""), "amsl 3 1 4 2 1"], ["%s 3 2 0" % new, "amfnvsl 3 1 4 1 1"],
               ["%s 3 2 0" % new, "amfnsl 3 1 5 3 1"],
               ["rs 1 -1 0"], ["rsi 1 -2 0"], ["fnrs 1 -1"], ["newd%s 5" % kd.replace("v", ""), "link 1 5"],
               ["%s 6 4 0" % new, "ac 1 6"], ["%s 6 4 0" % new, "am 1 6"], ["%s 6 4 0" % new, "amdup 1 6"],
               ["%s 6 4 0" % new, "amsum 1 1 6"], ["%s 6 4 0" % new, "sum 2 1 6"], ["%s 6 4 0" % new, "stdswp 1 6"],
               ["%s 2 -1 0" % new], ["newfn%s 2 -2 0" % kd.replace("v", "")]]
        if kd == "a":
            out += [["soft 7 1", "dm 2 7"], ["soft 7 1", "sl 2 7 0 1 1"], ["soft 7 1", "newdG 3", "linkdm 3 7"]]
        if kd == "v":
            out += [["rsh 2 1 4 2"], ["rsh 2 1 -2 -3"], ["rsh 2 1 0 6"], ["rsh 2 1 -6 -1"], ["newm 4 2 2 0", "linkrsh 4 1 -1 -6"],
                    ["newm 4 2 3 0", "amrsh 4 1 -3 -2"], ["xnew 7 4 0", "ext 2 7 1 -1"], ["xnew 7 4 0", "extfn 2 7 0 -2"],
                    ["xnew 7 4 0", "amext 1 7 1 -1"], ["xnew 7 4 0", "amextfn 1 7 1 2"]]
        return out
    if kd == "m":
        return [["diag 2 1 4"], ["diag 2 1 -5"], ["new 3 2 0", "linkdiag 3 1 4"], ["new 3 2 0", "amdiag 3 1 7"], ["newd 3", "acdiag 3 1 -4"],
                ["sod 2 1 1 3"], ["sod 2 1 2 1"], ["sod 2 1 -1 1"], ["newm 4 2 2 0", "linksod 4 1 0 5"], ["newm 4 2 2 0", "amsod 4 1 2 0"],
                ["row 2 1 0 2 0 1"], ["col 2 1 2 0 1 1"], ["sub 2 1 2 0 1 0 2 1"], ["sub 2 1 0 2 1 2 0 1"], ["sub 2 1 2 0 1 2 0 1"],
                ["new 3 2 0", "linkrow 3 1 1 2 0 1"], ["new 3 2 0", "amcol 3 1 2 0 1 0"],
                ["perm 2 1 0 0"], ["perm 2 1 1 2"], ["perm 2 1 -1 0"], ["perm 2 1 1 1"],
                ["rs2 1 2 -1 0"], ["rs2 1 -1 2 0"], ["rsi2 1 0 -1 0"], ["rsi2 1 -1 0 0"], ["fnrs 1 -1"],
                ["newm 7 2 3 0", "ac 1 7"], ["newm 7 2 3 0", "am 1 7"], ["newm 7 2 3 0", "stdswp 1 7"],
                ["newm 7 2 3 0", "diag 2 7 0"], ["newm 7 2 3 0", "sod 2 7 0 1"], ["newm 7 2 3 0", "new 3 2 0", "linkdiag 3 7 0"],
                ["newm 2 -1 2 0"], ["newm 2 2 -2 0"], ["newfnm 2 -1 0"], ["newdm 5", "link 1 5"]]
    sfx = kd
    out = [["diag 2 1 4"], ["diag 2 1 -5"], ["new 3 2 0", "linkdiag 3 1 4"], ["new 3 2 0", "amdiag 3 1 -4"],
           ["sod 2 1 1 3"], ["sod 2 1 2 1"], ["sod 2 1 -1 1"], ["new%s 4 2 0" % sfx, "linksod 4 1 0 5"], ["new%s 4 2 0" % sfx, "amsod 4 1 1 0"],
           ["rs2 1 2 3 0"], ["rsi2 1 3 2 0"], ["rs 1 -1 0"], ["rsi 1 -2 0"], ["rs2 1 -1 -1 0"], ["fnrs 1 -1"],
           ["new%s 7 2 0" % sfx, "ac 1 7"], ["new%s 7 2 0" % sfx, "am 1 7"], ["new%s 7 2 0" % sfx, "stdswp 1 7"],
           ["new%s 2 -1 0" % sfx], ["newfn%s 2 -2 0" % sfx], ["newd%s 5" % sfx, "link 1 5"]]
    if kd == "t":
        out += [["diag 2 1 2"], ["diag 2 1 -2"], ["new 3 2 0", "linkdiag 3 1 2"]]
    if kd in "gG":
        out += [["diag 2 1 1"], ["diag 2 1 -1"], ["new%s 3 2 0" % ("" if kd == "g" else "a"), "linkdiag 3 1 1"]]
    return out


def directed_rejects():
    """every kind of subject x every request that must be rejected (once and three times over), then the subject is
    used, copied, and everything destroyed: a rejected request must leave every count, object and value as it was,
    and the data must still be released exactly once"""
    out = []
    for kd in ALLK:
        w = "w 1 0 5"
        for sname, sp in subjects(kd).items():
            for rj in rejects(kd):
                pre, req = rj[:-1], rj[-1]
                out.append(sp + pre + [req, w, "cp 20 1", "del 1", "w 20 1 6"])
                out.append(sp + pre + [req, req, "del 10", req, w, "clr 1"])
    return out


# valid requests of every kind (2 = new handle)
def valid_views(kd):
    if kd in VEC:
        out = [["sl 2 1 1 4 1"], ["sl 2 1 0 5 2"], ["sl 2 1 3 2 1"], ["sl 2 1 5 2 2"], ["fnsl 2 1 1 3 1"], ["fnvsl 2 1 0 4 2"], ["il 2 1"]]
        if kd == "v":
            out += [["rsh 2 1 2 3"], ["rsh 2 1 6 1"], ["rsh 2 1 1 6"]]
        if kd in "va":
            out += [["dm 2 1"]]
        return out
    if kd == "m":
        return [["row 2 1 1 0 2 1"], ["row 2 1 2 0 2 2"], ["col 2 1 0 2 1 1"], ["col 2 1 1 0 1 2"], ["sub 2 1 0 1 1 1 2 1"],
                ["sub 2 1 0 2 2 0 2 2"], ["sub 2 1 2 1 1 0 2 1"], ["idx 2 1 0"], ["idx 2 1 2"], ["tr 2 1"], ["diag 2 1 0"], ["diag 2 1 1"],
                ["diag 2 1 -2"], ["sod 2 1 0 1"], ["sod 2 1 1 2"], ["sod 2 1 2 2"], ["perm 2 1 1 0"], ["perm 2 1 0 1"], ["il 2 1"]]
    out = [["diag 2 1 0"], ["sod 2 1 0 1"], ["sod 2 1 1 2"], ["sod 2 1 0 2"], ["sod 2 1 1 1"]]
    if kd in "stS":
        out += [["diag 2 1 1"], ["diag 2 1 -1"]]
    if kd in SYMM:
        out += [["diag 2 1 2"], ["diag 2 1 -2"], ["tr 2 1"]]
    if kd in "stg":
        out += [["il 2 1"]]
    return out


def allocating_ops(kd):
    """operations on subject 1 (and source / target 2, 3 of the same kind) that allocate array data"""
    sfx = SFX_OF[kd]
    mk2 = {"v": "new 2 6 40", "a": "newa 2 6 40", "p": "newp 2 6 40", "m": "newm 2 3 3 40"}.get(kd, "new%s 2 3 40" % sfx)
    out = [["fnrs 1 2"], ["amfresh 1 3 9"], ["amfresh 1 2 9"], [mk2, "cp 12 2", "ac 1 2"], [mk2, "cp 12 2", "am 1 2"], [mk2, "am 1 2"],
           [mk2, "amdup 1 2"], [mk2, "amfn 1 2"], ["newd%s 3" % sfx, "ac 3 1"], ["newd%s 3" % sfx, "am 3 1"], ["newd%s 3" % sfx, "amdup 3 1"],
           ["newd%s 3" % sfx, "amfn 3 1"], ["newd%s 3" % sfx, "stdswp 3 1"], ["newd%s 3" % sfx, "stdswp 1 3"], [mk2, "stdswp 1 2"],
           ["new%s 3 %s" % (sfx, "2 2 5" if kd == "m" else "4 5")], ["newfn%s 3 3 5" % sfx], ["amdup 1 1"], ["ac 1 1"]]
    if kd in VEC:
        out += [["rs 1 4 0"], ["rsi 1 2 0"], ["acsl 1 1 1 5 1"], ["amsl 1 1 0 4 1"], ["sum 3 1 1"], ["amsum 1 1 1"], [mk2, "amsum 2 1 1"],
                ["newd%s 3" % sfx, "amsl 3 1 1 3 1"], ["newd%s 3" % sfx, "amfnvsl 3 1 1 3 1"]]
    if kd == "v":
        out += [["xnew 7 8 60", "amext 1 7 1 6"], ["newd 3", "xnew 7 8 60", "amextfn 3 7 1 4"], ["newd 3", "fnew 7 60", "amfix 3 7 0 2"]]
    if kd == "m":
        out += [["rs2 1 2 2 0"], ["rsi2 1 4 3 0"], ["newd 3", "amdiag 3 1 0"], ["newdm 3", "amtr 3 1"], ["amtr 1 1"], ["newdm 3", "amsod 3 1 0 1"]]
    if kd in SPEC:
        out += [["rs 1 2 0"], ["rsi 1 4 0"], ["rs2 1 2 2 0"], ["newd%s 3" % ("a" if kd in ACT else ""), "amdiag 3 1 0"],
                ["newd%s 3" % sfx, "amsod 3 1 0 1"]]
    return out


def directed_faults():
    """every kind of subject x every operation that allocates x the 1st / 2nd next allocation failing; afterwards the
    other referrers are written and read, the object the failure hit is cleared or destroyed FIRST (it must not give
    back a link it no longer holds) or resized again, and everything is released"""
    out = []
    for kd in ALLK:
        for sname, sp in subjects(kd).items():
            for ops in allocating_ops(kd):
                pre, op = ops[:-1], ops[-1]
                for k in (1, 2):
                    for tail in (["w 10 0 5", "del 1", "w 10 1 6", "del 3", "del 2"], ["clr 1", "clr 3", "w 10 0 5", "cp 20 10", "del 10"],
                                 ["failnext 1", op, "rsi 1 2 0", "w 10 0 5"]):
                        out.append(sp + pre + ["failnext %d" % k, op] + tail)
    return out


def result_kind(kd, req):
    fn = split_cmd(req.split()[0])[1]
    if fn in ("sl", "sod") or (fn == "tr" and kd != "m"):
        return kd
    if fn == "diag":
        return "a" if kd in ACT else "v"
    if fn == "dm":
        return "G" if kd == "a" else "g"
    if fn == "il":
        return "p" if kd == "a" else kd
    return "v" if fn in ("row", "col", "idx") else "m"


def directed_kinds():
    """every kind of subject x every valid view x every way of using it (held, linked, copy- and move-assigned to empty,
    owning and shared targets), then writes through both, the parent destroyed first; plus copy construction, soft
    link, std::vector growth, functions and swaps on every subject"""
    out = []
    mk = {"v": "new 3 %d 0", "a": "newa 3 %d 0", "m": "newm 3 %d %d 0", "s": "news 3 %d 0", "t": "newt 3 %d 0"}
    for kd in ALLK:
        for sname, sp in subjects(kd).items():
            for vq in valid_views(kd):
                req = vq[0]
                w = req.split()
                rk = result_kind(kd, req)
                tailv = ["w 2 0 41", "w 1 0 42", "del 10", "del 1", "w 2 0 43"]
                out.append(sp + [req] + tailv)
                args = " ".join(w[3:])
                fn = split_cmd(w[0])[1] if split_cmd(w[0])[0] == "" else None
                if fn is None:
                    continue
                sfx = SFX_OF[rk]
                for tgt in (["newd%s 3" % sfx], ["newd%s 3" % sfx, "cp 4 3"]):
                    for form in ("link", "am", "ac"):
                        out.append(sp + tgt + ["%s%s 3 1 %s" % (form, fn, args), "w 1 0 44", "w 3 0 45", "del 10", "del 1", "w 3 0 46"])
                # a non-empty target: first made a deep copy of the view so that the extents match, then shared
                out.append(sp + ["newd%s 3" % sfx, "ac%s 3 1 %s" % (fn, args), "cp 4 3", "w 1 0 47", "am%s 3 1 %s" % (fn, args),
                                 "ac%s 4 1 %s" % (fn, args), "link%s 4 1 %s" % (fn, args), "del 1", "del 10", "w 4 0 48"])
            newsfx = SFX_OF[kd]
            for ops in (["cp 2 1", "cpc 3 1", "cpm 4 1"], ["soft 2 1", "cp 3 2", "del 1", "del 10"],
                        ["vpush 2 1", "vpush 3 1", "vpush 4 2", "vpush 5 1", "vpush 6 3", "w 4 0 9", "vpop 6", "del 1", "vpush 7 5", "vpop 7", "vpop 5"],
                        ["newd%s 2" % newsfx, "am 2 1", "am 1 2", "ac 2 1", "amfn 2 1", "amdup 1 2"],
                        ["newfn%s 2 3 7" % newsfx, "stdswp 1 2", "w 1 0 5", "stdswp 2 1", "stdswp 1 1"],
                        ["newfn%s 2 3 7" % newsfx, "swp 1 2", "w 1 0 5", "swp 2 1", "swp 1 1", "newd%s 3" % newsfx, "swp 1 3", "swp 3 1"],
                        ["newd%s 2" % newsfx, "stdswp 1 2", "stdswp 1 2", "cp 3 1", "stdswp 1 2"],
                        ["fnw 1 0 5", "fnrs 1 2", "fnrs 1 0", "amfresh 1 3 9", "newd%s 2" % newsfx, "amfresh 2 2 1", "amfresh 1 2 5"],
                        ["clr 1", "w 10 0 1"], ["rsi 1 2 5", "w 10 0 1"], ["rs2 1 2 2 5", "w 10 0 1"], ["link 1 1"], ["ac 1 1", "am 1 1"]):
                out.append(sp + ops + ["w 1 0 3", "del 10", "w 2 0 4", "del 1"])
    return out


# ------------------------------------------------------------------ running
# fresh heap memory reads 0 (as the model's): a stale object left by a failed allocation may look at elements of a
# block that nobody ever stored (the unstored triangle of a symmetric matrix)
IMPL_ENV = {"ASAN_OPTIONS": "detect_leaks=1:abort_on_error=0:halt_on_error=1:max_malloc_fill_size=65536:malloc_fill_byte=0"}


def text_of(hists):
    return "".join("reset\n" + "\n".join(h) + "\nend\n" for h in hists)


def split_lines(lines, hists):
    out, pos = [], 0
    for h in hists:
        n = len(h) + 2
        out.append(lines[pos + 1:pos + n])
        pos += n
    return out


def model_truncate(hists):
    """a history in which the MODEL reports a memory fault uses a stale soft link (user error, outside the
    property): cut it before that operation"""
    ml = split_lines(vcheck.run_model("storage", text_of(hists)), hists)
    out, cut = [], 0
    for h, m in zip(hists, ml):
        k = next((i for i, l in enumerate(m) if l.startswith("fault")), None)
        if k is not None and k < len(h):
            h = h[:k]; cut += 1
        out.append(h)
    if cut:
        ml = split_lines(vcheck.run_model("storage", text_of(out)), out)
    return out, cut, ml


def san_summary(err):
    m = re.search(r"(ERROR: \w+Sanitizer: [^\n]*|SUMMARY: [^\n]*|runtime error: [^\n]*|terminate called[^\n]*)", err or "")
    return m.group(1)[:300] if m else (err or "")[-300:].replace("\n", " ")


def assess(h, il, rc, err):
    """judge one history from the implementation's output: (step, message) or None"""
    hh = list(h) + ["end"]
    bad = oracle(hh, il)            # zip() stops at the last line printed
    if bad is None and len(il) != len(hh):
        bad = (len(il), "implementation stopped at step %d (%s): rc=%s %s" % (len(il), hh[len(il)] if len(il) < len(hh) else "?", rc, san_summary(err)))
    return bad


STALE_RE = re.compile(r"(\d+)\(K=\w st=- nl=- at=S")
STALE_SIGNATURE = "C07-bad-alloc-resize-stale-data"


def op_class(c):
    cl = classify(c)
    if cl[0] == "view":
        return "%s<view:%s>" % (cl[1], cl[2])
    return c


def work(args):
    """one chunk: model + implementation + oracle.  Top-level so that it can run in a process pool."""
    exe, hists = args
    hists, cut, model = model_truncate(hists)
    text = text_of(hists)
    impl_lines, rc, err = vcheck.run_impl(exe, [], text, env=IMPL_ENV)
    impl = split_lines(impl_lines, hists)
    res = []
    stats = {"cut": cut, "ops": {}, "status": {}, "rejected": {}, "kinds": {}, "stale": 0, "stale_example": None}
    for h, il, ml in zip(hists, impl, model):
        hh = h + ["end"]
        prev_unc = set()
        for pos, (op, l) in enumerate(zip(hh, il)):
            unc = set(STALE_RE.findall(l))
            if l.startswith("exc:bad_alloc") and unc - prev_unc:
                stats["stale"] += 1
                if stats["stale_example"] is None:
                    stats["stale_example"] = {"history": h[:pos + 1], "observation": l[:600]}
            if " |" in l:
                prev_unc = unc
            c = op_class(op.split()[0])
            stats["ops"][c] = stats["ops"].get(c, 0) + 1
            s = l.split(" |")[0]
            stats["status"][s] = stats["status"].get(s, 0) + 1
            if s.startswith("exc:"):
                key = "%s %s" % (c, s[4:])
                stats["rejected"][key] = stats["rejected"].get(key, 0) + 1
        if il:
            for kch in re.findall(r"\(K=(\w)", " ".join(il[-3:-1])):
                stats["kinds"][kch] = stats["kinds"].get(kch, 0) + 1
        bad = assess(h, il, rc, err)
        if bad is not None:
            res.append((h, "oracle", bad[0], bad[1]))
            if len(il) != len(hh):
                break                 # the process died: the rest of the chunk was not run
        elif il != ml:
            res.append((h, "diff", vcheck.first_diff(il, ml), ""))
        else:
            res.append((h, "ok", None, ""))
    return res, stats


def run_one(exe, h):
    hh = list(h) + ["end"]
    il, rc, err = vcheck.run_impl(exe, [], "reset\n" + "\n".join(hh) + "\n", env=IMPL_ENV)
    return il[1:], rc, err


def model_one(h):
    hh = list(h) + ["end"]
    return vcheck.run_model("storage", "reset\n" + "\n".join(hh) + "\n")[1:]


def shrink(exe, h, want_oracle):
    def fails(sub):
        ml = model_one(sub)
        if any(l.startswith("fault") for l in ml):
            return False                      # stale soft link used: not a legal history
        il, rc, err = run_one(exe, sub)
        if want_oracle:
            return assess(sub, il, rc, err) is not None
        return len(il) == len(sub) + 1 and il != ml
    return vcheck.ddmin(list(h), fails, max_tests=250)


def nontrivial(h):
    k = 0
    for op in h:
        c = op.split()[0]
        if is_assign(c) or c in ("link", "cp", "cpc", "cpm", "clr", "rs", "rsi", "rs2", "rsi2", "del", "swp", "stdswp", "vpush", "vpop") \
                or classify(c)[0] == "view":
            k += 1
    return k >= 2


def judge(ctx, exe, results, label):
    nbad = 0
    for h, kind, k, msg in results:
        ctx.count_case(tuple(h), nontrivial=nontrivial(h), sample={"history": h[:10], "result": kind})
        if kind == "oracle":
            nbad += 1
            key = re.sub(r"-?\d+", "#", msg.split(":")[0])[:70]      # one report per kind of failure
            if key not in ctx.reported and len(ctx.reported) < 4:
                ctx.reported.add(key)
                shr = shrink(exe, h, True)
                il, rc, err = run_one(exe, shr)
                bad = assess(shr, il, rc, err)
                m2 = bad[1] if bad else msg
                rep = {"kind": "oracle", "history": shr, "step": bad[0] if bad else k, "message": m2, "impl": il,
                       "sanitizer": san_summary(err) if rc else "", "original_length": len(h), "build": label}
                if "threw bad_alloc and left array" in m2:
                    rep["signature"] = STALE_SIGNATURE       # finding F-74 (fixed): reported again should it come back
                ctx.violation("%s [%s]" % (m2.split("\n")[0][:300], label), rep)
        elif kind == "diff":
            ctx.cov["disagreements_checked"] += 1
            if len(ctx.pending) < 2:
                shr = shrink(exe, h, False)
                il = run_one(exe, shr)[0]
                ml = model_one(shr)
                ctx.pending.append({"kind": "correspondence", "correspondence": MODEL_FILE, "history": shr, "impl": il, "model": ml,
                                    "first_difference": vcheck.first_diff(il, ml), "build": label})
    ctx.cov["traces_validated_against_impl"] += len(results)
    return nbad


def run_hists(ctx, exe, hists, label, workers):
    if not hists:
        return 0
    chunk = max(1, min(400, (len(hists) + workers - 1) // workers))
    jobs = [(exe, hists[i:i + chunk]) for i in range(0, len(hists), chunk)]
    results = []
    agg = ctx.notes.setdefault("distribution", {"cut_at_stale_soft_link": 0, "ops": {}, "status": {}, "rejected": {},
                                                "kinds_alive_near_end": {}, "stale_after_bad_alloc": 0})
    if workers > 1 and len(jobs) > 1:
        with ProcessPoolExecutor(max_workers=workers) as ex:
            outs = list(ex.map(work, jobs))
    else:
        outs = [work(j) for j in jobs]
    for res, st in outs:
        results += res
        agg["cut_at_stale_soft_link"] += st["cut"]
        agg["stale_after_bad_alloc"] += st["stale"]
        if st["stale_example"] and "stale_example" not in ctx.notes:
            ctx.notes["stale_example"] = st["stale_example"]
        for key, dst in (("ops", "ops"), ("status", "status"), ("rejected", "rejected"), ("kinds", "kinds_alive_near_end")):
            for k, v in st[key].items():
                agg[dst][k] = agg[dst].get(k, 0) + v
    return judge(ctx, exe, results, label)


def load_corpus():
    d = os.path.join(vbuild.VERIF, "corpus", "C07")
    out = []
    if os.path.isdir(d):
        for fn in sorted(os.listdir(d)):
            if fn.endswith(".case"):
                out.append([l.strip() for l in open(os.path.join(d, fn)) if l.strip() and not l.startswith("#")])
    return out


def report_pending(ctx, fails):
    if ctx.violations:
        return
    for p in ctx.pending[:1]:
        ctx.violation("model and implementation disagree on a storage life-cycle history (%s); the ownership oracle found no "
                      "history on which the property itself fails" % p["build"], p, tag="c", no_input=True)
    if fails and not ctx.violations:
        ctx.violation("proof obligation of C07 no longer checks: " + fails[0][:400],
                      {"kind": "proof", "theorem": "AdeptProofs/Props/C07.lean", "failures": fails}, tag="p", no_input=True)


def run(ctx, replay):
    thms = [NS + t for t in vcheck.prop_theorems("AdeptProofs/Props/C07.lean", "C07_")]
    thms += [NS + t for t in vcheck.prop_theorems("AdeptProofs/Refute/MoveFromExternal.lean", "")]
    fails = vcheck.lean_gate(ctx, ["AdeptProofs.Props.C07", "AdeptProofs.Refute.MoveFromExternal"], thms,
                             required=[NS + r for r in REQUIRED])
    exe = vbuild.build("storage", SRC)
    ctx.pending = []
    ctx.reported = set()
    workers = min(6, os.cpu_count() or 4)
    if replay:
        r = json.load(open(replay))
        h = [op for op in r["history"] if op not in ("reset", "end")]
        run_hists(ctx, exe, [h], "replay", 1)
        report_pending(ctx, fails)
        return
    nhist, maxlen = (8000, 40) if ctx.tier == "quick" else (120000, 160)
    corpus = load_corpus()
    ctx.notes["corpus_cases"] = len(corpus)
    bad = run_hists(ctx, exe, corpus, "corpus", 1)
    dm, dr, dk, df = directed(), directed_rejects(), directed_kinds(), directed_faults()
    dl = directed_lists()
    ctx.notes["directed_initializer_list_cases"] = len(dl)
    ctx.notes["initializer_list_distribution"] = (
        "directed, every run: 12 kinds of rank-1 target x lists of 1/3/4 values (shorter, equal, longer: rejected) x with/without allocation "
        "fault; list-constructed int / active / value() vectors of 1..4 elements, 2x3 matrices full and ragged, FixedArray<int,false,4>; "
        "random: ~30% of the small vector constructions, ~20% of the matrix constructions, half of the FixedArray blocks are made from lists, "
        "~30% of the resize/clear slot on vectors is a list assignment (see distribution.ops inew*/inewm/fnewl/ial)")
    bad += run_hists(ctx, exe, dl, "directed-lists", workers)
    ctx.notes["directed_cases"] = {"rank1_assign_link_release": len(dm), "rejected_requests": len(dr), "kinds_views_functions": len(dk),
                                   "allocation_faults": len(df)}
    bad += run_hists(ctx, exe, df, "directed-faults", workers)
    bad += run_hists(ctx, exe, dr, "directed-rejects", workers)
    bad += run_hists(ctx, exe, dk, "directed-kinds", workers)
    bad += run_hists(ctx, exe, dm, "directed", workers)
    hists = [random_history(ctx.rng, maxlen) for _ in range(nhist)]
    bad += run_hists(ctx, exe, hists, "default", workers)
    ctx.cov["rule"] = ("life-cycle histories over a pool of Array<1,int>, Array<2,int>, active Array<1,double>, Array<1,double> (value() of an "
                       "active vector), symmetric, tridiagonal and diagonal SpecialMatrix<int>, active diagonal and symmetric "
                       "SpecialMatrix<double> (cross-class views: diag_matrix(), inactive_link()/value(), diag_vector, T(), "
                       "submatrix_on_diagonal), one std::vector per class, external blocks and FixedArray<int,false,4>: %d random histories of up "
                       "to %d operations (+%d corpus cases, +%d directed cases: rank-1 target x source x form of assignment/link/release; "
                       "every kind of subject x every request that must be REJECTED (reversed ranges, diagonals beyond the matrix, wrong or "
                       "negative reshape, bad sub-matrix bounds, repeated permute dimension, negative / non-square resize and constructors, "
                       "link to empty, mismatching sizes) once and repeatedly; every kind of subject x every valid view x held / linked / "
                       "copy- and move-assigned, copy construction, soft link, std::vector growth, by-value parameters, functions returning "
                       "locals / views / expression results / arrays over external memory, swap and std::swap), ~25%% assignments (two thirds from "
                       "temporaries) usually followed by a change of the source, 0-35%% of the view requests and a share of the constructor / "
                       "resize requests of a random history invalid on purpose, views and soft links outliving parents, clear/resize of shared "
                       "data, self-assignment/self-link; every history ends by destroying all arrays.  non-trivial = at least two "
                       "sharing/assigning/releasing operations; distinct = different op list; see distribution.ops / .status / .rejected for "
                       "the measured mix" % (nhist, maxlen, len(corpus), len(dm) + len(dr) + len(dk) + len(df)))
    ctx.cov["exhaustive"] = False
    ctx.assumptions += [
        "element type int for the passive classes (Packet<int>::size = 1: rows of Array<2> are not padded), double for the active "
        "classes and value() of an active vector; active Array<2>, the other SpecialMatrix engines and ranks above 2 follow the same code "
        "but are not driven; inactive_link()/value() of an ACTIVE SpecialMatrix does not compile on the unchanged tree (candidate "
        "finding_2) and is not driven",
        "indices address the source (the library does not test them: C06/C11); reversed ranges, diagonals, extents and sub-matrix "
        "bounds are unrestricted; a stale soft_link()/external view is the user's "
        "responsibility: histories are cut before an operation that would read or write through one (decided by the model, counted "
        "in distribution.cut_at_stale_soft_link)",
        "liveness of library memory is observed through AddressSanitizer's shadow (__asan_address_is_poisoned)",
        "the tree carries fixes/F-01.patch and fixes/F-24.patch; without them this check reports the two defects",
        "allocation faults: internal::alloc_aligned's two allocation functions (operator new[] for int, posix_memalign for double) are "
        "interposed in the driver; `failnext k` makes the k-th next data allocation (<= 8 KiB, made while a library operation runs) fail "
        "once; fresh heap memory is zero-filled (ASan malloc_fill_byte=0) so that never-stored elements read the same in model and "
        "implementation; after a failed allocation the object must be as it was or empty (finding F-74, fixed in f93fa0f; "
        "coverage.distribution.stale_after_bad_alloc counts storage-less objects still looking into library storage after a bad_alloc "
        "and must be 0)"]
    if ctx.pending and not ctx.violations:
        extra = [random_history(ctx.rng, maxlen) for _ in range(3000)]
        run_hists(ctx, exe, extra, "search", workers)
    dist = ctx.notes["distribution"]
    ctx.notes["allocation_faults_fired"] = dist["status"].get("exc:bad_alloc", 0)
    report_pending(ctx, fails)
