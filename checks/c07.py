"""C07 — array data lives while referenced; only copy-construction and link share it.

proof:  lean/AdeptProofs/Props/C07.lean (invariant of the storage life-cycle model for ALL finite histories:
        exact reference counts, no dangling owner, exactly-once release, no leak, who shares with whom,
        ownership and independence after `=`)
tie:    hand-written model AdeptModel/Storage.lean  <->  Storage.h add_link/remove_link, Array constructors,
        destructor, link, clear, resize, copy and move assignment, soft_link, slices of Array and FixedArray.
        harness/drv_storage.cpp interprets the same histories with REAL objects and real moves
        (std::move, functions returning by value, slices and external-memory arrays as rvalues); after every step
        n_storage_objects(), storage()->n_links(), the allocation and offset every data() points at, extents and
        all values are compared exactly with the model.  ASan/LSan/UBSan on.
oracle: shadow ownership table built here from the implementation's output alone (does not use the model):
        reference counts equal the number of live referrers, created-deleted equals the number of storages still
        referred to, nobody with a storage points at released memory (liveness asked from ASan), constructors /
        link / slices share exactly the source's allocation, `=` leaves the target in place or in an unshared
        storage of its own with the source's values, a write only shows through objects of the written allocation,
        a thrown exception changes nothing, the final count is 0.
"""
import os, re, json
from concurrent.futures import ProcessPoolExecutor
import vbuild, vcheck

LEVEL = "proof"
NS = "Adept.Storage."
REQUIRED = ["C07_inv_init", "C07_inv_step", "C07_inv_reachable", "C07_inv_meaning", "C07_freed_once", "C07_no_storage_fault", "C07_no_leak",
            "C07_shares_exactly", "C07_soft_external_hold_nothing", "C07_assign_owns", "C07_assign_independent"]
MODEL_FILE = "AdeptModel/Storage.lean <-> Storage.h / Array.h life cycle (ctor, dtor, link, clear, resize, =, move =)"
SRC = os.path.join(vbuild.VERIF, "harness", "drv_storage.cpp")

ASSIGN_OPS = ("ac", "am", "amfn", "amdup", "acsl", "amsl", "amext", "amfix", "amfresh")
CREATE_OPS = ("new", "newd", "ext", "fsl", "cp", "cpc", "cpm", "sl", "soft")


# ------------------------------------------------------------------ generator
class Gen:
    """random life-cycle histories; keeps an approximate shadow (extents only) so that most ops are well-formed"""

    def __init__(self, rng, length):
        self.r, self.length = rng, length
        self.ops = []
        self.len = {}      # handle -> extent or None (unknown)
        self.ext = {}      # block -> [size, live, fixed]
        self.nk = 0
        self.nx = 0
        self.maxpool = rng.choice([3, 4, 6, 8])

    def fresh(self):
        self.nk += 1
        return self.nk

    def pick(self, nonempty=False):
        ks = [k for k in self.len if not nonempty or (self.len[k] or 0) > 0]
        return self.r.choice(ks) if ks else None

    def rslice(self, n):
        r = self.r
        st = r.choice([1, 1, 1, 2, 2, 3])
        lo = r.randrange(n)
        hi = r.randrange(lo, n)
        if lo >= 1 and r.random() < 0.06:
            hi = lo - 1
        return lo, hi, st

    def liveext(self, fixed=None):
        xs = [x for x, e in self.ext.items() if e[1] and (fixed is None or e[2] == fixed)]
        return self.r.choice(xs) if xs else None

    def val(self):
        return self.r.randrange(-99, 1000)

    def emit(self, s):
        self.ops.append(s)

    def mutate_source(self, src):
        """the environment changes what the right-hand side was made of"""
        r = self.r
        kind, h = src
        if kind == "obj" and h in self.len and (self.len[h] or 0) > 0:
            self.emit("w %d %d %d" % (h, r.randrange(self.len[h]), self.val()))
        elif kind == "ext" and h in self.ext and self.ext[h][1]:
            if r.random() < 0.25:
                self.emit("xend %d" % h); self.ext[h][1] = False
            else:
                self.emit("xw %d %d %d" % (h, r.randrange(self.ext[h][0]), self.val()))

    def step(self):
        r = self.r
        L = self.len
        x = r.random()
        if not L or (len(L) < 2 and x < 0.5):
            x = 0.0
        if len(L) > self.maxpool and x < 0.30:
            x = 0.93
        if x < 0.07:          # fresh arrays, often small or empty
            k = self.fresh(); n = r.choice([0, 0, 1, 2, 3, 3, 4, 5])
            if r.random() < 0.15:
                self.emit("newd %d" % k); L[k] = 0
            else:
                self.emit("new %d %d %d" % (k, n, self.val())); L[k] = n
        elif x < 0.11:        # external memory
            if len(self.ext) < 4 and r.random() < 0.7 or not self.ext:
                self.nx += 1
                if r.random() < 0.4:
                    self.emit("fnew %d %d" % (self.nx, self.val())); self.ext[self.nx] = [4, True, True]
                else:
                    n = r.randrange(1, 7)
                    self.emit("xnew %d %d %d" % (self.nx, n, self.val())); self.ext[self.nx] = [n, True, False]
            else:
                xb = self.liveext()
                if xb is not None:
                    self.mutate_source(("ext", xb))
        elif x < 0.16:        # array over external memory / FixedArray slice
            xb = self.liveext()
            if xb is None:
                return
            k = self.fresh(); size, _, fixed = self.ext[xb]
            if fixed:
                lo = r.randrange(4); hi = r.randrange(lo, 4)
                self.emit("fsl %d %d %d %d" % (k, xb, lo, hi)); L[k] = hi - lo + 1
            else:
                off = r.randrange(size); n = r.randrange(0, size - off + 1)
                self.emit("ext %d %d %d %d" % (k, xb, off, n)); L[k] = n
        elif x < 0.24:        # shallow copies
            b = self.pick()
            k = self.fresh()
            self.emit("%s %d %d" % (r.choice(["cp", "cpc", "cpm"]), k, b)); L[k] = L[b]
        elif x < 0.33:        # views
            b = self.pick(nonempty=True)
            if b is None:
                return
            lo, hi, st = self.rslice(L[b]); k = self.fresh()
            self.emit("sl %d %d %d %d %d" % (k, b, lo, hi, st)); L[k] = (hi + st - lo) // st
        elif x < 0.36:
            b = self.pick(); k = self.fresh()
            self.emit("soft %d %d" % (k, b)); L[k] = L[b]
        elif x < 0.44:        # link, also to itself, to empty arrays and to temporaries
            a = self.pick(); b = a if r.random() < 0.08 else self.pick()
            if (L[b] or 0) > 0 and r.random() < 0.4:
                lo, hi, st = self.rslice(L[b])
                self.emit("linksl %d %d %d %d %d" % (a, b, lo, hi, st)); L[a] = (hi + st - lo) // st
            else:
                self.emit("link %d %d" % (a, b))
                L[a] = L[b] if (L[b] or 0) > 0 else None
        elif x < 0.72:        # assignment, mostly from temporaries; then the source is changed
            a = self.pick()
            form = r.choice(["ac", "am", "am", "amfn", "amdup", "acsl", "amsl", "amsl", "amext", "amext", "amfix", "amfix", "amfresh"])
            src = None
            want = L[a] if (L[a] or 0) > 0 and r.random() < 0.8 else None   # extent that will be accepted
            if form in ("ac", "am", "amfn", "amdup"):
                cands = [k for k in L if want is None or L[k] == want]
                b = a if r.random() < 0.07 else (r.choice(cands) if cands else self.pick())
                self.emit("%s %d %d" % (form, a, b)); src = ("obj", b)
                if (L[a] or 0) == 0:
                    L[a] = L[b]
                    if form == "am" and a != b:
                        L[b] = None
            elif form in ("acsl", "amsl"):
                b = self.pick(nonempty=True)
                if b is None:
                    return
                lo, hi, st = self.rslice(L[b])
                if want is not None and st == 1 and lo + want <= L[b]:
                    hi = lo + want - 1
                self.emit("%s %d %d %d %d %d" % (form, a, b, lo, hi, st)); src = ("obj", b)
                if (L[a] or 0) == 0:
                    L[a] = (hi + st - lo) // st
            elif form == "amext":
                xb = self.liveext(fixed=False)
                if xb is None:
                    return
                size = self.ext[xb][0]
                off = r.randrange(size); n = r.randrange(0, size - off + 1)
                if want is not None and want <= size:
                    off = r.randrange(size - want + 1); n = want
                self.emit("amext %d %d %d %d" % (a, xb, off, n)); src = ("ext", xb)
                if (L[a] or 0) == 0:
                    L[a] = n
            elif form == "amfix":
                xb = self.liveext(fixed=True)
                if xb is None:
                    return
                lo = r.randrange(4); hi = r.randrange(lo, 4)
                if want is not None and want <= 4:
                    lo = r.randrange(4 - want + 1); hi = lo + want - 1
                self.emit("amfix %d %d %d %d" % (a, xb, lo, hi)); src = ("ext", xb)
                if (L[a] or 0) == 0:
                    L[a] = hi - lo + 1
            else:
                n = want if want is not None else r.choice([0, 1, 2, 3, 4])
                self.emit("amfresh %d %d %d" % (a, n, self.val()))
                if (L[a] or 0) == 0:
                    L[a] = n
            if src is not None and r.random() < 0.7:
                self.mutate_source(src)
        elif x < 0.78:        # resize / clear, preferably of shared data
            a = self.pick()
            if r.random() < 0.45:
                self.emit("clr %d" % a); L[a] = 0
            else:
                n = r.choice([-2, -1, 0, 1, 2, 3, 4, 6])
                self.emit("%s %d %d %d" % (r.choice(["rs", "rs", "rsi"]), a, n, self.val()))
                if n >= 0:
                    L[a] = n
        elif x < 0.82:        # through functions
            b = self.pick()
            if (L[b] or 0) > 0 and r.random() < 0.6:
                self.emit("fnw %d %d %d" % (b, r.randrange(L[b]), self.val()))
            else:
                self.emit("fnrs %d %d" % (b, r.choice([0, 1, 3, 5])))
        elif x < 0.90:        # writes
            a = self.pick(nonempty=True)
            if a is None:
                return
            self.emit("w %d %d %d" % (a, r.randrange(L[a]), self.val()))
        else:                 # destruction: parents before views as often as not
            a = self.pick()
            self.emit("del %d" % a); del L[a]

    def run(self):
        guard = 0
        while len(self.ops) < self.length and guard < 10 * self.length:
            guard += 1
            self.step()
        return self.ops[:self.length]


def random_history(rng, maxlen):
    length = rng.choice([maxlen // 4, maxlen // 2, maxlen, maxlen])
    return Gen(rng, max(4, length)).run()


# ------------------------------------------------------------------ directed matrix
TARGETS = {
    "empty_default": ["newd 1"],
    "empty_cleared": ["new 1 3 1", "clr 1"],
    "owner": ["new 1 3 1"],
    "owner_shared": ["new 1 3 1", "cp 10 1"],
    "view": ["new 10 5 100", "sl 1 10 1 3 1"],
    "view_parent_gone": ["new 10 5 100", "sl 1 10 1 3 1", "del 10"],
    "strided_view": ["new 10 6 100", "sl 1 10 0 4 2"],
    "extview": ["xnew 9 5 200", "ext 1 9 1 3"],
    "fixedview": ["fnew 9 200", "fsl 1 9 1 3"],
    "soft": ["new 10 3 100", "soft 1 10"],
    "empty_view_holding_link": ["new 10 4 100", "sl 1 10 2 1 1"],
    "empty_over_external": ["xnew 9 5 200", "ext 1 9 2 0"],
}


def sources(n):
    return {
        "owner": ["new 2 %d 50" % n],
        "owner_shared": ["new 2 %d 50" % n, "cp 11 2"],
        "view": ["new 11 6 50", "sl 2 11 1 %d 1" % n],
        "view_parent_gone": ["new 11 6 50", "sl 2 11 1 %d 1" % n, "del 11"],
        "extview": ["xnew 8 5 300", "ext 2 8 0 %d" % n],
        "fixedslice": ["fnew 8 300", "fsl 2 8 0 %d" % (n - 1)],
        "soft": ["new 11 %d 50" % n, "soft 2 11"],
        "empty": ["newd 2"],
        "empty_over_external": ["xnew 8 5 300", "ext 2 8 1 0"],
    }


def directed():
    """every kind of target x every kind of source x every form of assignment / link / release, each followed by
    changes of the source, the end of the external memory, a store through the target and an early destruction"""
    out = []
    tail = ["w 2 0 -9", "xw 8 0 -8", "w 1 0 77", "w 11 1 -7", "xend 8", "del 2", "w 1 1 78", "xend 9", "del 11", "del 10"]
    for tname, tp in TARGETS.items():
        for n in (3, 2):
            for sname, sp in sources(n).items():
                for form in ("ac", "am", "amfn", "amdup", "link"):
                    out.append(tp + sp + ["%s 1 2" % form] + tail)
                    out.append(tp + sp + ["%s 2 1" % form] + tail)
                for form in ("acsl", "amsl", "linksl"):
                    out.append(tp + sp + ["%s 1 2 0 %d 1" % (form, n - 1)] + tail)
                    out.append(tp + sp + ["%s 1 2 0 %d 2" % (form, n - 1)] + tail)
            out.append(tp + ["xnew 8 5 300", "amext 1 8 1 %d" % n] + tail)
            out.append(tp + ["fnew 8 300", "amfix 1 8 0 %d" % (n - 1)] + tail)
            out.append(tp + ["amfresh 1 %d 60" % n] + tail)
        for selfop in ("ac 1 1", "am 1 1", "amfn 1 1", "amdup 1 1", "link 1 1", "amsl 1 1 0 1 1", "acsl 1 1 1 2 1", "linksl 1 1 0 1 1"):
            out.append(tp + [selfop] + tail)
        for op in ("clr 1", "rs 1 2 0", "rs 1 0 0", "rs 1 -1 0", "rsi 1 -3 0", "rsi 1 4 9", "del 1", "fnrs 1 2", "fnw 1 0 5",
                   "cp 3 1", "cpc 3 1", "cpm 3 1", "sl 3 1 0 1 1", "soft 3 1"):
            out.append(tp + [op, "w 1 0 5", "w 3 0 6", "w 10 1 7", "del 10", "w 1 1 8", "w 3 1 9", "xend 9", "del 1", "w 3 0 1"])
    return out


# ------------------------------------------------------------------ parsing the observation line
OBJ_RE = re.compile(r"(\d+)\(st=(\S+) nl=(\S+) at=(\S+) L=(\S+) len=(\d+)(?: str=(-?\d+) v=(\S+))?\)")
EXT_RE = re.compile(r"X(\d+):([01]):(\S*)")


class O:
    __slots__ = ("st", "nl", "at", "alloc", "off", "L", "len", "str", "v")

    def struct(self):
        return (self.st, self.at, self.len, self.str)


def parse(line):
    """-> (status, n, {handle: O}, {ext: (live, vals)}) or None"""
    parts = line.split(" |")
    if len(parts) != 4 or not parts[1].startswith(" n="):
        return None
    try:
        n = int(parts[1][3:])
        objs = {}
        txt = parts[2]
        cnt = 0
        for m in OBJ_RE.finditer(txt):
            o = O()
            o.st, o.nl, o.at, o.L = m.group(2), m.group(3), m.group(4), m.group(5)
            o.len = int(m.group(6))
            o.str = int(m.group(7)) if m.group(7) is not None else None
            v = m.group(8)
            o.v = None if v is None else ("!" if v == "!" else [int(t) for t in v.split(",")])
            if o.at in ("0", "?"):
                o.alloc, o.off = (None if o.at == "0" else "?"), 0
            else:
                a, f = o.at.split("+")
                o.alloc, o.off = a, int(f)
            objs[int(m.group(1))] = o
            cnt += 1
        if cnt != txt.count("("):
            return None
        exts = {}
        for m in EXT_RE.finditer(parts[3]):
            exts[int(m.group(1))] = (m.group(2) == "1", [int(t) for t in m.group(3).split(",")] if m.group(3) else [])
        return parts[0], n, objs, exts
    except Exception:
        return None


# ------------------------------------------------------------------ oracle (implementation output only)
def oracle(hist, lines):
    """hist: ops without the leading reset; lines: implementation output for them.  -> (step, message) or None"""
    prev_objs, prev_exts, prev_n = {}, {}, 0
    seen_labels = set()
    soft = set()          # handles that are deliberately uncounted views (soft links and what was made from them)
    for i, (op, line) in enumerate(zip(hist, lines)):
        w = op.split()
        c = w[0]
        if line in ("bad-op", "skip-dangling"):
            continue
        if line.startswith("fault"):
            return i, "implementation driver printed %r" % line
        p = parse(line)
        if p is None:
            return i, "unparsable observation %r" % line[:200]
        status, n, objs, exts = p
        a = [int(t) for t in w[1:]]
        if status.startswith("exc:"):
            if status in ("exc:invalid_operation", "exc:other", "exc:index_out_of_bounds"):
                return i, "unexpected exception %s (reference count underflow?)" % status
            # a thrown exception leaves every object, count and value as it was
            if set(objs) != set(prev_objs) or any(objs[k].struct() != prev_objs[k].struct() or objs[k].v != prev_objs[k].v
                                                  or objs[k].nl != prev_objs[k].nl for k in objs):
                return i, "%s threw %s but the arrays are not as they were before the call" % (op, status[4:])
            if n != prev_n:
                return i, "%s threw %s but n_storage_objects() changed" % (op, status[4:])
        elif status != "ok":
            return i, "unknown status %r" % status
        # ---------------- global rules, every line
        cnt = {}
        for k, o in objs.items():
            if o.st not in ("-",):
                cnt[o.st] = cnt.get(o.st, 0) + 1
        for k, o in objs.items():
            if o.alloc == "?":
                return i, "array %d: data() points into no known allocation" % k
            if o.st == "?" or o.nl == "!":
                return i, "array %d refers to a Storage object that has been deleted" % k
            if o.st != "-":
                if o.alloc != o.st:
                    return i, "array %d holds storage %s but its data() points at %s" % (k, o.st, o.at)
                if o.L != "1":
                    return i, "array %d holds storage %s whose data have been released" % (k, o.st)
                if int(o.nl) != cnt[o.st]:
                    return i, "storage %s: n_links()=%s but %d live arrays refer to it" % (o.st, o.nl, cnt[o.st])
        if n != len(cnt):
            return i, "n_storage_objects()=%d but %d storages are referred to by live arrays (leak or double release)" % (n, len(cnt))
        # ---------------- frame: who may have changed structurally
        targets = set()
        if status == "ok":
            if c in CREATE_OPS:
                targets = {a[0]}
            elif c in ("link", "linksl", "rs", "rsi", "clr", "del") or c in ASSIGN_OPS:
                targets = {a[0]}
                if c == "am":
                    targets.add(a[1])
        if c == "end":
            if objs or n != 0:
                return i, "after destroying every array %d arrays / %d storages remain" % (len(objs), n)
            prev_objs, prev_exts, prev_n = objs, exts, n
            continue
        expect_handles = set(prev_objs)
        if status == "ok" and c in CREATE_OPS:
            expect_handles.add(a[0])
        if status == "ok" and c == "del":
            expect_handles.discard(a[0])
        if set(objs) != expect_handles:
            return i, "live handles %s, expected %s" % (sorted(objs), sorted(expect_handles))
        for k, o in objs.items():
            if k not in targets and k in prev_objs and o.struct() != prev_objs[k].struct():
                return i, "%s changed array %d (%s -> %s), which it does not name as a target" % (op, k, prev_objs[k].struct(), o.struct())
        # ---------------- per-operation rules
        if status == "ok":
            msg = op_rule(c, a, objs, prev_objs, exts, prev_exts, seen_labels, soft)
            if msg:
                return i, msg
            # values: a change shows only through views of the allocation that was written
            written = written_allocs(c, a, objs, prev_objs)
            for k, o in objs.items():
                if k in prev_objs and k not in targets and o.v != prev_objs[k].v and o.v != "!" and prev_objs[k].v != "!":
                    if o.alloc not in written:
                        return i, "%s changed the values seen by array %d (%s), which lives in another allocation than the one written" % (op, k, o.at)
        soft &= set(objs)
        for k, o in objs.items():
            if o.st != "-":
                seen_labels.add(o.st)
            elif o.alloc is not None and o.alloc.startswith("S") and k not in soft:
                # only soft links (and what was made from them) may look into library storage without holding it
                return i, "array %d has no storage yet its data() points into library storage %s (live=%s)" % (k, o.alloc, o.L)
        prev_objs, prev_exts, prev_n = objs, exts, n
    return None


def written_allocs(c, a, objs, prev):
    if c in ("w", "fnw"):
        return {prev[a[0]].alloc}
    if c in ("xw", "xend"):
        return {"X%d" % a[0]}
    if c in ASSIGN_OPS:
        return {objs[a[0]].alloc} if a[0] in objs else set()
    return set()


def slice_of(vals, lo, hi, st):
    n = (hi + st - lo) // st
    return [vals[lo + j * st] for j in range(n)]


def op_rule(c, a, objs, prev, exts, prev_exts, seen_labels, soft):
    """rules for a successful operation; returns a message or None"""
    def fresh_owner(o, n, what):
        if n == 0:
            if o.alloc is not None or o.st != "-" or o.len != 0:
                return "%s of extent 0 must leave an empty array without data" % what
            return None
        if o.st == "-" or o.st in seen_labels or o.nl != "1" or o.off != 0 or o.len != n or o.str != 1:
            return "%s must own a new unshared storage (got st=%s nl=%s at=%s len=%d)" % (what, o.st, o.nl, o.at, o.len)
        return None

    if c == "new":
        return fresh_owner(objs[a[0]], a[1], "new array")
    if c in ("rs", "rsi"):
        soft.discard(a[0])
        return fresh_owner(objs[a[0]], a[1], "resized array")
    if c in ("newd", "clr"):
        o = objs[a[0]]
        soft.discard(a[0])
        if o.alloc is not None or o.st != "-" or o.len != 0:
            return "%s must give an empty array with no data and no storage" % c
        return None
    if c in ("ext", "fsl"):
        o = objs[a[0]]
        off, n = (a[2], a[3]) if c == "ext" else (a[2], a[3] - a[2] + 1)
        if o.st != "-" or o.at != "X%d+%d" % (a[1], off) or o.len != n:
            return "array over external memory must point at it and hold no storage (got st=%s at=%s len=%d)" % (o.st, o.at, o.len)
        return None
    if c in ("cp", "cpc", "cpm", "soft", "sl"):
        o, b = objs[a[0]], prev[a[1]]
        if c == "sl":
            lo, hi, st = a[2], a[3], a[4]
            want = (b.alloc, b.off + lo * b.str, (hi + st - lo) // st)
        else:
            want = (b.alloc, b.off, b.len)
        if (o.alloc, o.off, o.len) != want:
            return "%s: new array is at %s len %d, the source's data are at %s len %d" % (c, o.at, o.len, b.at, b.len)
        if o.st != ("-" if c == "soft" else b.st):
            return "%s: new array holds storage %s, source holds %s" % (c, o.st, b.st)
        if c == "soft" and o.alloc is not None and o.alloc.startswith("S"):
            soft.add(a[0])
        if c != "soft" and a[1] in soft and o.st == "-":
            soft.add(a[0])
        return None
    if c in ("link", "linksl"):
        o, b = objs[a[0]], prev[a[1]]
        if c == "link" and a[0] == a[1]:
            return None if o.alloc is None and o.st == "-" and o.len == 0 else "a.link(a) must leave a cleared"
        if c == "linksl":
            lo, hi, st = a[2], a[3], a[4]
            want = (b.alloc, b.off + lo * b.str, (hi + st - lo) // st, b.st)
        else:
            want = (b.alloc, b.off, b.len, b.st)
        if (o.alloc, o.off, o.len, o.st) != want:
            return "%s: target is at %s (st=%s), the source's data are at %s (st=%s)" % (c, o.at, o.st, b.at, b.st)
        if a[1] in soft and o.st == "-":
            soft.add(a[0])
        else:
            soft.discard(a[0])
        return None
    if c in ("w", "fnw"):
        o = objs[a[0]]
        if o.v != "!" and o.v[a[1]] != a[2]:
            return "%s: element reads %d after the write" % (c, o.v[a[1]])
        return None
    if c in ASSIGN_OPS:
        o, o0 = objs[a[0]], prev[a[0]]
        if c == "am" and a[0] != a[1] and objs[a[1]].struct() not in (prev[a[1]].struct(), o0.struct()):
            return "move assignment left its source neither untouched nor with the target's old data"
        if c == "am" and a[0] != a[1] and a[0] in soft and objs[a[1]].struct() == o0.struct() != prev[a[1]].struct():
            soft.add(a[1])                               # swap: the source now is the (empty) uncounted view
        # value of the right-hand side before the statement
        if c in ("ac", "am", "amfn", "amdup"):
            src = prev[a[1]].v if prev[a[1]].len else []
        elif c in ("acsl", "amsl"):
            sv = prev[a[1]].v
            src = "!" if sv == "!" else slice_of(sv, a[2], a[3], a[4])
        elif c == "amext":
            src = prev_exts[a[1]][1][a[2]:a[2] + a[3]]
        elif c == "amfix":
            src = prev_exts[a[1]][1][a[2]:a[3] + 1]
        else:
            src = [a[2] + j for j in range(a[1])]
        have = o.v if o.len else []
        if src != "!" and have != src:
            return "%s: target reads %s, the right-hand side was %s" % (c, have, src)
        if o.struct() == o0.struct():
            return None                                  # stored in place (or nothing to do)
        if o.len == 0 and o.alloc is None and o.st == "-":
            soft.discard(a[0])
            return None                                  # empty = empty
        # the target moved: it must now own an unshared library storage
        soft.discard(a[0])
        if o.st == "-" or o.alloc != o.st or o.nl != "1":
            return ("after %s the target does not own its data: it points at %s (storage %s, n_links %s)"
                    % (c, o.at, o.st, o.nl))
        if o.st in seen_labels:
            # not new: only a move from an lvalue may hand over an existing storage, and then it is a swap
            if c != "am" or prev[a[1]].st != o.st or prev[a[1]].nl != "1":
                return "after %s the target holds storage %s, which already existed and was not the source's own" % (c, o.st)
            if objs[a[1]].struct() != o0.struct():
                return "move assignment took the source's storage without handing the target's old data to the source"
        if o0.len != 0 and not (o0.st != "-" and o0.nl == "1"):
            return "%s replaced the data of a non-empty target that was a view or shared (must be stored in place)" % c
        return None
    return None


# ------------------------------------------------------------------ running
def text_of(hists):
    return "".join("reset\n" + "\n".join(h) + "\nend\n" for h in hists)


def split_lines(lines, hists):
    out, pos = [], 0
    for h in hists:
        n = len(h) + 2
        out.append(lines[pos + 1:pos + n])
        pos += n
    return out


def model_truncate(hists):
    """a history in which the MODEL reports a memory fault uses a stale soft link (user error, outside the
    property): cut it before that operation"""
    ml = split_lines(vcheck.run_model("storage", text_of(hists)), hists)
    out, cut = [], 0
    for h, m in zip(hists, ml):
        k = next((i for i, l in enumerate(m) if l.startswith("fault")), None)
        if k is not None and k < len(h):
            h = h[:k]; cut += 1
        out.append(h)
    if cut:
        ml = split_lines(vcheck.run_model("storage", text_of(out)), out)
    return out, cut, ml


def san_summary(err):
    m = re.search(r"(ERROR: \w+Sanitizer: [^\n]*|SUMMARY: [^\n]*|runtime error: [^\n]*|terminate called[^\n]*)", err or "")
    return m.group(1)[:300] if m else (err or "")[-300:].replace("\n", " ")


def assess(h, il, rc, err):
    """judge one history from the implementation's output: (step, message) or None"""
    hh = list(h) + ["end"]
    bad = oracle(hh, il)            # zip() stops at the last line printed
    if bad is None and len(il) != len(hh):
        bad = (len(il), "implementation stopped at step %d (%s): rc=%s %s" % (len(il), hh[len(il)] if len(il) < len(hh) else "?", rc, san_summary(err)))
    return bad


def work(args):
    """one chunk: model + implementation + oracle.  Top-level so that it can run in a process pool."""
    exe, hists = args
    hists, cut, model = model_truncate(hists)
    text = text_of(hists)
    impl_lines, rc, err = vcheck.run_impl(exe, [], text)
    impl = split_lines(impl_lines, hists)
    res = []
    stats = {"cut": cut, "ops": {}, "status": {}}
    for h, il, ml in zip(hists, impl, model):
        hh = h + ["end"]
        for op, l in zip(hh, il):
            c = op.split()[0]
            stats["ops"][c] = stats["ops"].get(c, 0) + 1
            s = l.split(" |")[0]
            stats["status"][s] = stats["status"].get(s, 0) + 1
        bad = assess(h, il, rc, err)
        if bad is not None:
            res.append((h, "oracle", bad[0], bad[1]))
            if len(il) != len(hh):
                break                 # the process died: the rest of the chunk was not run
        elif il != ml:
            res.append((h, "diff", vcheck.first_diff(il, ml), ""))
        else:
            res.append((h, "ok", None, ""))
    return res, stats


def run_one(exe, h):
    hh = list(h) + ["end"]
    il, rc, err = vcheck.run_impl(exe, [], "reset\n" + "\n".join(hh) + "\n")
    return il[1:], rc, err


def model_one(h):
    hh = list(h) + ["end"]
    return vcheck.run_model("storage", "reset\n" + "\n".join(hh) + "\n")[1:]


def shrink(exe, h, want_oracle):
    def fails(sub):
        ml = model_one(sub)
        if any(l.startswith("fault") for l in ml):
            return False                      # stale soft link used: not a legal history
        il, rc, err = run_one(exe, sub)
        if want_oracle:
            return assess(sub, il, rc, err) is not None
        return len(il) == len(sub) + 1 and il != ml
    return vcheck.ddmin(list(h), fails, max_tests=250)


def judge(ctx, exe, results, label):
    nbad = 0
    for h, kind, k, msg in results:
        nontriv = sum(1 for op in h if op.split()[0] in ASSIGN_OPS + ("link", "linksl", "sl", "cp", "cpc", "cpm", "clr", "rs", "rsi", "del")) >= 2
        ctx.count_case(tuple(h), nontrivial=nontriv, sample={"history": h[:10], "result": kind})
        if kind == "oracle":
            nbad += 1
            key = re.sub(r"-?\d+", "#", msg.split(":")[0])[:70]      # one report per kind of failure
            if key not in ctx.reported and len(ctx.reported) < 4:
                ctx.reported.add(key)
                shr = shrink(exe, h, True)
                il, rc, err = run_one(exe, shr)
                bad = assess(shr, il, rc, err)
                m2 = bad[1] if bad else msg
                ctx.violation("%s [%s]" % (m2.split("\n")[0][:300], label),
                              {"kind": "oracle", "history": shr, "step": bad[0] if bad else k, "message": m2, "impl": il,
                               "sanitizer": san_summary(err) if rc else "", "original_length": len(h), "build": label})
        elif kind == "diff":
            ctx.cov["disagreements_checked"] += 1
            if len(ctx.pending) < 2:
                shr = shrink(exe, h, False)
                il = run_one(exe, shr)[0]
                ml = model_one(shr)
                ctx.pending.append({"kind": "correspondence", "correspondence": MODEL_FILE, "history": shr, "impl": il, "model": ml,
                                    "first_difference": vcheck.first_diff(il, ml), "build": label})
    ctx.cov["traces_validated_against_impl"] += len(results)
    return nbad


def run_hists(ctx, exe, hists, label, workers):
    if not hists:
        return 0
    chunk = max(1, min(400, (len(hists) + workers - 1) // workers))
    jobs = [(exe, hists[i:i + chunk]) for i in range(0, len(hists), chunk)]
    results = []
    agg = ctx.notes.setdefault("distribution", {"cut_at_stale_soft_link": 0, "ops": {}, "status": {}})
    if workers > 1 and len(jobs) > 1:
        with ProcessPoolExecutor(max_workers=workers) as ex:
            outs = list(ex.map(work, jobs))
    else:
        outs = [work(j) for j in jobs]
    for res, st in outs:
        results += res
        agg["cut_at_stale_soft_link"] += st["cut"]
        for key in ("ops", "status"):
            for k, v in st[key].items():
                agg[key][k] = agg[key].get(k, 0) + v
    return judge(ctx, exe, results, label)


def load_corpus():
    d = os.path.join(vbuild.VERIF, "corpus", "C07")
    out = []
    if os.path.isdir(d):
        for fn in sorted(os.listdir(d)):
            if fn.endswith(".case"):
                out.append([l.strip() for l in open(os.path.join(d, fn)) if l.strip() and not l.startswith("#")])
    return out


def report_pending(ctx, fails):
    if ctx.violations:
        return
    for p in ctx.pending[:1]:
        ctx.violation("model and implementation disagree on a storage life-cycle history (%s); the ownership oracle found no "
                      "history on which the property itself fails" % p["build"], p, tag="c", no_input=True)
    if fails and not ctx.violations:
        ctx.violation("proof obligation of C07 no longer checks: " + fails[0][:400],
                      {"kind": "proof", "theorem": "AdeptProofs/Props/C07.lean", "failures": fails}, tag="p", no_input=True)


def run(ctx, replay):
    thms = [NS + t for t in vcheck.prop_theorems("AdeptProofs/Props/C07.lean", "C07_")]
    thms += [NS + t for t in vcheck.prop_theorems("AdeptProofs/Refute/MoveFromExternal.lean", "")]
    fails = vcheck.lean_gate(ctx, ["AdeptProofs.Props.C07", "AdeptProofs.Refute.MoveFromExternal"], thms,
                             required=[NS + r for r in REQUIRED])
    exe = vbuild.build("storage", SRC)
    ctx.pending = []
    ctx.reported = set()
    workers = min(12, os.cpu_count() or 4)
    if replay:
        r = json.load(open(replay))
        h = [op for op in r["history"] if op not in ("reset", "end")]
        run_hists(ctx, exe, [h], "replay", 1)
        report_pending(ctx, fails)
        return
    nhist, maxlen = (2000, 40) if ctx.tier == "quick" else (50000, 200)
    corpus = load_corpus()
    ctx.notes["corpus_cases"] = len(corpus)
    bad = run_hists(ctx, exe, corpus, "corpus", 1)
    dm = directed()
    ctx.notes["directed_cases"] = len(dm)
    bad += run_hists(ctx, exe, dm, "directed", workers)
    hists = [random_history(ctx.rng, maxlen) for _ in range(nhist)]
    bad += run_hists(ctx, exe, hists, "default", workers)
    ctx.cov["rule"] = ("life-cycle histories over a pool of Array<1,int>, external blocks and FixedArray<int,false,4>: %d random histories of up "
                       "to %d operations (+%d corpus cases, +%d directed cases: every kind of target x source x form of "
                       "assignment/link/release, each followed by changes of the source), ~28%% assignments (two thirds from temporaries: slices, arrays over external "
                       "memory, FixedArray slices, function results) usually followed by a change of the source, views and soft links "
                       "outliving parents, clear/resize of shared data, self-assignment/self-link, empty arrays, negative resize; every "
                       "history ends by destroying all arrays.  non-trivial = at least two sharing/assigning/releasing operations; "
                       "distinct = different op list" % (nhist, maxlen, len(corpus), len(dm)))
    ctx.cov["exhaustive"] = False
    ctx.assumptions += [
        "rank-1 int arrays; Array<2>, active arrays and SpecialMatrix follow the same Storage protocol but are not driven by this harness",
        "slices are within the source (the library does not test ranges: C06/C11); a stale soft_link()/external view is the user's "
        "responsibility: histories are cut before an operation that would read or write through one (decided by the model, counted "
        "in distribution.cut_at_stale_soft_link)",
        "liveness of library memory is observed through AddressSanitizer's shadow (__asan_address_is_poisoned)",
        "the tree carries fixes/F-01.patch and fixes/F-24.patch; without them this check reports the two defects"]
    if ctx.pending and not ctx.violations:
        extra = [random_history(ctx.rng, maxlen) for _ in range(3000)]
        run_hists(ctx, exe, extra, "search", workers)
    report_pending(ctx, fails)
