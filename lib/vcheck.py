"""Common check pipeline: lean gate, model/impl runners, findings, evidence, reporting."""
import json, os, re, subprocess, sys, time, random, hashlib, shutil

sys.path.insert(0, os.path.dirname(os.path.abspath(__file__)))
import vbuild

VERIF = vbuild.VERIF
REPO = vbuild.REPO
LEAN = os.environ.get("VERIF_LEAN", os.path.join(VERIF, "lean"))
WORK = vbuild.WORK
ALLOWED_AXIOMS = {"propext", "Classical.choice", "Quot.sound"}
FORBIDDEN = re.compile(r"\bsorry\b|\badmit\b|^\s*axiom\s|\bnative_decide\b|\bbv_decide\b|implemented_by|\bunsafe\s|maxHeartbeats\s+0\b", re.M)
TRUSTED_BASE = [
    "Lean 4.33.0 kernel (leanchecker re-check in the thorough tier)",
    "axioms allowed: propext, Classical.choice, Quot.sound; no sorry/admit/native_decide/bv_decide/own axioms (audited every run)",
    "correspondence harness (harness/*.cpp, lib/*.py, checks/*.py) and translators (translate/*.py): the only tie between model and C++",
    "g++ 12, libstdc++, ASan/UBSan as observers; IEEE arithmetic and libm are modelled, not verified",
]


def sh(cmd, cwd=None, inp=None, timeout=None, env=None):
    e = dict(os.environ)
    if env:
        e.update(env)
    p = subprocess.run(cmd, cwd=cwd, input=inp, stdout=subprocess.PIPE, stderr=subprocess.PIPE,
                       text=True, errors="replace", timeout=timeout, env=e)
    return p.returncode, p.stdout, p.stderr


class Ctx:
    def __init__(self, pid, tier, seed, level="proof"):
        self.pid, self.tier, self.seed, self.level = pid, tier, seed, level
        self.t0 = time.time()
        self.rng = random.Random((seed << 8) ^ int(hashlib.sha256(pid.encode()).hexdigest()[:8], 16))
        self.violations = []      # (what, replay_path, no_input_found)
        self.known = []           # lines
        self.cov = {"evaluations": 0, "distinct_nontrivial": 0, "rule": "", "samples": [],
                    "obligations": 0, "discharged": 0, "checker_cmd": "", "trusted_base": list(TRUSTED_BASE),
                    "traces_validated_against_impl": 0, "disagreements_checked": 0}
        self.assumptions = []
        self.notes = {}
        self.workdir = os.path.join(WORK, "run-%s-%d" % (pid, os.getpid()))
        os.makedirs(self.workdir, exist_ok=True)
        os.makedirs(os.path.join(WORK, "replays"), exist_ok=True)
        self.findings = load_findings()
        self._seen = set()

    # ---- coverage accounting
    def count_case(self, key, nontrivial=True, sample=None):
        self.cov["evaluations"] += 1
        if nontrivial:
            h = hashlib.sha1(repr(key).encode()).digest()[:10]
            if h not in self._seen:
                self._seen.add(h)
                self.cov["distinct_nontrivial"] += 1
        if sample is not None and len(self.cov["samples"]) < 6:
            self.cov["samples"].append(sample)

    # ---- replay files
    def replay_path(self, tag):
        return os.path.join(WORK, "replays", "%s-%s-%d-%s.json" % (self.pid, self.tier, self.seed, tag))

    def write_replay(self, tag, obj):
        p = self.replay_path(tag)
        obj = dict(obj)
        obj.setdefault("property", self.pid)
        obj.setdefault("seed", self.seed)
        with open(p, "w") as f:
            json.dump(obj, f, indent=1)
        return p

    # ---- outcomes
    def violation(self, what, replay_obj, tag="v", no_input=False):
        """report a violation unless a known finding matches (then KNOWN-FINDING)"""
        kf = match_finding(self.findings, self.pid, replay_obj)
        if kf is not None and not no_input:
            line = "KNOWN-FINDING: property=%s %s" % (self.pid, kf["what"])
            if line not in self.known:
                self.known.append(line)
            return False
        if len(self.violations) >= 5:
            return True
        replay_obj = dict(replay_obj)
        replay_obj["what"] = what
        if no_input:
            replay_obj["no_failing_input_found"] = True
        p = self.write_replay("%s%d" % (tag, len(self.violations)), replay_obj)
        self.violations.append((what, p, no_input))
        return True

    def finish(self):
        shutil.rmtree(self.workdir, ignore_errors=True)
        wall = time.time() - self.t0
        # known findings that are listed as open are always announced (the check re-confirms them itself when it can)
        for line in self.known:
            print(line)
        ev = {
            "property_id": self.pid, "tier": self.tier, "seed": self.seed, "level": self.level,
            "coverage": self.cov, "assumptions": self.assumptions, "wall_s": round(wall, 2),
            "violations": len(self.violations),
        }
        ev["coverage"].update(self.notes)
        if not ev["coverage"]["samples"]:
            ev["coverage"]["samples"] = ["(no case was executed)"]
        evdir = os.environ.get("VERIF_EVIDENCE", os.path.join(VERIF, "evidence"))
        os.makedirs(evdir, exist_ok=True)
        with open(os.path.join(evdir, self.pid + ".json"), "w") as f:
            json.dump(ev, f, indent=1, default=str)
        for what, p, no_input in self.violations:
            print("# %s" % what)
            print("VIOLATION property=%s replay=%s%s" % (self.pid, p, " no-failing-input-found" if no_input else ""))
        print("%s %s tier=%s seed=%d wall=%.1fs evaluations=%d distinct=%d obligations=%d/%d known=%d" % (
            self.pid, "FAIL" if self.violations else "ok", self.tier, self.seed, wall, self.cov["evaluations"],
            self.cov["distinct_nontrivial"], self.cov["discharged"], self.cov["obligations"], len(self.known)))
        vbuild.prune_cache()
        return 1 if self.violations else 0


# ------------------------------------------------------------------ findings
def load_findings():
    p = os.path.join(VERIF, "known_findings.json")
    if not os.path.exists(p):
        return []
    return json.load(open(p)).get("findings", [])


def match_finding(findings, pid, replay_obj):
    """An open finding suppresses a violation only if the replay carries the same signature key."""
    sig = replay_obj.get("signature")
    if sig is None:
        return None
    for f in findings:
        if f.get("status") == "open" and pid in f.get("properties", []) and sig in f.get("signatures", []):
            return f
    return None


# ------------------------------------------------------------------ lean
_lake_built = set()


def lake_build(targets, timeout=3600):
    key = tuple(targets)
    rc, out, err = sh(["lake", "build"] + list(targets), cwd=LEAN, timeout=timeout)
    return rc, (out + err)


def strip_lean_comments(s):
    s = re.sub(r"/-.*?-/", " ", s, flags=re.S)
    s = re.sub(r"--[^\n]*", " ", s)
    return s


def lean_forbidden_tokens():
    hits = []
    for root, _, files in os.walk(LEAN):
        if ".lake" in root:
            continue
        for fn in files:
            if fn.endswith(".lean"):
                p = os.path.join(root, fn)
                txt = strip_lean_comments(open(p).read())
                txt = re.sub(r'"(?:[^"\\]|\\.)*"', '""', txt)
                for m in FORBIDDEN.finditer(txt):
                    hits.append("%s: %s" % (os.path.relpath(p, LEAN), m.group(0).strip()))
    return hits


def prop_theorems(module_file, prefix):
    path = os.path.join(LEAN, module_file)
    if not os.path.exists(path):
        return []
    txt = strip_lean_comments(open(path).read())
    return re.findall(r"^\s*theorem\s+(%s\w*)" % re.escape(prefix), txt, flags=re.M)


def lean_gate(ctx, modules, namespace_thms, required=(), extra_targets=("adept_model",)):
    """Build the property's modules, audit axioms of every property theorem.
    namespace_thms: list of fully qualified theorem names.  Returns list of failure strings."""
    failures = []
    rc, out = lake_build(list(modules) + list(extra_targets))
    if rc != 0:
        failures.append("lake build failed:\n" + out[-4000:])
    hits = lean_forbidden_tokens()
    if hits:
        failures.append("forbidden tokens in lean sources: " + "; ".join(hits[:10]))
    thms = list(namespace_thms)
    for r in required:
        if r not in thms:
            failures.append("required theorem missing from property file: " + r)
    ctx.cov["obligations"] += len(thms) + len([r for r in required if r not in thms])
    ok = 0
    axioms_seen = set()
    if rc == 0 and thms:
        audit = os.path.join(ctx.workdir, "Audit.lean")
        with open(audit, "w") as f:
            for m in modules:
                f.write("import %s\n" % m)
            for t in thms:
                f.write("#print axioms %s\n" % t)
        rc2, out2, err2 = sh(["lake", "env", "lean", audit], cwd=LEAN, timeout=1800)
        text = out2 + err2
        for t in thms:
            m = re.search(r"'%s' depends on axioms: \[([^\]]*)\]" % re.escape(t), text, flags=re.S)
            m0 = re.search(r"'%s' does not depend on any axioms" % re.escape(t), text)
            if m0:
                ok += 1
            elif m:
                ax = {a.strip() for a in m.group(1).replace("\n", " ").split(",") if a.strip()}
                axioms_seen |= ax
                bad = ax - ALLOWED_AXIOMS
                if bad:
                    failures.append("theorem %s depends on disallowed axioms %s" % (t, sorted(bad)))
                else:
                    ok += 1
            else:
                failures.append("theorem %s: no axiom report (does it exist?)\n%s" % (t, text[-1500:]))
    if failures and hits:
        ok = 0
    ctx.cov["discharged"] += ok
    ctx.cov["checker_cmd"] = "cd /verif/lean && lake build %s && lake env lean <Audit.lean with #print axioms per theorem>" % " ".join(modules)
    ctx.notes.setdefault("theorems", []).extend(thms)
    ctx.notes["axioms_used"] = sorted(axioms_seen | set(ctx.notes.get("axioms_used", [])))
    if ctx.tier == "thorough" and rc == 0:
        for m in modules:
            rc3, o3, e3 = sh(["lake", "env", "leanchecker", m], cwd=LEAN, timeout=3600)
            ctx.notes.setdefault("leanchecker", {})[m] = "ok" if rc3 == 0 else (o3 + e3)[-500:]
            if rc3 != 0:
                failures.append("leanchecker rejected %s: %s" % (m, (o3 + e3)[-800:]))
    return failures


def model_exe():
    exe = os.path.join(LEAN, ".lake", "build", "bin", "adept_model")
    return exe


def run_model(family, text, timeout=1800):
    exe = model_exe()
    if not os.path.exists(exe):
        rc, out = lake_build(["adept_model"])
        if rc != 0:
            raise RuntimeError("cannot build adept_model: " + out[-2000:])
    rc, out, err = sh([exe] + family.split(), inp=text, timeout=timeout)
    if rc != 0:
        raise RuntimeError("model driver failed rc=%d: %s" % (rc, err[-2000:]))
    return out.split("\n")[:-1] if out.endswith("\n") else out.split("\n")


def run_impl(exe, args, text, timeout=1800, env=None):
    e = {"ASAN_OPTIONS": "detect_leaks=1:abort_on_error=0:halt_on_error=1", "UBSAN_OPTIONS": "print_stacktrace=1",
         "OMP_NUM_THREADS": "1"}
    if env:
        e.update(env)
    try:
        rc, out, err = sh([exe] + list(args), inp=text, timeout=timeout, env=e)
    except subprocess.TimeoutExpired:
        return [], -999, "TIMEOUT after %ss" % timeout
    lines = out.split("\n")
    if lines and lines[-1] == "":
        lines.pop()
    return lines, rc, err


def san_summary(err):
    """the informative part of a sanitizer report (SUMMARY line and the first frames), not the shadow-byte dump"""
    if not err:
        return ""
    lines = err.split("\n")
    keep = [l for l in lines if "ERROR:" in l or "SUMMARY:" in l or "runtime error" in l]
    frames = [l.strip() for l in lines if l.strip().startswith("#")][:6]
    out = " | ".join(keep[:3] + frames)
    return out[:1500] if out else err[-600:]


def first_diff(a, b):
    n = min(len(a), len(b))
    for i in range(n):
        if a[i] != b[i]:
            return i
    if len(a) != len(b):
        return n
    return None


def ddmin(items, fails, max_tests=400):
    """classic delta debugging on a list; `fails(sublist)` -> bool"""
    tests = 0
    n = 2
    while len(items) >= 2 and tests < max_tests:
        chunk = max(1, len(items) // n)
        reduced = False
        for i in range(0, len(items), chunk):
            cand = items[:i] + items[i + chunk:]
            tests += 1
            if cand and fails(cand):
                items = cand
                n = max(n - 1, 2)
                reduced = True
                break
        if not reduced:
            if chunk == 1:
                break
            n = min(n * 2, len(items))
    return items


def main_entry(run_fn, pid, level="proof"):
    import argparse
    ap = argparse.ArgumentParser()
    ap.add_argument("--tier", default=os.environ.get("VERIF_TIER", "quick"))
    ap.add_argument("--replay", default=None)
    a = ap.parse_args(sys.argv[2:] if len(sys.argv) > 1 and sys.argv[1].upper() == pid else None)
    seed = int(os.environ.get("VERIF_SEED", "0") or 0)
    ctx = Ctx(pid, a.tier if a.tier in ("quick", "thorough") else "quick", seed, level)
    try:
        run_fn(ctx, a.replay)
    except vbuild.BuildError as e:
        ctx.violation("the implementation side no longer builds with the harness: " + str(e)[:3000],
                      {"kind": "build-failure", "correspondence": "harness build", "detail": str(e)[-6000:]},
                      tag="b", no_input=True)
    return ctx.finish()
