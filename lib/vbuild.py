"""Build helpers: the implementation side is always compiled from /repo's working tree.

Objects are cached under /verif/.work/cache keyed on a hash of *content* (every file under
/repo/include/adept*, /repo/adept/*.{cpp,h}, the driver source, the flags), never on
time stamps, so an edited source is always recompiled and an unchanged one never is.
"""
import hashlib, os, subprocess, sys, glob, shutil, time
from concurrent.futures import ThreadPoolExecutor

VERIF = os.path.dirname(os.path.dirname(os.path.abspath(__file__)))
REPO = os.environ.get("VERIF_REPO", "/repo")
WORK = os.environ.get("VERIF_WORK", os.path.join(VERIF, ".work"))
CACHE = os.path.join(WORK, "cache")
GUARD = "RJHOGAN_ADEPT_2_VERIF"
# VERIF_COVERAGE=1 (tools/coverage.py only, always with a private VERIF_WORK): g++ objects are instrumented for gcov
COVERAGE = os.environ.get("VERIF_COVERAGE", "") == "1"

BASE_FLAGS = ["-std=c++11", "-O1", "-g0", "-fopenmp", "-ffp-contract=off",
              "-I" + os.path.join(REPO, "include"), "-I" + os.path.join(REPO, "adept"),
              "-I" + os.path.join(VERIF, "harness"), "-D" + GUARD]
SAN = {
    "asan": ["-fsanitize=address,undefined", "-fno-sanitize-recover=all", "-fno-omit-frame-pointer", "-g1"],
    "none": [],
    # ThreadSanitizer (C12/C14): use with cxx="clang++-14", no_openmp=True (libgomp/libomp are not instrumented)
    "tsan": ["-fsanitize=thread", "-fno-omit-frame-pointer", "-g1"],
}

_hdr_hash = None


def _sha(b):
    return hashlib.sha256(b).hexdigest()


def header_hash():
    """hash of every header the library can include (content only)"""
    global _hdr_hash
    if _hdr_hash is None:
        h = hashlib.sha256()
        files = sorted(glob.glob(os.path.join(REPO, "include", "**", "*"), recursive=True)
                       + glob.glob(os.path.join(REPO, "adept", "*.h"))
                       + glob.glob(os.path.join(VERIF, "harness", "*.h")))
        for f in files:
            if os.path.isfile(f) and not f.endswith("adept_source.h"):
                h.update(f.encode()); h.update(open(f, "rb").read())
        _hdr_hash = h.hexdigest()
    return _hdr_hash


def lib_sources():
    return sorted(glob.glob(os.path.join(REPO, "adept", "*.cpp")))


def _compile(cxx, src, flags, log):
    key = _sha((cxx + "\0" + header_hash() + "\0" + " ".join(flags) + "\0").encode() + open(src, "rb").read())
    os.makedirs(CACHE, exist_ok=True)
    obj = os.path.join(CACHE, key + ".o")
    if os.path.exists(obj):
        return obj, None
    tmp = obj + ".%d.tmp" % os.getpid()
    if COVERAGE and cxx == "g++":
        tmp = obj          # the .gcno/.gcda names derive from the output name
    cmd = [cxx] + flags + ["-c", src, "-o", tmp]
    p = subprocess.run(cmd, stdout=subprocess.PIPE, stderr=subprocess.STDOUT, text=True)
    if p.returncode != 0:
        return None, "COMPILE FAILED: %s\n%s" % (" ".join(cmd), p.stdout[-6000:])
    if tmp != obj:
        os.replace(tmp, obj)
    return obj, None


class BuildError(Exception):
    pass


def build(name, drivers, defines=(), san="asan", extra=(), link=(), cxx="g++", with_lib=True, opt=None, no_openmp=False):
    """Compile the library sources of the working tree + driver(s) -> executable path.
    no_openmp=True drops -fopenmp (the OpenMP pragmas of the library are then ignored; needed under TSan)."""
    flags = list(BASE_FLAGS) + SAN.get(san, []) + ["-D" + d for d in defines] + list(extra)
    if no_openmp:
        flags = [f for f in flags if f != "-fopenmp"]
    if opt:
        flags = [f for f in flags if f != "-O1"] + [opt]
    if COVERAGE and cxx == "g++":
        flags = flags + ["--coverage", "-fno-inline", "-fprofile-update=atomic"]
    if isinstance(drivers, str):
        drivers = [drivers]
    srcs = (lib_sources() if with_lib else []) + list(drivers)
    t0 = time.time()
    with ThreadPoolExecutor(max_workers=16) as ex:
        res = list(ex.map(lambda s: _compile(cxx, s, flags, None), srcs))
    errs = [e for (_, e) in res if e]
    if errs:
        raise BuildError("\n".join(errs))
    objs = [o for (o, _) in res]
    key = _sha(("\0".join(objs) + "\0" + " ".join(flags) + " ".join(link)).encode())
    exe = os.path.join(CACHE, "%s-%s" % (name, key[:16]))
    if not os.path.exists(exe):
        tmp = exe + ".%d.tmp" % os.getpid()      # per process: several checks may build the same executable at once
        cmd = [cxx] + [f for f in flags if f.startswith("-fsanitize") or f in ("-fopenmp", "--coverage")] + objs + ["-o", tmp] + list(link)
        p = subprocess.run(cmd, stdout=subprocess.PIPE, stderr=subprocess.STDOUT, text=True)
        if p.returncode != 0:
            if os.path.exists(exe):
                return exe                       # another process finished the same link meanwhile
            raise BuildError("LINK FAILED: %s\n%s" % (" ".join(cmd[:6]) + " ...", p.stdout[-6000:]))
        os.replace(tmp, exe)
    return exe


def prune_cache(max_bytes=6 << 30):
    """keep the cache bounded (oldest first)"""
    if not os.path.isdir(CACHE):
        return
    files = []
    for f in os.listdir(CACHE):
        try:
            st = os.stat(os.path.join(CACHE, f))
        except OSError:
            continue                             # removed or renamed by a check running in parallel
        files.append((st.st_atime, st.st_size, os.path.join(CACHE, f)))
    total = sum(s for _, s, _ in files)
    now = time.time()
    for at, s, f in sorted(files):
        if total <= max_bytes:
            break
        if now - at < 3600:
            break                                # never remove what a parallel check may be compiling, linking or running
        try:
            os.remove(f)
        except OSError:
            pass
        total -= s
