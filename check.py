#!/usr/bin/env python3
"""check.py <Cxx> [--tier quick|thorough] [--replay file]   (env: VERIF_SEED, VERIF_TIER)"""
import importlib, os, sys
HERE = os.path.dirname(os.path.abspath(__file__))
sys.path.insert(0, os.path.join(HERE, "lib"))
sys.path.insert(0, HERE)
sys.path.insert(0, os.path.join(HERE, "checks"))
import vcheck

def main():
    if len(sys.argv) < 2:
        print(__doc__); return 2
    pid = sys.argv[1].upper()
    mod = importlib.import_module("checks." + pid.lower())
    return vcheck.main_entry(mod.run, pid, getattr(mod, "LEVEL", "proof"))

if __name__ == "__main__":
    sys.exit(main())
