#!/usr/bin/env python3
"""mkmutprompt.py <Cxx> [n] [tag]: print the prompt for a fresh mutation agent (property text only, nothing from /verif)."""
import json, os, sys
HERE = os.path.dirname(os.path.dirname(os.path.abspath(__file__)))
pid = sys.argv[1].upper(); n = int(sys.argv[2]) if len(sys.argv) > 2 else 3
tag = sys.argv[3] if len(sys.argv) > 3 else pid
for l in open(os.path.join(HERE, "properties.jsonl")):
    p = json.loads(l)
    if p["id"] == pid:
        break
else:
    sys.exit("no such property")
t = open(os.path.join(HERE, "tools", "mut_prompt_template.txt")).read()
s = t.format(pid=tag, title=p["title"], statement=p["statement"], qtext=p["quantifier"]["text"], n=n,
             files=", ".join(p["anchors"]["files"]))
print(s.replace("({tag} — ".format(tag=tag), "({pid} — ".format(pid=pid)))
