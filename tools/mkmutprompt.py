#!/usr/bin/env python3
"""mkmutprompt.py <Cxx> [n] [tag] [--avoid]: print the prompt for a fresh mutation agent (property text only, nothing from /verif's
checks).  With --avoid the prompt also lists the sites earlier engineers already used for this property (from seeded/*/meta.json
'what', which is the mutation author's own description), so that a new batch brings new mechanisms."""
import glob, json, os, sys
HERE = os.path.dirname(os.path.dirname(os.path.abspath(__file__)))
args = [a for a in sys.argv[1:] if a != "--avoid"]
avoid = "--avoid" in sys.argv
pid = args[0].upper(); n = int(args[1]) if len(args) > 1 else 3
tag = args[2] if len(args) > 2 else pid
for l in open(os.path.join(HERE, "properties.jsonl")):
    p = json.loads(l)
    if p["id"] == pid:
        break
else:
    sys.exit("no such property")
t = open(os.path.join(HERE, "tools", "mut_prompt_template.txt")).read()
s = t.format(pid=tag, title=p["title"], statement=p["statement"], qtext=p["quantifier"]["text"], n=n,
             files=", ".join(p["anchors"]["files"]))
s = s.replace("({tag} — ".format(tag=tag), "({pid} — ".format(pid=pid))
if avoid:
    taken = []
    for d in sorted(glob.glob(os.path.join(HERE, "seeded", "*", "meta.json"))):
        m = json.load(open(d))
        if str(m.get("property", "")).upper().startswith(pid) or os.path.basename(os.path.dirname(d)).startswith(pid + "_"):
            w = " ".join(str(m.get("what", "")).split())
            taken.append("- " + w[:260])
    if taken:
        s = s.replace("HOW TO WORK:", "ALREADY TAKEN — other engineers have delivered the following changes for this property; yours must use DIFFERENT "
                      "functions/mechanisms (look at other files and code paths the property covers, other operand kinds, other configurations):\n"
                      + "\n".join(taken) + "\n\nHOW TO WORK:")
print(s)
