#!/usr/bin/env python3
"""seedrun.py <seed id> <check ids...>: apply seeded/<id>/patch.diff to a scratch worktree of /repo (or, with --in-repo, to /repo
itself, undone afterwards), run the checks against it (quick tier; VERIF_TIER to override), and record which checks reported a
violation in seeded/<id>/meta.json."""
import json, os, subprocess, sys
VERIF = os.path.dirname(os.path.dirname(os.path.abspath(__file__)))
args = [a for a in sys.argv[1:] if a != "--in-repo"]
in_repo = "--in-repo" in sys.argv
sid, checks = args[0], args[1:]
d = os.path.join(VERIF, "seeded", sid)
if in_repo:
    st = subprocess.run("git -C /repo status --porcelain --untracked-files=no", shell=True, stdout=subprocess.PIPE, text=True).stdout.strip()
    if st:
        print("refusing: /repo has local modifications:\n" + st); sys.exit(2)
    repo = "/repo"
else:
    repo = "/tmp/seedrun_%s" % sid
    subprocess.run("git -C /repo worktree remove --force %s" % repo, shell=True, stdout=subprocess.DEVNULL, stderr=subprocess.DEVNULL)
    subprocess.run("git -C /repo worktree add %s HEAD" % repo, shell=True, stdout=subprocess.DEVNULL, stderr=subprocess.DEVNULL)
    subprocess.run("cp /repo/config.h /repo/config_platform_independent.h %s/ 2>/dev/null" % repo, shell=True)
r = subprocess.run("git -C %s apply %s/patch.diff" % (repo, d), shell=True)
if r.returncode != 0:
    print("patch does not apply"); sys.exit(2)
results = {}
try:
    for c in checks:
        env = dict(os.environ, VERIF_EVIDENCE="/tmp/seed_evidence", VERIF_REPO=repo)
        p = subprocess.run([sys.executable, os.path.join(VERIF, "check.py"), c, "--tier", os.environ.get("VERIF_TIER", "quick")],
                           stdout=subprocess.PIPE, stderr=subprocess.STDOUT, text=True, errors="replace", env=env, cwd=VERIF)
        lines = [l for l in p.stdout.split("\n") if l.startswith("VIOLATION") or l.startswith("# ")]
        results[c] = {"exit": p.returncode, "lines": [l[:400] for l in lines[:6]]}
        print(c, "exit", p.returncode); print("\n".join(l[:300] for l in lines[:6]))
finally:
    if in_repo:
        subprocess.run("git -C /repo checkout -- .", shell=True)
    else:
        subprocess.run("git -C /repo worktree remove --force %s" % repo, shell=True)
# the translators write into the shared lean/AdeptModel/Generated: regenerate from the UNCHANGED tree so that no definition
# derived from the seeded change is left behind (or committed)
if any(c.upper() in ("C01", "C09", "C12", "C14", "C17") for c in checks):
    for t in ("unary", "binary", "engines", "reserve", "storagecfg", "globals"):
        subprocess.run([sys.executable, os.path.join(VERIF, "translate", t + ".py")], stdout=subprocess.DEVNULL, stderr=subprocess.DEVNULL,
                       env={k: v for k, v in os.environ.items() if k != "VERIF_REPO"})
meta = json.load(open(os.path.join(d, "meta.json")))
meta.setdefault("detection", {}).update(results)
json.dump(meta, open(os.path.join(d, "meta.json"), "w"), indent=1)
