#!/usr/bin/env python3
"""seedsweep.py [-j N] [seed ids...]: run every seeded regression (default: all under seeded/) against the check(s) of the property it
breaks (plus the checks already recorded as catching it), N at a time, and print one line per seed: caught-with-input / nfi / MISSED.
Results are also written to seeded/<id>/meta.json (detection) by tools/seedrun.py."""
import json, os, re, subprocess, sys
from concurrent.futures import ThreadPoolExecutor
VERIF = os.path.dirname(os.path.dirname(os.path.abspath(__file__)))
args = sys.argv[1:]
J = 4
if args and args[0] == "-j":
    J = int(args[1]); args = args[2:]
seeds = args or sorted(d for d in os.listdir(os.path.join(VERIF, "seeded")) if os.path.exists(os.path.join(VERIF, "seeded", d, "patch.diff")))


def one(sid):
    meta = json.load(open(os.path.join(VERIF, "seeded", sid, "meta.json")))
    own = re.match(r"(C\d\d)", sid).group(1)
    checks = [own] + [c for c, r in (meta.get("detection") or {}).items() if c != own and r.get("exit") == 1]
    p = subprocess.run([sys.executable, os.path.join(VERIF, "tools", "seedrun.py"), sid] + checks, stdout=subprocess.PIPE,
                       stderr=subprocess.STDOUT, text=True, errors="replace")
    res = {}
    cur = None
    for l in p.stdout.split("\n"):
        m = re.match(r"(C\d\d) exit (\d+)", l)
        if m:
            cur = m.group(1); res[cur] = "MISSED" if m.group(2) == "0" else "input"
        elif l.startswith("VIOLATION") and cur and "no-failing-input-found" in l and res[cur] == "input":
            res[cur] = "nfi"
    return sid, res


# checks with translators share lean/AdeptModel/Generated: their seeds run one after the other (one lane), the rest in parallel
TR = ("C01", "C04", "C05", "C09", "C12", "C14", "C17")
serial = [s for s in seeds if s[:3] in TR]
par = [s for s in seeds if s[:3] not in TR]


def lane(ss):
    return [one(s) for s in ss]


with ThreadPoolExecutor(max_workers=J) as ex:
    futs = [ex.submit(lane, serial)] + [ex.submit(lane, par[i::max(1, J - 1)]) for i in range(max(1, J - 1))]
    for sid, res in (x for f in futs for x in f.result()):
        own = sid[:3]
        verdict = res.get(own, "?")
        others = ", ".join("%s:%s" % (c, v) for c, v in res.items() if c != own)
        print("%-8s %-7s %s" % (sid, verdict, others), flush=True)
