#!/bin/bash
# commit.sh "<message>" [paths...]: regenerate the source-derived Lean definitions from the UNCHANGED /repo (so that nothing derived
# from a seeded change is ever committed), then commit the given paths (default: everything).
cd "$(dirname "$0")/.."
if [ -n "$(git -C /repo status --porcelain --untracked-files=no)" ]; then echo "refusing: /repo has local modifications"; exit 2; fi
for t in unary binary engines reserve storagecfg globals alias vectrait; do python3 translate/$t.py > /dev/null 2>&1 || echo "translator $t failed"; done
msg=$1; shift
if [ $# -eq 0 ]; then git add -A; else git add "$@" lean/AdeptModel/Generated; fi
git commit -qm "$msg" && git log --oneline | head -1
