#!/bin/bash
# seedbatch.sh <source dir prefix, e.g. /tmp/mut_out/C15g_> <first new index> <seed id prefix, e.g. C15_> <checks...>
# confirms deliveries <prefix>1..3 (tools/seedtest.py) and runs the named checks against each (tools/seedrun.py, scratch worktree)
src=$1; first=$2; pre=$3; shift 3
here=$(cd "$(dirname "$0")/.." && pwd)
k=0
for d in ${src}1 ${src}2 ${src}3; do
  [ -f $d/patch.diff ] || { k=$((k+1)); continue; }
  sid=${pre}$((first+k)); k=$((k+1))
  echo "=== $d -> $sid"
  python3 $here/tools/seedtest.py $d $sid | grep -E '"confirmed"|error|tests_passed'
  if python3 -c "import json,sys; sys.exit(0 if json.load(open('$here/seeded/$sid/meta.json'))['confirmation']['confirmed'] else 1)"; then
    python3 $here/tools/seedrun.py $sid "$@" 2>&1 | tail -12
  else
    echo "NOT CONFIRMED: $sid"
  fi
done
