#!/bin/bash
# repotest.sh: run the repository's own test suite (make check, 25 tests) on /repo's HEAD plus its uncommitted tracked changes,
# in a scratch worktree outside /repo (the repository tracks a few build outputs, so building in /repo itself dirties it)
wt=/tmp/repotest_$$
git -C /repo worktree add -q $wt HEAD || exit 2
git -C /repo diff -- include adept test | git -C $wt apply --allow-empty 2>/dev/null
rsync -a --ignore-existing --exclude .git --exclude '*.o' --exclude '*.lo' --exclude '.libs' /repo/ $wt/
cd $wt && ./configure > /dev/null 2>&1; make clean > /dev/null 2>&1; make check -j8 > /dev/null 2>&1
make check 2>&1 | grep -E "PASSED|FAILED" > /tmp/repotest_$$.log
echo "PASSED: $(grep -c PASSED /tmp/repotest_$$.log)  FAILED: $(grep -c FAILED /tmp/repotest_$$.log)"
grep FAILED /tmp/repotest_$$.log
cd /; git -C /repo worktree remove --force $wt; rm -f /tmp/repotest_$$.log
