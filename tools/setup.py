#!/usr/bin/env python3
"""setup_cmd: build the Lean project (models, native driver, proofs) from files on disk; offline.

The executable models and the native driver `adept_model` are what every check needs: if they do not build, setup fails.
The proof libraries are pre-built too, but a proof module that does not build is NOT a setup failure: every check builds
its own proof modules again (after regenerating the source-derived definitions from /repo's current working tree) and
reports a proof that no longer checks as a violation of its property, with a failing input when it finds one."""
import os, subprocess, sys
HERE = os.path.dirname(os.path.dirname(os.path.abspath(__file__)))
LEAN = os.path.join(HERE, "lean")
r = subprocess.run(["lake", "build", "AdeptModel", "Driver", "adept_model"], cwd=LEAN)
if r.returncode != 0:
    sys.exit(r.returncode)
r = subprocess.run(["lake", "build"], cwd=LEAN)
if r.returncode != 0:
    print("setup: some proof modules did not build; the checks that own them will report it", file=sys.stderr)
sys.exit(0)
