#!/usr/bin/env python3
"""setup_cmd: build the Lean project (models, proofs, driver) from files on disk; offline."""
import os, subprocess, sys
HERE = os.path.dirname(os.path.dirname(os.path.abspath(__file__)))
r = subprocess.run(["lake", "build"], cwd=os.path.join(HERE, "lean"))
sys.exit(r.returncode)
