#!/usr/bin/env python3
"""seedtest.py <dir with patch.diff demo.cpp build.txt meta.json> <seed id> <check ids...>
1. confirms the seeded change in a scratch worktree of /repo (25 tests pass with it; demo fails with it, passes without),
2. applies it to /repo, runs the named checks (quick tier), reverts /repo,
3. stores everything under /verif/seeded/<seed id>/ (meta.json extended with what was run and which checks caught it)."""
import json, os, re, shutil, subprocess, sys, time

VERIF = os.path.dirname(os.path.dirname(os.path.abspath(__file__)))


def sh(cmd, cwd=None, timeout=3600):
    p = subprocess.run(cmd, shell=True, cwd=cwd, stdout=subprocess.PIPE, stderr=subprocess.STDOUT, text=True, errors="replace", timeout=timeout)
    return p.returncode, p.stdout


def build_demo(src_dir, wt, out):
    bt = open(os.path.join(src_dir, "build.txt")).read()
    omp = "-pthread" if re.search(r"(?i)\b(no|without) -fopenmp", bt) else "-fopenmp"       # a demo that must be built without OpenMP says so
    bt = "\n".join(l for l in bt.split("\n") if not l.lstrip().startswith("#"))      # flags named in comments are not flags
    flags = " ".join(sorted(set(re.findall(r"-D[A-Za-z_0-9=]+", bt))))
    san = "-fsanitize=address,undefined -fno-sanitize-recover=all" if "fsanitize" in bt else ""
    libs = " ".join(x for x in ("-llapack", "-lblas", "-lpthread") if x in bt)
    std = "-std=c++17" if "c++17" in bt else ("-std=c++14" if "c++14" in bt else "-std=c++11")
    isa = " ".join(sorted(set(re.findall(r"-m(?:sse2|avx512f|avx2|avx|fma)\b", bt) + re.findall(r"-ffp-contract=\w+", bt))))
    if "tsan" in bt.lower() or "fsanitize=thread" in bt:
        cmd = "clang++-14 %s -O1 -g -fsanitize=thread %s %s -I%s/include -I%s/adept %s/demo.cpp %s/adept/*.cpp -o %s -lpthread %s" % (
            std, flags, isa, wt, wt, src_dir, wt, out, libs)
    else:
        cmd = "g++ %s -O1 -g %s %s %s %s -I%s/include -I%s/adept %s/demo.cpp %s/adept/*.cpp -o %s %s" % (
            std, omp, san, flags, isa, wt, wt, src_dir, wt, out, libs)
    return sh(cmd) + (cmd,)


def main():
    src, sid, checks = sys.argv[1], sys.argv[2], sys.argv[3:]
    wt = "/tmp/seedwt_%s" % sid
    sh("git -C /repo worktree remove --force %s" % wt)
    rc, out = sh("git -C /repo worktree add %s HEAD" % wt)
    res = {"seed": sid, "confirmed": False}
    try:
        sh("rsync -a --ignore-existing --exclude .git --exclude '*.o' --exclude '*.lo' --exclude '.libs' /repo/ %s/" % wt)
        # demo on the clean tree
        rc, out, cmd = build_demo(src, wt, "/tmp/seed_demo_clean_%s" % sid)
        res["demo_build_cmd"] = cmd
        if rc != 0:
            res["error"] = "demo does not build on the clean tree: " + out[-800:]
            return res
        rc0, out0 = sh("timeout 300 /tmp/seed_demo_clean_%s" % sid)
        res["demo_clean"] = {"rc": rc0, "tail": out0[-300:]}
        rc, out = sh("git -C %s apply %s/patch.diff" % (wt, os.path.abspath(src)))
        if rc != 0:
            res["error"] = "patch does not apply: " + out[-500:]
            return res
        rc, out, _ = build_demo(src, wt, "/tmp/seed_demo_mut_%s" % sid)
        if rc != 0:
            res["error"] = "demo does not build with the change: " + out[-800:]
            return res
        rc1, out1 = sh("timeout 300 /tmp/seed_demo_mut_%s" % sid)
        res["demo_mutated"] = {"rc": rc1, "tail": out1[-300:]}
        # the repository's own tests with the change
        sh("./configure > /dev/null 2>&1; make clean > /dev/null 2>&1; make check -j6 > /dev/null 2>&1", cwd=wt, timeout=3000)
        rc, out = sh("make check 2>&1 | grep -E 'PASSED|FAILED'", cwd=wt, timeout=3000)
        res["tests_passed"] = out.count("PASSED"); res["tests_failed"] = out.count("FAILED")
        res["confirmed"] = (rc0 == 0 and rc1 != 0 and res["tests_passed"] == 25 and res["tests_failed"] == 0)
    finally:
        sh("git -C /repo worktree remove --force %s" % wt)
        sh("rm -rf %s /tmp/seed_demo_clean_%s /tmp/seed_demo_mut_%s" % (wt, sid, sid))
    return res


if __name__ == "__main__":
    src, sid = sys.argv[1], sys.argv[2]
    res = main()
    dst = os.path.join(VERIF, "seeded", sid)
    os.makedirs(dst, exist_ok=True)
    for f in ("patch.diff", "demo.cpp", "build.txt"):
        if os.path.exists(os.path.join(src, f)) and os.path.abspath(src) != os.path.abspath(dst):
            shutil.copy(os.path.join(src, f), dst)
    meta = json.load(open(os.path.join(src, "meta.json"))) if os.path.exists(os.path.join(src, "meta.json")) else {}
    meta["confirmation"] = res
    json.dump(meta, open(os.path.join(dst, "meta.json"), "w"), indent=1)
    print(json.dumps(res, indent=1)[:1500])
