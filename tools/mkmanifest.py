#!/usr/bin/env python3
"""Assemble MANIFEST.json from manifest.d/Cxx.json fragments (one per claimed property)."""
import json, os, glob, subprocess
HERE = os.path.dirname(os.path.dirname(os.path.abspath(__file__)))
props = [json.loads(l)["id"] for l in open(os.path.join(HERE, "properties.jsonl"))]
frags = {}
# only properties the coordinator has enabled (one id per line) are registered
enabled = [l.strip() for l in open(os.path.join(HERE, "manifest.d", "enabled.txt")) if l.strip() and not l.startswith("#")]
for f in sorted(glob.glob(os.path.join(HERE, "manifest.d", "C*.json"))):
    d = json.load(open(f))
    if d["property_id"] in enabled:
        frags[d["property_id"]] = d
na_file = os.path.join(HERE, "manifest.d", "not_applicable.json")
na_reasons = json.load(open(na_file)) if os.path.exists(na_file) else {}
hooks_file = os.path.join(HERE, "manifest.d", "hooks.json")
hooks = json.load(open(hooks_file))
checks = []
for pid in props:
    if pid in frags:
        d = dict(frags[pid])
        d.setdefault("quick_cmd", "python3 check.py %s --tier quick" % pid)
        d.setdefault("thorough_cmd", "python3 check.py %s --tier thorough" % pid)
        d.setdefault("evidence_file", "/verif/evidence/%s.json" % pid)
        d.setdefault("replay_cmd_template", "python3 check.py %s --replay {path}" % pid)
        d.setdefault("engine", "lean4-proof+correspondence")
        checks.append(d)
man = {
    "version": 1,
    "setup_cmd": "cd /verif && python3 tools/setup.py",
    "hooks": hooks,
    "engines": [{"name": "lean4-proof+correspondence", "path": "/verif/check.py",
                 "serves_properties": [c["property_id"] for c in checks],
                 "kind_free_text": "Lean 4 theorems over an executable model (lean/AdeptModel, lean/AdeptProofs) + translators "
                                   "(translate/) + differential correspondence of the model driver against a sanitizer build of "
                                   "/repo's working tree (harness/, checks/)"}],
    "checks": checks,
    "notes": "See DESIGN.md. Known defects of the pinned tree are in known_findings.json; fixes are 'fix:' commits in /repo.",
    "not_applicable": [{"property_id": p, "reason": na_reasons.get(p, "no check registered yet: machinery for this property is still being built (see DESIGN.md section 10)")}
                       for p in props if p not in frags],
}
json.dump(man, open(os.path.join(HERE, "MANIFEST.json"), "w"), indent=1)
print("MANIFEST.json: %d checks, %d not_applicable" % (len(checks), len(man["not_applicable"])))
