#!/usr/bin/env python3
"""seedrun.py <seed id> <check ids...>: apply seeded/<id>/patch.diff to a scratch worktree of /repo (or, with --in-repo, to /repo
itself, undone afterwards), run the checks against it (quick tier; VERIF_TIER to override), and record which checks reported a
violation in seeded/<id>/meta.json."""
import json, os, subprocess, sys
VERIF = os.path.dirname(os.path.dirname(os.path.abspath(__file__)))
args = [a for a in sys.argv[1:] if a != "--in-repo"]
in_repo = "--in-repo" in sys.argv
sid, checks = args[0], args[1:]
d = os.path.join(VERIF, "controls", sid)
if in_repo:
    st = subprocess.run("git -C /repo status --porcelain --untracked-files=no", shell=True, stdout=subprocess.PIPE, text=True).stdout.strip()
    if st:
        print("refusing: /repo has local modifications:\n" + st); sys.exit(2)
    repo = "/repo"
else:
    repo = "/tmp/ctlrun_%s" % sid
    subprocess.run("git -C /repo worktree remove --force %s" % repo, shell=True, stdout=subprocess.DEVNULL, stderr=subprocess.DEVNULL)
    subprocess.run("git -C /repo worktree add %s HEAD" % repo, shell=True, stdout=subprocess.DEVNULL, stderr=subprocess.DEVNULL)
    subprocess.run("cp /repo/config.h /repo/config_platform_independent.h %s/ 2>/dev/null" % repo, shell=True)
r = subprocess.run("git -C %s apply %s/patch.diff" % (repo, d), shell=True, stderr=subprocess.DEVNULL)
if r.returncode != 0:
    # later fix: commits may have moved the context: try the rebased copies, then a fuzzy application
    ok = False
    for alt in sorted(f for f in os.listdir(d) if f.startswith("patch_rebased")):
        if subprocess.run("cd %s && patch -p1 -s -N < %s/%s" % (repo, d, alt), shell=True).returncode == 0:
            ok = True; break
        subprocess.run("git -C %s checkout -- ." % repo, shell=True)
    if not ok and subprocess.run("cd %s && patch -p1 -s -N -F3 < %s/patch.diff" % (repo, d), shell=True).returncode != 0:
        print("patch does not apply")
        if not in_repo:
            subprocess.run("git -C /repo worktree remove --force %s" % repo, shell=True)
        else:
            subprocess.run("git -C /repo checkout -- .", shell=True)
        sys.exit(2)
results = {}
# checks with translators write source-derived definitions into lean/AdeptModel/Generated: give them a private copy of the Lean
# project (with its build directory, 160 MB) so that the seeded change never reaches the shared tree, whatever runs in parallel
TR = ("C01", "C04", "C05", "C09", "C12", "C14", "C17")
private_lean = None
if any(c.upper() in TR for c in checks):
    private_lean = "/tmp/ctlrun_%s_lean" % sid
    subprocess.run("rm -rf %s && mkdir -p %s && rsync -a %s/lean/ %s/" % (private_lean, private_lean, VERIF, private_lean), shell=True)
try:
    for c in checks:
        env = dict(os.environ, VERIF_EVIDENCE="/tmp/seed_evidence", VERIF_REPO=repo)
        if private_lean and c.upper() in TR:
            env["VERIF_LEAN"] = private_lean
        p = subprocess.run([sys.executable, os.path.join(VERIF, "check.py"), c, "--tier", os.environ.get("VERIF_TIER", "quick")],
                           stdout=subprocess.PIPE, stderr=subprocess.STDOUT, text=True, errors="replace", env=env, cwd=VERIF)
        lines = [l for l in p.stdout.split("\n") if l.startswith("VIOLATION") or l.startswith("# ")]
        results[c] = {"exit": p.returncode, "lines": [l[:400] for l in lines[:6]]}
        print(c, "exit", p.returncode); print("\n".join(l[:300] for l in lines[:6]))
finally:
    if in_repo:
        subprocess.run("git -C /repo checkout -- .", shell=True)
    else:
        subprocess.run("git -C /repo worktree remove --force %s" % repo, shell=True)
if private_lean:
    subprocess.run("rm -rf %s" % private_lean, shell=True)
meta = json.load(open(os.path.join(d, "meta.json")))
meta.setdefault("detection", {}).update(results)
json.dump(meta, open(os.path.join(d, "meta.json"), "w"), indent=1)
