#!/usr/bin/env python3
"""fncensus.py <lines.json>: which FUNCTION DEFINITIONS of /repo/include/adept/*.h does no harness instantiate or execute?

gcov only knows lines of code that some translation unit instantiated, so a member template nobody calls (a const overload, one
rank of an accessor family, one orientation of an engine) is invisible in the line table of COVERAGE.md.  This tool asks clang
(clang-query-14, the spelled-in-source function definitions of the two umbrella headers) for the line range of every function
definition and classifies each against the merged gcov line table written by tools/coverage.py:
   never instantiated : no line of its body is executable in ANY harness object
   never executed     : instantiated somewhere, but no line of its body was executed
Prints markdown (appended to COVERAGE.md by tools/coverage.py).  A measuring tool for the generators, not a check."""
import json, os, re, subprocess, sys, tempfile, collections
REPO = os.environ.get("VERIF_REPO", "/repo")


def body_end(lines, a, col):
    """line of the brace closing the body of the definition that starts at (a, col): first `{` at parenthesis depth 0, matched;
    comments, strings and character literals skipped (clang-query's dump mode, which would give the range, crashes on this TU)"""
    depth = 0; par = 0; started = False
    ln = a; c = col - 1; incomment = False
    while ln <= len(lines) and ln < a + 400:
        t = lines[ln - 1]
        while c < len(t):
            ch = t[c]
            if incomment:
                if t.startswith("*/", c):
                    incomment = False; c += 1
            elif t.startswith("//", c):
                break
            elif t.startswith("/*", c):
                incomment = True; c += 1
            elif ch in "\"'":
                q = ch; c += 1
                while c < len(t) and t[c] != q:
                    c += 2 if t[c] == "\\" else 1
            elif ch == "(":
                par += 1
            elif ch == ")":
                par -= 1
            elif ch == ";" and not started and par == 0:
                return ln                              # a declaration after all (defaulted / deleted / macro)
            elif ch == "{" and par == 0:
                depth += 1; started = True
            elif ch == "}" and par == 0:
                depth -= 1
                if started and depth == 0:
                    return ln
            c += 1
        ln += 1; c = 0
    return a


def definitions():
    d = tempfile.mkdtemp(prefix="fncensus_")
    open(os.path.join(d, "tu.cpp"), "w").write("#include <adept_arrays.h>\n#include <adept_optimize.h>\n")
    open(os.path.join(d, "q.txt"), "w").write(
        'set output diag\nset traversal IgnoreUnlessSpelledInSource\n'
        'match functionDecl(isDefinition(), isExpansionInFileMatching("include/adept/"))\n')
    p = subprocess.run(["clang-query-14", "-f", os.path.join(d, "q.txt"), os.path.join(d, "tu.cpp"), "--", "-std=c++11",
                        "-I" + REPO + "/include", "-fopenmp", "-DHAVE_BLAS=1", "-DHAVE_LAPACK=1"],
                       stdout=subprocess.PIPE, stderr=subprocess.DEVNULL, text=True, errors="replace")
    out = []; src = {}
    for l in p.stdout.split("\n"):
        m = re.match(r"(/\S+?):(\d+):(\d+): note: \"root\" binds here", l)
        if not m:
            continue
        f, a, col = os.path.normpath(m.group(1)), int(m.group(2)), int(m.group(3))
        if f not in src:
            src[f] = open(f, errors="replace").read().split("\n")
        b = body_end(src[f], a, col)
        head = " ".join(x.strip() for x in src[f][a - 1:min(b, a + 3)])
        head = head[col - 1 - (len(src[f][a - 1]) - len(src[f][a - 1].lstrip())):] if False else head
        mm = re.search(r"(operator\s*(?:\(\)|\[\]|[^\s(]+)|~?\w+)\s*\(", " ".join(x.strip() for x in [src[f][a - 1][col - 1:]] + src[f][a:min(b, a + 6)]))
        out.append((f, a, b, mm.group(1).replace(" ", "") if mm else "?"))
    import shutil; shutil.rmtree(d, ignore_errors=True)
    return sorted(set(out))


def main():
    cov = {k: {int(a): b for a, b in v.items()} for k, v in json.load(open(sys.argv[1])).items()}
    never_inst = collections.defaultdict(list); never_exec = collections.defaultdict(list); n = 0; nmacro = 0
    src = {}
    for f, a, b, name in definitions():
        if not f.startswith(REPO + "/include/adept/"):
            continue
        if f not in src:
            src[f] = open(f, errors="replace").read().split("\n")
        if src[f][a - 1].rstrip().endswith("\\") or (a >= 2 and src[f][a - 2].rstrip().endswith("\\")):
            nmacro += 1          # body spelled inside a #define: gcov attributes its lines to the expansion site, not to these lines
            continue
        n += 1
        lines = cov.get(f, {})
        body = [lines[l] for l in range(a, b + 1) if l in lines]
        rel = os.path.relpath(f, REPO)
        if not body:
            never_inst[rel].append((a, b, name))
        elif max(body) == 0:
            never_exec[rel].append((a, b, name))
    ni = sum(len(v) for v in never_inst.values()); ne = sum(len(v) for v in never_exec.values())
    print("## Function definitions the harnesses never reach\n")
    print("clang lists %d function definitions spelled in `include/adept/*.h`; %d are instantiated by no harness object (gcov has no" % (n, ni))
    print("executable line inside them: the line table above cannot see them at all), %d are instantiated but never executed." % ne)
    print("(%d further definitions are spelled inside a `#define` and cannot be attributed: gcov counts them at the expansion site.)" % nmacro)
    print("Formatting helpers (`expression_string_`, `info_string`, `print*`, `operator<<` on streams) are listed too.\n")
    for title, tab in (("never instantiated", never_inst), ("instantiated, never executed", never_exec)):
        print("### %s\n" % title)
        for rel in sorted(tab):
            print("* `%s`: " % rel + ", ".join("%s (%d%s)" % (nm, a, "" if a == b else "–%d" % b) for a, b, nm in tab[rel]))
        print()


if __name__ == "__main__":
    main()
