import AdeptModel.GradAlloc
import AdeptModel.Tape
import AdeptModel.StackProto
import AdeptModel.RecBuf
import AdeptModel.RecBufSites
import AdeptModel.Storage
import AdeptModel.Views
import AdeptModel.Interp
