import AdeptModel.GradAlloc
