import AdeptModel.GradAlloc
import AdeptModel.Tape
import AdeptModel.StackProto
