import AdeptModel.GradAlloc
import AdeptModel.Tape
import AdeptModel.StackProto
import AdeptModel.RecBuf
