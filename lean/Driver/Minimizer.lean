import AdeptModel.MinimizerLogic
import Driver.Common
/-! line-protocol driver of family `minimizer`: re-evaluates, in exact rational arithmetic, the decisions that the
    real minimizers logged through hook H4 (see harness/drv_minimizer.cpp, checks/mincommon.py).

    One log entry per line, fields separated by blanks:
      reals    16 hex digits of the binary64 pattern          vectors  `v:hex,hex,...`   int vectors `i:1,0,-1`
    Answer per line: `ok`, `ok-tie <what>` (the decision differs but the competing quantities agree to 2^-40 and were
    computed from different operands, so the rounded comparison of the C++ may legitimately fall either way),
    `skip <why>` (a non-finite input), `diff <what>` (the model decides otherwise), `bad-op`. -/
open Adept Adept.Minimizer

namespace MinimizerDrv

/-- binary64 bit pattern -> exact rational (`none` for NaN / infinities) -/
def ratOfBits (u : Nat) : Option Rat :=
  let sign : Nat := u / 2 ^ 63
  let e : Nat := (u / 2 ^ 52) % 2048
  let m : Nat := u % 2 ^ 52
  if e = 2047 then none
  else
    let mag : Rat :=
      if e = 0 then ((m : Nat) : Rat) / ((2 ^ 1074 : Nat) : Rat)
      else if e ≥ 1075 then (((m + 2 ^ 52 : Nat) : Nat) : Rat) * (((2 ^ (e - 1075) : Nat) : Nat) : Rat)
      else (((m + 2 ^ 52 : Nat) : Nat) : Rat) / (((2 ^ (1075 - e) : Nat) : Nat) : Rat)
    some (if sign = 1 then -mag else mag)

def hexDigit (c : Char) : Option Nat :=
  if '0' ≤ c ∧ c ≤ '9' then some (c.toNat - '0'.toNat)
  else if 'a' ≤ c ∧ c ≤ 'f' then some (c.toNat - 'a'.toNat + 10)
  else none

def parseHex (s : String) : Option Nat :=
  if s.length ≠ 16 then none
  else s.toList.foldl (fun acc c => do let a ← acc; let d ← hexDigit c; pure (a * 16 + d)) (some 0)

inductive Tok where
  | r (v : Option Rat)             -- a real (none: non-finite)
  | v (xs : List (Option Rat))
  | iv (xs : List Int)
  | i (n : Int)

def parseTok (t : String) : Option Tok :=
  if t.startsWith "v:" then
    let body := (t.drop 2).toString
    if body.isEmpty then some (.v []) else
    (body.splitOn ",").foldr (fun h acc => do let a ← acc; let u ← parseHex h; pure (ratOfBits u :: a)) (some []) |>.map .v
  else if t == "v" then some (.v [])
  else if t.startsWith "i:" then
    let body := (t.drop 2).toString
    if body.isEmpty then some (.iv []) else
    (body.splitOn ",").foldr (fun h acc => do let a ← acc; let u ← h.toInt?; pure (u :: a)) (some []) |>.map .iv
  else if t == "i" then some (.iv [])
  else if t.length = 16 then (parseHex t).map (fun u => .r (ratOfBits u))
  else t.toInt?.map .i

def allFinite (xs : List (Option Rat)) : Option (List Rat) := xs.foldr (fun a acc => do let l ← acc; let x ← a; pure (x :: l)) (some [])

def vecOf (xs : List Rat) : Vec Rat := fun i => xs.getD i 0
def ivecOf (xs : List Int) : Nat → Int := fun i => xs.getD i 0

def rabs (a : Rat) : Rat := if a < 0 then -a else a

/-- relative agreement to 2^-40 (covers the handful of roundings of one logged expression) -/
def close (a b : Rat) : Bool :=
  rabs (a - b) ≤ (max (rabs a) (rabs b)) / (2 ^ 40 : Nat) || rabs (a - b) ≤ 1 / (2 ^ 1000 : Nat)

def big : Rat := ((2 ^ 1024 - 2 ^ 971 : Nat) : Rat)      -- numeric_limits<double>::max()

def intsEq (n : Nat) (a : Nat → Int) (b : List Int) : Bool := (List.range n).all (fun i => a i == b.getD i 0)
def ratsEq (n : Nat) (a : Vec Rat) (b : List Rat) : Bool := (List.range n).all (fun i => a i == b.getD i 0)
def ratsClose (n : Nat) (a : Vec Rat) (b : List Rat) : Bool := (List.range n).all (fun i => close (a i) (b.getD i 0))

def bstr (b : Bool) : String := if b then "1" else "0"

/-- the local bound step of variable `i` if it moves towards a real bound (as in `nbStep`) -/
def localOf (nd : Rat) (x d lo up : Vec Rat) (i : Nat) : Option (Rat × Int × Rat × Rat) :=
  if d i > 0 ∧ up i < big then some (nd * (up i - x i) / d i, 1, up i - x i, d i)
  else if d i < 0 ∧ lo i > -big then some (nd * (lo i - x i) / d i, -1, lo i - x i, d i)
  else none

def check (ws : List String) : String :=
  match ws with
  | [] => "bad-op"
  | tag :: rest =>
    match rest.foldr (fun t acc => do let a ← acc; let k ← parseTok t; pure (k :: a)) (some []) with
    | none => "bad-op"
    | some toks =>
      match (tag, toks) with
      | ("PROJ", [Tok.v x0, Tok.v lo, Tok.v up, Tok.v x, Tok.iv bs]) =>
        match allFinite x0, allFinite lo, allFinite up, allFinite x with
        | some x0, some lo, some up, some x =>
          let n := x0.length
          let px := project (vecOf lo) (vecOf up) (vecOf x0)
          let pb := initBoundStatus (vecOf lo) (vecOf up) (vecOf x0)
          if ratsEq n px x && intsEq n pb bs then "ok" else "diff projection/initial flags"
        | _, _, _, _ => "skip non-finite"
      | ("RELCG", [Tok.iv bs, Tok.v g, Tok.iv bs']) =>
        match allFinite g with
        | some g => if intsEq bs.length (releaseCG (ivecOf bs) (vecOf g)) bs' then "ok" else "diff release (line-search rule)"
        | none => "skip non-finite"
      | ("RELLM", [Tok.iv bs, Tok.v g, Tok.v dx, Tok.iv bs']) =>
        match allFinite g, allFinite dx with
        | some g, some dx =>
          if intsEq bs.length (releaseLM (ivecOf bs) (vecOf g) (vecOf dx)) bs' then "ok" else "diff release (Levenberg rule)"
        | _, _ => "skip non-finite"
      | ("CONV", [Tok.iv bs, Tok.v g, Tok.i nfree, Tok.r gn, Tok.r tol, Tok.i dec]) =>
        match allFinite g, gn, tol with
        | some g, some gn, some tol =>
          let n := bs.length
          let b := ivecOf bs
          let mg := maskGrad b (vecOf g)
          let ss := (List.range n).foldl (fun s i => s + mg i * mg i) (0 : Rat)
          let nf := nFree n b
          let decM := converged (fun _ => gn) n b (vecOf g) tol
          if (nf : Int) ≠ nfree then s!"diff nfree model={nf}"
          else if decM ≠ (dec == 1) then "diff convergence decision"
          else if nf > 0 ∧ !(close (gn * gn) ss) then "diff gradient norm is not the norm of the free gradient"
          else "ok"
        | _, _, _ => "skip non-finite"
      | ("NB", [Tok.v x, Tok.v d, Tok.v lo, Tok.v up, Tok.r nd, Tok.r b, Tok.i idx, Tok.i ty]) =>
        match allFinite x, allFinite d, allFinite lo, allFinite up, nd, b with
        | some x, some d, some lo, some up, some nd, some b =>
          let n := x.length
          let (xv, dv, lv, uv) := (vecOf x, vecOf d, vecOf lo, vecOf up)
          let m := nearestBound n big nd xv dv lv uv
          let midx : Int := match m.idx with | some i => (i : Int) | none => -1
          if midx = idx then
            if m.ty ≠ ty then "diff bound type"
            else if idx ≥ 0 ∧ !(close m.b b) then "diff bound step size"
            else if idx < 0 ∧ b ≠ big then "diff bound step size (no bound)"
            else "ok"
          else if idx < 0 ∨ midx < 0 then "diff nearest bound: one side found none"
          else
            -- different variables named: tolerated only for a numerical near-tie computed from different operands
            match localOf nd xv dv lv uv idx.toNat, localOf nd xv dv lv uv midx.toNat with
            | some (l1, t1, num1, den1), some (l2, _, num2, den2) =>
              if t1 ≠ ty then "diff bound type"
              else if num1 = num2 ∧ den1 = den2 then "diff nearest bound: exact tie broken differently"
              else if close l1 l2 then "ok-tie nearest bound"
              else "diff nearest bound index"
            | _, _ => "diff nearest bound: named variable does not move towards a bound"
        | _, _, _, _, _, _ => "skip non-finite"
      | ("LIM", [Tok.v dx0, Tok.r mss, Tok.v dx1]) =>
        match allFinite dx0, mss, allFinite dx1 with
        | some dx0, some mss, some dx1 =>
          if ratsClose dx0.length (limitStep dx0.length mss (vecOf dx0)) dx1 then "ok" else "diff step limit"
        | _, _, _ => "skip non-finite"
      | ("CAP", [Tok.v x, Tok.v dx, Tok.v lo, Tok.v up, Tok.r frac, Tok.i ib, Tok.i ty]) =>
        match allFinite x, allFinite dx, allFinite lo, allFinite up, frac with
        | some x, some dx, some lo, some up, some frac =>
          let n := x.length
          let (xv, dv, lv, uv) := (vecOf x, vecOf dx, vecOf lo, vecOf up)
          let c := lmCapture n (fun _ => true) xv dv lv uv
          -- a free variable on a face with a zero step: its fraction is 0/0 = NaN in binary64 (ignored by fmin and by
          -- minloc) but 0 under the model's division convention; such entries are outside the exact-arithmetic reading
          if (List.range n).any (fun i => dv i == 0 && (xv i == lv i || xv i == uv i)) then "skip 0/0 collision fraction"
          else if c.ty = ty ∧ (c.idx : Int) = ib then
            if close c.frac frac then "ok" else "diff captured fraction"
          else if c.ty = 0 ∨ ty = 0 then
            -- collision detected by one side only: a rounding matter iff the variable lands within 2^-40 of its face
            if close c.frac frac ∨ close frac 1 ∧ close c.frac 1 then "ok-tie collision at the face"
            else if ty ≠ 0 ∧ (if ty = -1 then xv ib.toNat - lv ib.toNat else uv ib.toNat - xv ib.toNat) = 0
                ∧ rabs (dv ib.toNat) ≤ rabs (xv ib.toNat) / (2 ^ 52 : Nat) then "ok-tie step absorbed at the face"
            else "diff collision detection"
          else
            let fr : Rat := if ty = -1 then -(xv ib.toNat - lv ib.toNat) / dv ib.toNat else (uv ib.toNat - xv ib.toNat) / dv ib.toNat
            let num1 : Rat := if ty = -1 then xv ib.toNat - lv ib.toNat else uv ib.toNat - xv ib.toNat
            let num2 : Rat := if c.ty = -1 then xv c.idx - lv c.idx else uv c.idx - xv c.idx
            -- float regime: a free variable lying exactly on the face with a step so small that fl(x + dx) = x
            -- "collides" in binary64 although x + dx is strictly inside in exact arithmetic (mechanism of finding F-67)
            if num1 = 0 ∧ rabs (dv ib.toNat) ≤ rabs (xv ib.toNat) / (2 ^ 52 : Nat) then "ok-tie step absorbed at the face"
            else if num1 = num2 ∧ dv ib.toNat = dv c.idx ∧ ty = c.ty then "diff capture: exact tie broken differently"
            else if close fr c.frac then "ok-tie capture"
            else "diff captured variable is not the one that reaches its bound first"
        | _, _, _, _, _ => "skip non-finite"
      | ("DAMPX", [Tok.r d, Tok.r nc, Tok.r cst, Tok.i inv, Tok.r restart, Tok.r dmax, Tok.r mult, Tok.r dmin, Tok.r divd, Tok.i acc, Tok.r d', Tok.i st]) =>
        match d, cst, restart, dmax, mult, dmin, divd, d' with
        | some d, some cst, some restart, some dmax, some mult, some dmin, some divd, some d' =>
          let reject : Bool := (match nc with | some nc => decide (nc ≥ cst) | none => true) || inv == 1
          let r := lmDamping d restart dmax mult dmin divd reject
          if r.2.1 ≠ (acc == 1) then "diff accept/reject"
          else if r.2.2 ≠ (acc == 0 ∧ (st == 3 ∨ st == 6)) then "diff give-up decision"
          else if !(close r.1 d') then "diff damping update"
          else "ok"
        | _, _, _, _, _, _, _, _ => "skip non-finite"
      | ("LS0", [Tok.r step, Tok.r mss, Tok.r bound, Tok.r grad0, Tok.i kind, Tok.r ss2, Tok.i atb]) =>
        match step, mss, bound, grad0, ss2 with
        | some step, some mss, some bound, some grad0, some ss2 =>
          let P : LSParams Rat := { maxStep := mss, armijo := 0, maxIter := 0 }
          let r := lsInit P bound step grad0
          match r.1 with
          | some .uphill => if kind = 0 then "ok" else "diff line search start: model says uphill"
          | some _ => if kind = 1 then "ok" else "diff line search start: model says zero-length bound step"
          | none => if kind = 2 ∧ r.2.1 = ss2 ∧ r.2.2 = (atb == 1) then "ok" else "diff first step / at_bound"
        | _, _, _, _, _ => "skip non-finite"
      | ("WOLFE", [Tok.r cf, Tok.r cost0, Tok.r arm, Tok.r ss, Tok.r grad0, Tok.r grad, Tok.r curv, Tok.i dec]) =>
        match cf, cost0, arm, ss, grad0, grad, curv with
        | some cf, some cost0, some arm, some ss, some grad0, some grad, some curv =>
          let P : LSParams Rat := { maxStep := 0, armijo := arm, maxIter := 0 }
          let m := wolfe P cost0 grad0 curv ss ⟨cf, grad, true, true⟩
          if m = (dec == 1) then "ok"
          else if close cf (cost0 + arm * ss * grad0) ∨ close (rabs grad) (-curv * grad0) then "ok-tie wolfe"
          else "diff Wolfe decision"
        | _, _, _, _, _, _, _ => "skip non-finite"
      | ("BRK", [Tok.r _, Tok.r _, Tok.r cf1, Tok.r cf2, Tok.r grad2, Tok.i atb, Tok.i br]) =>
        match cf1, cf2, grad2 with
        | some cf1, some cf2, some grad2 =>
          let m : Int := if grad2 > 0 ∨ cf2 ≥ cf1 then 0 else if atb == 1 then 1 else 2
          if m = br then "ok" else "diff bracketing branch"
        | _, _, _ => "skip non-finite"
      | ("EXT", [Tok.i kind, Tok.r raw, Tok.r ss1, Tok.r ss2, Tok.r mss, Tok.r bound, Tok.i isb, Tok.r ss2', Tok.i atb']) =>
        match raw, ss1, ss2, mss, bound, ss2' with
        | some raw, some ss1, some ss2, some mss, some bound, some ss2' =>
          let P : LSParams Rat := { maxStep := mss, armijo := 0, maxIter := 0 }
          let r := extendClamp P bound (isb == 1) (kind == 0) raw ss1 ss2
          if r.2 = (atb' == 1) then (if close r.1 ss2' then "ok" else "diff extended step")
          else if close r.1 bound ∧ close ss2' bound then "ok-tie extension at the bound"
          else "diff at_bound after extension"
        | _, _, _, _, _, _ => "skip non-finite"
      | ("CUB", [Tok.r ss1, Tok.r ss2, Tok.r raw, Tok.r ss3]) =>
        match ss1, ss2, raw, ss3 with
        | some ss1, some ss2, some raw, some ss3 => if close (cubicClamp ss1 ss2 raw) ss3 then "ok" else "diff cubic clamp"
        | _, _, _, _ => "skip non-finite"
      | ("REF", [Tok.r g3, Tok.r cf3, Tok.r cf1, Tok.i br]) =>
        match g3, cf3, cf1 with
        | some g3, some cf3, some cf1 =>
          let m : Int := if g3 > 0 then 0 else if cf3 < cf1 then 1 else 2
          if m = br then "ok" else "diff refinement branch"
        | _, _, _ => "skip non-finite"
      | _ => "bad-op"

def step (_ : Unit) (ws : List String) : Unit × String := ((), check ws)

end MinimizerDrv
