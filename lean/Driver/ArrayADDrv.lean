import AdeptModel.ArrayAD
import Driver.Common
/-! line-protocol driver of family `arrayad` (C03): every line is one self-contained array statement — the
allocations it touches (gradient base, cells), the views and index vectors, the expression trees and the statement
kind — as assembled by checks/c03.py from the geometry printed by harness/drv_arrayad.cpp.  Numbers are exact
rationals (`n` or `n/d`).

  line   := head { "|" section }
  section:= "sto" sid gbase active n cell*          allocation (cells in address order)
          | "view" sid off rank dim* stride*        view number k = k-th view section
          | "ivec" n i*                             index vector number k
          | "expr" tok*                             expression number k, prefix form:
               a<k> | x<k> m iv*  | c<rat> | add e e | sub e e | mul e e | div e e | neg e | noalias e
               | max e e | min e e | abs e
               | spread d n a<k> | outerL a<k> nb | outerR a<k> na
  head   := "assign" t e tmpSid tmpG W | "assignfx" t e | "bcasta" t c | "bcaste" t e tmpview
          | "evalcopy" t e tmpSid tmpG W
          | "where" t neg ea eb e tmpSid tmpG W | "eitheror" t ea eb ec ed tmpSid tmpG1 tmpG2 W
          | "idx" t m iv* e tmpSid tmpG W | "reduce" f sc tot e rank dim*
          | "rdim" f tot e rank dim* d res | "scalar" t e | "diag" e d0 d1 k res
  output := "T" stmt;stmt;… "| N" cells of the target's allocation     (or `bad-op`)
-/
open Adept Adept.Tape Adept.ArrayAD

namespace ArrayADDrv

def parseRat (s : String) : Option Rat :=
  match s.splitOn "/" with
  | [a] => a.toInt?.map (fun (x : Int) => (x : Rat))
  | [a, b] => match a.toInt?, b.toNat? with
    | some x, some y => if y = 0 then none else some ((x : Rat) / (y : Rat))
    | _, _ => none
  | _ => none

def showRat (q : Rat) : String := if q.den = 1 then toString q.num else s!"{q.num}/{q.den}"

structure Env where
  mem : Mem Rat := []
  views : Array View := #[]
  ivecs : Array (List Nat) := #[]
  exprs : Array (AExpr Rat) := #[]

def nats (l : List String) : Option (List Nat) := l.mapM (·.toNat?)
def ints (l : List String) : Option (List Int) := l.mapM (·.toInt?)

def viewRef (env : Env) (t : String) : Option View :=
  if t.startsWith "a" then (t.drop 1).toString.toNat?.bind (fun k => env.views[k]?) else none

partial def parseExpr (env : Env) : List String → Option (AExpr Rat × List String)
  | [] => none
  | t :: ts =>
    if t == "add" || t == "sub" || t == "mul" || t == "div" || t == "max" || t == "min" then do
      let (a, r1) ← parseExpr env ts
      let (b, r2) ← parseExpr env r1
      pure ((if t == "add" then AExpr.add a b else if t == "sub" then AExpr.sub a b
             else if t == "mul" then AExpr.mul a b else if t == "div" then AExpr.div a b
             else if t == "max" then AExpr.max a b else AExpr.min a b), r2)
    else if t == "neg" then do let (a, r) ← parseExpr env ts; pure (AExpr.neg a, r)
    else if t == "abs" then do let (a, r) ← parseExpr env ts; pure (AExpr.abs a, r)
    else if t == "noalias" then do let (a, r) ← parseExpr env ts; pure (AExpr.noalias a, r)
    else if t == "spread" then
      match ts with
      | d :: n :: a :: r => do
        let d ← d.toNat?; let n ← n.toNat?; let v ← viewRef env a
        -- Spread::is_aliased_ answers false
        pure (AExpr.noalias (AExpr.arr (spreadView v d n)), r)
      | _ => none
    else if t == "outerL" || t == "outerR" then
      match ts with
      | a :: n :: r => do
        let n ← n.toNat?; let v ← viewRef env a
        pure (AExpr.noalias (AExpr.arr (if t == "outerL" then outerL v n else outerR v n)), r)
      | _ => none
    else if t.startsWith "a" then (viewRef env t).map (fun v => (AExpr.arr v, ts))
    else if t.startsWith "x" then
      match ts with
      | m :: r => do
        let k ← (t.drop 1).toString.toNat?; let v ← env.views[k]?; let m ← m.toNat?
        let ids ← nats (r.take m)
        let ivs ← ids.mapM (fun i => env.ivecs[i]?)
        if ids.length ≠ m then none else pure (AExpr.idx v ivs.reverse, r.drop m)
      | _ => none
    else if t.startsWith "c" then (parseRat (t.drop 1).toString).map (fun x => (AExpr.const x, ts))
    else none

def section? (env : Env) (ws : List String) : Option Env :=
  match ws with
  | "sto" :: sid :: g :: a :: n :: cells => do
    let sid ← sid.toNat?; let g ← g.toInt?; let n ← n.toNat?
    let cs ← cells.mapM parseRat
    if cs.length ≠ n then none else
    pure { env with mem := env.mem ++ [(sid, ⟨g.toNat, a == "1", cs⟩)] }
  | "view" :: sid :: off :: rank :: rest => do
    let sid ← sid.toNat?; let off ← off.toInt?; let rank ← rank.toNat?
    if rest.length ≠ 2 * rank then none else
    let d ← nats (rest.take rank); let s ← ints (rest.drop rank)
    pure { env with views := env.views.push ⟨sid, off, d, s⟩ }
  | "ivec" :: n :: rest => do
    let n ← n.toNat?; let l ← nats rest
    if l.length ≠ n then none else pure { env with ivecs := env.ivecs.push l }
  | "expr" :: toks => do
    let (e, r) ← parseExpr env toks
    if r.isEmpty then pure { env with exprs := env.exprs.push e } else none
  | _ => none

def splitBar (ws : List String) : List (List String) :=
  let r := ws.foldl (fun (acc : List (List String) × List String) w =>
    if w == "|" then (acc.1 ++ [acc.2], []) else (acc.1, acc.2 ++ [w])) ([], [])
  r.1 ++ [r.2]

def showStmt (st : Stmt Rat) : String :=
  s!"{st.lhs}:" ++ String.intercalate "," (st.ops.map fun p => s!"{showRat p.1}*{p.2}")

def output (s : St Rat) (sid : Nat) : String :=
  let cells := match s.mem.sto? sid with | some x => x.cells | none => []
  "T " ++ String.intercalate " ; " (s.tape.map showStmt) ++ " | N " ++ String.intercalate " " (cells.map showRat)

def parseF : String → Option RFun
  | "sum" => some .sum | "mean" => some .mean | "product" => some .product
  | "minval" => some .minval | "maxval" => some .maxval | _ => none

def exprRef (env : Env) (t : String) : Option (AExpr Rat) := t.toNat?.bind (fun k => env.exprs[k]?)
def vRef (env : Env) (t : String) : Option View := t.toNat?.bind (fun k => env.views[k]?)

def run (env : Env) (head : List String) : Option String :=
  let s0 : St Rat := ⟨env.mem, []⟩
  match head with
  | ["assign", t, e, ts, tg, w] => do
    let t ← vRef env t; let e ← exprRef env e; let ts ← ts.toNat?; let tg ← tg.toNat?; let w ← w.toNat?
    pure (output (assign t e ts tg w s0) t.sid)
  | ["assignfx", t, e] => do
    let t ← vRef env t; let e ← exprRef env e
    pure (output (assignNoAliasCheck s0.mem.isActive t e s0) t.sid)
  | ["evalcopy", t, e, ts, tg, w] => do
    -- `T = eval(expr)` when the move assignment cannot swap: the temporary is filled, then copied element by element
    let t ← vRef env t; let e ← exprRef env e; let ts ← ts.toNat?; let tg ← tg.toNat?; let w ← w.toNat?
    let (tv, n) := tempView ts t.dims w
    let s1 : St Rat := { s0 with mem := s0.mem ++ [(ts, ⟨tg, true, List.replicate n 0⟩)] }
    let s2 := assignNoAliasCheck s0.mem.isActive tv e s1
    pure (output (assignActive t (.arr tv) s2) t.sid)
  | ["bcaste", t, e, tmp] => do
    -- `T = <rank-0 active expression>`: `Active<EType> x = rhs; *this = x;`
    let t ← vRef env t; let e ← exprRef env e; let tmp ← vRef env tmp
    let s1 := elemStep s0 (tmp.sid, tmp.off) (e.at [])
    pure (output (assignScalar t (tmp.sid, tmp.off) s1) t.sid)
  | ["bcasta", t, c] => do
    let t ← vRef env t; let c ← vRef env c
    pure (output (assignScalar t (c.sid, c.off) s0) t.sid)
  | ["where", t, neg, ea, eb, e, ts, tg, w] => do
    let t ← vRef env t; let ea ← exprRef env ea; let eb ← exprRef env eb; let e ← exprRef env e
    let ts ← ts.toNat?; let tg ← tg.toNat?; let w ← w.toNat?
    pure (output (whereStmt t ⟨neg == "1", ea, eb⟩ e ts tg w s0) t.sid)
  | ["eitheror", t, ea, eb, ec, ed, ts, tg1, tg2, w] => do
    let t ← vRef env t; let ea ← exprRef env ea; let eb ← exprRef env eb; let ec ← exprRef env ec; let ed ← exprRef env ed
    let ts ← ts.toNat?; let tg1 ← tg1.toNat?; let tg2 ← tg2.toNat?; let w ← w.toNat?
    pure (output (eitherOr t ⟨false, ea, eb⟩ ec ed ts tg1 tg2 w s0) t.sid)
  | "idx" :: t :: m :: rest => do
    let t ← vRef env t; let m ← m.toNat?
    let ids ← nats (rest.take m)
    let ivs ← ids.mapM (fun i => env.ivecs[i]?)
    match rest.drop m with
    | [e, ts, tg, w] => do
      let e ← exprRef env e; let ts ← ts.toNat?; let tg ← tg.toNat?; let w ← w.toNat?
      if ids.length ≠ m then none else
      pure (output (idxStmt t ivs.reverse e ts tg w s0) t.sid)
    | _ => none
  | "reduce" :: f :: sc :: tot :: e :: rank :: dims => do
    let f ← parseF f; let sc ← vRef env sc; let tot ← vRef env tot; let e ← exprRef env e
    let rank ← rank.toNat?; let d ← nats dims
    if d.length ≠ rank then none else
    pure (output (reduceAll f (sc.sid, sc.off) (tot.sid, tot.off) e d.reverse s0) sc.sid)
  | "rdim" :: f :: tot :: e :: rank :: rest => do
    let f ← parseF f; let tot ← vRef env tot; let e ← exprRef env e; let rank ← rank.toNat?
    let d ← nats (rest.take rank)
    match rest.drop rank with
    | [dim, res] => do
      let dim ← dim.toNat?; let res ← vRef env res
      if d.length ≠ rank || dim ≥ rank then none else
      pure (output (reduceDimLit f (tot.sid, tot.off) e d.reverse (rank - 1 - dim) res s0) res.sid)
    | _ => none
  | ["diag", e, d0, d1, k, res] => do
    let e ← exprRef env e; let d0 ← d0.toNat?; let d1 ← d1.toNat?; let k ← k.toInt?; let res ← vRef env res
    pure (output (diagVector e d0 d1 k res s0) res.sid)
  | ["scalar", t, e] => do
    let t ← vRef env t; let e ← exprRef env e
    pure (output (elemStep s0 (t.sid, t.off) (e.at [])) t.sid)
  | _ => none

def step (_ : Unit) (ws : List String) : Unit × String :=
  match splitBar ws with
  | head :: secs =>
    match secs.foldlM section? ({} : Env) with
    | some env => match run env head with
      | some out => ((), out)
      | none => ((), "bad-op")
    | none => ((), "bad-op")
  | [] => ((), "bad-op")

end ArrayADDrv
