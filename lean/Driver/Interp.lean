import AdeptModel.Interp
import Driver.Common
/-! line protocol of the `interp` family (same grammar as harness/drv_interp.cpp):

  interp  D T A NARGS OPT EV | knots_1 | .. | knots_D | dims | data | q_1 | .. | q_D     exact regime (`Rat`)
  interpf D T A NARGS OPT EV | ...                                                      float regime (`Float`)

  exact regime: numbers are `p`, `p/q` (q a power of two), `inf`, `-inf`, `nan`; results are exact fractions.
  float regime: numbers are 16 hex digits (the bits of a binary64), or `inf`, `-inf`, `nan`; the model repeats
  the C++ operation order in binary64; results are hex bit patterns (zero of either sign prints as 0000000000000000).
  result: `ok dims=.. vals=..[ jac=..]`, `exc <class>`, or `bad-op`. -/
open Adept Adept.Interp

namespace InterpDrv

instance : HasRound Float := ⟨Float.round⟩     -- C `round()`

def isDigits (s : String) : Bool := !s.isEmpty && s.all Char.isDigit

/-- how numbers of type `α` travel over the protocol -/
structure Codec (α : Type) where
  parse : String → Option (Ext α)
  fmtFin : α → String
  isZero : α → Bool

def parseRat (s : String) : Option (Ext Rat) :=
  if s = "nan" then some .nan
  else if s = "inf" then some .pinf
  else if s = "-inf" then some .ninf
  else
    let (a, b) := match s.splitOn "/" with
      | [a] => (a, "1")
      | [a, b] => (a, b)
      | _ => ("", "")
    let neg := a.startsWith "-"
    let a' := if neg then (a.drop 1).toString else a
    if !isDigits a' || !isDigits b || a'.length > 15 || b.length > 15 then none else
    match a'.toNat?, b.toNat? with
    | some p, some q =>
      if q = 0 || q &&& (q - 1) ≠ 0 then none   -- dyadic only
      else some (.fin (mkRat (if neg then -(p : Int) else p) q))
    | _, _ => none

def fmtRat (r : Rat) : String :=
  if r.den = 1 then toString r.num else toString r.num ++ "/" ++ toString r.den

def ratCodec : Codec Rat := { parse := parseRat, fmtFin := fmtRat, isZero := fun r => r.num == 0 }

def hexVal (c : Char) : Option Nat :=
  if '0' ≤ c ∧ c ≤ '9' then some (c.toNat - '0'.toNat)
  else if 'a' ≤ c ∧ c ≤ 'f' then some (c.toNat - 'a'.toNat + 10)
  else none

def parseHexFloat (s : String) : Option (Ext Float) :=
  if s = "nan" then some .nan
  else if s = "inf" then some .pinf
  else if s = "-inf" then some .ninf
  else if s.length ≠ 16 then none
  else do
    let ds ← s.toList.mapM hexVal
    let n := ds.foldl (fun acc d => acc * 16 + d) 0
    let f := Float.ofBits (UInt64.ofNat n)
    if f.isNaN || f.isInf then none else some (.fin f)

def fmtHexFloat (f : Float) : String :=
  if f.isNaN then "nan"
  else if f.isInf then (if f > 0 then "inf" else "-inf")
  else if f == 0 then "0000000000000000"
  else
    let ds := Nat.toDigits 16 f.toBits.toNat
    String.ofList (List.replicate (16 - ds.length) '0' ++ ds)

def floatCodec : Codec Float := { parse := parseHexFloat, fmtFin := fmtHexFloat, isZero := fun f => f == 0 }

section
variable {α : Type} [Zero α] [One α] [Add α] [Sub α] [Mul α] [Div α] [LT α] [LE α]
  [DecidableLT α] [DecidableLE α] [HasRound α] (cd : Codec α)

def finite? : Ext α → Option α
  | .fin r => some r
  | _ => none

def fmt : Ext α → String
  | .fin r => cd.fmtFin r
  | .pinf => "inf"
  | .ninf => "-inf"
  | .nan => "nan"

def isZeroE : Ext α → Bool
  | .fin r => cd.isZero r
  | _ => false

def insertSorted (e : Nat × Ext α) : List (Nat × Ext α) → List (Nat × Ext α)
  | [] => [e]
  | f :: r => if e.1 ≤ f.1 then e :: f :: r else f :: insertSorted e r

def fmtRow (row : List (Nat × Ext α)) : String :=
  let nz := row.filter (fun e => !isZeroE cd e.2)
  let sorted := nz.foldr insertSorted []
  ",".intercalate (sorted.map fun e => toString e.1 ++ ":" ++ fmt cd e.2)

def fmtResult (active : Bool) (r : Result α) : String :=
  let s := "ok dims=" ++ ",".intercalate (r.dims.map toString) ++ " vals=" ++ ",".intercalate (r.vals.map (fmt cd))
  if active then s ++ " jac=" ++ ";".intercalate (r.jac.map (fmtRow cd)) else s

def splitSections (ws : List String) : List (List String) :=
  let rec go : List String → List String → List (List String) → List (List String)
    | [], cur, acc => (cur.reverse :: acc).reverse
    | w :: rest, cur, acc => if w = "|" then go rest [] (cur.reverse :: acc) else go rest (w :: cur) acc
  go ws [] []

def parseDims (ws : List String) : Option (List Nat) :=
  ws.mapM fun w => if isDigits w && w.length ≤ 2 then (w.toNat?).bind (fun n => if n ≤ 64 then some n else none) else none

def run (ws : List String) : Option String := do
  let secs := splitSections ws
  let [d, t, a, nargs, opt, ev] ← secs.head? | none
  if !(isDigits d && isDigits t && isDigits a && isDigits nargs && isDigits opt) then none
  if d.length > 9 || t.length > 9 || a.length > 9 || nargs.length > 9 || opt.length > 10 then none
  let D ← d.toNat?; let T ← t.toNat?; let A ← a.toNat?; let N ← nargs.toNat?; let O ← opt.toNat?
  let EV ← cd.parse ev
  if D < 1 || D > 3 || T > 2 || A > 1 || N > 2 || O ≥ 4294967296 then none
  if secs.length ≠ 1 + D + 2 + D then none
  let knots ← ((secs.drop 1).take D).mapM fun s => do
    let l ← s.mapM cd.parse; l.mapM finite?
  let dims ← parseDims (secs.getD (1 + D) [])
  if dims.length ≠ D + T then none
  let dataE ← (secs.getD (2 + D) []).mapM cd.parse
  let data ← dataE.mapM finite?
  if data.length ≠ prod dims then none
  let qs ← ((secs.drop (3 + D)).take D).mapM fun s => s.mapM cd.parse
  -- defaults of the C++ signature: options = LINEAR | DEFAULT, extrap_value = NaN
  let O := if N = 0 then 0 else O
  let EV := if N < 2 then Ext.nan else EV
  let adims := arrayDims dims                 -- the data array as constructed (cleared if a dimension is 0)
  let dat := data.toArray
  let kn := fun (i : Nat) => (knots.getD i []).toArray
  let q := fun (i : Nat) => qs.getD i []
  let res := match D with
    | 1 => interp1 (T ≥ 1 || A = 1) (kn 0) adims dat (q 0) O EV
    | 2 => interp2 (kn 0) (kn 1) adims dat (q 0) (q 1) O EV
    | _ => interp3 (kn 0) (kn 1) (kn 2) adims dat (q 0) (q 1) (q 2) O EV
  match res with
  | .ok r => some (fmtResult cd (A = 1) r)
  | .error e => some ("exc " ++ e.name)
end

def step (s : Unit) (ws : List String) : Unit × String :=
  match ws with
  | "interp" :: rest => (s, (run ratCodec rest).getD "bad-op")
  | "interpf" :: rest => (s, (run floatCodec rest).getD "bad-op")
  | _ => (s, "bad-op")

end InterpDrv
