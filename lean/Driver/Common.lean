/-! shared line-protocol loop for the `adept_model` driver (core Lean only) -/
namespace Adept.Drv

def splitWords (line : String) : List String :=
  (line.trimAscii.toString.splitOn " ").filter (· ≠ "")

partial def lines (h : IO.FS.Stream) (f : σ → List String → σ × String) (s : σ) : IO Unit := do
  let line ← h.getLine
  if line.isEmpty then return ()
  let ws := splitWords line
  if ws.isEmpty then lines h f s else
  let (s', out) := f s ws
  IO.println out
  lines h f s'

/-- run a family: one output line per non-empty input line -/
def runFamily (f : σ → List String → σ × String) (init : σ) : IO Unit := do
  lines (← IO.getStdin) f init

end Adept.Drv
