import AdeptModel.GradAlloc
import Driver.Common
open Adept

namespace GallocDrv
open GradAlloc
/-- handle table: handle ↦ (index, n, scalar?) -/
structure St where
  ga : GA := GradAlloc.stackInit
  tab : List (Nat × Nat × Nat × Bool) := []
def step (s : St) (ws : List String) : St × String :=
  match ws with
  | ["reset"] => ({}, "reset")
  | ["a1", k] => match k.toNat? with
    | some k => let (g, i) := reg1 s.ga
                ({ ga := g, tab := (k, i, 1, true) :: s.tab.filter (·.1 ≠ k) }, observe g (some i))
    | none => (s, "bad-op")
  | [c, k, n] =>
    if c = "av" ∨ c = "af" then
      match k.toNat?, n.toNat? with
      | some k, some n =>
        if c = "af" ∧ (n < 1 ∨ n > 4) then (s, "bad-op") else
        let (g, i) := regN n s.ga
        ({ ga := g, tab := (k, i, n, false) :: s.tab.filter (·.1 ≠ k) }, observe g (some i))
      | _, _ => (s, "bad-op")
    else if c = "avx" then
      -- a block whose data allocation fails: nothing is registered
      match k.toNat?, n.toNat? with
      | some _, some n => if n < 1 then (s, "bad-op") else (s, observe s.ga none)
      | _, _ => (s, "bad-op")
    else if c = "rs" ∨ c = "rsx" then
      -- resize of a block: the old block is released first; `rsx`: the new allocation fails, nothing is registered
      match k.toNat?, n.toNat? with
      | some k, some n =>
        if n < 1 then (s, "bad-op") else
        match s.tab.find? (·.1 = k) with
        | some (_, i, n0, false) =>
          let g := unregN i n0 s.ga
          if c = "rs" then
            let (g, i') := regN n g
            ({ ga := g, tab := (k, i', n, false) :: s.tab.filter (·.1 ≠ k) }, observe g (some i'))
          else ({ ga := g, tab := s.tab.filter (·.1 ≠ k) }, observe g none)
        | _ => (s, "bad-op")
      | _, _ => (s, "bad-op")
    else (s, "bad-op")
  | ["d", k] => match k.toNat? with
    | some k => match s.tab.find? (·.1 = k) with
      | some (_, i, n, sc) =>
        let g := if sc then unreg1 i s.ga else unregN i n s.ga
        ({ ga := g, tab := s.tab.filter (·.1 ≠ k) }, observe g none)
      | none => (s, "bad-op")
    | none => (s, "bad-op")
  | ["nr"] => let g := newRecording s.ga; ({ s with ga := g }, observe g none)
  | ["pause"] => (s, observe s.ga none)   -- registration is independent of pausing
  | ["cont"] => (s, observe s.ga none)
  | _ => (s, "bad-op")
end GallocDrv
