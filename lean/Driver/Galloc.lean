import AdeptModel.GradAlloc
import AdeptModel.GradObj
import Driver.Common
open Adept

/-! line protocol of the `galloc` family (property C08): histories of object-level operations run on the object layer
    `AdeptModel/GradObj.lean`, which calls the allocator model `AdeptModel/GradAlloc.lean`; one observation line per operation.
    The protocol is documented at the top of harness/drv_galloc.cpp. -/
namespace GallocDrv
open GradAlloc GradObj

structure St where
  os : OS := {}
  verbose : Bool := false

def natList? (ws : List String) : Option (List Nat) := ws.mapM (·.toNat?)

/-- `f<i>` or `r<lo>:<hi>:<st>` -/
def ix? (w : String) : Option Ix :=
  if w.startsWith "f" then (w.drop 1).toString.toNat?.map Ix.fix
  else if w.startsWith "r" then
    match (w.drop 1).toString.splitOn ":" with
    | [a, b, c] => match a.toNat?, b.toNat?, c.toNat? with
      | some a, some b, some c => some (Ix.rng a b c)
      | _, _, _ => none
    | _ => none
  else none

def insertSorted (x : Nat × String) : List (Nat × String) → List (Nat × String)
  | [] => [x]
  | y :: ys => if x.1 ≤ y.1 then x :: y :: ys else y :: insertSorted x ys

def idxList (bs : List Blk) : String := String.intercalate "," (bs.map fun b => toString b.1)

def ownStr (o : OwnObj) : String :=
  if o.tag = 4 then "I[]"
  else if o.tag = 1 ∨ o.tag = 5 then "F[" ++ String.intercalate "," (o.bs.map fun b => s!"{b.1}+{b.2}") ++ "]"
  else if o.tag = 2 then s!"V[{idxList o.bs}]c{o.cap}"
  else if o.tag = 3 then s!"B[{idxList o.bs}]"
  else s!"S[{idxList o.bs}]"

def arrStr (s : OS) (a : ArrObj) : String :=
  match a.st with
  | none => match a.g with
    | none => s!"A{a.kind}[e]"
    | some g => s!"A{a.kind}[e!{g}]"
  | some sid =>
    let g := match a.g with | some g => toString g | none => "-9999"
    -- slots spanned: 0 for an empty view (all extents zero)
    let sp := if a.dims.any (fun d => d == 0) then 0 else ext a.dims a.strides + 1
    match findStor s sid with
    | some t => s!"A{a.kind}[{g}+{sp}@{t.gi}/{t.n}/{t.links}~{a.off}]"
    | none => s!"A{a.kind}[{g}+{ext a.dims a.strides + 1}@dangling]"

/-- all live objects, by handle -/
def dump (s : OS) : String :=
  let l1 := s.owns.foldl (fun acc p => insertSorted (p.1, ownStr p.2) acc) []
  let l2 := s.arrs.foldl (fun acc p => insertSorted (p.1, arrStr s p.2) acc) l1
  String.join (l2.map fun p => s!" {p.1}={p.2}")

def obs (st : St) (ret : Option Nat) : String :=
  let base := observe st.os.ga ret
  let base := if st.os.ub then base ++ " UB" else base
  if st.verbose then base ++ " |" ++ dump st.os else base

/-- run an object-level operation; `retOf` picks the index reported in the first field -/
def doOp (st : St) (op : OOp) (retOf : OS → Option Nat := fun _ => none) : St × String :=
  match expand st.os op with
  | none => (st, "bad-op")
  | some ps =>
    let os' := prun st.os ps
    let st' := { st with os := os' }
    (st', obs st' (retOf os'))

def ownIdx (h : Nat) (s : OS) : Option Nat :=
  match s.owns.lookup h with
  | some o => o.bs.head?.map (·.1)
  | none => none
def arrIdx (h : Nat) (s : OS) : Option Nat :=
  match s.arrs.lookup h with
  | some a => a.g
  | none => none

def isVecArr (s : OS) (h : Nat) : Bool :=
  match s.arrs.lookup h with
  | some a => a.kind == 1
  | none => false

/-- shape of the initializer lists the harness writes, by rank (harness/drv_galloc.cpp, LIST_SHAPES) -/
-- rank 7: `Array<7,…>` cannot be instantiated in the pinned tree (non-template `permute` with `enable_if<(Rank < 7)>`)
def listShape : Nat → Option (List Nat)
  | 1 => some [3]
  | 2 => some [2, 3]
  | 3 => some [2, 1, 2]
  | 4 => some [1, 2, 1, 2]
  | 5 => some [2, 1, 1, 2, 1]
  | 6 => some [1, 1, 2, 1, 1, 2]
  | _ => none

def step (st : St) (ws : List String) : St × String :=
  match ws with
  | ["il", k, cls, r, v] => match k.toNat?, cls.toNat?, r.toNat?, v.toNat? with
    | some k, some cls, some r, some v =>
      match listShape r with
      | some dims =>
        if v > 1 ∨ cls > 3 then (st, "bad-op")
        else if cls < 2 then doOp st (.listArr k dims (cls == 0))
        else doOp st (.listFixed k dims (cls == 2))
      | none => (st, "bad-op")
    | _, _, _, _ => (st, "bad-op")
  | ["al", k, v] => match k.toNat?, v.toNat? with
    | some k, some v =>
      if v > 1 then (st, "bad-op")
      else match st.os.arrs.lookup k with
        | some a => match listShape a.kind with
          | some dims => doOp st (.assignList k dims)
          | none => (st, "bad-op")
        | none => doOp st (.assignList k [])
    | _, _ => (st, "bad-op")
  | "lt" :: k :: src :: spec => match k.toNat?, src.toNat?, spec.mapM ix? with
    | some k, some src, some spec => doOp st (.linkTemp k src spec)
    | _, _, _ => (st, "bad-op")
  | ["reset"] => ({}, "reset")
  | ["cfg", p, v] => match p.toNat?, v.toNat? with
    | some p, some v => if p < 1 then (st, "bad-op") else ({ st with os := { st.os with packet := p }, verbose := v != 0 }, "cfg")
    | _, _ => (st, "bad-op")
  | ["nr"] => doOp st .newRec
  | ["pause"] => (st, obs st none)   -- registration is independent of pausing
  | ["cont"] => (st, obs st none)
  | "am" :: k :: kind :: dims => match k.toNat?, kind.toNat?, natList? dims with
    | some k, some kind, some dims => doOp st (.arr k kind dims false)
    | _, _, _ => (st, "bad-op")
  | "amx" :: k :: kind :: dims => match k.toNat?, kind.toNat?, natList? dims with
    | some k, some kind, some dims => if dims.any (· == 0) then (st, "bad-op") else doOp st (.arr k kind dims true)
    | _, _, _ => (st, "bad-op")
  | "rz" :: k :: dims => match k.toNat?, natList? dims with
    | some k, some dims => doOp st (.resize k dims false)
    | _, _ => (st, "bad-op")
  | "rzx" :: k :: dims => match k.toNat?, natList? dims with
    | some k, some dims => if dims.any (· == 0) then (st, "bad-op") else doOp st (.resize k dims true)
    | _, _ => (st, "bad-op")
  | "sl" :: k :: src :: spec => match k.toNat?, src.toNat?, spec.mapM ix? with
    | some k, some src, some spec => doOp st (.slice k src spec)
    | _, _, _ => (st, "bad-op")
  | [c, k] =>
    match k.toNat? with
    | none => (st, "bad-op")
    | some k =>
      if c = "a1" then doOp st (.act k) (ownIdx k)
      else if c = "ap" then doOp st (.act k)
      else if c = "vn" then doOp st (.vecNew k)
      else if c = "vp" then doOp st (.vecPush k)
      else if c = "vo" then doOp st (.vecPop k)
      else if c = "cl" then doOp st (.clear k)
      else if c = "d" then doOp st (.del k)
      else (st, "bad-op")
  | [c, k, n] =>
    match k.toNat?, n.toNat? with
    | some k, some n =>
      if c = "av" then (if n < 1 then (st, "bad-op") else doOp st (.arr k 1 [n] false) (arrIdx k))
      else if c = "af" then (if n < 1 ∨ n > 4 then (st, "bad-op") else doOp st (.fixed k n) (ownIdx k))
      else if c = "avx" then
        -- a block whose data allocation fails: nothing is registered, no object comes to exist
        (if n < 1 then (st, "bad-op") else doOp st (.arr k 1 [n] true))
      else if c = "rs" then
        (if n < 1 ∨ !isVecArr st.os k then (st, "bad-op") else doOp st (.resize k [n] false) (arrIdx k))
      else if c = "rsx" then
        -- resize whose data allocation fails (the old block is released, nothing is registered), then the emptied object is destroyed
        (if n < 1 ∨ !isVecArr st.os k then (st, "bad-op") else
          match expand st.os (.resize k [n] true) with
          | none => (st, "bad-op")
          | some ps =>
            let os1 := prun st.os ps
            match expand os1 (.del k) with
            | none => (st, "bad-op")
            | some ps2 => let st' := { st with os := prun os1 ps2 }; (st', obs st' none))
      else if c = "ac" then (if isAct st.os n then doOp st (.act k) else (st, "bad-op"))
      else if c = "sw" then doOp st (.swapAct k n)
      else if c = "ve" then doOp st (.vecErase k n)
      else if c = "bn" then doOp st (.blkNew k n)
      else if c = "cp" then doOp st (.copy k n)
      else if c = "ln" then doOp st (.link k n)
      else if c = "as" then doOp st (.assign k n)
      else if c = "sa" then doOp st (.swapArr k n)
      else (st, "bad-op")
    | _, _ => (st, "bad-op")
  | [c, k, a, b] => match k.toNat?, a.toNat?, b.toNat? with
    | some k, some a, some b =>
      if !(isAct st.os a && isAct st.os b) then (st, "bad-op")
      else if c = "ae" then doOp st (.act k)
      else if c = "at" then doOp st (.actTemp k)
      else (st, "bad-op")
    | _, _, _ => (st, "bad-op")
  | _ => (st, "bad-op")
end GallocDrv
