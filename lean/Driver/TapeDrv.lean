import AdeptModel.StackProto
import Driver.Common
/-! line-protocol driver of family `tape` (M1/M7/M8 over exact integers); see harness/drv_tape.cpp -/
open Adept Adept.GradAlloc Adept.Tape Adept.StackProto

namespace TapeDrv

/-- prefix expression: `v<h>` | `c<int>` | `add e e` | `sub e e` | `mul e e` | `neg e` -/
partial def parseExpr : List String → Option (RNode × List String)
  | [] => none
  | t :: ts =>
    if t == "add" || t == "sub" || t == "mul" then do
      let (a, r1) ← parseExpr ts
      let (b, r2) ← parseExpr r1
      pure ((if t == "add" then RNode.add a b else if t == "sub" then RNode.sub a b else RNode.mul a b), r2)
    else if t == "neg" then do
      let (a, r1) ← parseExpr ts
      pure (RNode.neg a, r1)
    else if t.startsWith "v" then (t.drop 1).toString.toNat?.map (fun h => (RNode.v h, ts))
    else if t.startsWith "c" then (t.drop 1).toString.toInt?.map (fun x => (RNode.c x, ts))
    else none

def parseOperand (t : String) : Option RNode :=
  match parseExpr [t] with
  | some (e, []) => some e
  | _ => none

def showTape (s : St) : String :=
  let st := s.tape.map fun st =>
    s!"{st.lhs}:" ++ String.intercalate "," (st.ops.map fun p => s!"{p.1}*{p.2}")
  s!"T {s.nStmts} {s.nOps} | " ++ String.intercalate " | " st

def showList (xs : List Int) : String := String.intercalate " " (xs.map toString)

def exc (e : Exc) : String := "EXC " ++ e.name

def parseMode : String → Option JMode
  | "auto" => some .auto | "fwd" => some .fwd | "rev" => some .rev | _ => none

def doAssign (s : St) (k : Nat) (e : RNode) : St × String :=
  match s.var? k with
  | none => (s, exc .unknown_handle)
  | some x => match s.assign k x e with
    | some (s', v) => (s', s!"ok {v}")
    | none => (s, exc .unknown_handle)

def stepInt (s : St) (ws : List String) : St × String :=
  match ws with
  | ["cfg", w, p, o] =>
    match w.toNat?, p.toNat?, o.toNat? with
    | some w, some p, some o => ({ cfg := { W := w, pausable := p != 0, haveOmp := o != 0 } }, "cfg")
    | _, _, _ => (s, "bad-op")
  | ["new", k, v] =>
    match k.toNat?, v.toInt? with
    | some k, some v =>
      let (g, i) := reg1 s.ga
      let s := { s with ga := g }
      let s := if s.isRecording then s.pushLhs i else s
      (s.setVar k ⟨i, v⟩, s!"ok {i}")
    | _, _ => (s, "bad-op")
  | ["newd", k] =>
    match k.toNat? with
    | some k => let (g, i) := reg1 s.ga; (({ s with ga := g }).setVar k ⟨i, 0⟩, s!"ok {i}")
    | none => (s, "bad-op")
  | ["newc", k, i] =>
    match k.toNat?, i.toNat? with
    | some k, some i =>
      let (g, idx) := reg1 s.ga
      let s1 := ({ s with ga := g }).setVar k ⟨idx, 0⟩
      match s1.assign k ⟨idx, 0⟩ (.v i) with
      | some (s2, _) => (s2, s!"ok {idx}")
      | none => (s, exc .unknown_handle)
    | _, _ => (s, "bad-op")
  | ["del", k] =>
    match k.toNat? with
    | some k => match s.var? k with
      | some x => ({ s with ga := unreg1 x.idx s.ga, vars := s.vars.filter (·.1 ≠ k) }, "ok")
      | none => (s, exc .unknown_handle)
    | none => (s, "bad-op")
  | ["setp", k, v] =>
    match k.toNat?, v.toInt? with
    | some k, some v => match s.var? k with
      | some x =>
        let s := if s.isRecording then s.pushLhs x.idx else s
        (s.setVar k { x with val := v }, "ok")
      | none => (s, exc .unknown_handle)
    | _, _ => (s, "bad-op")
  -- the ARRAY forms `y.add_derivative_dependence(x, dy_dx, n, stride)` / `append_…` (Active, ActiveReference,
  -- ActiveConstReference): the linear statement d[k] = Σ mⱼ·d[iⱼ] over the non-zero multipliers; the form and the
  -- multiplier stride do not enter the meaning.  `add` = first term added, the others appended; `append` tests the
  -- left-hand side once (a failed call changes nothing)
  | c :: _form :: k :: _stride :: ":" :: rest =>
    if c == "adepv" || c == "apdepv" then
      let rec pairs : List String → Option (List (Nat × Int))
        | [] => some []
        | i :: m :: tl => match i.toNat?.bind s.var?, m.toInt?, pairs tl with
          | some y, some m, some ps => some ((y.idx, m) :: ps)
          | _, _, _ => none
        | [_] => none
      match k.toNat?.bind s.var?, pairs rest with
      | some x, some ps =>
        if c == "adepv" then (s.addDependenceN x.idx ps, "ok")
        else match s.appendDependenceN x.idx ps with
          | .ok s' => (s', "ok")
          | .error e => (s, exc e)
      | _, _ => (s, exc .unknown_handle)
    else (s, "bad-op")
  | "asg" :: k :: rest =>
    match k.toNat?, parseExpr rest with
    | some k, some (e, []) => if e.isActive then doAssign s k e else (s, "bad-op")
    | _, _ => (s, "bad-op")
  -- `prealloc s|o <n> [m|f]`: Stack::preallocate_statements / preallocate_operations (member or free function) record
  -- nothing and change no gradient: the protocol state is untouched (the buffer sizes are the `recbuf` family's business)
  | "prealloc" :: which :: n :: form =>
    if (which == "s" || which == "o") && n.toNat?.isSome && (form == [] || form == ["m"] || form == ["f"]) then (s, "ok")
    else (s, "bad-op")
  | ["pause"] => (if s.cfg.pausable then { s with recording := false } else s, "ok")
  | ["cont"] => (if s.cfg.pausable then { s with recording := true } else s, "ok")
  | ["nr"] => (newRec s, "ok")
  | ["indep", k] => match k.toNat?.bind s.var? with
    | some x => ({ s with indep := s.indep ++ [x.idx] }, "ok")
    | none => (s, exc .unknown_handle)
  | ["dep", k] => match k.toNat?.bind s.var? with
    | some x => ({ s with dep := s.dep ++ [x.idx] }, "ok")
    | none => (s, exc .unknown_handle)
  -- pointer-and-count forms `Stack::independent(const A* x, n)` / `dependent(const A* x, n)`; n = 0 is allowed
  | "indepn" :: hs => match hs.mapM (fun h => h.toNat?.bind s.var?) with
    | some xs => (s.independentN (xs.map (·.idx)), "ok")
    | none => (s, exc .unknown_handle)
  | "depn" :: hs => match hs.mapM (fun h => h.toNat?.bind s.var?) with
    | some xs => (s.dependentN (xs.map (·.idx)), "ok")
    | none => (s, exc .unknown_handle)
  -- free functions on arrays of Active (Active.h): set_gradients / get_gradients / set_values / get_values
  | "setgn" :: rest =>
    let rec gpairs : List String → Option (List (Nat × Int))
      | [] => some []
      | h :: v :: tl => match h.toNat?.bind s.var?, v.toInt?, gpairs tl with
        | some x, some v, some ps => some ((x.idx, v) :: ps)
        | _, _, _ => none
      | [_] => none
    match gpairs rest with
    | some ps => match s.seedN ps with
      | (s', none) => (s', "ok")
      | (s', some e) => (s', exc e)
    | none => (s, exc .unknown_handle)
  | "getgn" :: hs => match hs.mapM (fun h => h.toNat?.bind s.var?) with
    | some xs => match s.getGradN (xs.map (·.idx)) with
      | .ok gs => (s, "G" ++ String.join (gs.map fun g => s!" {g}"))
      | .error e => (s, exc e)
    | none => (s, exc .unknown_handle)
  | "setvn" :: rest =>
    let rec vpairs : List String → Option (List (Nat × Int))
      | [] => some []
      | h :: v :: tl => match h.toNat?, v.toInt?, vpairs tl with
        | some h, some v, some ps => if (s.var? h).isSome then some ((h, v) :: ps) else none
        | _, _, _ => none
      | [_] => none
    match vpairs rest with
    | some ps => (s.setValuesN ps, "ok")
    | none => (s, exc .unknown_handle)
  | "getvn" :: hs => match hs.mapM (fun h => h.toNat?.bind s.var?) with
    | some xs => (s, "V" ++ String.join (xs.map fun x => s!" {x.val}"))
    | none => (s, exc .unknown_handle)
  | ["clri"] => ({ s with indep := [] }, "ok")
  | ["clrd"] => ({ s with dep := [] }, "ok")
  | ["clrg"] => ({ s with gradInit := false }, "ok")
  | ["seed", k, v] => match k.toNat?.bind s.var?, v.toInt? with
    | some x, some v => match s.seed x.idx v with
      | (s', none) => (s', "ok")
      | (s', some e) => (s', exc e)
    | _, _ => (s, exc .unknown_handle)
  | ["get", k] => match k.toNat?.bind s.var? with
    | some x => match s.getGrad x.idx with
      | .ok g => (s, s!"g {g}")
      | .error e => (s, exc e)
    | none => (s, exc .unknown_handle)
  | ["getr", k, n, ss] => match k.toNat?.bind s.var?, n.toNat?, ss.toNat? with
    | some x, some n, some ss =>
      if ss = 0 then (s, "bad-op") else
      match s.getRange x.idx n ss with
      | .ok gs => (s, "G" ++ String.join (gs.map fun g => s!" {g}"))
      | .error e => (s, exc e)
    | _, _, _ => (s, exc .unknown_handle)
  | "setr" :: k :: vs => match k.toNat?.bind s.var?, vs.mapM String.toInt? with
    | some x, some vs => match s.setRange x.idx vs with
      | (s', none) => (s', "ok")
      | (s', some e) => (s', exc e)
    | _, _ => (s, exc .unknown_handle)
  | ["fwd"] => match s.forward with | .ok s' => (s', "ok") | .error e => (s, exc e)
  | ["rev"] => match s.reverse with | .ok s' => (s', "ok") | .error e => (s, exc e)
  | ["jac", m, "ptr", dO, iO, nc] =>
    match parseMode m, dO.toInt?, iO.toInt?, nc.toNat? with
    | some m, some dO, some iO, some nc => match s.jacPtr m dO iO nc (-777) with
      | .ok xs => (s, "P " ++ showList xs)
      | .error e => (s, exc e)
    | _, _, _, _ => (s, "bad-op")
  | ["jac", m, "matarg", _kind, r, c] =>
    match parseMode m, r.toNat?, c.toNat? with
    | some m, some r, some c => match s.jacMat m r c with
      | .ok xs => (s, s!"J {r} {c} : " ++ showList xs)
      | .error e => (s, exc e)
    | _, _, _ => (s, "bad-op")
  | ["threads", n] => match n.toNat? with
    | some n =>
      if !s.cfg.haveOmp then (s, "ok 1")
      else if n = 1 then ({ s with ompDisabled := true }, "ok 1")
      else if n = 0 then (s, "bad-op")
      else ({ s with ompDisabled := false, maxThreads := n }, s!"ok {n}")
    | none => (s, "bad-op")
  | ["ompstat"] => (s, "O")
  | ["ev"] => (s, "E")
  | ["tape"] => (s, showTape s)
  | ["val", k] => match k.toNat?.bind s.var? with
    | some x => (s, s!"v {x.val}")
    | none => (s, exc .unknown_handle)
  | ["state"] => (s, observe s.ga none)
  -- C11: a second activating `Stack` in the thread always raises `stack_already_active` (Stack::activate) and
  -- leaves the first stack, hence the whole protocol state, untouched; deactivate/activate of the only stack is a no-op
  | ["stack2"] => (s, exc .stack_already_active)
  | ["deact"] => (s, "ok 0")
  | ["act"] => (s, "ok 1")
  | [c, k, o] =>
    if c == "cadd" || c == "csub" || c == "cmul" then
      match k.toNat?, parseOperand o with
      | some k, some e =>
        match s.var? k, e with
        | none, _ => (s, exc .unknown_handle)
        | some x, .c y =>
          -- `x += passive` / `x -= passive` change the value only; `x *= passive` is `x = x * passive`
          if c == "cadd" then (s.setVar k { x with val := x.val + y }, s!"ok {x.val + y}")
          else if c == "csub" then (s.setVar k { x with val := x.val - y }, s!"ok {x.val - y}")
          else doAssign s k (.mul (.v k) (.c y))
        | some _, e =>
          if c == "cadd" then doAssign s k (.add (.v k) e)
          else if c == "csub" then doAssign s k (.sub (.v k) e)
          else doAssign s k (.mul (.v k) e)
      | _, _ => (s, "bad-op")
    else if c == "jac" then
      match parseMode k, o with
      | some m, "mat" => match s.jacMat m s.dep.length s.indep.length with
        | .ok xs => (s, s!"J {s.dep.length} {s.indep.length} : " ++ showList xs)
        | .error e => (s, exc e)
      | _, _ => (s, "bad-op")
    else (s, "bad-op")
  | [c, k, i, m] =>
    if c == "adep" || c == "apdep" then
      match k.toNat?, i.toNat?, m.toInt? with
      | some k, some i, some m =>
        match s.var? k, s.var? i with
        | some x, some y =>
          if c == "adep" then (s.addDependence x.idx y.idx m, "ok")
          else match s.appendDependence x.idx y.idx m with
            | .ok s' => (s', "ok")
            | .error e => (s, exc e)
        | _, _ => (s, exc .unknown_handle)
      | _, _, _ => (s, "bad-op")
    else (s, "bad-op")
  | _ => (s, "bad-op")

/-- statements whose target is an `ActiveReference` (an element of an active array): `operator=(const ActiveReference&)`,
    `operator=(passive)`, `operator+= -= *=` with a passive right-hand side (ActiveReference.h) record what the same statements
    on an `Active` record: `rasg k i` = `asg k v<i>`, `rsetp` = `setp`, `rcadd|rcsub|rcmul k c<y>` = `cadd|csub|cmul k c<y>` -/
def stepIntR (s : St) (ws : List String) : St × String :=
  match ws with
  | ["rasg", k, i] => if i.toNat?.isSome then stepInt s ["asg", k, "v" ++ i] else (s, "bad-op")
  | ["rsetp", k, v] => stepInt s ["setp", k, v]
  | ["rcadd", k, o] => if o.startsWith "c" then stepInt s ["cadd", k, o] else (s, "bad-op")
  | ["rcsub", k, o] => if o.startsWith "c" then stepInt s ["csub", k, o] else (s, "bad-op")
  | ["rcmul", k, o] => if o.startsWith "c" then stepInt s ["cmul", k, o] else (s, "bad-op")
  | _ => stepInt s ws

/-! ### binary64 tapes (C02 / C13 law-free tie)

The same generic definitions of `AdeptModel/Tape.lean` instantiated at `Float` (IEEE binary64; `+` and `*` are the machine
operations, no fused multiply-add).  The tape is given explicitly (the check takes it from the implementation's own dump);
every number crosses the protocol as the 16 hex digits of its bit pattern, any NaN as `nan`.

    ftape <W> <maxGrad> | lhs:BITS*idx,BITS*idx | lhs: | …      the recording               -> ok <statements> <operations>
    findep i …   /   fdep i …                                    gradient indices            -> ok <count>
    fjac <auto|fwd|rev> <threads> <dO> <iO> <ncells> [ib …]      raw-pointer Jacobian        -> P BITS …
          threads = 1: serial routine; > 1 and more than one block: OpenMP routine, blocks executed in the order given
          (default 0,1,2,…); cells pre-filled with -777
    fsweep <fwd|rev> idx:BITS … | q …                            compute_tangent_linear / compute_adjoint on the seeded
                                                                 vector, gradients read at q … -> g BITS …
-/

instance : Zero Float := ⟨Float.ofBits 0⟩
instance : One Float := ⟨Float.ofBits 0x3FF0000000000000⟩

/-- `a != 0.0` of the C++ on doubles (`-0.0` is zero, a NaN is not) -/
def fnz (a : Float) : Bool := a != Float.ofBits 0

structure FSt where
  W : Nat := 4
  maxGrad : Nat := 0
  tape : List (Stmt Float) := []
  indep : List Nat := []
  dep : List Nat := []

structure XSt where
  base : St := {}
  f : FSt := {}

def hexDigit? (c : Char) : Option Nat :=
  if '0' ≤ c ∧ c ≤ '9' then some (c.toNat - '0'.toNat)
  else if 'a' ≤ c ∧ c ≤ 'f' then some (c.toNat - 'a'.toNat + 10)
  else none

/-- exactly 16 lower-case hex digits, or `nan` -/
def parseBits (s : String) : Option Float :=
  if s == "nan" then some (Float.ofBits 0x7FF8000000000000) else
  if s.length ≠ 16 then none else
  (s.toList.foldl (fun acc c => match acc, hexDigit? c with
    | some a, some d => some (a * 16 + d)
    | _, _ => none) (some 0)).map fun n => Float.ofBits n.toUInt64

def hexChar (d : Nat) : Char := if d < 10 then Char.ofNat ('0'.toNat + d) else Char.ofNat ('a'.toNat + d - 10)

def showBits (x : Float) : String :=
  if x.isNaN then "nan" else
  let n := x.toBits.toNat
  String.ofList ((List.range 16).map fun k => hexChar ((n >>> (4 * (15 - k))) % 16))

def showFloats (xs : List Float) : String := String.intercalate " " (xs.map showBits)

/-- `BITS*idx` -/
def parseFOp (s : String) : Option (Float × Nat) :=
  match s.splitOn "*" with
  | [m, i] => match parseBits m, i.toNat? with
    | some m, some i => some (m, i)
    | _, _ => none
  | _ => none

/-- `lhs:op,op,…` (`lhs:` = no operation) -/
def parseFStmt (s : String) : Option (Stmt Float) :=
  match s.splitOn ":" with
  | [l, r] => match l.toNat? with
    | none => none
    | some lhs =>
      if r.isEmpty then some ⟨lhs, []⟩
      else ((r.splitOn ",").foldr (fun o acc => match parseFOp o, acc with
        | some p, some ps => some (p :: ps)
        | _, _ => none) (some [])).map fun ops => ⟨lhs, ops⟩
  | _ => none

def parseNats (ws : List String) : Option (List Nat) :=
  ws.foldr (fun w acc => match w.toNat?, acc with
    | some n, some ns => some (n :: ns)
    | _, _ => none) (some [])

def fjac (f : FSt) (mode : JMode) (threads : Nat) (depOff indepOff : Int) (ncells : Nat) (sched : List Nat) :
    Option (List Float) :=
  if f.indep.isEmpty || f.dep.isEmpty then none else
  let n := f.indep.length
  let m := f.dep.length
  let dO : Nat := if depOff ≤ 0 then n else depOff.toNat
  let iO : Nat := if indepOff ≤ 0 then m else indepOff.toNat
  let c : JacCfg := { W := f.W, maxGrad := f.maxGrad, depOff := dO, indepOff := iO }
  let out : List Float := List.replicate ncells (Float.ofInt (-777))
  let forward := match mode with | .auto => chooseForward n m | .fwd => true | .rev => false
  let count := if forward then n else m
  let nb := (count + f.W - 1) / f.W
  let sched := if sched.isEmpty then List.range nb else sched
  if forward then
    if useOmp true (threads == 1) n f.W threads then some (jacFwdOmp f.tape c f.indep f.dep sched out)
    else some (jacFwdSerial f.tape c f.indep f.dep out)
  else
    if useOmp true (threads == 1) m f.W threads then some (jacRevOmpB fnz f.tape c f.indep f.dep sched out)
    else some (jacRevSerialB fnz f.tape c f.indep f.dep out)

def stepF (f : FSt) (ws : List String) : FSt × String :=
  match ws with
  | "ftape" :: w :: mg :: rest =>
    match w.toNat?, mg.toNat? with
    | some w, some mg =>
      if w = 0 then (f, "bad-op") else
      let toks := rest.filter (· ≠ "|")
      match toks.foldr (fun s acc => match parseFStmt s, acc with
          | some st, some sts => some (st :: sts)
          | _, _ => none) (some []) with
      | some t => ({ f with W := w, maxGrad := mg, tape := t, indep := [], dep := [] },
          s!"ok {t.length + 1} {(t.map (·.ops.length)).sum}")
      | none => (f, "bad-op")
    | _, _ => (f, "bad-op")
  | "findep" :: rest => match parseNats rest with
    | some l => ({ f with indep := l }, s!"ok {l.length}")
    | none => (f, "bad-op")
  | "fdep" :: rest => match parseNats rest with
    | some l => ({ f with dep := l }, s!"ok {l.length}")
    | none => (f, "bad-op")
  | "fjac" :: m :: th :: dO :: iO :: nc :: rest =>
    match parseMode m, th.toNat?, dO.toInt?, iO.toInt?, nc.toNat?, parseNats rest with
    | some m, some th, some dO, some iO, some nc, some sched =>
      if th = 0 then (f, "bad-op") else
      match fjac f m th dO iO nc sched with
      | some xs => (f, "P " ++ showFloats xs)
      | none => (f, "EXC dependents_or_independents_not_identified")
    | _, _, _, _, _, _ => (f, "bad-op")
  | "fsweep" :: dir :: rest =>
    let seeds := rest.takeWhile (· ≠ "|")
    let qs := (rest.dropWhile (· ≠ "|")).drop 1
    let g0 : Option (List Float) := seeds.foldl (fun acc s => match acc, s.splitOn ":" with
      | some g, [i, v] => match i.toNat?, parseBits v with
        | some i, some v => some (g.set i v)
        | _, _ => none
      | _, _ => none) (some (List.replicate f.maxGrad (0 : Float)))
    match g0, parseNats qs with
    | some g, some qs =>
      if dir == "fwd" then (f, "g " ++ showFloats (qs.map (rd (fwd f.tape g))))
      else if dir == "rev" then (f, "g " ++ showFloats (qs.map (rd (revZ fnz f.tape g))))
      else (f, "bad-op")
    | _, _ => (f, "bad-op")
  | _ => (f, "bad-op")

/-- the family `tape`: the integer protocol (`stepInt`) and the binary64 operations (`stepF`) side by side -/
def step (s : XSt) (ws : List String) : XSt × String :=
  match ws with
  | c :: _ =>
    if c == "ftape" || c == "findep" || c == "fdep" || c == "fjac" || c == "fsweep" then
      let (f, out) := stepF s.f ws
      ({ s with f := f }, out)
    else
      let (b, out) := stepIntR s.base ws
      ({ s with base := b }, out)
  | [] => (s, "bad-op")

end TapeDrv
