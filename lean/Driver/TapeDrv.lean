import AdeptModel.StackProto
import Driver.Common
/-! line-protocol driver of family `tape` (M1/M7/M8 over exact integers); see harness/drv_tape.cpp -/
open Adept Adept.GradAlloc Adept.Tape Adept.StackProto

namespace TapeDrv

/-- prefix expression: `v<h>` | `c<int>` | `add e e` | `sub e e` | `mul e e` | `neg e` -/
partial def parseExpr : List String → Option (RNode × List String)
  | [] => none
  | t :: ts =>
    if t == "add" || t == "sub" || t == "mul" then do
      let (a, r1) ← parseExpr ts
      let (b, r2) ← parseExpr r1
      pure ((if t == "add" then RNode.add a b else if t == "sub" then RNode.sub a b else RNode.mul a b), r2)
    else if t == "neg" then do
      let (a, r1) ← parseExpr ts
      pure (RNode.neg a, r1)
    else if t.startsWith "v" then (t.drop 1).toString.toNat?.map (fun h => (RNode.v h, ts))
    else if t.startsWith "c" then (t.drop 1).toString.toInt?.map (fun x => (RNode.c x, ts))
    else none

def parseOperand (t : String) : Option RNode :=
  match parseExpr [t] with
  | some (e, []) => some e
  | _ => none

def showTape (s : St) : String :=
  let st := s.tape.map fun st =>
    s!"{st.lhs}:" ++ String.intercalate "," (st.ops.map fun p => s!"{p.1}*{p.2}")
  s!"T {s.nStmts} {s.nOps} | " ++ String.intercalate " | " st

def showList (xs : List Int) : String := String.intercalate " " (xs.map toString)

def exc (e : Exc) : String := "EXC " ++ e.name

def parseMode : String → Option JMode
  | "auto" => some .auto | "fwd" => some .fwd | "rev" => some .rev | _ => none

def doAssign (s : St) (k : Nat) (e : RNode) : St × String :=
  match s.var? k with
  | none => (s, exc .unknown_handle)
  | some x => match s.assign k x e with
    | some (s', v) => (s', s!"ok {v}")
    | none => (s, exc .unknown_handle)

def step (s : St) (ws : List String) : St × String :=
  match ws with
  | ["cfg", w, p, o] =>
    match w.toNat?, p.toNat?, o.toNat? with
    | some w, some p, some o => ({ cfg := { W := w, pausable := p != 0, haveOmp := o != 0 } }, "cfg")
    | _, _, _ => (s, "bad-op")
  | ["new", k, v] =>
    match k.toNat?, v.toInt? with
    | some k, some v =>
      let (g, i) := reg1 s.ga
      let s := { s with ga := g }
      let s := if s.isRecording then s.pushLhs i else s
      (s.setVar k ⟨i, v⟩, s!"ok {i}")
    | _, _ => (s, "bad-op")
  | ["newd", k] =>
    match k.toNat? with
    | some k => let (g, i) := reg1 s.ga; (({ s with ga := g }).setVar k ⟨i, 0⟩, s!"ok {i}")
    | none => (s, "bad-op")
  | ["newc", k, i] =>
    match k.toNat?, i.toNat? with
    | some k, some i =>
      let (g, idx) := reg1 s.ga
      let s1 := ({ s with ga := g }).setVar k ⟨idx, 0⟩
      match s1.assign k ⟨idx, 0⟩ (.v i) with
      | some (s2, _) => (s2, s!"ok {idx}")
      | none => (s, exc .unknown_handle)
    | _, _ => (s, "bad-op")
  | ["del", k] =>
    match k.toNat? with
    | some k => match s.var? k with
      | some x => ({ s with ga := unreg1 x.idx s.ga, vars := s.vars.filter (·.1 ≠ k) }, "ok")
      | none => (s, exc .unknown_handle)
    | none => (s, "bad-op")
  | ["setp", k, v] =>
    match k.toNat?, v.toInt? with
    | some k, some v => match s.var? k with
      | some x =>
        let s := if s.isRecording then s.pushLhs x.idx else s
        (s.setVar k { x with val := v }, "ok")
      | none => (s, exc .unknown_handle)
    | _, _ => (s, "bad-op")
  -- the ARRAY forms `y.add_derivative_dependence(x, dy_dx, n, stride)` / `append_…` (Active, ActiveReference,
  -- ActiveConstReference): the linear statement d[k] = Σ mⱼ·d[iⱼ] over the non-zero multipliers; the form and the
  -- multiplier stride do not enter the meaning.  `add` = first term added, the others appended; `append` tests the
  -- left-hand side once (a failed call changes nothing)
  | c :: _form :: k :: _stride :: ":" :: rest =>
    if c == "adepv" || c == "apdepv" then
      let rec pairs : List String → Option (List (Nat × Int))
        | [] => some []
        | i :: m :: tl => match i.toNat?.bind s.var?, m.toInt?, pairs tl with
          | some y, some m, some ps => some ((y.idx, m) :: ps)
          | _, _, _ => none
        | [_] => none
      match k.toNat?.bind s.var?, pairs rest with
      | some x, some ps =>
        if c == "adepv" then (s.addDependenceN x.idx ps, "ok")
        else match s.appendDependenceN x.idx ps with
          | .ok s' => (s', "ok")
          | .error e => (s, exc e)
      | _, _ => (s, exc .unknown_handle)
    else (s, "bad-op")
  | "asg" :: k :: rest =>
    match k.toNat?, parseExpr rest with
    | some k, some (e, []) => if e.isActive then doAssign s k e else (s, "bad-op")
    | _, _ => (s, "bad-op")
  | ["pause"] => (if s.cfg.pausable then { s with recording := false } else s, "ok")
  | ["cont"] => (if s.cfg.pausable then { s with recording := true } else s, "ok")
  | ["nr"] => (newRec s, "ok")
  | ["indep", k] => match k.toNat?.bind s.var? with
    | some x => ({ s with indep := s.indep ++ [x.idx] }, "ok")
    | none => (s, exc .unknown_handle)
  | ["dep", k] => match k.toNat?.bind s.var? with
    | some x => ({ s with dep := s.dep ++ [x.idx] }, "ok")
    | none => (s, exc .unknown_handle)
  | ["clri"] => ({ s with indep := [] }, "ok")
  | ["clrd"] => ({ s with dep := [] }, "ok")
  | ["clrg"] => ({ s with gradInit := false }, "ok")
  | ["seed", k, v] => match k.toNat?.bind s.var?, v.toInt? with
    | some x, some v => match s.seed x.idx v with
      | (s', none) => (s', "ok")
      | (s', some e) => (s', exc e)
    | _, _ => (s, exc .unknown_handle)
  | ["get", k] => match k.toNat?.bind s.var? with
    | some x => match s.getGrad x.idx with
      | .ok g => (s, s!"g {g}")
      | .error e => (s, exc e)
    | none => (s, exc .unknown_handle)
  | ["fwd"] => match s.forward with | .ok s' => (s', "ok") | .error e => (s, exc e)
  | ["rev"] => match s.reverse with | .ok s' => (s', "ok") | .error e => (s, exc e)
  | ["jac", m, "ptr", dO, iO, nc] =>
    match parseMode m, dO.toInt?, iO.toInt?, nc.toNat? with
    | some m, some dO, some iO, some nc => match s.jacPtr m dO iO nc (-777) with
      | .ok xs => (s, "P " ++ showList xs)
      | .error e => (s, exc e)
    | _, _, _, _ => (s, "bad-op")
  | ["jac", m, "matarg", _kind, r, c] =>
    match parseMode m, r.toNat?, c.toNat? with
    | some m, some r, some c => match s.jacMat m r c with
      | .ok xs => (s, s!"J {r} {c} : " ++ showList xs)
      | .error e => (s, exc e)
    | _, _, _ => (s, "bad-op")
  | ["threads", n] => match n.toNat? with
    | some n =>
      if !s.cfg.haveOmp then (s, "ok 1")
      else if n = 1 then ({ s with ompDisabled := true }, "ok 1")
      else if n = 0 then (s, "bad-op")
      else ({ s with ompDisabled := false, maxThreads := n }, s!"ok {n}")
    | none => (s, "bad-op")
  | ["ompstat"] => (s, "O")
  | ["ev"] => (s, "E")
  | ["tape"] => (s, showTape s)
  | ["val", k] => match k.toNat?.bind s.var? with
    | some x => (s, s!"v {x.val}")
    | none => (s, exc .unknown_handle)
  | ["state"] => (s, observe s.ga none)
  -- C11: a second activating `Stack` in the thread always raises `stack_already_active` (Stack::activate) and
  -- leaves the first stack, hence the whole protocol state, untouched; deactivate/activate of the only stack is a no-op
  | ["stack2"] => (s, exc .stack_already_active)
  | ["deact"] => (s, "ok 0")
  | ["act"] => (s, "ok 1")
  | [c, k, o] =>
    if c == "cadd" || c == "csub" || c == "cmul" then
      match k.toNat?, parseOperand o with
      | some k, some e =>
        match s.var? k, e with
        | none, _ => (s, exc .unknown_handle)
        | some x, .c y =>
          -- `x += passive` / `x -= passive` change the value only; `x *= passive` is `x = x * passive`
          if c == "cadd" then (s.setVar k { x with val := x.val + y }, s!"ok {x.val + y}")
          else if c == "csub" then (s.setVar k { x with val := x.val - y }, s!"ok {x.val - y}")
          else doAssign s k (.mul (.v k) (.c y))
        | some _, e =>
          if c == "cadd" then doAssign s k (.add (.v k) e)
          else if c == "csub" then doAssign s k (.sub (.v k) e)
          else doAssign s k (.mul (.v k) e)
      | _, _ => (s, "bad-op")
    else if c == "jac" then
      match parseMode k, o with
      | some m, "mat" => match s.jacMat m s.dep.length s.indep.length with
        | .ok xs => (s, s!"J {s.dep.length} {s.indep.length} : " ++ showList xs)
        | .error e => (s, exc e)
      | _, _ => (s, "bad-op")
    else (s, "bad-op")
  | [c, k, i, m] =>
    if c == "adep" || c == "apdep" then
      match k.toNat?, i.toNat?, m.toInt? with
      | some k, some i, some m =>
        match s.var? k, s.var? i with
        | some x, some y =>
          if c == "adep" then (s.addDependence x.idx y.idx m, "ok")
          else match s.appendDependence x.idx y.idx m with
            | .ok s' => (s', "ok")
            | .error e => (s, exc e)
        | _, _ => (s, exc .unknown_handle)
      | _, _, _ => (s, "bad-op")
    else (s, "bad-op")
  | _ => (s, "bad-op")

end TapeDrv
