import AdeptModel.Storage
import Driver.Common
open Adept

/-! line-protocol driver of the storage life-cycle model (family `storage`); the ops, their preconditions and the
    observation line are those of `harness/drv_storage.cpp` -/
namespace StorageDrv
open Adept.Storage

structure DSt where
  st      : St := {}
  handles : List Nat := []           -- handle of the object at each pool position
  xids    : List (Nat × Bool) := []  -- (handle, is a FixedArray) of each external block, by block number
  labels  : List Nat := []           -- labels[l] = creation number of the Storage printed as S<l>

def posOf (d : DSt) (k : Nat) : Option Nat := d.handles.idxOf? k
def xposOf (d : DSt) (x : Nat) : Option (Nat × Bool) :=
  match d.xids.findIdx? (·.1 = x) with
  | some p => (d.xids[p]?).map (fun e => (p, e.2))
  | none => none

def labelOf (d : DSt) (σ : Nat) : Option Nat := d.labels.idxOf? σ

def join (xs : List String) : String := ",".intercalate xs

def statusStr : Err → String
  | .emptyArray => "exc:empty_array"
  | .sizeMismatch => "exc:size_mismatch"
  | .invalidDimension => "exc:invalid_dimension"
  | .invalidOperation => "exc:invalid_operation"
  | .fault => "fault"
  | .badAccess => "fault"
  | .badOp => "bad-op"

/-- labels in order of first discovery, objects scanned by ascending handle -/
def discover (d : DSt) : DSt :=
  let objs := (d.handles.zip d.st.pool).mergeSort (fun a b => a.1 ≤ b.1)
  let labels := objs.foldl (fun ls (p : Nat × Obj) =>
    match p.2.storage with
    | some σ => if ls.contains σ then ls else ls ++ [σ]
    | none => ls) d.labels
  { d with labels := labels }

def objStr (d : DSt) (k : Nat) (o : Obj) : String :=
  let s := d.st
  let stPart := match o.storage with
    | none => "st=- nl=-"
    | some σ =>
      match labelOf d σ with
      | none => "st=? nl=!"
      | some l =>
        match nLinksOf s σ with
        | .ok n => s!"st=S{l} nl={n}"
        | .error _ => s!"st=S{l} nl=!"
  let atPart := match o.region with
    | .null => s!" at=0 L=- len={o.len}"
    | r =>
      let (wh, live) : String × Bool := match r with
        | .sto σ => match labelOf d σ, s.heap[σ]? with
          | some l, some h => (s!"S{l}+{o.off}", !h.freed)
          | _, _ => ("?", false)
        | .ext x => match d.xids[x]?, s.exts[x]? with
          | some (h, _), some e => (s!"X{h}+{o.off}", e.live)
          | _, _ => ("?", false)
        | .null => ("0", false)
      let base := s!" at={wh} L={if live then 1 else 0} len={o.len}"
      if o.len = 0 then base else
        let vs := match readView s o with
          | .ok vs => join (vs.map toString)
          | .error _ => "!"
        base ++ s!" str={o.stride} v={vs}"
  s!" {k}({stPart}{atPart})"

def observe (d : DSt) (status : String) : DSt × String :=
  let d := discover d
  let objs := (d.handles.zip d.st.pool).mergeSort (fun a b => a.1 ≤ b.1)
  let xs := (d.xids.zip d.st.exts).mergeSort (fun a b => a.1.1 ≤ b.1.1)
  let os := String.join (objs.map (fun p => objStr d p.1 p.2))
  let es := String.join (xs.map (fun p => s!" X{p.1.1}:{if p.2.live then 1 else 0}:{join (p.2.vals.map toString)}"))
  (d, s!"{status} | n={nStorageObjects d.st} |{os} |{es}")

/-- data that is going to be read or written must be addressable (harness: `usable`) -/
def usable (s : St) (o : Obj) : Bool :=
  o.len = 0 || (match readView s o with | .ok _ => true | .error _ => false)

def usableAt (d : DSt) (p : Nat) : Bool :=
  match d.st.pool[p]? with
  | some o => usable d.st o
  | none => false

def nat? (i : Int) : Option Nat := if 0 ≤ i then some i.toNat else none

/-- harness `slice_ok` -/
def sliceOk (d : DSt) (pb : Nat) (lo hi st : Int) : Bool :=
  match d.st.pool[pb]? with
  | some b => let len : Int := b.len
              decide (len > 0 ∧ st ≥ 1 ∧ st ≤ 8 ∧ lo ≥ 0 ∧ lo < len ∧ hi ≥ 0 ∧ hi < len ∧ lo ≤ hi + 1)
  | none => false

/-- run a primitive op that appends a new object with handle `k` -/
def doNew (d : DSt) (k : Nat) (op : Op) : DSt × String :=
  match step d.st op with
  | .ok s' => observe { d with st := s', handles := d.handles ++ [k] } "ok"
  | .error .badOp => (d, "bad-op")
  | .error e => observe d (statusStr e)

/-- run a primitive op on existing objects -/
def doOp (d : DSt) (op : Op) : DSt × String :=
  match step d.st op with
  | .ok s' => observe { d with st := s' } "ok"
  | .error .badOp => (d, "bad-op")
  | .error e => observe d (statusStr e)

/-- a statement with a temporary: `mk` constructs it (appended at position `p`), `body` uses it, and it is destroyed
    at the end of the full expression whether or not `body` threw -/
def withTemp (d : DSt) (mk : List Op) (body : Nat → List Op) : DSt × String :=
  let p := d.st.pool.length
  let rec go (s : St) : List Op → Except Err St
    | [] => .ok s
    | op :: ops => match step s op with
      | .ok s' => go s' ops
      | .error e => .error e
  match go d.st mk with
  | .error .badOp => (d, "bad-op")
  | .error e => observe d (statusStr e)
  | .ok s1 =>
    -- run the body op by op, remembering the last good state (an exception unwinds to here)
    let rec body' (s : St) : List Op → St × Option Err
      | [] => (s, none)
      | op :: ops => match step s op with
        | .ok s' => body' s' ops
        | .error e => (s, some e)
    let (s2, err) := body' s1 (body p)
    match step s2 (.destroy p) with
    | .error e => observe { d with st := s2 } ("fault-in-destructor:" ++ statusStr e)
    | .ok s3 =>
      match err with
      | none => observe { d with st := s3 } "ok"
      | some .badOp => (d, "bad-op")
      | some e => observe { d with st := s3 } (statusStr e)

def stepI (d : DSt) (c : String) (a : List Int) : DSt × String :=
  let bad : DSt × String := (d, "bad-op")
  let skip : DSt × String := (d, "skip-dangling")
  match c, a with
  | "reset", [] => ({}, "reset")
  | "xnew", [x, n, v0] =>
    match nat? x with
    | some x => if (xposOf d x).isSome ∨ n < 1 ∨ n > 16 then bad else
        observe { d with st := xnewAt d.st n.toNat v0, xids := d.xids ++ [(x, false)] } "ok"
    | none => bad
  | "fnew", [x, v0] =>
    match nat? x with
    | some x => if (xposOf d x).isSome then bad else
        observe { d with st := xnewAt d.st 4 v0, xids := d.xids ++ [(x, true)] } "ok"
    | none => bad
  | "xw", [x, i, v] =>
    match nat? x >>= xposOf d, nat? i with
    | some (px, _), some i => doOp d (.xwrite px i v)
    | _, _ => bad
  | "xend", [x] =>
    match nat? x >>= xposOf d with
    | some (px, _) => doOp d (.xend px)
    | none => bad
  | "new", [k, n, v0] =>
    match nat? k with
    | some k => if (posOf d k).isSome ∨ n < 0 ∨ n > 16 then bad else doNew d k (.new n v0)
    | none => bad
  | "newd", [k] =>
    match nat? k with
    | some k => if (posOf d k).isSome then bad else doNew d k .newEmpty
    | none => bad
  | "ext", [k, x, off, n] =>
    match nat? k, nat? x >>= xposOf d, nat? off, nat? n with
    | some k, some (px, false), some off, some n =>
      match d.st.exts[px]? with
      | some e => if (posOf d k).isSome ∨ off + n > e.vals.length ∨ off ≥ e.vals.length then bad
                  else doNew d k (.newExternal px off n)
      | none => bad
    | _, _, _, _ => bad
  | "fsl", [k, x, lo, hi] =>
    match nat? k, nat? x >>= xposOf d, nat? lo, nat? hi with
    | some k, some (px, true), some lo, some hi =>
      if (posOf d k).isSome ∨ hi > 3 ∨ lo > hi then bad else doNew d k (.newExternal px lo (hi - lo + 1))
    | _, _, _, _ => bad
  | "soft", [k, b] =>
    match nat? k, nat? b >>= posOf d with
    | some k, some pb => if (posOf d k).isSome then bad else doNew d k (.softLink pb)
    | _, _ => bad
  | "sl", [k, b, lo, hi, st] =>
    match nat? k, nat? b >>= posOf d with
    | some k, some pb =>
      if (posOf d k).isSome ∨ !sliceOk d pb lo hi st then bad else doNew d k (.slice pb lo.toNat hi.toNat st.toNat)
    | _, _ => bad
  | "link", [x, b] =>
    match nat? x >>= posOf d, nat? b >>= posOf d with
    | some px, some pb => doOp d (.link px pb)
    | _, _ => bad
  | "linksl", [x, b, lo, hi, st] =>
    match nat? x >>= posOf d, nat? b >>= posOf d with
    | some px, some pb =>
      if !sliceOk d pb lo hi st then bad else
      withTemp d [.slice pb lo.toNat hi.toNat st.toNat] (fun p => [.link px p])
    | _, _ => bad
  | "acsl", [x, b, lo, hi, st] =>
    match nat? x >>= posOf d, nat? b >>= posOf d with
    | some px, some pb =>
      if !sliceOk d pb lo hi st then bad else
      if !(usableAt d px && usableAt d pb) then skip else
      withTemp d [.slice pb lo.toNat hi.toNat st.toNat] (fun p => [.assignCopy px p])
    | _, _ => bad
  | "amsl", [x, b, lo, hi, st] =>
    match nat? x >>= posOf d, nat? b >>= posOf d with
    | some px, some pb =>
      if !sliceOk d pb lo hi st then bad else
      if !(usableAt d px && usableAt d pb) then skip else
      withTemp d [.slice pb lo.toNat hi.toNat st.toNat] (fun p => [.assignMove px p])
    | _, _ => bad
  | "amext", [x, e, off, n] =>
    match nat? x >>= posOf d, nat? e >>= xposOf d, nat? off, nat? n with
    | some px, some (pe, false), some off, some n =>
      match d.st.exts[pe]? with
      | some eb => if off + n > eb.vals.length ∨ off ≥ eb.vals.length then bad else
                   if !usableAt d px then skip else
                   withTemp d [.newExternal pe off n] (fun p => [.assignMove px p])
      | none => bad
    | _, _, _, _ => bad
  | "amfix", [x, e, lo, hi] =>
    match nat? x >>= posOf d, nat? e >>= xposOf d, nat? lo, nat? hi with
    | some px, some (pe, true), some lo, some hi =>
      if hi > 3 ∨ lo > hi then bad else
      if !usableAt d px then skip else
      withTemp d [.newExternal pe lo (hi - lo + 1)] (fun p => [.assignMove px p])
    | _, _, _, _ => bad
  | "amfresh", [x, n, v0] =>
    match nat? x >>= posOf d with
    | some px => if n < 0 ∨ n > 16 then bad else
                 if !usableAt d px then skip else
                 withTemp d [.new n v0] (fun p => [.assignMove px p])
    | none => bad
  | "fnrs", [b, n] =>
    match nat? b >>= posOf d with
    | some pb => if n < 0 ∨ n > 16 then bad else withTemp d [.copyCtor pb] (fun p => [.resize p n 0])
    | none => bad
  | "fnw", [b, i, v] =>
    match nat? b >>= posOf d, nat? i with
    | some pb, some i =>
      match d.st.pool[pb]? with
      | some ob => if i ≥ ob.len then bad else
                   if !usableAt d pb then skip else withTemp d [.copyCtor pb] (fun p => [.write p i v])
      | none => bad
    | _, _ => bad
  | "clr", [x] =>
    match nat? x >>= posOf d with
    | some px => doOp d (.clear px)
    | none => bad
  | "del", [x] =>
    match nat? x >>= posOf d with
    | some px =>
      match step d.st (.destroy px) with
      | .ok s' => observe { d with st := s', handles := d.handles.eraseIdx px } "ok"
      | .error .badOp => bad
      | .error e => observe d (statusStr e)
    | none => bad
  | "w", [x, i, v] =>
    match nat? x >>= posOf d, nat? i with
    | some px, some i =>
      match d.st.pool[px]? with
      | some ox => if i ≥ ox.len then bad else
                   if !usableAt d px then skip else doOp d (.write px i v)
      | none => bad
    | _, _ => bad
  | "end", [] =>
    -- delete every live array, ascending handle
    let order := d.handles.mergeSort (fun a b => a ≤ b)
    let d' := order.foldl (fun (acc : DSt × Bool) k =>
      match posOf acc.1 k with
      | some p => match step acc.1.st (.destroy p) with
        | .ok s' => ({ acc.1 with st := s', handles := acc.1.handles.eraseIdx p }, acc.2)
        | .error _ => (acc.1, false)
      | none => (acc.1, false)) (d, true)
    observe d'.1 (if d'.2 then "ok" else "fault")
  | _, [k, b] =>
    if c = "cp" ∨ c = "cpc" ∨ c = "cpm" then
      match nat? k, nat? b >>= posOf d with
      | some k, some pb => if (posOf d k).isSome then bad else doNew d k (.copyCtor pb)
      | _, _ => bad
    else if c = "ac" ∨ c = "am" ∨ c = "amfn" ∨ c = "amdup" then
      match nat? k >>= posOf d, nat? b >>= posOf d with
      | some px, some pb =>
        if !(usableAt d px && usableAt d pb) then skip else
        if c = "ac" then doOp d (.assignCopy px pb)
        else if c = "am" then doOp d (.assignMove px pb)
        else if c = "amfn" then withTemp d [.copyCtor pb] (fun p => [.assignMove px p])
        else withTemp d [.newEmpty, .assignCopy d.st.pool.length pb] (fun p => [.assignMove px p])
      | _, _ => bad
    else bad
  | _, [x, n, v0] =>
    if c = "rs" ∨ c = "rsi" then
      match nat? x >>= posOf d with
      | some px => if n > 16 ∨ n < -4 then bad else doOp d (.resize px n v0)
      | none => bad
    else bad
  | _, _ => bad

def step (d : DSt) (ws : List String) : DSt × String :=
  match ws with
  | [] => (d, "bad-op")
  | c :: args =>
    let nums := args.map String.toInt?
    if nums.all Option.isSome then stepI d c (nums.filterMap id) else (d, "bad-op")

end StorageDrv
