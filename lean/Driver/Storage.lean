import AdeptModel.Storage
import Driver.Common
open Adept

/-! line-protocol driver of the storage life-cycle model (family `storage`); the ops, their preconditions and the
    observation line are those of `harness/drv_storage.cpp` -/
namespace StorageDrv
open Adept.Storage

structure DSt where
  st      : St := {}
  handles : List Nat := []           -- handle of the object at each pool position
  xids    : List (Nat × Bool) := []  -- (handle, is a FixedArray) of each external block, by block number
  labels  : List Nat := []           -- labels[l] = creation number of the Storage printed as S<l>
  bags    : List (List Nat) := List.replicate 9 []    -- handles held in the std::vector<X> of each kind, in order
  caps    : List Nat := List.replicate 9 0            -- capacity() of those vectors

def posOf (d : DSt) (k : Nat) : Option Nat := d.handles.idxOf? k
def xposOf (d : DSt) (x : Nat) : Option (Nat × Bool) :=
  match d.xids.findIdx? (·.1 = x) with
  | some p => (d.xids[p]?).map (fun e => (p, e.2))
  | none => none

def labelOf (d : DSt) (σ : Nat) : Option Nat := d.labels.idxOf? σ

def join (xs : List String) : String := ",".intercalate xs

def statusStr : Err → String
  | .emptyArray => "exc:empty_array"
  | .sizeMismatch => "exc:size_mismatch"
  | .invalidDimension => "exc:invalid_dimension"
  | .invalidOperation => "exc:invalid_operation"
  | .indexOutOfBounds => "exc:index_out_of_bounds"
  | .linkUnderflow => "exc:invalid_operation"
  | .fault => "fault"
  | .badAccess => "fault"
  | .badOp => "bad-op"

def kindIdx : Kind → Nat
  | .vec => 0 | .mat => 1 | .avec => 2 | .symm => 3 | .tri => 4 | .diag => 5 | .adiag => 6 | .asymm => 7 | .dvec => 8

def kindChar : Kind → String
  | .vec => "v" | .mat => "m" | .avec => "a" | .symm => "s" | .tri => "t" | .diag => "g" | .adiag => "G" | .asymm => "S"
  | .dvec => "p"

/-- suffix of the creation commands: `new`, `newm`, `newa`, `news`, `newt`, `newg`, `newG`, `newS`, `newp` -/
def kindOfSuffix : String → Option Kind
  | "" => some .vec | "m" => some .mat | "a" => some .avec | "s" => some .symm | "t" => some .tri
  | "g" => some .diag | "G" => some .adiag | "S" => some .asymm | "p" => some .dvec
  | _ => none

/-- labels in order of first discovery, objects scanned by ascending handle -/
def discover (d : DSt) : DSt :=
  let objs := (d.handles.zip d.st.pool).mergeSort (fun a b => a.1 ≤ b.1)
  let labels := objs.foldl (fun ls (p : Nat × Obj) =>
    match p.2.storage with
    | some σ => if ls.contains σ then ls else ls ++ [σ]
    | none => ls) d.labels
  { d with labels := labels }

def dimStr (o : Obj) (a b : Nat) : String :=
  match o.kind with
  | .mat => s!"{a}x{b}"
  | _ => s!"{a}"

def objStr (d : DSt) (k : Nat) (o : Obj) : String :=
  let s := d.st
  let stPart := match o.storage with
    | none => "st=- nl=-"
    | some σ =>
      match labelOf d σ with
      | none => "st=? nl=!"
      | some l =>
        match nLinksOf s σ, s.heap[σ]? with
        | .ok n, some h => s!"st=S{l} nl={n} sz={h.size}"
        | _, _ => s!"st=S{l} nl=!"
  let lenS := dimStr o o.len o.len1
  let atPart := match o.region with
    | .null => s!" at=0 L=- len={lenS}"
    | r =>
      let (wh, live) : String × Bool := match r with
        | .sto σ => match labelOf d σ, s.heap[σ]? with
          | some l, some h => (s!"S{l}+{o.off}", !h.freed)
          | _, _ => ("?", false)
        | .ext x => match d.xids[x]?, s.exts[x]? with
          | some (h, _), some e => (s!"X{h}+{o.off}", e.live)
          | _, _ => ("?", false)
        | .null => ("0", false)
      let base := s!" at={wh} L={if live then 1 else 0} len={lenS} str={dimStr o o.stride o.stride1}"
      let gi := if o.kind.active && o.storage.isSome then s!" gi={o.off}" else ""
      if (cells o).isEmpty then base ++ gi else
        let vs := match readView s o with
          | .ok vs => join (vs.map toString)
          | .error _ => "!"
        base ++ gi ++ s!" v={vs}"
  s!" {k}(K={kindChar o.kind} {stPart}{atPart})"

def observe (d : DSt) (status : String) : DSt × String :=
  let d := discover d
  let objs := (d.handles.zip d.st.pool).mergeSort (fun a b => a.1 ≤ b.1)
  let xs := (d.xids.zip d.st.exts).mergeSort (fun a b => a.1.1 ≤ b.1.1)
  let os := String.join (objs.map (fun p => objStr d p.1 p.2))
  let es := String.join (xs.map (fun p => s!" X{p.1.1}:{if p.2.live then 1 else 0}:{join (p.2.vals.map toString)}"))
  (d, s!"{status} | n={nStorageObjects d.st} g={d.st.gradReg} f={d.st.failIn} |{os} |{es}")

/-- data that is going to be read or written must be addressable (harness: `usable`) -/
def usable (s : St) (o : Obj) : Bool :=
  (cells o).isEmpty || (match readView s o with | .ok _ => true | .error _ => false)

def usableAt (d : DSt) (p : Nat) : Bool :=
  match d.st.pool[p]? with
  | some o => usable d.st o
  | none => false

def nat? (i : Int) : Option Nat := if 0 ≤ i then some i.toNat else none

def kindAt (d : DSt) (p : Nat) : Option Kind := (d.st.pool[p]?).map (·.kind)

def inBag (d : DSt) (k : Nat) : Bool := d.bags.any (·.contains k)

/-! ### view requests: `<fn> args`, the harness precondition (`view_ok`) -/

def viewNames : List String := ["sl", "row", "col", "sub", "idx", "tr", "diag", "sod", "rsh", "perm", "dm", "il"]

def parseView (fn : String) (a : List Int) : Option ViewFn :=
  match fn, a with
  | "sl", [lo, hi, st] => some (.slice lo hi st)
  | "row", [i, lo, hi, st] => some (.row i lo hi st)
  | "col", [lo, hi, st, j] => some (.col lo hi st j)
  | "sub", [lo0, hi0, st0, lo1, hi1, st1] => some (.sub lo0 hi0 st0 lo1 hi1 st1)
  | "idx", [i] => some (.idx i)
  | "tr", [] => some .transpose
  | "diag", [k] => some (.diag k)
  | "sod", [i0, i1] => some (.subDiag i0 i1)
  | "rsh", [d0, d1] => some (.reshape d0 d1)
  | "perm", [i0, i1] => some (.permute i0 i1)
  | "dm", [] => some .diagMatrix
  | "il", [] => some .inactive
  | _, _ => none

def rangeOk (len : Nat) (lo hi st : Int) : Bool :=
  let l : Int := len
  decide (st ≥ 1 ∧ st ≤ 8 ∧ lo ≥ 0 ∧ lo < l ∧ hi ≥ 0 ∧ hi < l)

def small (x : Int) : Bool := decide (-20 ≤ x ∧ x ≤ 20)

/-- harness `view_ok`: the source has elements, the function exists for its class, indices address the source
    (the library does not test them); ranges may be reversed, diagonals / extents / sub-matrix bounds may be wrong -/
def viewOk (s : St) (b : Obj) (f : ViewFn) : Bool :=
  if b.len = 0 || (b.kind == .mat && b.len1 = 0) || b.region == .null then false else
  if b.storage.isNone && !usable s b then false else
  let special := !b.kind.isArray
  match f with
  | .slice lo hi st => b.kind.isVec && rangeOk b.len lo hi st
  | .row i lo hi st => b.kind == .mat && decide (0 ≤ i ∧ i < (b.len : Int)) && rangeOk b.len1 lo hi st
  | .col lo hi st j => b.kind == .mat && decide (0 ≤ j ∧ j < (b.len1 : Int)) && rangeOk b.len lo hi st
  | .sub lo0 hi0 st0 lo1 hi1 st1 => b.kind == .mat && rangeOk b.len lo0 hi0 st0 && rangeOk b.len1 lo1 hi1 st1
  | .idx i => b.kind == .mat && decide (0 ≤ i ∧ i < (b.len : Int))
  | .transpose => b.kind == .mat || b.kind.isSymm
  | .diag k =>
    if b.kind == .mat then small k && !(b.len = b.len1 && k.natAbs = b.len)
    else special && small k && k.natAbs ≠ b.len
  | .subDiag i0 i1 => (b.kind == .mat || special) && small i0 && small i1
  | .reshape d0 d1 => b.kind == .vec && small d0 && small d1
  | .permute i0 i1 => b.kind == .mat && small i0 && small i1
  | .diagMatrix => (b.kind == .vec || b.kind == .avec) && b.stride ≥ 1
  | .inactive => !(b.kind == .adiag || b.kind == .asymm)

/-- class of the object a view function returns -/
def viewKind (src : Kind) : ViewFn → Kind
  | .slice .. => src
  | .subDiag .. => src
  | .row .. => .vec
  | .col .. => .vec
  | .idx .. => .vec
  | .diag .. => if src == .mat then .vec else src.diagVec
  | .transpose => src
  | .diagMatrix => if src == .avec then .adiag else .diag
  | .inactive => if src == .avec then .dvec else src
  | _ => .mat

/-! ### running model operations -/

/-- run a primitive op that appends a new object with handle `k` (a constructor that throws leaves no object) -/
def doNew (d : DSt) (k : Nat) (op : Op) : DSt × String :=
  match step d.st op with
  | .ok s' => if s'.thrown then observe { d with st := s' } "exc:bad_alloc"
              else observe { d with st := s', handles := d.handles ++ [k] } "ok"
  | .error .badOp => (d, "bad-op")
  | .error e => observe d (statusStr e)

/-- run a primitive op on existing objects -/
def doOp (d : DSt) (op : Op) : DSt × String :=
  match step d.st op with
  | .ok s' => observe { d with st := s' } (if s'.thrown then "exc:bad_alloc" else "ok")
  | .error .badOp => (d, "bad-op")
  | .error e => observe d (statusStr e)

/-- run ops until one throws: the state at that point (the last good state for a rejected request, the state the
    operation left for `std::bad_alloc`) and the status -/
def runOps (s : St) : List Op → St × Option String
  | [] => (s, none)
  | op :: ops => match step s op with
    | .ok s' => if s'.thrown then (s', some "exc:bad_alloc") else runOps s' ops
    | .error e => (s, some (statusStr e))

/-- destroy every object at a position ≥ `p`, last first (temporaries at the end of the full expression, by-value
    parameters at the end of the call, also during unwinding) -/
def dropFrom (s : St) (p : Nat) : Except Err St :=
  let n := s.pool.length - p
  (List.range n).foldl (fun (acc : Except Err St) _ =>
    match acc with
    | .error e => .error e
    | .ok s1 => step s1 (.destroy (s1.pool.length - 1))) (.ok s)

/-- a statement with temporaries: `mk p` constructs them (appended from position `p` on), `body p` uses them; they
    are destroyed at the end of the full expression whether or not something threw -/
def withTemp (d : DSt) (mk : Nat → List Op) (body : Nat → List Op) : DSt × String :=
  let p := d.st.pool.length
  let (s1, e1) := runOps d.st (mk p)
  let (s2, err) := match e1 with
    | some e => (s1, some e)
    | none => runOps s1 (body p)
  match dropFrom s2 p with
  | .error e => observe { d with st := s2 } ("fault-in-destructor:" ++ statusStr e)
  | .ok s3 =>
    match err with
    | none => observe { d with st := s3 } "ok"
    | some "bad-op" => (d, "bad-op")
    | some e => observe { d with st := s3 } e

/-- a new object (handle `k`) built by `mk p` as the LAST of the objects it appends; the ones before it are
    temporaries (a by-value parameter) destroyed afterwards; if something throws no object comes to exist -/
def newVia (d : DSt) (k : Nat) (mk : Nat → List Op) : DSt × String :=
  let p := d.st.pool.length
  let ops := mk p
  let (s1, e1) := runOps d.st ops
  match e1 with
  | some e =>
    match dropFrom s1 p with
    | .error e' => observe { d with st := s1 } ("fault-in-destructor:" ++ statusStr e')
    | .ok s2 => if e = "bad-op" then (d, "bad-op") else observe { d with st := s2 } e
  | none =>
    -- destroy the temporaries p .. (last-1), last first; the result slides down to position p
    let ntemp := s1.pool.length - p - 1
    let r := (List.range ntemp).foldl (fun (acc : Except Err St) i =>
      match acc with
      | .error e => .error e
      | .ok s2 => step s2 (.destroy (p + ntemp - 1 - i))) (.ok s1)
    match r with
    | .error e => observe { d with st := s1 } ("fault-in-destructor:" ++ statusStr e)
    | .ok s2 => observe { d with st := s2, handles := d.handles ++ [k] } "ok"

/-- extents `make<X>(n, v0)` / `byval_resize(x, n)` use for an object of each kind -/
def dims1 (k : Kind) (n : Int) : Int × Int :=
  match k with
  | .mat => (n, 2)
  | _ => (n, 0)

def splitCmd (c : String) : Option (String × String) :=
  ["", "link", "ac", "am", "fn", "fnv", "amfn", "amfnv"].findSome? (fun pre =>
    if c.startsWith pre then
      let rest := (c.drop pre.length).toString
      if viewNames.contains rest then some (pre, rest) else none
    else none)

/-- relocate the elements of a std::vector that grows: each is copy-constructed into the new block, then the old
    ones are destroyed -/
def relocate (d : DSt) (hs : List Nat) : Option DSt :=
  let d1 := hs.foldl (fun (acc : Option DSt) h =>
    match acc with
    | none => none
    | some d =>
      match posOf d h with
      | none => none
      | some p => match step d.st (.copyCtor p) with
        | .ok s' => some { d with st := s', handles := d.handles ++ [h + 1000000] }
        | .error _ => none) (some d)
  hs.foldl (fun (acc : Option DSt) h =>
    match acc with
    | none => none
    | some d =>
      match posOf d h with
      | none => none
      | some p => match step d.st (.destroy p) with
        | .ok s' =>
          let hs' := (d.handles.eraseIdx p).map (fun x => if x = h + 1000000 then h else x)
          some { d with st := s', handles := hs' }
        | .error _ => none) d1

def endAll (d : DSt) : DSt × Bool :=
  -- the std::vectors are cleared first (kind order, elements first to last), then the pool by ascending handle
  let order := d.bags.flatten ++ (d.handles.filter (fun h => !inBag d h)).mergeSort (fun a b => a ≤ b)
  order.foldl (fun (acc : DSt × Bool) k =>
    match posOf acc.1 k with
    | some p => match step acc.1.st (.destroy p) with
      | .ok s' => ({ acc.1 with st := s', handles := acc.1.handles.eraseIdx p }, acc.2)
      | .error _ => (acc.1, false)
    | none => (acc.1, false)) ({ d with bags := List.replicate 9 [], caps := List.replicate 9 0 }, true)

/-- `<form><fn> x b args…`: a view of `b` constructed (form "", "fn", "fnv"), linked to, or assigned to `x` -/
def viewCmd (d : DSt) (c : String) (a : List Int) : DSt × String :=
  let bad : DSt × String := (d, "bad-op")
  let skip : DSt × String := (d, "skip-dangling")
  match splitCmd c, a with
  | some (form, fn), x :: b :: rest =>
    match parseView fn rest, nat? b >>= posOf d with
    | some f, some pb =>
      match d.st.pool[pb]? with
      | none => bad
      | some ob =>
        if !viewOk d.st ob f then bad else
        if form = "" ∨ form = "fn" ∨ form = "fnv" then
          if (form = "fn" ∨ form = "fnv") ∧ fn ≠ "sl" then bad else
          match nat? x with
          | some k =>
            if (posOf d k).isSome then bad
            else if form = "fnv" then newVia d k (fun p => [.copyCtor pb, .view p f])
            else doNew d k (.view pb f)
          | none => bad
        else
          match nat? x >>= posOf d with
          | none => bad
          | some px =>
            if (form = "amfn" ∨ form = "amfnv") ∧ fn ≠ "sl" then bad else
            if kindAt d px ≠ some (viewKind ob.kind f) then bad else
            if form = "link" then withTemp d (fun _ => [.view pb f]) (fun p => [.link px p])
            else if !(usableAt d px && usableAt d pb) then skip
            else if form = "ac" then withTemp d (fun _ => [.view pb f]) (fun p => [.assignCopy px p])
            else if form = "amfnv" then withTemp d (fun p => [.copyCtor pb, .view p f]) (fun p => [.assignMove px (p + 1)])
            else withTemp d (fun _ => [.view pb f]) (fun p => [.assignMove px p])
    | _, _ => bad
  | _, _ => bad

def stepI (d : DSt) (c : String) (a : List Int) : DSt × String :=
  let bad : DSt × String := (d, "bad-op")
  let skip : DSt × String := (d, "skip-dangling")
  match c, a with
  | "reset", [] => ({}, "reset")
  | "xnew", [x, n, v0] =>
    match nat? x with
    | some x => if (xposOf d x).isSome ∨ n < 1 ∨ n > 16 then bad else
        observe { d with st := xnewAt d.st n.toNat v0, xids := d.xids ++ [(x, false)] } "ok"
    | none => bad
  | "fnew", [x, v0] =>
    match nat? x with
    | some x => if (xposOf d x).isSome then bad else
        observe { d with st := xnewAt d.st 4 v0, xids := d.xids ++ [(x, true)] } "ok"
    | none => bad
  | "fnewl", [x, v0] =>
    -- x := new FixedArray<int,false,4>{v0, v0+1, v0+2, v0+3}: the initializer-list constructor; the object owns its memory itself
    match nat? x with
    | some x => if (xposOf d x).isSome then bad else
        observe { d with st := xnewAt d.st 4 v0, xids := d.xids ++ [(x, true)] } "ok"
    | none => bad
  | "inewm", [k, r, v0] =>
    -- k := new intMatrix{{v0,v0+1,v0+2},{v0+3,v0+4,v0+5}} (r = 0) / {{v0,v0+1,v0+2},{v0+3}} (r = 1: the short row is zero-filled)
    match nat? k with
    | some k =>
      if (posOf d k).isSome ∨ r < 0 ∨ r > 1 then bad
      else if r = 0 then doNew d k (.newList .mat 2 3 v0)
      else newVia d k (fun p => [.newList .mat 2 3 v0, .write p 4 0, .write p 5 0])
    | none => bad
  | "ial", [x, n, v0] =>
    -- x = {v0, …, v0+n-1}: assignment of an initializer list to a vector
    match nat? x >>= posOf d with
    | some px =>
      match d.st.pool[px]? with
      | some ox => if n < 1 ∨ n > 4 ∨ !ox.kind.isVec then bad else
                   if !usableAt d px then skip else doOp d (.assignList px n.toNat v0)
      | none => bad
    | none => bad
  | "xw", [x, i, v] =>
    match nat? x >>= xposOf d, nat? i with
    | some (px, _), some i => doOp d (.xwrite px i v)
    | _, _ => bad
  | "xend", [x] =>
    match nat? x >>= xposOf d with
    | some (px, _) => doOp d (.xend px)
    | none => bad
  | "newm", [k, n0, n1, v0] =>
    match nat? k with
    | some k => if (posOf d k).isSome ∨ n0 < -3 ∨ n0 > 8 ∨ n1 < -3 ∨ n1 > 8 then bad else doNew d k (.new .mat n0 n1 v0)
    | none => bad
  | "ext", [k, x, off, n] =>
    match nat? k, nat? x >>= xposOf d, nat? off with
    | some k, some (px, false), some off =>
      match d.st.exts[px]? with
      | some e => if (posOf d k).isSome ∨ n < -3 ∨ (off : Int) + n > e.vals.length ∨ off ≥ e.vals.length then bad
                  else doNew d k (.newExternal px off n)
      | none => bad
    | _, _, _ => bad
  | "extfn", [k, x, off, n] =>
    match nat? k, nat? x >>= xposOf d, nat? off with
    | some k, some (px, false), some off =>
      match d.st.exts[px]? with
      | some e => if (posOf d k).isSome ∨ n < -3 ∨ (off : Int) + n > e.vals.length ∨ off ≥ e.vals.length then bad
                  else doNew d k (.newExternal px off n)
      | none => bad
    | _, _, _ => bad
  | "fdiag", [k, x] =>       -- k := new DiagMatrix(F.diag_matrix()): over the FixedArray's own memory, no Storage
    match nat? k, nat? x >>= xposOf d with
    | some k, some (px, true) => if (posOf d k).isSome then bad else doNew d k (.newExternal px 0 4 true)
    | _, _ => bad
  | "fsl", [k, x, lo, hi] =>
    match nat? k, nat? x >>= xposOf d, nat? lo, nat? hi with
    | some k, some (px, true), some lo, some hi =>
      if (posOf d k).isSome ∨ hi > 3 ∨ lo > hi then bad else doNew d k (.newExternal px lo ((hi - lo + 1 : Nat) : Int))
    | _, _, _, _ => bad
  | "soft", [k, b] =>
    match nat? k, nat? b >>= posOf d with
    | some k, some pb => if (posOf d k).isSome then bad else doNew d k (.softLink pb)
    | _, _ => bad
  | "link", [x, b] =>
    match nat? x >>= posOf d, nat? b >>= posOf d with
    | some px, some pb => doOp d (.link px pb)
    | _, _ => bad
  | "amext", [x, e, off, n] =>
    match nat? x >>= posOf d, nat? e >>= xposOf d, nat? off with
    | some px, some (pe, false), some off =>
      match d.st.exts[pe]? with
      | some eb => if n < -3 ∨ (off : Int) + n > eb.vals.length ∨ off ≥ eb.vals.length ∨ kindAt d px ≠ some .vec then bad else
                   if !usableAt d px then skip else
                   withTemp d (fun _ => [.newExternal pe off n]) (fun p => [.assignMove px p])
      | none => bad
    | _, _, _ => bad
  | "amextfn", [x, e, off, n] =>
    match nat? x >>= posOf d, nat? e >>= xposOf d, nat? off with
    | some px, some (pe, false), some off =>
      match d.st.exts[pe]? with
      | some eb => if n < -3 ∨ (off : Int) + n > eb.vals.length ∨ off ≥ eb.vals.length ∨ kindAt d px ≠ some .vec then bad else
                   if !usableAt d px then skip else
                   withTemp d (fun _ => [.newExternal pe off n]) (fun p => [.assignMove px p])
      | none => bad
    | _, _, _ => bad
  | "amfix", [x, e, lo, hi] =>
    match nat? x >>= posOf d, nat? e >>= xposOf d, nat? lo, nat? hi with
    | some px, some (pe, true), some lo, some hi =>
      if hi > 3 ∨ lo > hi ∨ kindAt d px ≠ some .vec then bad else
      if !usableAt d px then skip else
      withTemp d (fun _ => [.newExternal pe lo ((hi - lo + 1 : Nat) : Int)]) (fun p => [.assignMove px p])
    | _, _, _, _ => bad
  | "amfresh", [x, n, v0] =>
    match nat? x >>= posOf d with
    | some px =>
      match kindAt d px with
      | some k => if n < 0 ∨ n > 8 then bad else
                  if !usableAt d px then skip else
                  withTemp d (fun _ => [.new k (dims1 k n).1 (dims1 k n).2 v0]) (fun p => [.assignMove px p])
      | none => bad
    | none => bad
  | "fnrs", [b, n] =>
    match nat? b >>= posOf d with
    | some pb =>
      match kindAt d pb with
      | some k => if n < -2 ∨ n > 8 then bad else
                  withTemp d (fun _ => [.copyCtor pb]) (fun p => [.resize p (!k.isArray) (dims1 k n).1 (dims1 k n).2 0])
      | none => bad
    | none => bad
  | "fnw", [b, i, v] =>
    match nat? b >>= posOf d, nat? i with
    | some pb, some i =>
      match d.st.pool[pb]? with
      | some ob => if i ≥ (cells ob).length then bad else
                   if !usableAt d pb then skip else withTemp d (fun _ => [.copyCtor pb]) (fun p => [.write p i v])
      | none => bad
    | _, _ => bad
  | "clr", [x] =>
    match nat? x >>= posOf d with
    | some px => doOp d (.clear px)
    | none => bad
  | "del", [x] =>
    match nat? x, nat? x >>= posOf d with
    | some k, some px =>
      if inBag d k then bad else
      match step d.st (.destroy px) with
      | .ok s' => observe { d with st := s', handles := d.handles.eraseIdx px } "ok"
      | .error .badOp => bad
      | .error e => observe d (statusStr e)
    | _, _ => bad
  | "w", [x, i, v] =>
    match nat? x >>= posOf d, nat? i with
    | some px, some i =>
      match d.st.pool[px]? with
      | some ox => if i ≥ (cells ox).length then bad else
                   if !usableAt d px then skip else doOp d (.write px i v)
      | none => bad
    | _, _ => bad
  | "swp", [x, b] =>
    match nat? x >>= posOf d, nat? b >>= posOf d with
    | some px, some pb => doOp d (.swap px pb)
    | _, _ => bad
  | "stdswp", [x, b] =>
    -- std::swap: `X tmp(std::move(a)); a = std::move(b); b = std::move(tmp);` (no move constructor: tmp shares)
    match nat? x >>= posOf d, nat? b >>= posOf d with
    | some px, some pb =>
      if kindAt d px ≠ kindAt d pb then bad else
      if !(usableAt d px && usableAt d pb) then skip else
      withTemp d (fun _ => [.copyCtor px]) (fun p => [.assignMove px pb, .assignMove pb p])
    | _, _ => bad
  | "sum", [k, b, c2] =>
    match nat? k, nat? b >>= posOf d, nat? c2 >>= posOf d with
    | some k, some pb, some pc =>
      if (posOf d k).isSome ∨ kindAt d pb ≠ kindAt d pc ∨ ¬ (kindAt d pb = some .vec ∨ kindAt d pb = some .avec) then bad else
      if !(usableAt d pb && usableAt d pc) then skip else doNew d k (.newSum pb pc)
    | _, _, _ => bad
  | "amsum", [x, b, c2] =>
    match nat? x >>= posOf d, nat? b >>= posOf d, nat? c2 >>= posOf d with
    | some px, some pb, some pc =>
      if kindAt d px ≠ kindAt d pb ∨ kindAt d pb ≠ kindAt d pc ∨ ¬ (kindAt d pb = some .vec ∨ kindAt d pb = some .avec) then bad else
      if !(usableAt d px && usableAt d pb && usableAt d pc) then skip else
      withTemp d (fun _ => [.newSum pb pc]) (fun p => [.assignMove px p])
    | _, _, _ => bad
  | "vpush", [k, b] =>
    match nat? k, nat? b >>= posOf d with
    | some k, some pb =>
      match kindAt d pb with
      | some kd =>
        if (posOf d k).isSome then bad else
        let ki := kindIdx kd
        let bag := d.bags.getD ki []
        let cap := d.caps.getD ki 0
        -- the new element is constructed first, then (if the block is full) the old ones are relocated
        match step d.st (.copyCtor pb) with
        | .error .badOp => bad
        | .error e => observe d (statusStr e)
        | .ok s' =>
          let d1 : DSt := { d with st := s', handles := d.handles ++ [k] }
          let (d2, cap') := if bag.length = cap then
              (relocate d1 bag, if cap = 0 then 1 else 2 * cap)
            else (some d1, cap)
          match d2 with
          | none => observe d "fault"
          | some d2 => observe { d2 with bags := d2.bags.set ki (bag ++ [k]), caps := d2.caps.set ki cap' } "ok"
      | none => bad
    | _, _ => bad
  | "vpop", [k] =>
    match nat? k, nat? k >>= posOf d with
    | some k, some pk =>
      match kindAt d pk with
      | some kd =>
        let ki := kindIdx kd
        let bag := d.bags.getD ki []
        if bag.getLast? ≠ some k then bad else
        match step d.st (.destroy pk) with
        | .ok s' => observe { d with st := s', handles := d.handles.eraseIdx pk, bags := d.bags.set ki bag.dropLast } "ok"
        | .error .badOp => bad
        | .error e => observe d (statusStr e)
      | none => bad
    | _, _ => bad
  | "failnext", [k] =>
    match nat? k with
    | some k => if k > 6 then bad else doOp d (.failNext k)
    | none => bad
  | "end", [] =>
    let d' := endAll d
    observe d'.1 (if d'.2 then "ok" else "fault")
  | _, [k, b] =>
    if c = "cp" ∨ c = "cpc" ∨ c = "cpm" then
      match nat? k, nat? b >>= posOf d with
      | some k, some pb => if (posOf d k).isSome then bad else doNew d k (.copyCtor pb)
      | _, _ => bad
    else if c = "ac" ∨ c = "am" ∨ c = "amfn" ∨ c = "amdup" then
      match nat? k >>= posOf d, nat? b >>= posOf d with
      | some px, some pb =>
        match kindAt d px, kindAt d pb with
        | some ka, some kb =>
          if ka ≠ kb then bad else
          if !(usableAt d px && usableAt d pb) then skip else
          if c = "ac" then doOp d (.assignCopy px pb)
          else if c = "am" then doOp d (.assignMove px pb)
          else if c = "amfn" then withTemp d (fun _ => [.copyCtor pb]) (fun p => [.assignMove px p])
          else withTemp d (fun p => [.newEmpty ka, .assignCopy p pb]) (fun p => [.assignMove px p])
        | _, _ => bad
      | _, _ => bad
    else viewCmd d c a
  | _, _ =>
    -- creation with a kind suffix
    if c.startsWith "newd" then
      match kindOfSuffix (c.drop 4).toString, a with
      | some kd, [k] =>
        match nat? k with
        | some k => if (posOf d k).isSome then bad else doNew d k (.newEmpty kd)
        | none => bad
      | _, _ => bad
    else if c.startsWith "inew" then
      -- k := new X{v0, …, v0+n-1}: a vector constructed from an initializer list
      match kindOfSuffix (c.drop 4).toString, a with
      | some kd, [k, n, v0] =>
        match nat? k with
        | some k => if !kd.isVec ∨ (posOf d k).isSome ∨ n < 1 ∨ n > 4 then bad else doNew d k (.newList kd n.toNat 0 v0)
        | none => bad
      | _, _ => bad
    else if c.startsWith "newfn" then
      -- k := new X(make<X>(n, v0)): a function returning a local array by value
      match kindOfSuffix (c.drop 5).toString, a with
      | some kd, [k, n, v0] =>
        match nat? k with
        | some k => if (posOf d k).isSome ∨ n < -3 ∨ n > 8 then bad
                    else doNew d k (.new kd (dims1 kd n).1 (dims1 kd n).2 v0)
        | none => bad
      | _, _ => bad
    else if c.startsWith "new" then
      match kindOfSuffix (c.drop 3).toString, a with
      | some kd, [k, n, v0] =>
        match nat? k with
        | some k => if kd = .mat ∨ (posOf d k).isSome ∨ n < -3 ∨ n > 16 then bad else doNew d k (.new kd n 0 v0)
        | none => bad
      | _, _ => bad
    else if c = "rs" ∨ c = "rsi" then
      match a with
      | [x, n, v0] =>
        match nat? x >>= posOf d with
        | some px =>
          match kindAt d px with
          | some .mat => bad
          | some kd =>
            if n > 16 ∨ n < -4 then bad
            else if kd.isArray then doOp d (.resize px (c = "rsi") n 0 v0)
            else doOp d (.resize px (c = "rsi") n n v0)        -- SpecialMatrix: rs = resize(n,n), rsi = resize(n)
          | none => bad
        | none => bad
      | _ => bad
    else if c = "rs2" ∨ c = "rsi2" then
      match a with
      | [x, n0, n1, v0] =>
        match nat? x >>= posOf d with
        | some px =>
          match kindAt d px with
          | some kd =>
            if kd.isVec then bad else
            if n0 > 8 ∨ n0 < -4 ∨ n1 > 8 ∨ n1 < -4 then bad
            else if kd.isArray then doOp d (.resize px (c = "rsi2") n0 n1 v0)
            else doOp d (.resize px false n0 n1 v0)            -- SpecialMatrix::resize(dim0, dim1)
          | none => bad
        | none => bad
      | _ => bad
    else
    viewCmd d c a

def step (d : DSt) (ws : List String) : DSt × String :=
  match ws with
  | [] => (d, "bad-op")
  | c :: args =>
    let nums := args.map String.toInt?
    if nums.all Option.isSome then stepI d c (nums.filterMap id) else (d, "bad-op")

end StorageDrv
