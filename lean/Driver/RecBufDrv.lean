import AdeptModel.RecBuf
import Driver.Common
/-! family `recbuf`: one line = one event stream.
    `run <len> <pad> <events…>`  → trajectory of the buffers from capacity `len` with `pad` operations already recorded
    `judge <events…>`            → discipline verdict + adversarial start if any
    events: `c<k>` check, `p` push, `i<num>x<stride>` push_rhs_indices, `l` push_lhs, `r<n>` push_lhs_range,
            `o<n>` preallocate_operations, `s<n>` preallocate_statements -/
open Adept Adept.RecBuf

namespace RecBufDrv

def parseEv (t : String) : Option Ev :=
  if t == "p" then some .push
  else if t == "l" then some .lhs
  else if t.startsWith "c" then (t.drop 1).toString.toNat?.map .check
  else if t.startsWith "r" then (t.drop 1).toString.toNat?.map .lhsRange
  else if t.startsWith "o" then (t.drop 1).toString.toNat?.map .preOps
  else if t.startsWith "s" then (t.drop 1).toString.toNat?.map .preSt
  else if t.startsWith "i" then
    match (t.drop 1).toString.splitOn "x" with
    | [a, b] => do let a ← a.toNat?; let b ← b.toNat?; pure (.pushIdx a b)
    | _ => none
  else none

def parseEvs (ts : List String) : Option (List Ev) := ts.mapM parseEv

def showB (b : B) : String := s!"{b.nOps}/{b.allocOps} {b.nSt}/{b.allocSt}"

def step (_ : Unit) (ws : List String) : Unit × String :=
  match ws with
  | "run" :: len :: pad :: evs =>
    match len.toNat?, pad.toNat?, parseEvs evs with
    | some len, some pad, some es =>
      let b0 := (run (initial len) ((List.replicate pad [Ev.check 1, Ev.push]).flatten)).1
      let r := run b0 es
      ((), s!"{showB b0} -> {showB r.1} fault={r.2}")
    | _, _, _ => ((), "bad-op")
  | "judge" :: evs =>
    match parseEvs evs with
    | some es =>
      let d := disciplined 0 es
      let adv := match findAdversary es 6 with
        | some (l, p) => s!"adversary=len{l},pad{p}"
        | none => "adversary=none"
      let fu := match firstUndisciplined 0 es 0 with | some i => toString i | none => "-"
      ((), s!"disciplined={d} first={fu} {adv}")
    | none => ((), "bad-op")
  | _ => ((), "bad-op")

end RecBufDrv
