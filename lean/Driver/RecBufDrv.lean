import AdeptModel.RecBufSites
import Driver.Common
/-! family `recbuf`: one line = one event stream.
    `run <len> <pad> <events…>`  → trajectory of the buffers from capacity `len` with `pad` operations already recorded
    `judge <events…>`            → discipline verdict + adversarial start if any
    events: `c<k>` check, `p` push, `i<num>x<stride>` push_rhs_indices, `l` push_lhs, `r<n>` push_lhs_range,
            `o<n>` preallocate_operations, `s<n>` preallocate_statements -/
open Adept Adept.RecBuf

namespace RecBufDrv

def parseEv (t : String) : Option Ev :=
  if t == "p" then some .push
  else if t == "l" then some .lhs
  else if t.startsWith "c" then (t.drop 1).toString.toNat?.map .check
  else if t.startsWith "r" then (t.drop 1).toString.toNat?.map .lhsRange
  else if t.startsWith "o" then (t.drop 1).toString.toNat?.map .preOps
  else if t.startsWith "s" then (t.drop 1).toString.toNat?.map .preSt
  else if t.startsWith "i" then
    match (t.drop 1).toString.splitOn "x" with
    | [a, b] => do let a ← a.toNat?; let b ← b.toNat?; pure (.pushIdx a b)
    | _ => none
  else none

def parseEvs (ts : List String) : Option (List Ev) := ts.mapM parseEv

def showEv : Ev → String
  | .check k => s!"c{k}" | .push => "p" | .pushIdx a b => s!"i{a}x{b}" | .lhs => "l"
  | .lhsRange n => s!"r{n}" | .preOps n => s!"o{n}" | .preSt n => s!"s{n}"

def showB (b : B) : String := s!"{b.nOps}/{b.allocOps} {b.nSt}/{b.allocSt}"

def siteOf (kind : String) (x y : Nat) : Option (List Ev) :=
  if kind == "scalarCtor" then some (siteActiveCtor x)
  else if kind == "scalarAssign" then some (siteActiveAssign x)
  else if kind == "refAssign" then some (siteActiveRefAssign x)
  else if kind == "copy1" then some siteActiveCopy1
  else if kind == "copy2" then some siteActiveCopy2
  else if kind == "stackAddDep" then some (siteStackAddDep x)
  else if kind == "stackAppendDep" then some (siteStackAppendDep x)
  else if kind == "arrayAssign" then some (siteArrayAssignArray x y)
  else if kind == "fixedAssign" then some (siteArrayAssignFixed x y)
  else if kind == "specialAssign" then some (siteArrayAssignSpecial x y)
  else if kind == "arrayFromScalar" then some (siteArrayFromScalarArray x)
  else if kind == "fixedFromScalar" then some (siteArrayFromScalarFixed x)
  else if kind == "conditional" then some (siteConditionalArray x (List.replicate y true))
  -- array forms of add_derivative_dependence: x = n (reserved), y = number of non-zero multipliers (pushed)
  else if kind == "activeAddDep" then some (siteActiveAddDep x y)
  else if kind == "activeRefAddDep" then some (siteActiveRefAddDep x y)
  else if kind == "activeConstRefAddDep" then some (siteActiveConstRefAddDep x y)
  else if kind == "elemTemporary" then some siteActiveElemCtor
  else if kind == "diagVectorUpper" then some (siteDiagVectorUpper x y)
  else if kind == "diagVectorLower" then some (siteDiagVectorLower x y)
  else none

def siteKinds : List String :=
  ["scalarCtor", "scalarAssign", "refAssign", "copy1", "copy2", "stackAddDep", "stackAppendDep", "arrayAssign",
   "fixedAssign", "specialAssign", "arrayFromScalar", "fixedFromScalar", "conditional"]

/-- smallest sizes (x ≤ 4, y ≤ 8) and adversarial start from which the site, as regenerated, writes out of range -/
def searchSite (kind : String) : Option (Nat × Nat × Nat × Nat) :=
  (List.range (if kind == "stackAddDep" || kind == "stackAppendDep" then 2 else 5)).findSome? fun x => (List.range 9).findSome? fun y =>
    match siteOf kind x y with
    | some es => (findAdversary es 4).map fun (l, p) => (x, y, l, p)
    | none => none

def step (_ : Unit) (ws : List String) : Unit × String :=
  match ws with
  | "run" :: len :: pad :: evs =>
    match len.toNat?, pad.toNat?, parseEvs evs with
    | some len, some pad, some es =>
      let b0 := (run (initial len) ((List.replicate pad [Ev.check 1, Ev.push]).flatten)).1
      let r := run b0 es
      ((), s!"{showB b0} -> {showB r.1} fault={r.2}")
    | _, _, _ => ((), "bad-op")
  | "runfrom" :: a :: b :: c :: d :: evs =>
    match a.toNat?, b.toNat?, c.toNat?, d.toNat?, parseEvs evs with
    | some a, some b, some c, some d, some es =>
      let r := run ⟨a, b, c, d⟩ es
      ((), s!"{showB r.1} fault={r.2}")
    | _, _, _, _, _ => ((), "bad-op")
  | ["site", kind, x, y] =>
    match x.toNat?, y.toNat? with
    | some x, some y =>
      let es : Option (List Ev) := siteOf kind x y
      match es with
      | some es => ((), String.intercalate " " (es.map showEv))
      | none => ((), "bad-op")
    | _, _ => ((), "bad-op")
  | ["search"] =>
    let rs := siteKinds.filterMap fun k => (searchSite k).map fun (x, y, l, p) =>
      s!"{k}:x={x},y={y},len={l},pad={p}"
    ((), "search " ++ String.intercalate " " rs)
  | "judge" :: evs =>
    match parseEvs evs with
    | some es =>
      let d := disciplined 0 es
      let adv := match findAdversary es 6 with
        | some (l, p) => s!"adversary=len{l},pad{p}"
        | none => "adversary=none"
      let fu := match firstUndisciplined 0 es 0 with | some i => toString i | none => "-"
      ((), s!"disciplined={d} first={fu} {adv}")
    | none => ((), "bad-op")
  | _ => ((), "bad-op")

end RecBufDrv
