import AdeptModel.Views
import AdeptModel.IndexedViews
import Driver.Common
/-! line protocol of the `views` family (same text as harness/drv_views.cpp)

  mode checked|unchecked          which build is modelled (ADEPT_BOUNDS_CHECKING)
  parent rm|cm d0 d1 …            fresh parent Array<r,int> (r ≤ 6), row- or column-major, current view := whole parent
  aparent rm|cm d0 d1 …           the same for an ACTIVE parent Array<r,double,true> (r ≤ 3); the views stay active
  fparent d0 d1 …                 a FixedArray<int,false,d0,…> parent (4 | 3 4 | 3 3 | 2 3 4 | 2 3 4 5; always row-major); the first successful
                                  view-forming operation is executed by FixedArray's own member and yields an Array
  efparent d0 d1 …                a FixedArray<int,false,d0,…> driven through its ELEMENT accessors only (3 2 5 4 | 2 3 1 4 5 |
                                  3 1 4 2 6 5): all-scalar `slice` / `cslice` (rank 1 also `idx` / `cidx`)
  afparent d0 d1 …                the same for an ACTIVE FixedArray<double,true,d0,…> (4 | 3 4 | 2 3 4 | 3 2 5 4)
  slice A0 A1 …                   A = i:E | r:E,E | s:E,E,E | _
                                  only scalar arguments: ELEMENT access (`elemAccess` / `fixedElemAccess`), answer a rank-0 view
                                  E = k | eK (= end - K) | end | (E+E) | (E-E) | (E*E) | (E/E) | (E>E) (max) | (E<E) (min)
  every view-forming op and `ix` may carry the prefix `c` (cslice, csubset, cidx, cT, csoftlink, cix): the member
  is then called on a `const` reference (the const overloads have their own copy of the code; same semantics)
  subset E E E E …                begin/end per dimension
  idx E                           operator[]
  T | permute p0 p1 … | diag k | subdiag b e | reshape d0 d1 … | softlink
  permuteE p0 p1 …                permute(const ExpressionSize<Rank>&);  permuteV p0 p1 … : permute(i0,i1,…) (rank 2..6)
  contig                          is_contiguous() of the current view (state unchanged)
  ix S0 S1 …                      integer-vector indexing A(S0,S1,…) of the current view (state unchanged)
                                  S = i:E | r:E,E | s:E,E,E | _ | v:a,b,… | x:a,b,… | w:K0,K1,… | u:VE:a,b,…
                                  (v: intVector, x: the expression tmp+2 with these values, w: end - tmp with tmp = K's,
                                   u: the integer expression VE over the intVector `v` holding a,b,…, e.g. u:(9-v):1,3,0;
                                   f:a,b,c a FixedArray<int,false,3>; the entry list of v: x: w: u: may be `L|a,b,…` with
                                   L = sOFF.STR | cK.NC | rK.NR: the intVector is a strided / reversed / offset view of a
                                   larger one, or a column / row of an intMatrix, holding exactly these entries)
  an index expression that divides by zero for the dimension it indexes: `err undefined` (never generated)

  answer to a view-forming op:  `ok r=… d=… s=… o=… e=… w=…`  (rank, extents, offsets, data()-parent,
  elements in index order, parent cells changed by writing -(j+1) through element j)  or  `err <class>`;
  for a view of rank ≥ 1 held by an `Array` (every line but the `fparent` line and element accesses) followed by the
  whole-view operations of harness/drv_views_w.h, each on the parent holding its own cell numbers:
  `f=` cells changed by `V = -5`, `a=` by `V += 1000`, `b=` extents|elements of `B = V` (B empty before), `x=` cells
  changed by `V = B*2+3`, `v=` by the move assignment `V2 = <temporary holding B*3+1>` (V2 a copy of the view object),
  `m=` sum(V),maxval(V) (0,0 without elements), `h=` cells changed by `V.where(V > t) = -9` (t = volume/2 of the
  parent), `n=` count(V > t)|find(V > t) for rank 1 (`-` otherwise).
  answer to `ix`:  `err <class>` (the IndexedArray constructor threw)  or  `ok r=… d=… e=E w=W z=Z`:
  E cells read in index order or `!<class>`; W cells changed by assigning -(j+1) to element j, `cell:value;…`,
  followed by `!<class>` if the assignment threw; Z the same for the scalar assignment of -7.
-/
open Adept Adept.Views

namespace ViewsDrv

structure St where
  checked : Bool := false
  vol : Nat := 0
  cur : Option View := none
  /-- 0: passive `Array`, 1: active `Array`, 2: the `FixedArray` parent itself, 3: a `FixedArray` parent driven through
      its element accessors only, 4: the same, active -/
  kind : Nat := 0

def opOfChar : Char → Option BinOp
  | '+' => some .add | '-' => some .sub | '*' => some .mul | '/' => some .div
  | '>' => some .max | '<' => some .min | _ => none

/-- generic expression tree read from the text (leaves: integer, `end`, `v`) -/
inductive PExpr
  | lit (k : Int) | last | idx | bin (op : BinOp) (l r : PExpr)

def takeDigits : List Char → List Char × List Char
  | c :: cs => if c.isDigit then let (d, r) := takeDigits cs; (c :: d, r) else ([], c :: cs)
  | [] => ([], [])

/-- operand := INT | `end` | `v` | `(` operand OP operand `)`; fuel bounds the nesting depth -/
def parseOperand : Nat → List Char → Option (PExpr × List Char)
  | 0, _ => none
  | fuel + 1, cs =>
    match cs with
    | '(' :: r =>
      match parseOperand fuel r with
      | some (l, o :: r2) =>
        match opOfChar o, parseOperand fuel r2 with
        | some op, some (rr, ')' :: r3) => some (.bin op l rr, r3)
        | _, _ => none
      | _ => none
    | 'e' :: 'n' :: 'd' :: r => some (.last, r)
    | 'v' :: r => some (.idx, r)
    | '-' :: r =>
      let (d, r2) := takeDigits r
      if d.isEmpty then none else (String.ofList d).toInt?.map fun k => (.lit (-k), r2)
    | _ =>
      let (d, r2) := takeDigits cs
      if d.isEmpty then none else (String.ofList d).toInt?.map fun k => (.lit k, r2)

def parsePExpr (t : String) : Option PExpr :=
  match parseOperand 12 t.toList with
  | some (e, []) => some e
  | _ => none

def PExpr.toEnd : PExpr → Option EndExpr
  | .lit k => some (.lit k)
  | .last => some .last
  | .idx => none
  | .bin op l r => do let l ← l.toEnd; let r ← r.toEnd; some (.bin op l r)

def PExpr.toVec : PExpr → VExpr
  | .lit k => .lit k
  | .last => .last
  | .idx => .idx
  | .bin op l r => .bin op l.toVec r.toVec

def PExpr.hasIdx : PExpr → Bool
  | .idx => true
  | .bin _ l r => l.hasIdx || r.hasIdx
  | _ => false

def parseEnd (t : String) : Option EndExpr :=
  if t.startsWith "(" || t = "end" then (parsePExpr t).bind PExpr.toEnd
  else if t.startsWith "e" then (t.drop 1).toString.toInt?.map EndExpr.fromEnd
  else t.toInt?.map EndExpr.lit

def parseIx (t : String) : Option Ix :=
  if t = "_" then some Ix.all
  else if t.startsWith "i:" then (parseEnd (t.drop 2).toString).map Ix.at
  else if t.startsWith "r:" then
    match (t.drop 2).toString.splitOn "," with
    | [b, e] => do let b ← parseEnd b; let e ← parseEnd e; some (Ix.range b e)
    | _ => none
  else if t.startsWith "s:" then
    match (t.drop 2).toString.splitOn "," with
    | [b, e, s] => do let b ← parseEnd b; let e ← parseEnd e; let s ← parseEnd s; some (Ix.stride b e s)
    | _ => none
  else none

def pairs : List EndExpr → Option (List (EndExpr × EndExpr))
  | [] => some []
  | b :: e :: r => (pairs r).map ((b, e) :: ·)
  | _ => none

def joinInts (xs : List Int) : String := ",".intercalate (xs.map toString)

/-- of consecutive stores to the same cell the last one remains -/
def dedupLast : List (Int × Int) → List (Int × Int)
  | a :: b :: r => if a.1 = b.1 then dedupLast (b :: r) else a :: dedupLast (b :: r)
  | l => l

/-- the memory image of a sequence of stores (cell, value): sorted by cell, a later store to the same cell wins
    (the merge sort is stable) -/
def sortStores (st : List (Int × Int)) : List (Int × Int) :=
  dedupLast (st.mergeSort (fun a b => decide (a.1 ≤ b.1)))

def writes (cells : List Int) : List (Int × Int) :=
  sortStores (cells.zipIdx.map fun (c, j) => (c, -((j : Int) + 1)))

def showPairs (l : List (Int × Int)) : String := ";".intercalate (l.map fun (c, x) => s!"{c}:{x}")

/-- the whole-view operations of harness/drv_views_w.h on a view of a parent of `vol` cells holding their own numbers:
    everything follows from the list of cells the view denotes -/
def wholeOps (vol : Nat) (v : View) : String :=
  let cells := (allIndices v.dims).map (addr v)
  let img := fun (f : Int → Int) => showPairs (sortStores (cells.map fun c => (c, f c)))
  let t : Int := ((vol / 2 : Nat) : Int)
  let sum := cells.foldl (· + ·) 0
  let mx := match cells with
    | [] => 0
    | c :: cs => cs.foldl (fun a b => if a < b then b else a) c
  let above := cells.filter (fun c => decide (c > t))
  let n := if v.dims.length = 1 then
      let pos := (cells.zipIdx.filter fun (c, _) => decide (c > t)).map fun (_, j) => (j : Int)
      s!"{pos.length}|{joinInts pos}"
    else "-"
  s!" f={img fun _ => -5} a={img fun c => c + 1000} b={joinInts (v.dims.map Int.ofNat)}|{joinInts cells} x={img fun c => 2 * c + 3} v={img fun c => 3 * c + 1} m={sum},{mx} h={showPairs (sortStores (above.map fun c => (c, -9)))} n={n}"

def describe (v : View) : String :=
  let cells := (allIndices v.dims).map (addr v)
  s!"ok r={v.dims.length} d={joinInts (v.dims.map Int.ofNat)} s={joinInts v.strides} o={v.base} e={joinInts cells} w={showPairs (writes cells)}"

/-- the answer for a view held by an object of this kind (2: the `FixedArray` parent itself, no whole-view operations;
    rank 0: an element) -/
def describeFull (kind vol : Nat) (v : View) : String :=
  if kind ≥ 2 ∨ v.dims.isEmpty then describe v else describe v ++ wholeOps vol v

def parseOp (ws : List String) : Option Op :=
  match ws with
  | "slice" :: args => (args.mapM parseIx).bind fun a => if a.isEmpty then none else some (Op.slice a)
  | "subset" :: args => ((args.mapM parseEnd).bind pairs).bind fun a => if a.isEmpty then none else some (Op.subset a)
  | ["idx", e] => (parseEnd e).map Op.sub1
  | ["T"] => some Op.T
  | "permute" :: ps => (ps.mapM String.toInt?).bind fun p => if p.isEmpty then none else some (Op.permute p)
  | ["diag", k] => k.toInt?.map Op.diag
  | ["subdiag", b, e] => do let b ← b.toInt?; let e ← e.toInt?; some (Op.subdiag b e)
  | "reshape" :: ds => (ds.mapM String.toInt?).bind fun d => if d.isEmpty then none else some (Op.reshape d)
  | ["softlink"] => some Op.softLink
  | _ => none

/-! ### integer-vector indexing -/

/-- a selector and the letter of the C++ argument type the harness uses for it -/
def parseSel (t : String) : Option (Sel × Char) :=
  -- `L|a,b,c`: the intVector is a VIEW (sOFF.STR: strided / reversed / offset part of a larger intVector, cK.NC / rK.NR:
  -- column / row of an intMatrix) holding these entries in index order.  A view of an index vector is just another
  -- entry list: the layout is validated (as the harness does) and otherwise ignored.
  let plain (u : String) : Option (List Int) :=
    if u = "" then some [] else (u.splitOn ",").mapM String.toInt?
  let entries (u : String) : Option (List Int) :=
    match u.splitOn "|" with
    | [e] => plain e
    | [lay, e] =>
      match plain e, ((lay.drop 1).toString.splitOn ".").mapM String.toInt? with
      | some l, some [p, q] =>
        let n : Int := l.length
        let kind := (lay.take 1).toString
        if n = 0 then (if kind = "s" ∨ kind = "c" ∨ kind = "r" then some l else none)
        else if kind = "s" then
          (if q ≠ 0 ∧ 0 ≤ p ∧ p ≤ 4096 ∧ 0 ≤ p + (n - 1) * q ∧ p + (n - 1) * q ≤ 4096 then some l else none)
        else if kind = "c" ∨ kind = "r" then (if 1 ≤ q ∧ q ≤ 64 ∧ 0 ≤ p ∧ p < q then some l else none)
        else none
      | _, _ => none
    | _ => none
  if t.startsWith "v:" then (entries (t.drop 2).toString).map fun l => (Sel.vec (l.map EndExpr.lit), 'V')
  else if t.startsWith "x:" then (entries (t.drop 2).toString).map fun l => (Sel.vec (l.map EndExpr.lit), 'X')
  else if t.startsWith "w:" then (entries (t.drop 2).toString).map fun l => (Sel.vec (l.map EndExpr.fromEnd), 'W')
  else if t.startsWith "f:" then
    (plain (t.drop 2).toString).bind fun l => if l.length = 3 then some (Sel.vec (l.map EndExpr.lit), 'F') else none
  else if t.startsWith "u:" then
    match (t.drop 2).toString.splitOn ":" with
    | [ve, ents] =>
      match parsePExpr ve, entries ents with
      | some pe, some l => if pe.hasIdx then some (Sel.vec (pe.toVec.entries l), 'U') else none
      | _, _ => none
    | _ => none
  else match parseIx t with
    | some (.at (.lit k)) => some (Sel.at (.lit k), 'I')
    | some (.at (.fromEnd k)) => some (Sel.at (.fromEnd k), 'E')
    | some (.at e) => some (Sel.at e, 'Y')
    | some (.range b e) => some (Sel.range b e (.lit 1), 'R')
    | some (.stride b e s) => some (Sel.range b e s, 'R')
    | some .all => some (Sel.all, 'A')
    | none => none

/-- the argument-type patterns compiled into the harness (drv_views_idx.h) -/
def ixMenu4 : List String :=
  ["IEVA", "EIEV", "VIEI", "AVIE", "IVRE", "VVVV", "EAVV", "RVAI", "IIEV", "VEEI", "AIVE", "VRAV"]

def ixCompiled (letters : List Char) : Bool :=
  let isVec (c : Char) : Bool := c = 'V' || c = 'X' || c = 'W' || c = 'U' || c = 'F'
  letters.any isVec &&
  match letters.length with
  | 1 => true
  | 2 => true
  | 3 => (letters.all fun c => c = 'I' || c = 'E' || c = 'R' || c = 'A' || c = 'V') ||
         ((letters.filter (· = 'U')).length = 1 && letters.all fun c => c = 'I' || c = 'E' || c = 'U')
  | 4 => ixMenu4.contains (String.ofList letters)
  | _ => false

def showStores (st : List (Int × Int)) (e : Option Err) : String :=
  showPairs (sortStores st) ++ (match e with | some e => "!" ++ e.name | none => "")

def describeIx (checked : Bool) (iv : IView) : String :=
  let n := (allIndices iv.dims).length
  let e := match ixRead checked iv with
    | .ok cells => joinInts cells
    | .error e => "!" ++ e.name
  let (w, we) := ixStores checked iv ((List.range n).map fun (j : Nat) => -((j : Int) + 1))
  let (z, ze) := ixStores checked iv (List.replicate n (-7))
  s!"ok r={iv.dims.length} d={joinInts (iv.dims.map Int.ofNat)} e={e} w={showStores w we} z={showStores z ze}"

/-- calls that do not exist in the C++ for the current object (the harness answers `bad-op`).
    `kind` 0: passive `Array` (ranks ≤ 6 are driven), 1: active `Array` (ranks ≤ 3 are driven),
    2: the `FixedArray` parent (no `reshape`, no `soft_link`), 3 / 4: a passive / active `FixedArray` of which only the
    element accessors are driven (all-scalar `operator()`, rank 1 also `operator[]`) -/
def compiles (kind : Nat) (v : View) : Op → Bool
  | .slice a => a.length = v.dims.length ∧ (kind < 3 ∨ a.all fun x => match x with | .at _ => true | _ => false)
  | .subset be => be.length = v.dims.length ∧ kind < 3
  | .sub1 _ => v.dims.length ≥ 1 ∧ (kind < 3 ∨ v.dims.length = 1)
  | .T => v.dims.length = 2 ∧ kind < 3
  | .permute p => p.length = v.dims.length ∧ v.dims.length ≥ 1 ∧ kind < 3
  | .diag _ => v.dims.length = 2 ∧ kind < 3
  | .subdiag _ _ => v.dims.length = 2 ∧ kind < 3
  | .reshape nd => v.dims.length = 1 ∧ kind < 2 ∧ nd.length ≤ (if kind = 1 then 3 else 6)
  | .softLink => v.dims.length ≥ 1 ∧ kind < 2

/-- the members that have a `const` overload -/
def hasConst : Op → Bool
  | .slice _ | .subset _ | .sub1 _ | .T | .softLink => true
  | _ => false

/-- the `FixedArray` parents compiled into the harness -/
def fixedMenu : List (List Nat) := [[4], [3, 4], [3, 3], [2, 3, 4], [2, 3, 4, 5]]
/-- the `FixedArray`s driven through their element accessors only: passive, active -/
def fixedElemMenu : List (List Nat) := [[3, 2, 5, 4], [2, 3, 1, 4, 5], [3, 1, 4, 2, 6, 5]]
def fixedActiveMenu : List (List Nat) := [[4], [3, 4], [2, 3, 4], [3, 2, 5, 4]]

/-- the scalar arguments of an element access (every argument of the call is `i:E`) -/
def allScalar : List Ix → Option (List EndExpr)
  | [] => some []
  | .at e :: r => (allScalar r).map (e :: ·)
  | _ => none

def freshParent (s : St) (kind : Nat) (rowMajor : Bool) (dims : List Nat) : St × String :=
  let v := fresh rowMajor dims
  let vol := dims.foldl (· * ·) 1
  ({ s with vol := vol, cur := some v, kind := kind }, describeFull kind vol v)

def step (s : St) (ws : List String) : St × String :=
  match ws with
  | ["mode", "checked"] => ({ s with checked := true }, "mode checked")
  | ["mode", "unchecked"] => ({ s with checked := false }, "mode unchecked")
  | "parent" :: order :: ds =>
    match ds.mapM String.toNat? with
    | some dims =>
      if (order ≠ "rm" ∧ order ≠ "cm") ∨ dims.isEmpty ∨ dims.length > 6 ∨ dims.any (· == 0) then (s, "bad-op") else
      freshParent s 0 (order = "rm") dims
    | none => (s, "bad-op")
  | "aparent" :: order :: ds =>
    match ds.mapM String.toNat? with
    | some dims =>
      if (order ≠ "rm" ∧ order ≠ "cm") ∨ dims.isEmpty ∨ dims.length > 3 ∨ dims.any (· == 0) then (s, "bad-op") else
      freshParent s 1 (order = "rm") dims
    | none => (s, "bad-op")
  | "fparent" :: ds =>
    match ds.mapM String.toNat? with
    | some dims => if fixedMenu.contains dims then freshParent s 2 true dims else (s, "bad-op")
    | none => (s, "bad-op")
  | "efparent" :: ds =>
    match ds.mapM String.toNat? with
    | some dims => if fixedElemMenu.contains dims then freshParent s 3 true dims else (s, "bad-op")
    | none => (s, "bad-op")
  | "afparent" :: ds =>
    match ds.mapM String.toNat? with
    | some dims => if fixedActiveMenu.contains dims then freshParent s 4 true dims else (s, "bad-op")
    | none => (s, "bad-op")
  | ["contig"] =>
    match s.cur with
    | some v => if v.dims.isEmpty ∨ s.kind = 2 then (s, "bad-op") else (s, s!"contig={if isContiguous v then 1 else 0}")
    | none => (s, "bad-op")
  | ixw :: args =>
    if ixw = "ix" ∨ ixw = "cix" then
      match s.cur, args.mapM parseSel with
      | some v, some sl =>
        if s.kind ≠ 0 ∨ sl.length ≠ v.dims.length ∨ ¬ ixCompiled (sl.map (·.2)) then (s, "bad-op") else
        if ¬ selsDefined v.dims (sl.map (·.1)) then (s, "err undefined") else
        match indexed v (sl.map (·.1)) s.checked with
        | .ok iv => (s, describeIx s.checked iv)
        | .error .bad_rank => (s, "bad-op")
        | .error e => (s, "err " ++ e.name)
      | _, _ => (s, "bad-op")
    else
    -- a leading `c` selects the const overload of the member: same semantics
    let (isConst, ws') :=
      if ixw.startsWith "c" ∧ ixw ≠ "contig" then (true, (ixw.drop 1).toString :: args) else (false, ws)
    -- the other overloads of permute
    let (pform, ws') := match ws' with
      | "permuteE" :: r => (1, "permute" :: r)
      | "permuteV" :: r => (2, "permute" :: r)
      | _ => (0, ws')
    match s.cur, parseOp ws' with
    | some v, some op =>
      if ¬ compiles s.kind v op ∨ (isConst ∧ ¬ hasConst op) then (s, "bad-op") else
      if pform = 2 ∧ (v.dims.length < 2 ∨ v.dims.length > 6) then (s, "bad-op") else
      if ¬ op.defined v then (s, "err undefined") else
      match op, v.dims with
      | .diag _, [0, _] => ({ s with cur := none }, "ok null")
      | _, _ =>
      -- ELEMENT access: its own accessor functions (Array: sum of index*offset; FixedArray: Horner form)
      let r : Except Err View := match op with
        | .slice args =>
          match allScalar args with
          | some es =>
            (if s.kind ≥ 2 then fixedElemAccess v.dims es s.checked else elemAccess v es s.checked).map elemView
          | none => apply s.checked v op
        | .permute p => if pform = 2 then permuteArgs v p else apply s.checked v op
        | _ => apply s.checked v op
      match r with
      | .ok w =>
        let k := if s.kind = 2 ∨ s.kind = 3 then 0 else if s.kind = 4 then 1 else s.kind
        ({ s with cur := some w, kind := k }, describeFull k s.vol w)
      | .error e => (s, "err " ++ e.name)
    | _, _ => (s, "bad-op")
  | [] => (s, "bad-op")

end ViewsDrv
