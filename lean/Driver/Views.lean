import AdeptModel.Views
import AdeptModel.IndexedViews
import Driver.Common
/-! line protocol of the `views` family (same text as harness/drv_views.cpp)

  mode checked|unchecked          which build is modelled (ADEPT_BOUNDS_CHECKING)
  parent rm|cm d0 d1 …            fresh parent array, row- or column-major, current view := whole parent
  slice A0 A1 …                   A = i:E | r:E,E | s:E,E,S | _      E = k | eK (= end - K)
  subset E E E E …                begin/end per dimension
  idx E                           operator[]
  T | permute p0 p1 … | diag k | subdiag b e | reshape d0 d1 … | softlink
  contig                          is_contiguous() of the current view (state unchanged)
  ix S0 S1 …                      integer-vector indexing A(S0,S1,…) of the current view (state unchanged)
                                  S = i:E | r:E,E | s:E,E,S | _ | v:a,b,… | x:a,b,… | w:K0,K1,…
                                  (v: intVector, x: the expression tmp+2 with these values, w: end - tmp with tmp = K's)

  answer to a view-forming op:  `ok r=… d=… s=… o=… e=… w=…`  (rank, extents, offsets, data()-parent,
  elements in index order, parent cells changed by writing -(j+1) through element j)  or  `err <class>`.
  answer to `ix`:  `err <class>` (the IndexedArray constructor threw)  or  `ok r=… d=… e=E w=W z=Z`:
  E cells read in index order or `!<class>`; W cells changed by assigning -(j+1) to element j, `cell:value;…`,
  followed by `!<class>` if the assignment threw; Z the same for the scalar assignment of -7.
-/
open Adept Adept.Views

namespace ViewsDrv

structure St where
  checked : Bool := false
  vol : Nat := 0
  cur : Option View := none

def parseEnd (t : String) : Option EndExpr :=
  if t.startsWith "e" then (t.drop 1).toString.toInt?.map EndExpr.fromEnd
  else t.toInt?.map EndExpr.lit

def parseIx (t : String) : Option Ix :=
  if t = "_" then some Ix.all
  else if t.startsWith "i:" then (parseEnd (t.drop 2).toString).map Ix.at
  else if t.startsWith "r:" then
    match (t.drop 2).toString.splitOn "," with
    | [b, e] => do let b ← parseEnd b; let e ← parseEnd e; some (Ix.range b e)
    | _ => none
  else if t.startsWith "s:" then
    match (t.drop 2).toString.splitOn "," with
    | [b, e, s] => do let b ← parseEnd b; let e ← parseEnd e; let s ← s.toInt?; some (Ix.stride b e s)
    | _ => none
  else none

def pairs : List EndExpr → Option (List (EndExpr × EndExpr))
  | [] => some []
  | b :: e :: r => (pairs r).map ((b, e) :: ·)
  | _ => none

def joinInts (xs : List Int) : String := ",".intercalate (xs.map toString)

/-- insert/overwrite in an association list sorted by cell -/
def put (c v : Int) : List (Int × Int) → List (Int × Int)
  | [] => [(c, v)]
  | (c', v') :: r => if c < c' then (c, v) :: (c', v') :: r else if c = c' then (c, v) :: r else (c', v') :: put c v r

def writes (cells : List Int) : List (Int × Int) :=
  let rec go : List Int → Int → List (Int × Int) → List (Int × Int)
    | [], _, acc => acc
    | c :: cs, j, acc => go cs (j + 1) (put c (-(j + 1)) acc)
  go cells 0 []

def describe (v : View) : String :=
  let cells := (allIndices v.dims).map (addr v)
  let w := (writes cells).map fun (c, x) => s!"{c}:{x}"
  s!"ok r={v.dims.length} d={joinInts (v.dims.map Int.ofNat)} s={joinInts v.strides} o={v.base} e={joinInts cells} w={";".intercalate w}"

def parseOp (ws : List String) : Option Op :=
  match ws with
  | "slice" :: args => (args.mapM parseIx).bind fun a => if a.isEmpty then none else some (Op.slice a)
  | "subset" :: args => ((args.mapM parseEnd).bind pairs).bind fun a => if a.isEmpty then none else some (Op.subset a)
  | ["idx", e] => (parseEnd e).map Op.sub1
  | ["T"] => some Op.T
  | "permute" :: ps => (ps.mapM String.toInt?).bind fun p => if p.isEmpty then none else some (Op.permute p)
  | ["diag", k] => k.toInt?.map Op.diag
  | ["subdiag", b, e] => do let b ← b.toInt?; let e ← e.toInt?; some (Op.subdiag b e)
  | "reshape" :: ds => (ds.mapM String.toInt?).bind fun d => if d.isEmpty then none else some (Op.reshape d)
  | ["softlink"] => some Op.softLink
  | _ => none

/-! ### integer-vector indexing -/

/-- a selector and the letter of the C++ argument type the harness uses for it -/
def parseSel (t : String) : Option (Sel × Char) :=
  let entries (u : String) : Option (List Int) :=
    if u = "" then some [] else (u.splitOn ",").mapM String.toInt?
  if t.startsWith "v:" then (entries (t.drop 2).toString).map fun l => (Sel.vec (l.map EndExpr.lit), 'V')
  else if t.startsWith "x:" then (entries (t.drop 2).toString).map fun l => (Sel.vec (l.map EndExpr.lit), 'X')
  else if t.startsWith "w:" then (entries (t.drop 2).toString).map fun l => (Sel.vec (l.map EndExpr.fromEnd), 'W')
  else match parseIx t with
    | some (.at (.lit k)) => some (Sel.at (.lit k), 'I')
    | some (.at (.fromEnd k)) => some (Sel.at (.fromEnd k), 'E')
    | some (.range b e) => some (Sel.range b e 1, 'R')
    | some (.stride b e s) => some (Sel.range b e s, 'R')
    | some .all => some (Sel.all, 'A')
    | none => none

/-- the argument-type patterns compiled into the harness (drv_views_idx.h) -/
def ixMenu4 : List String :=
  ["IEVA", "EIEV", "VIEI", "AVIE", "IVRE", "VVVV", "EAVV", "RVAI", "IIEV", "VEEI", "AIVE", "VRAV"]

def ixCompiled (letters : List Char) : Bool :=
  let isVec (c : Char) : Bool := c = 'V' || c = 'X' || c = 'W'
  letters.any isVec &&
  match letters.length with
  | 1 => true
  | 2 => true
  | 3 => letters.all fun c => c ≠ 'X' && c ≠ 'W'
  | 4 => ixMenu4.contains (String.ofList letters)
  | _ => false

def showStores (st : List (Int × Int)) (e : Option Err) : String :=
  let m := st.foldl (fun acc (c, x) => put c x acc) []
  ";".intercalate (m.map fun (c, x) => s!"{c}:{x}") ++ (match e with | some e => "!" ++ e.name | none => "")

def describeIx (checked : Bool) (iv : IView) : String :=
  let n := (allIndices iv.dims).length
  let e := match ixRead checked iv with
    | .ok cells => joinInts cells
    | .error e => "!" ++ e.name
  let (w, we) := ixStores checked iv ((List.range n).map fun (j : Nat) => -((j : Int) + 1))
  let (z, ze) := ixStores checked iv (List.replicate n (-7))
  s!"ok r={iv.dims.length} d={joinInts (iv.dims.map Int.ofNat)} e={e} w={showStores w we} z={showStores z ze}"

/-- calls that do not exist in the C++ for the current rank (the harness answers `bad-op`) -/
def compiles (v : View) : Op → Bool
  | .slice a => a.length = v.dims.length
  | .subset be => be.length = v.dims.length
  | .sub1 _ => v.dims.length ≥ 1
  | .T => v.dims.length = 2
  | .permute p => p.length = v.dims.length ∧ v.dims.length ≥ 1
  | .diag _ => v.dims.length = 2
  | .subdiag _ _ => v.dims.length = 2
  | .reshape nd => v.dims.length = 1 ∧ nd.length ≤ 5
  | .softLink => v.dims.length ≥ 1

def step (s : St) (ws : List String) : St × String :=
  match ws with
  | ["mode", "checked"] => ({ s with checked := true }, "mode checked")
  | ["mode", "unchecked"] => ({ s with checked := false }, "mode unchecked")
  | "parent" :: order :: ds =>
    match ds.mapM String.toNat? with
    | some dims =>
      if (order ≠ "rm" ∧ order ≠ "cm") ∨ dims.isEmpty ∨ dims.length > 5 ∨ dims.any (· == 0) then (s, "bad-op") else
      let v := fresh (order = "rm") dims
      ({ s with vol := dims.foldl (· * ·) 1, cur := some v }, describe v)
    | none => (s, "bad-op")
  | ["contig"] =>
    match s.cur with
    | some v => if v.dims.isEmpty then (s, "bad-op") else (s, s!"contig={if isContiguous v then 1 else 0}")
    | none => (s, "bad-op")
  | "ix" :: args =>
    match s.cur, args.mapM parseSel with
    | some v, some sl =>
      if sl.length ≠ v.dims.length ∨ ¬ ixCompiled (sl.map (·.2)) then (s, "bad-op") else
      match indexed v (sl.map (·.1)) s.checked with
      | .ok iv => (s, describeIx s.checked iv)
      | .error .bad_rank => (s, "bad-op")
      | .error e => (s, "err " ++ e.name)
    | _, _ => (s, "bad-op")
  | _ =>
    match s.cur, parseOp ws with
    | some v, some op =>
      if ¬ compiles v op then (s, "bad-op") else
      match op, v.dims with
      | .diag _, [0, _] => ({ s with cur := none }, "ok null")
      | _, _ =>
      match apply s.checked v op with
      | .ok w => ({ s with cur := some w }, describe w)
      | .error e => (s, "err " ++ e.name)
    | _, _ => (s, "bad-op")

end ViewsDrv
