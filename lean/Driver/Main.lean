import AdeptModel
/-! `adept_model <family>`: line protocol on stdin/stdout, one result line per input line. -/
open Adept

def splitWords (line : String) : List String :=
  (line.trimAscii.toString.splitOn " ").filter (· ≠ "")

partial def lines (h : IO.FS.Stream) (f : σ → List String → σ × String) (s : σ) : IO Unit := do
  let line ← h.getLine
  if line.isEmpty then return ()
  let ws := splitWords line
  if ws.isEmpty then lines h f s else
  let (s', out) := f s ws
  IO.println out
  lines h f s'

namespace GallocDrv
open GradAlloc
/-- handle table: handle ↦ (index, n, scalar?) -/
structure St where
  ga : GA := GradAlloc.stackInit
  tab : List (Nat × Nat × Nat × Bool) := []
def step (s : St) (ws : List String) : St × String :=
  match ws with
  | ["reset"] => ({}, "reset")
  | ["a1", k] => match k.toNat? with
    | some k => let (g, i) := reg1 s.ga
                ({ ga := g, tab := (k, i, 1, true) :: s.tab.filter (·.1 ≠ k) }, observe g (some i))
    | none => (s, "bad-op")
  | [c, k, n] =>
    if c = "av" ∨ c = "af" then
      match k.toNat?, n.toNat? with
      | some k, some n =>
        if c = "af" ∧ (n < 1 ∨ n > 4) then (s, "bad-op") else
        let (g, i) := regN n s.ga
        ({ ga := g, tab := (k, i, n, false) :: s.tab.filter (·.1 ≠ k) }, observe g (some i))
      | _, _ => (s, "bad-op")
    else (s, "bad-op")
  | ["d", k] => match k.toNat? with
    | some k => match s.tab.find? (·.1 = k) with
      | some (_, i, n, sc) =>
        let g := if sc then unreg1 i s.ga else unregN i n s.ga
        ({ ga := g, tab := s.tab.filter (·.1 ≠ k) }, observe g none)
      | none => (s, "bad-op")
    | none => (s, "bad-op")
  | ["nr"] => let g := newRecording s.ga; ({ s with ga := g }, observe g none)
  | _ => (s, "bad-op")
end GallocDrv

def main (args : List String) : IO UInt32 := do
  let stdin ← IO.getStdin
  match args with
  | ["galloc"] => lines stdin GallocDrv.step {}; return 0
  | _ => IO.eprintln "usage: adept_model <family>"; return 2
