import Driver.Common
import Driver.Galloc
import Driver.TapeDrv
import Driver.RecBufDrv
import Driver.Storage
import Driver.Views
import Driver.Interp
import Driver.Solve
import Driver.Threads
import Driver.Special
import Driver.Simd
import Driver.Matmul
import Driver.ExprDrv
import Driver.Minimizer
import Driver.Assign
import Driver.ArrayADDrv
import Driver.Misuse
/-! `adept_model <family>`: line protocol on stdin/stdout, one result line per input line.
    Every import of this file must stay free of Mathlib (the driver is linked natively). -/
open Adept Adept.Drv

def main (args : List String) : IO UInt32 := do
  match args with
  | ["galloc"] => runFamily GallocDrv.step {}; return 0
  | ["tape"] => runFamily TapeDrv.step {}; return 0
  | ["recbuf"] => runFamily RecBufDrv.step (); return 0
  | ["storage"] => runFamily StorageDrv.step {}; return 0
  | ["views"] => runFamily ViewsDrv.step {}; return 0
  | ["interp"] => runFamily InterpDrv.step (); return 0
  | ["solve"] => runFamily SolveDrv.step (); return 0
  | ["threads"] => runFamily ThreadsDrv.step {}; return 0
  | ["special"] => runFamily SpecialDrv.step (); return 0
  | ["simd"] => runFamily SimdDrv.step (); return 0
  | ["matmul"] => runFamily MatmulDrv.step {}; return 0
  | ["expr"] => runFamily ExprDrv.step {}; return 0
  | ["minimizer"] => runFamily MinimizerDrv.step (); return 0
  | ["assign"] => runFamily AssignDrv.step {}; return 0
  | ["arrayad"] => runFamily ArrayADDrv.step (); return 0
  | ["misuse"] => runFamily MisuseDrv.step {}; return 0
  | _ => IO.eprintln "usage: adept_model <family>"; return 2
