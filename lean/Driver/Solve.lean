import AdeptModel.Solve
import Driver.Common
/-! `adept_model solve`: the marshalling model of solve()/inv() run on the case lines of
    harness/drv_solve.cpp (same syntax, same canonical output; values are exact rationals `p/q`).
    The LAPACK behind the model is `Lapack.ratImpl` (exact elimination over `Rat`). -/
open Adept Adept.Lapack Adept.Solve

namespace SolveDrv

def bufOf (a : Array Rat) : Buf Rat := fun k => a.getD k 0

def ints? (ws : List String) : Option (List Int) := ws.mapM String.toInt?

def poison : Rat := 1000000000000000000000000000000   -- 1e30, as in the C++ driver
def filler : Rat := -99

/-- place `E` (row-major logical `r × c`) into an array of `size` elements through `idx` -/
def place (size : Nat) (fill : Rat) (r c : Nat) (E : Array Rat) (scale : Rat) (idx : Nat → Nat → Nat) : Array Rat := Id.run do
  let mut a := Array.replicate size fill
  for i in [0:r] do
    for j in [0:c] do
      a := a.setIfInBounds (idx i j) (E.getD (i * c + j) 0 * scale)
  return a

/-- a dense operand in the given layout: backing store and the argument as `solve`/`inv` see it -/
def denseOp (lay : String) (r c : Nat) (E : Array Rat) : Option (Array Rat × (Buf Rat → MatArg Rat)) :=
  let mk (size off s0 s1 : Nat) (fill : Rat) :=
    some (place size fill r c E 1 (fun i j => off + i * s0 + j * s1),
          fun (b : Buf Rat) => MatArg.dense (Mat.ofView r c off s0 s1 b))
  match lay with
  | "rm" => mk (r * c) 0 c 1 0
  | "cm" => mk (r * c) 0 1 r 0
  | "tr" => mk (r * c) 0 1 r 0          -- stored transposed row-major, passed as `.T()`
  | "st" => mk (2 * r * (3 * c)) 1 (6 * c) 3 filler
  | "sb" => mk ((r + 3) * (c + 2)) (c + 2 + 2) (c + 2) 1 filler
  | "ex" => some (place (r * c) 0 r c E (1 / 2) (fun i j => i * c + j),
                  fun (b : Buf Rat) => MatArg.expr { rows := r, cols := c, get := fun i j => 2 * b (i * c + j) })
  | _ => none

def vecOp (lay : String) (n : Nat) (E : Array Rat) : Option (Array Rat × (Buf Rat → VecArg Rat)) :=
  let mk (size off s : Nat) (fill : Rat) :=
    some (place size fill n 1 E 1 (fun i _ => off + i * s), fun (b : Buf Rat) => VecArg.obj (Vec.ofView n off s b))
  match lay with
  | "ct" => mk n 0 1 0
  | "st" => mk (2 * n + 1) 1 2 filler
  | "sb" => mk (n + 3) 2 1 filler
  | "col" => mk (n * 3) 1 3 filler
  | "ex" => some (place n 0 n 1 E (1 / 2) (fun i _ => i),
                  fun (b : Buf Rat) => VecArg.expr { n := n, get := fun i => 2 * b i })
  | _ => none

def orient? : String → Option Orient
  | "rl" => some .rowLower
  | "ru" => some .rowUpper
  | _ => none

def Orient.tag : Orient → String
  | .rowLower => "rl"
  | .rowUpper => "ru"

def isSymmetric (n : Nat) (E : Array Rat) : Bool :=
  (List.range n).all fun i => (List.range n).all fun j => E.getD (i * n + j) 0 == E.getD (j * n + i) 0

/-- a `SymmMatrix` operand: only the stored triangle is written, everything else is poison -/
def symOp (o : Orient) (lay : String) (n : Nat) (E : Array Rat) : Option (Array Rat × (Buf Rat → MatArg Rat)) :=
  if !isSymmetric n E then none else
  let fillTri (big off : Nat) (scale : Rat) (base : Array Rat) : Array Rat := Id.run do
    let mut a := base
    for i in [0:n] do
      for j in [0:n] do
        if o.stored i j then
          a := a.setIfInBounds (off + symIndex o i j big) (E.getD (i * n + j) 0 * scale)
    return a
  match lay with
  | "pl" => some (fillTri n 0 1 (Array.replicate (n * n) poison),
                  fun b => MatArg.symm (Sym.ofStorage o n 0 n b))
  | "sb" =>
    let big := n + 3
    let base : Array Rat := Id.run do
      let mut a := Array.replicate (big * big) poison
      for i in [0:big] do
        for j in [0:big] do
          if o.stored i j then a := a.setIfInBounds (symIndex o i j big) filler
      return a
    some (fillTri big ((big + 1) * 2) 1 base, fun b => MatArg.symm (Sym.ofStorage o n ((big + 1) * 2) big b))
  | "ex" => some (fillTri n 0 (1 / 2) (Array.replicate (n * n) poison),
                  fun b => MatArg.expr { rows := n, cols := n, get := fun i j => 2 * (Sym.ofStorage o n 0 n b).get i j })
  | _ => none

def showRat (r : Rat) : String := if r.den = 1 then toString r.num else s!"{r.num}/{r.den}"

def showCall (p : String) (nOperands : Nat) (c : Call) : String :=
  let up := match c.uplo with | some u => u.letter | none => "-"
  let rd := if c.n ≤ 1 then "D" else match c.uplo with | some u => u.letter | none => "G"
  let info := if c.info = 0 then "0" else if c.info > 0 then "+" else "-"
  let bAlias : Bool := match c.bBuf with | some b => decide (b < nOperands) | none => false
  let alias := if decide (c.aBuf < nOperands) || bAlias then "1" else "0"
  s!"{if p = "f" then "s" else p}{c.routine.name},{c.n},{c.nrhs},{c.lda},{c.ldb},{up},{rd},{info},{alias}"

def sameBuf (a : Array Rat) (b : Buf Rat) : Bool := (List.range a.size).all fun k => a.getD k 0 == b k

/-- canonical output line -/
def render {ρ : Type} (p : String) (stores : List (String × Array Rat)) (o : Out Rat ρ)
    (shape : ρ → String) (vals : ρ → List Rat) : String :=
  let calls := ";".intercalate (o.log.map (showCall p stores.length))
  let q := (o.log.map (·.routine.queries)).sum
  let outcome := match o.res with
    | .ok r => "ok " ++ shape r
    | .error e => "exc " ++ e.name
  let modified := (stores.zipIdx.filter fun ((_, a), id) => !sameBuf a (o.heap.mem id)).map (·.1.1)
  let args := if modified.isEmpty then "args=same" else "args=modified:" ++ ",".intercalate modified
  let values := match o.res with
    | .ok r => String.join ((vals r).map fun x => " " ++ showRat x)
    | .error _ => ""
  s!"calls={calls} q={q} | {outcome} | {args} #{values}"

def matVals (m : Mat Rat) : List Rat :=
  (List.range m.rows).flatMap fun i => (List.range m.cols).map fun j => m.get i j
def vecVals (v : Vec Rat) : List Rat := (List.range v.n).map v.get

def heapOf (stores : List (Array Rat)) : Heap Rat :=
  { next := stores.length, mem := fun id => bufOf (stores.getD id #[]) }

def toRats (l : List Int) : Array Rat := (l.map fun (z : Int) => (z : Rat)).toArray

def L := ratImpl

def prec? (p : String) : Option String := if p = "d" ∨ p = "f" then some p else none

def runCase (ws : List String) : Option String := do
  match ws with
  | "gsv" :: p :: la :: lb :: n :: rest =>
    let p ← prec? p; let n ← n.toNat?; let E ← ints? rest
    if n < 1 ∨ n > 64 ∨ E.length ≠ n * n + n then none else
    let (sa, fa) ← denseOp la n n (toRats (E.take (n * n)))
    let (sb, fb) ← vecOp lb n (toRats (E.drop (n * n)))
    let h := heapOf [sa, sb]
    let o := solveVec L h (fa (h.mem 0)) (fb (h.mem 1))
    some (render p [("A", sa), ("b", sb)] o (fun v => s!"v {v.n}") vecVals)
  | "gsm" :: p :: la :: lb :: n :: m :: rest =>
    let p ← prec? p; let n ← n.toNat?; let m ← m.toNat?; let E ← ints? rest
    if n < 1 ∨ n > 64 ∨ m < 1 ∨ m > 64 ∨ E.length ≠ n * n + n * m then none else
    let (sa, fa) ← denseOp la n n (toRats (E.take (n * n)))
    let (sb, fb) ← denseOp lb n m (toRats (E.drop (n * n)))
    let h := heapOf [sa, sb]
    let o := solveMat L h (fa (h.mem 0)) (fb (h.mem 1))
    some (render p [("A", sa), ("B", sb)] o (fun x => s!"m {x.rows} {x.cols}") matVals)
  | "ssv" :: p :: o :: ls :: lb :: n :: rest =>
    let p ← prec? p; let o ← orient? o; let n ← n.toNat?; let E ← ints? rest
    if n < 1 ∨ n > 64 ∨ E.length ≠ n * n + n then none else
    let (sa, fa) ← symOp o ls n (toRats (E.take (n * n)))
    let (sb, fb) ← vecOp lb n (toRats (E.drop (n * n)))
    let h := heapOf [sa, sb]
    let r := solveVec L h (fa (h.mem 0)) (fb (h.mem 1))
    some (render p [("A", sa), ("b", sb)] r (fun v => s!"v {v.n}") vecVals)
  | "ssm" :: p :: o :: ls :: lb :: n :: m :: rest =>
    let p ← prec? p; let o ← orient? o; let n ← n.toNat?; let m ← m.toNat?; let E ← ints? rest
    if n < 1 ∨ n > 64 ∨ m < 1 ∨ m > 64 ∨ E.length ≠ n * n + n * m then none else
    let (sa, fa) ← symOp o ls n (toRats (E.take (n * n)))
    let (sb, fb) ← denseOp lb n m (toRats (E.drop (n * n)))
    let h := heapOf [sa, sb]
    let r := solveMat L h (fa (h.mem 0)) (fb (h.mem 1))
    some (render p [("A", sa), ("B", sb)] r (fun x => s!"m {x.rows} {x.cols}") matVals)
  | "sss" :: p :: o :: o2 :: n :: rest =>
    let p ← prec? p; let o ← orient? o; let o2 ← orient? o2; let n ← n.toNat?; let E ← ints? rest
    if n < 1 ∨ n > 64 ∨ E.length ≠ 2 * n * n then none else
    let (sa, fa) ← symOp o "pl" n (toRats (E.take (n * n)))
    let (sb, fb) ← symOp o2 "pl" n (toRats (E.drop (n * n)))
    let h := heapOf [sa, sb]
    let r := solveMat L h (fa (h.mem 0)) (fb (h.mem 1))
    some (render p [("A", sa), ("B", sb)] r (fun x => s!"m {x.rows} {x.cols}") matVals)
  | "ginv" :: p :: la :: r :: c :: rest =>
    let p ← prec? p; let r ← r.toNat?; let c ← c.toNat?; let E ← ints? rest
    if r < 1 ∨ r > 64 ∨ c < 1 ∨ c > 64 ∨ E.length ≠ r * c then none else
    let (sa, fa) ← denseOp la r c (toRats E)
    let h := heapOf [sa]
    let o := inv L h (fa (h.mem 0))
    some (render p [("A", sa)] o
      (fun x => match x with | .dense m => s!"m {m.rows} {m.cols}" | .symm s => s!"s {s.n} {Orient.tag s.orient}")
      (fun x => matVals x.mat))
  | "sinv" :: p :: o :: ls :: n :: rest =>
    let p ← prec? p; let o ← orient? o; let n ← n.toNat?; let E ← ints? rest
    if n < 1 ∨ n > 64 ∨ E.length ≠ n * n then none else
    let (sa, fa) ← symOp o ls n (toRats E)
    let h := heapOf [sa]
    let r := inv L h (fa (h.mem 0))
    some (render p [("A", sa)] r
      (fun x => match x with | .dense m => s!"m {m.rows} {m.cols}" | .symm s => s!"s {s.n} {Orient.tag s.orient}")
      (fun x => matVals x.mat))
  | _ => none

def step (s : Unit) (ws : List String) : Unit × String :=
  match runCase ws with
  | some out => (s, out)
  | none => (s, "bad-op")

end SolveDrv
