import AdeptModel.Simd
import Driver.Common
open Adept

/-! line protocol of family `simd` (checks/c05.py, harness/drv_simd.cpp)

    asg   <W> <cfg> T:<a>:<inner>:<outer offsets>:<outer extents>:<n> <expr>   -> vec= is= ie= pk=
    red   <W> <cfg> <outer extents>:<n> <expr>                                 -> vec= is= ie= pk=
    pack  <W> <outer extents>:<n>                                              -> off <offsets of dims 0..Rank-2>
    packc <W> <outer extents>:<n>                                              -> off … (no padding)
    whr   <W>                                                                  -> vec=0 is=0 ie=0 pk=0 (where(): no packet loop)
    expr  := A:<a>:<inner>:<outer offsets> | F:<a>:<extents> | S | U expr | B expr expr     (operation with a packet form)
           | UN expr | BN expr expr     (operation without a packet form / other element type)
           | SP0 A:… | SPL A:…          (spread along a dimension that is not / is the last one of the result)
           | O A:… A:…                  (outer_product)      | X   (leaf with Expression's fall-back trait: IndexedArray)
    cfg   := three characters 0/1: fixedToBoundary fixedRowsChecked allOuterChecked
    lists are comma separated, `-` is the empty list -/
namespace SimdDrv
open Simd

def parseList (s : String) : Option (List Int) :=
  if s = "-" ∨ s = "" then some [] else (s.splitOn ",").mapM String.toInt?

def parseNatList (s : String) : Option (List Nat) :=
  if s = "-" ∨ s = "" then some [] else (s.splitOn ",").mapM String.toNat?

def parseCfg (s : String) : Option Cfg :=
  match s.toList with
  | [a, b, c] =>
    let bit (ch : Char) : Option Bool := if ch = '1' then some true else if ch = '0' then some false else none
    match bit a, bit b, bit c with
    | some a, some b, some c => some ⟨a, b, c⟩
    | _, _, _ => none
  | _ => none

/-- parse one expression from the token list (prefix notation); returns the rest -/
def parseExpr : Nat → List String → Option (Expr × List String)
  | 0, _ => none
  | _ + 1, [] => none
  | fuel + 1, tok :: rest =>
    if tok = "S" then some (.agn, rest)
    else if tok = "X" then some (.plain, rest)
    else if tok = "U" ∨ tok = "UN" then
      match parseExpr fuel rest with
      | some (e, r) => some (.un (tok = "U") e, r)
      | none => none
    else if tok = "B" ∨ tok = "BN" then
      match parseExpr fuel rest with
      | some (l, r1) =>
        match parseExpr fuel r1 with
        | some (r, r2) => some (.bin (tok = "B") l r, r2)
        | none => none
      | none => none
    else if tok = "SP0" ∨ tok = "SPL" then
      match parseExpr fuel rest with
      | some (.arr v, r) => some (.spread (tok = "SPL") v, r)
      | _ => none
    else if tok = "O" then
      match parseExpr fuel rest with
      | some (.arr l, r1) =>
        match parseExpr fuel r1 with
        | some (.arr r, r2) => some (.outer l r, r2)
        | _ => none
      | _ => none
    else
      match tok.splitOn ":" with
      | ["A", a, inner, outer] =>
        match a.toNat?, inner.toInt?, parseList outer with
        | some a, some inner, some outer => some (.arr { a := a, outer := outer, n := 0, inner := inner }, rest)
        | _, _, _ => none
      | ["F", a, dims] =>
        match a.toNat?, parseNatList dims with
        | some a, some dims => some (.fixed a dims, rest)
        | _, _ => none
      | _ => none

def parseTarget (tok : String) : Option View :=
  match tok.splitOn ":" with
  | ["T", a, inner, outer, odims, n] =>
    match a.toNat?, inner.toInt?, parseList outer, parseNatList odims, n.toNat? with
    | some a, some inner, some outer, some odims, some n =>
      some { a := a, outerDims := odims, outer := outer, n := n, inner := inner }
    | _, _, _, _, _ => none
  | _ => none

def showPlan (p : Plan) : String :=
  s!"vec={if p.vec then 1 else 0} is={p.istart} ie={p.iend} pk={p.packets}"

def showList (l : List Nat) : String :=
  if l.isEmpty then "-" else ",".intercalate (l.map toString)

def step (s : Unit) (ws : List String) : Unit × String :=
  match ws with
  | "asg" :: w :: cfg :: tgt :: expr =>
    match w.toNat?, parseCfg cfg, parseTarget tgt, parseExpr 64 expr with
    | some w, some cfg, some t, some (e, []) => (s, showPlan (assignPlan cfg w t e))
    | _, _, _, _ => (s, "bad-op")
  | "red" :: w :: cfg :: dims :: expr =>
    match w.toNat?, parseCfg cfg, dims.splitOn ":", parseExpr 64 expr with
    | some w, some cfg, [od, n], some (e, []) =>
      match parseNatList od, n.toNat? with
      | some od, some n => (s, showPlan (reducePlan cfg w od n e))
      | _, _ => (s, "bad-op")
    | _, _, _, _ => (s, "bad-op")
  | ["whr", w] =>
    match w.toNat? with
    | some _ => (s, showPlan wherePlan)
    | none => (s, "bad-op")
  | [op, w, dims] =>
    if op = "pack" ∨ op = "packc" then
      match w.toNat?, dims.splitOn ":" with
      | some w, [od, n] =>
        match parseNatList od, n.toNat? with
        | some od, some n =>
          (s, "off " ++ showList (if op = "pack" then packRowMajor w od n else packContiguous od n))
        | _, _ => (s, "bad-op")
      | _, _ => (s, "bad-op")
    else (s, "bad-op")
  | _ => (s, "bad-op")

end SimdDrv
