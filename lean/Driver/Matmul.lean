import AdeptModel.Matmul
import Driver.Common
/-!
Line-protocol driver of the `matmul` family (property C15).  Same input and the same output text as
harness/drv_matmul.cpp (whose header documents the protocol), except that the model prints no Jacobian
section (` ; J …`): the Jacobian is judged by the independent oracle in checks/c15.py.  The ` ; tape …` section (every
statement an active product records: conversions, copies, one statement per result element, with symbolic gradient
indices) IS printed and compared exactly.

Besides the marshalling model (AdeptModel/Matmul.lean) the driver contains what the harness does through
the public API to *build* the operands of a case: slicing of a parent array with `stride(b,e,s)`, `.T()`,
`submatrix_on_diagonal`, the special-matrix engines' index formulas and `promote_array`'s conversion of
expressions, active special matrices and square / triangular matrices to a fresh dense array.
-/
open Adept Adept.Blas Adept.Matmul

namespace MatmulDrv

structure St where
  pw : Nat := 2      -- Packet<double>::size
  pwf : Nat := 4     -- Packet<float>::size (Pf / Qf lines)

/-- what the harness prints about an operand -/
structure Desc where
  rank : Nat
  d0 : Nat
  d1 : Nat
  o0 : Int
  o1 : Int
  base : Int
  act : Bool
  vals : List Int
  cells : List Int      -- -1 = structural zero
  margin : Nat := 0     -- cells before the storage a band start pointer may address

inductive Kind
  | mat (A : Mat Int)
  | vec (x : Vec Int)
  | symm (s : Symm Int)
  | band (b : Band Int)

structure Opd where
  desc : Desc
  kind : Kind
  act : Bool
  grad : Grad                      -- gradient side of the operand `matmul_` receives
  conv : List (Stmt Int) := []     -- statements `promote_array`'s conversion records (active expression / special matrix)
  tsize : Int := 0                 -- gradient indices the converted array registers (block `T`, from offset 0)

def showInts (l : List Int) : String := "[" ++ ",".intercalate (l.map toString) ++ "]"

def Desc.str (d : Desc) : String :=
  toString d.rank ++ " d=" ++ toString d.d0 ++ (if d.rank = 2 then "," ++ toString d.d1 else "") ++
  " o=" ++ toString d.o0 ++ (if d.rank = 2 then "," ++ toString d.o1 else "") ++
  " b=" ++ toString d.base ++ " a=" ++ (if d.act then "1" else "0") ++
  " v=" ++ showInts d.vals ++ " c=" ++ showInts d.cells

def memOf (vals : List Int) : Int → Int := fun p => if p < 0 then 0 else vals.getD p.toNat 0

/-- "t:a:b:c" -/
def split3 (tag : String) (w : String) : Option (Int × Int × Int) :=
  match w.splitOn ":" with
  | [t, a, b, c] => if t = tag then
      match a.toInt?, b.toInt?, c.toInt? with
      | some a, some b, some c => some (a, b, c)
      | _, _, _ => none
    else none
  | _ => none

def split2 (tag : String) (w : String) : Option (Int × Int) :=
  match w.splitOn ":" with
  | [t, a, b] => if t = tag then
      match a.toInt?, b.toInt? with
      | some a, some b => some (a, b)
      | _, _ => none
    else none
  | _ => none

/-- `stride(b,e,s)` applied to a dimension of length `len`: (begin, count); `RangeIndex::size` is
    `(end - begin + stride)/stride` with C++ division -/
def rangeSel (len : Nat) (b e s : Int) : Option (Int × Nat) :=
  if s = 0 ∨ b < 0 ∨ e < 0 ∨ b ≥ len ∨ e ≥ len then none
  else
    let n := Int.tdiv (e - b + s) s
    if n ≤ 0 then none else some (b, n.toNat)

def parseVals (ws : List String) : Option (List Int) := ws.mapM (·.toInt?)

/-- split the words of a spec at ":" -/
def splitColon (ws : List String) : Option (List String × List String) :=
  match ws.span (· ≠ ":") with
  | (h, _ :: t) => some (h, t)
  | _ => none

def logical2 (d0 d1 : Nat) (f : Nat → Nat → β) : List β := pairs d0 d1 f

def matDesc (v : View2) (act : Bool) (mem : Int → Int) (scale : Int) : Desc :=
  { rank := 2, d0 := v.d0, d1 := v.d1, o0 := v.o0, o1 := v.o1, base := if v.d0 = 0 then 0 else v.base, act := act,
    vals := logical2 v.d0 v.d1 (fun i k => scale * mem (v.addr i k)),
    cells := logical2 v.d0 v.d1 (fun i k => v.addr i k) }

def vecDesc (v : View1) (act : Bool) (mem : Int → Int) (scale : Int) : Desc :=
  { rank := 1, d0 := v.d, d1 := 0, o0 := v.o, o1 := 0, base := if v.d = 0 then 0 else v.base, act := act,
    vals := (List.range v.d).map (fun i => scale * mem (v.addr i)),
    cells := (List.range v.d).map (fun i => v.addr i) }

/-- dense matrix operand: `M <a|p> <r|c> <PR> <PC> <op>* : cells` -/
def parseM (pw : Nat) (side : Buf) (h : List String) (vals : List Int) : Option Opd :=
  match h with
  | _ :: a :: ord :: pr :: pc :: ops =>
    match pr.toNat?, pc.toNat? with
    | some PR, some PC =>
      if (a ≠ "a" ∧ a ≠ "p") ∨ (ord ≠ "r" ∧ ord ≠ "c") then none else
      let act := a = "a"
      let empty := PR = 0 ∨ PC = 0
      let parent : View2 :=
        -- resize() clears an array with a zero extent; resize_column_major then still runs pack_column_major_
        if empty then { base := 0, d0 := 0, d1 := 0, o0 := if ord = "c" then 1 else 0, o1 := 0 }
        else if ord = "r" then packRowMajor pw PR PC else packColMajor PR PC
      let ncells : Int := if empty then 0 else if ord = "r" then parent.o0 * PR else (PR * PC : Nat)
      if (vals.length : Int) ≠ ncells then none else
      let mem := memOf vals
      let rec go (v : View2) (ops : List String) : Option (View2 × Nat) :=
        match ops with
        | [] => some (v, 0)
        | ["x2"] => some (v, 1)
        | ["xs"] => some (v, 2)
        | "T" :: rest => go v.T rest
        | w :: rest =>
          match split3 "r" w, split3 "c" w with
          | some (b, e, s), _ =>
            match rangeSel v.d0 b e s with
            | some (b, n) => go { v with base := v.base + b * v.o0, d0 := n, o0 := v.o0 * s } rest
            | none => none
          | none, some (b, e, s) =>
            match rangeSel v.d1 b e s with
            | some (b, n) => go { v with base := v.base + b * v.o1, d1 := n, o1 := v.o1 * s } rest
            | none => none
          | none, none => none
      match go parent ops with
      | none => none
      | some (v, xk) =>
        let x2 := xk ≠ 0
        let d := matDesc v act mem (if x2 then 2 else 1)
        if x2 then
          -- promote_array: Array<2,T,A>(2.0*view) resp. Array<2,T,A>(view+view), a fresh row-major array; active: one statement
          -- per element, `2·view[i,k]` resp. `1·view[i,k] + 1·view[i,k]`
          let f := freshMat pw v.d0 v.d1 (fun i k => 2 * mem (v.addr i k))
          some { desc := d, act := act, kind := .mat f, grad := { act := act, blk := .T },
                 conv := if act then convRecord f.v 0 v.d0 v.d1 (fun i k =>
                           if xk = 1 then [(2, ⟨side, v.addr i k⟩)] else [(1, ⟨side, v.addr i k⟩), (1, ⟨side, v.addr i k⟩)]) else [],
                 tsize := if act then f.v.o0 * (v.d0 : Int) else 0 }
        else
          some { desc := d, act := act, kind := .mat { v := v, mem := mem, buf := side }, grad := { act := act, blk := side } }
    | _, _ => none
  | _ => none

/-- dense vector operand: `V <a|p> <PN> <op>* : cells` -/
def parseV (side : Buf) (h : List String) (vals : List Int) : Option Opd :=
  match h with
  | _ :: a :: pn :: ops =>
    match pn.toNat? with
    | some PN =>
      if a ≠ "a" ∧ a ≠ "p" then none else
      let act := a = "a"
      if vals.length ≠ PN then none else
      let mem := memOf vals
      let parent : View1 := if PN = 0 then { base := 0, d := 0, o := 0 } else { base := 0, d := PN, o := 1 }
      let rec go (v : View1) (ops : List String) : Option (View1 × Nat) :=
        match ops with
        | [] => some (v, 0)
        | ["x2"] => some (v, 1)
        | ["xs"] => some (v, 2)
        | w :: rest =>
          match split3 "s" w with
          | some (b, e, s) =>
            match rangeSel v.d b e s with
            | some (b, n) => go { base := v.base + b * v.o, d := n, o := v.o * s } rest
            | none => none
          | none => none
      match go parent ops with
      | none => none
      | some (v, xk) =>
        let x2 := xk ≠ 0
        let d := vecDesc v act mem (if x2 then 2 else 1)
        if x2 then
          -- Array<1>(expression): fresh contiguous vector
          some { desc := d, act := act,
                 kind := .vec { v := { base := 0, d := v.d, o := 1 }, buf := .T,
                                mem := fun p => if 0 ≤ p ∧ p < v.d then 2 * mem (v.addr p.toNat) else 0 },
                 grad := { act := act, blk := .T },
                 conv := if act then convRecord1 0 v.d (fun (i : Nat) =>
                           if xk = 1 then [(2, ⟨side, v.addr i⟩)] else [(1, ⟨side, v.addr i⟩), (1, ⟨side, v.addr i⟩)]) else [],
                 tsize := if act then (v.d : Int) else 0 }
        else some { desc := d, act := act, kind := .vec { v := v, mem := mem, buf := side }, grad := { act := act, blk := side } }
    | none => none
  | _ => none

/-- the FixedArray sizes the harness instantiates (drv_matmul_fixed.h; for float: drv_matmul_flt2.cpp) -/
def fixedMats (flt : Bool) : List (Nat × Nat) :=
  if flt then [(2,3), (3,3), (5,8)] else [(1,1), (2,3), (3,2), (3,3), (5,8), (8,5), (1,3), (3,1)]
def fixedVecs (flt : Bool) : List Nat := if flt then [3, 8] else [1, 2, 3, 5, 8]

/-- `FM <a|p> <R> <C> : cells`, `FV <a|p> <N> : cells` (row-major contiguous, linked by promote_array) -/
def parseF (flt : Bool) (side : Buf) (h : List String) (vals : List Int) : Option Opd :=
  match h with
  | ["FM", a, r, c] =>
    match r.toNat?, c.toNat? with
    | some R, some C =>
      if (a ≠ "a" ∧ a ≠ "p") ∨ ¬ (fixedMats flt).contains (R, C) ∨ vals.length ≠ R * C then none else
      let v : View2 := { base := 0, d0 := R, d1 := C, o0 := C, o1 := 1 }
      some { desc := matDesc v (a = "a") (memOf vals) 1, act := a = "a", kind := .mat { v := v, mem := memOf vals, buf := side },
             grad := { act := a = "a", blk := side } }
    | _, _ => none
  | ["FV", a, n] =>
    match n.toNat? with
    | some N =>
      if (a ≠ "a" ∧ a ≠ "p") ∨ ¬ (fixedVecs flt).contains N ∨ vals.length ≠ N then none else
      let v : View1 := { base := 0, d := N, o := 1 }
      some { desc := vecDesc v (a = "a") (memOf vals) 1, act := a = "a", kind := .vec { v := v, mem := memOf vals, buf := side },
             grad := { act := a = "a", blk := side } }
    | none => none
  | _ => none

/-- special-matrix engines of SpecialMatrix.h -/
inductive Eng
  | sq (row : Bool) | sym (lower : Bool) | lo (row : Bool) | up (row : Bool) | band (row : Bool) (kl ku : Nat)
deriving DecidableEq

def Eng.ofTag : String → Option Eng
  | "sq" => some (.sq true) | "sqc" => some (.sq false)
  | "symL" => some (.sym true) | "symU" => some (.sym false)
  | "lo" => some (.lo true) | "loc" => some (.lo false)
  | "up" => some (.up true) | "upc" => some (.up false)
  | "b00" => some (.band true 0 0) | "b11" => some (.band true 1 1) | "b22" => some (.band true 2 2)
  | "b20" => some (.band true 2 0) | "b02" => some (.band true 0 2) | "b12" => some (.band true 1 2)
  | "cb00" => some (.band false 0 0) | "cb11" => some (.band false 1 1) | "cb22" => some (.band false 2 2)
  | "cb20" => some (.band false 2 0) | "cb02" => some (.band false 0 2) | "cb12" => some (.band false 1 2)
  | _ => none

/-- `Engine::transpose_engine` -/
def Eng.T : Eng → Eng
  | .sq r => .sq (!r) | .sym l => .sym l | .lo r => .up (!r) | .up r => .lo (!r) | .band r kl ku => .band (!r) ku kl

def Eng.packOffset (n : Nat) : Eng → Int
  | .band _ kl ku => (kl + ku : Nat)
  | _ => (n : Nat)

def Eng.dataSize (n : Nat) (off : Int) : Eng → Int
  | .band _ _ _ => ((n : Int) - 1) * (off + 1) + 1
  | _ => ((n : Int) - 1) * off + n

/-- `index(i,j,offset)` where `get_scalar` reads memory, `none` where it returns zero -/
def Eng.cell (e : Eng) (off : Int) (i j : Nat) : Option Int :=
  let rowIdx : Int := (i : Int) * off + j
  let colIdx : Int := (i : Int) + (j : Int) * off
  match e with
  | .sq r => some (if r then rowIdx else colIdx)
  | .sym true => some (if j ≤ i then rowIdx else colIdx)
  | .sym false => some (if i ≤ j then rowIdx else colIdx)
  | .lo r => if j ≤ i then some (if r then rowIdx else colIdx) else none
  | .up r => if i ≤ j then some (if r then rowIdx else colIdx) else none
  | .band r kl ku => if j > i + ku ∨ i > j + kl then none else some (if r then rowIdx else colIdx)

/-- which (type, activity, T / x2) variants the harness instantiates (drv_matmul_s*.cpp); others are `bad-op` there too.
    bit 0 = T allowed, bit 1 = x2 allowed; first component for the passive type, second (if the active type exists) for the active one -/
def variantOfD : String → Option (Nat × Option Nat)
  | "sq" => some (3, some 3) | "sqc" => some (0, some 0)
  | "symL" => some (3, some 0) | "symU" => some (1, some 0)
  | "lo" => some (1, some 1) | "loc" => some (0, some 0) | "up" => some (0, some 0) | "upc" => some (0, some 0)
  | "b00" => some (0, none) | "b11" => some (2, some 0) | "b22" => some (0, none)
  | "b20" => some (0, none) | "b02" => some (0, none) | "b12" => some (1, some 0)
  | "cb00" => some (0, none) | "cb11" => some (0, none) | "cb22" => some (0, none)
  | "cb20" => some (0, none) | "cb02" => some (0, none) | "cb12" => some (1, none)
  | _ => none

/-- the same for element type float (drv_matmul_flt3.cpp, drv_matmul_flt4.cpp) -/
def variantOfF : String → Option (Nat × Option Nat)
  | "sq" => some (0, some 0) | "symL" => some (1, none) | "symU" => some (0, none) | "lo" => some (0, none) | "upc" => some (0, none)
  | "b11" => some (0, some 0) | "b12" => some (1, none) | "b20" => some (0, none) | "cb12" => some (0, none) | "cb02" => some (0, none)
  | _ => none

def variantOf (flt : Bool) (tag : String) : Option (Nat × Option Nat) := if flt then variantOfF tag else variantOfD tag

/-- `S <a|p> <type> <n> <d:i0:i1>* [T|x2] : cells` -/
def parseS (pw : Nat) (flt : Bool) (side : Buf) (h : List String) (vals : List Int) : Option Opd :=
  match h with
  | _ :: a :: tag :: n :: ops =>
    match Eng.ofTag tag, variantOf flt tag, n.toNat? with
    | some eng, some (varP, varA), some N =>
      if a ≠ "a" ∧ a ≠ "p" then none else
      let act := a = "a"
      if act ∧ varA.isNone then none else
      let var : Nat := if act then varA.getD 0 else varP
      let off0 : Int := if N = 0 then 0 else eng.packOffset N
      let ncells : Int := if N = 0 then 0 else eng.dataSize N off0
      if (vals.length : Int) ≠ ncells then none else
      let mem := memOf vals
      -- submatrix_on_diagonal*, then T or x2
      let rec go (base : Int) (dim : Nat) (ops : List String) : Option (Int × Nat × Bool × Bool) :=
        match ops with
        | [] => some (base, dim, false, false)
        | ["T"] => some (base, dim, true, false)
        | ["x2"] => some (base, dim, false, true)
        | w :: rest =>
          match split2 "d" w with
          | some (i0, i1) =>
            if i0 < 0 ∨ i0 > i1 ∨ i1 ≥ dim then none else go (base + (off0 + 1) * i0) (i1 - i0 + 1).toNat rest
          | none => none
      match go 0 N ops with
      | none => none
      | some (base, dim, tr, x2) =>
        if (tr ∧ var % 2 = 0) ∨ (x2 ∧ var / 2 % 2 = 0) then none else
        let e := if tr then eng.T else eng
        let scale : Int := if x2 then 2 else 1
        let lval (i j : Nat) : Int := match e.cell off0 i j with
          | some c => scale * mem (base + c)
          | none => 0
        let d : Desc :=
          { rank := 2, d0 := dim, d1 := dim, o0 := if dim = 0 then 0 else off0, o1 := 0, base := if dim = 0 then 0 else base, act := act,
            vals := logical2 dim dim lval,
            cells := logical2 dim dim (fun i j => match e.cell off0 i j with | some c => base + c | none => -1),
            margin := match e with | .band _ kl ku => max kl ku | _ => 0 }
        -- promote_array: passive symmetric and band matrices stay what they are, everything else becomes a dense array
        let kind : Kind :=
          if act ∨ x2 then .mat (freshMat pw dim dim lval) else
          match e with
          | .sym l => .symm { base := base, lower := l, dim := dim, off := off0, mem := mem, buf := side }
          | .band r kl ku => .band { base := base, rowMajor := r, kl := kl, ku := ku, dim := dim, off := off0, mem := mem, buf := side }
          | _ => .mat (freshMat pw dim dim lval)
        -- an active special matrix becomes Array<2,T,true>(S) (resp. Array<2,T,true>(2.0*S)): one statement per element, `1·S[i,j]`
        -- (resp. `2·S[i,j]`) where the engine stores the element, an empty right-hand side where it is structurally zero
        let f := packRowMajor pw dim dim
        let conv : List (Stmt Int) :=
          if act then convRecord f 0 dim dim (fun i j => match e.cell off0 i j with | some c => [(scale, ⟨side, base + c⟩)] | none => [])
          else []
        let promoted : Bool := act || x2 || (match e with | .sym _ => false | .band _ _ _ => false | _ => true)
        some { desc := d, act := act, kind := kind, grad := { act := act, blk := if promoted then .T else side }, conv := conv,
               tsize := if act then f.o0 * (dim : Int) else 0 }
    | _, _, _ => none
  | _ => none

def parseOpd (pw : Nat) (flt : Bool) (side : Buf) (ws : List String) : Option Opd :=
  match splitColon ws with
  | none => none
  | some (h, vs) =>
    match parseVals vs, h with
    | some vals, "M" :: _ => parseM pw side h vals
    | some vals, "V" :: _ => parseV side h vals
    | some vals, "FM" :: _ => parseF flt side h vals
    | some vals, "FV" :: _ => parseF flt side h vals
    | some vals, "S" :: _ => parseS pw flt side h vals
    | _, _ => none

/-! ### report -/

/-- a gradient index as the harness prints it -/
def grefStr (p : Ptr) : String :=
  (match p.buf with | .L => "L+" | .R => "R+" | .C => "C+" | .T => "T+") ++ toString p.off

def stmtStr (s : Stmt Int) : String :=
  grefStr s.lhs ++ ":" ++ ",".intercalate (s.ops.map (fun p => toString p.1 ++ "*" ++ grefStr p.2))

/-- the ` ; tape …` section: printed whenever the result is active -/
def tapeStr (act : Bool) (stmts : List (Stmt Int)) : String :=
  if act then " ; tape" ++ String.join (stmts.map (fun s => " " ++ stmtStr s)) else ""

def ptrStr (p : Ptr) : String :=
  match p.buf with
  | .L => "L" ++ (if p.off ≥ 0 then "+" else "") ++ toString p.off
  | .R => "R" ++ (if p.off ≥ 0 then "+" else "") ++ toString p.off
  | .C => "C+" ++ toString p.off
  | .T => "T"

def rangeStr (l : List Int) : String :=
  match l with
  | [] => "-"
  | x :: xs =>
    let mn := xs.foldl min x
    let mx := xs.foldl max x
    toString mn ++ ".." ++ toString mx ++ "#" ++ toString l.length

/-- are the indices touched through pointer `p` cells of the operand it points into -/
def within (p : Ptr) (touched : List Int) (write : Bool) (L R : Desc) (ansCells : List Int) : Bool :=
  match p.buf with
  | .L => !write && touched.all (fun t => L.cells.contains (p.off + t) && p.off + t ≥ 0)
  | .R => !write && touched.all (fun t => R.cells.contains (p.off + t) && p.off + t ≥ 0)
  | .C => write && touched.all (fun t => ansCells.contains (p.off + t))
  | .T => true

structure CallRep where
  routine : String
  flags : String
  ints : List Int
  ptrs : List Ptr          -- A, B/X, C/Y
  touched : List (List Int)
  info : Nat

def tf (b : Bool) : String := if b then "T" else "N"

def CallRep.str (c : CallRep) (L R : Desc) (ansCells : List Int) : String :=
  let ins := (c.ptrs.zip c.touched).zipIdx.all (fun ((p, t), k) => within p t (k == 2) L R ansCells)
  c.routine ++ "[" ++ c.flags ++ ";" ++ ",".intercalate (c.ints.map toString) ++ ";" ++
    ",".intercalate (c.ptrs.map ptrStr) ++ ";" ++ ",".intercalate (c.touched.map rangeStr) ++
    ";x=" ++ toString c.info ++ ";in=" ++ (if ins then "ok" else "OUT") ++ "]"

def repGemm (pre : String) (c : GemmCall Int) : CallRep :=
  { routine := pre ++ "gemm", flags := tf c.args.ta ++ tf c.args.tb,
    ints := [c.args.m, c.args.n, c.args.k, c.args.lda, c.args.ldb, c.args.ldc],
    ptrs := [c.pa, c.pb, ⟨.C, 0⟩], touched := [gemmReadA c.args, gemmReadB c.args, gemmWriteC c.args], info := gemmInfo c.args }
def repGemv (pre : String) (c : GemvCall Int) : CallRep :=
  { routine := pre ++ "gemv", flags := tf c.args.trans,
    ints := [c.args.m, c.args.n, c.args.lda, c.args.incx, c.args.incy],
    ptrs := [c.pa, c.px, c.py], touched := [gemvReadA c.args, gemvReadX c.args, gemvWriteY c.args], info := gemvInfo c.args }
def repSymm (pre : String) (c : SymmCall Int) : CallRep :=
  { routine := pre ++ "symm", flags := (if c.args.left then "L" else "R") ++ (if c.args.upper then "U" else "L"),
    ints := [c.args.m, c.args.n, c.args.lda, c.args.ldb, c.args.ldc],
    ptrs := [c.pa, c.pb, ⟨.C, 0⟩], touched := [symmReadA c.args, symmReadB c.args, symmWriteC c.args], info := symmInfo c.args }
def repSymv (pre : String) (c : SymvCall Int) : CallRep :=
  { routine := pre ++ "symv", flags := (if c.args.upper then "U" else "L"),
    ints := [c.args.n, c.args.lda, c.args.incx, c.args.incy],
    ptrs := [c.pa, c.px, ⟨.C, 0⟩], touched := [symvReadA c.args, symvReadX c.args, symvWriteY c.args], info := symvInfo c.args }
def repGbmv (pre : String) (c : GbmvCall Int) : CallRep :=
  { routine := pre ++ "gbmv", flags := tf c.args.trans,
    ints := [c.args.m, c.args.n, c.args.kl, c.args.ku, c.args.lda, c.args.incx, c.args.incy],
    ptrs := [c.pa, c.px, c.py], touched := [gbmvReadA c.args, gbmvReadX c.args, gbmvWriteY c.args], info := gbmvInfo c.args }

def excStr : Err → String
  | .emptyArray => "EXC empty_array"
  | .innerDimensionMismatch => "EXC inner_dimension_mismatch"
  | .invalidOperation => "EXC invalid_operation"

def resStr2 (calls : List CallRep) (L R : Desc) (ans : Mat Int) : String :=
  let cells := logical2 ans.v.d0 ans.v.d1 (fun i j => ans.v.addr i j)
  let bad := calls.any (·.info ≠ 0)
  "calls" ++ String.join (calls.map (fun c => " " ++ c.str L R cells)) ++
  " ; res 2 d=" ++ toString ans.v.d0 ++ "," ++ toString ans.v.d1 ++ " o=" ++ toString ans.v.o0 ++ "," ++ toString ans.v.o1 ++
  " v=[" ++ ",".intercalate (logical2 ans.v.d0 ans.v.d1 (fun i j => if bad then "?" else toString (ans.get i j))) ++ "]"

def resStr1 (calls : List CallRep) (L R : Desc) (ans : Vec Int) : String :=
  let cells := (List.range ans.v.d).map (fun i => ans.v.addr i)
  let bad := calls.any (·.info ≠ 0)
  "calls" ++ String.join (calls.map (fun c => " " ++ c.str L R cells)) ++
  " ; res 1 d=" ++ toString ans.v.d ++ " o=" ++ toString ans.v.o ++
  " v=[" ++ ",".intercalate ((List.range ans.v.d).map (fun i => if bad then "?" else toString (ans.get i))) ++ "]"

/-- the overload set of `matmul_` after `promote_array` -/
def product (pw : Nat) (pre : String) (l r : Opd) : Option String :=
  let L := l.desc
  let R := r.desc
  let act := l.act || r.act
  let conv := l.conv ++ r.conv           -- at most one of the two operands is converted
  let t := l.tsize + r.tsize
  match l.kind, r.kind with
  | .mat A, .mat B => some <| match matmulMM pw A B with
    | .error e => excStr e
    | .ok o => resStr2 [repGemm pre o.call] L R o.ans ++ tapeStr act (conv ++ matmulMMTape pw l.grad r.grad t A B)
  | .mat A, .vec x => some <| match matmulMV pw A x with
    | .error e => excStr e
    | .ok o => resStr1 [repGemv pre o.call] L R o.ans ++ tapeStr act (conv ++ matmulMVTape pw l.grad r.grad t A x)
  | .vec x, .mat B => some <| match matmulVM pw x B with
    | .error e => excStr e
    | .ok o => resStr1 [repGemv pre o.call] L R o.ans ++ tapeStr act (conv ++ matmulVMTape pw l.grad r.grad t x B)
  | .symm s, .vec x => some <| match matmulSymV l.act r.act s x with
    | .error e => excStr e
    | .ok o => resStr1 [repSymv pre o.call] L R o.ans ++ tapeStr act []
  | .symm s, .mat B => some <| match matmulSymM pw l.act r.act s B with
    | .error e => excStr e
    | .ok o => resStr2 [repSymm pre o.call] L R o.ans ++ tapeStr act []
  | .vec x, .symm s => some <| match matmulVSym l.act r.act x s with
    | .error e => excStr e
    | .ok o => resStr1 [repSymv pre o.call] L R o.ans ++ tapeStr act []
  | .mat A, .symm s => some <| match matmulMSym pw l.act r.act A s with
    | .error e => excStr e
    | .ok o => resStr2 [repSymm pre o.call] L R o.ans ++ tapeStr act []
  | .band b, .vec x => some <| match matmulBandV l.act b x with
    | .error e => excStr e
    | .ok o => resStr1 [repGbmv pre o.call] L R o.ans ++ tapeStr act (conv ++ matmulBandVTape b r.grad x)
  | .band b, .mat B => some <| match matmulBandM pw l.act r.act b B with
    | .error e => excStr e
    | .ok o => resStr2 (o.calls.map (repGbmv pre)) L R o.ans ++ tapeStr act []
  | .vec x, .band b => some <| match matmulVBand r.act x b with
    | .error e => excStr e
    | .ok o => resStr1 [repGbmv pre o.call] L R o.ans ++ tapeStr act (conv ++ matmulVBandTape l.grad x b)
  | .mat A, .band b => some <| match matmulMBand pw l.act r.act A b with
    | .error e => excStr e
    | .ok o => resStr2 (o.calls.map (repGbmv pre)) L R o.ans ++ tapeStr act []
  | _, _ => none

def isPlainDense (ws : List String) : Bool :=
  match splitColon ws with
  | some (h, _) => (h.head? = some "M" ∨ h.head? = some "V") ∧ h.getLast? ≠ some "x2" ∧ h.getLast? ≠ some "xs"
  | none => false

def step (s : St) (ws : List String) : St × String :=
  match ws with
  | ["cfg", p] => match p.toNat? with
    | some pw => if pw = 0 then (s, "bad-op") else ({ s with pw := pw }, "cfg " ++ toString pw ++ " ok")
    | none => (s, "bad-op")
  | ["cfg", p, pf] => match p.toNat?, pf.toNat? with
    | some pw, some pwf =>
      if pw = 0 ∨ pwf = 0 then (s, "bad-op") else ({ pw := pw, pwf := pwf }, "cfg " ++ toString pw ++ " " ++ toString pwf ++ " ok")
    | _, _ => (s, "bad-op")
  | c :: rest =>
    if c ≠ "P" ∧ c ≠ "Q" ∧ c ≠ "Pf" ∧ c ≠ "Qf" then (s, "bad-op") else
    let flt : Bool := c = "Pf" || c = "Qf"
    let pw := if flt then s.pwf else s.pw
    match rest.span (· ≠ "|") with
    | (lw, _ :: rw) =>
      if ¬ (isPlainDense lw ∨ isPlainDense rw) then (s, "bad-op") else
      match parseOpd pw flt .L lw, parseOpd pw flt .R rw with
      | some l, some r =>
        match product pw (if flt then "s" else "d") l r with
        | some out => (s, "L " ++ l.desc.str ++ " ; R " ++ r.desc.str ++ " ; " ++ out)
        | none => (s, "bad-op")
      | _, _ => (s, "bad-op")
    | _ => (s, "bad-op")
  | _ => (s, "bad-op")

end MatmulDrv
