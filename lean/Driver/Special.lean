import AdeptModel.Special
import Driver.Common
/-! driver family `special`: same ops and output text as harness/drv_special.cpp (see the header comment there).
    Every line is self-contained, so the state is `Unit`. -/
open Adept Adept.Engines Adept.Special

namespace SpecialDrv

def showList (xs : List Int) : String :=
  if xs.isEmpty then "-" else ",".intercalate (xs.map toString)

def rangeI (n : Int) : List Int := (List.range n.toNat).map (fun (k : Nat) => (k : Int))

/-- raw element k of M holds k+1, of N 1001+k, of an assignment target -1 -/
def dM : Raw := ⟨fun k => k + 1⟩
def dN : Raw := ⟨fun k => 1001 + k⟩
def dS : Raw := ⟨fun _ => -1⟩

def rawList (m : SM) (d : Raw) : List Int := (rangeI m.rawSize).map (fun k => d (m.base + k))

/-- text of `changes(...)` in the harness -/
def changes (m : SM) (d0 d1 : Raw) : String :=
  let n := m.dim
  let cells := (rangeI n).flatMap (fun i => (rangeI n).map (fun j => (i, j)))
  let chg := cells.filterMap (fun (i, j) =>
    if m.get d0 i j ≠ m.get d1 i j then some s!"{i}:{j}:{m.get d1 i j}" else none)
  let raw := (rangeI m.rawSize).filterMap (fun k =>
    if d0 (m.base + k) ≠ d1 (m.base + k) then some s!"{k}:{d1 (m.base + k)}" else none)
  "chg=" ++ (if chg.isEmpty then "-" else ",".intercalate chg) ++
  " raw=" ++ (if raw.isEmpty then "-" else ",".intercalate raw)

def rawView (m : SM) (d : Raw) : String :=
  "raw=" ++ showList (rawList m d) ++ " view=" ++ showList (m.view d)

/-- the right-hand side forms of the self-referential block statements: `2.0*X`, `X`, `2.0*X + X`, `X.T()`,
    `2.0*X + X.T()` -/
def blockForm (f : String) (y : SM) : Option AExpr :=
  if f = "k2" then some (.scale (.leaf y) 2)
  else if f = "cp" then some (.leaf y)
  else if f = "sum" then some (.add (.scale (.leaf y) 2) (.leaf y))
  else if f = "T" then some (.leaf y.T)
  else if f = "mixT" then some (.add (.scale (.leaf y) 2) (.leaf y.T))
  else none

/-- the right-hand side forms of the `diag_vector` statements: `2.0*w`, `w`, `2.0*w + w`,
    `2.0*w(stride(len-1,0,-1))` -/
def vecForm (f : String) (w : SM.Vec) : Option VExpr :=
  if f = "k2" then some (.scale (.vec w) 2)
  else if f = "cp" then some (.vec w)
  else if f = "sum" then some (.add (.scale (.vec w) 2) (.vec w))
  else if f = "rev" then some (.scale (.vec w.rev) 2)
  else none

def selfOut (m : SM) (al : Bool) (d : Raw) : String :=
  s!"alias={if al then 1 else 0} " ++ rawView m d

/-- the second Storage object (matrix N of `cmp`, matrix B of `act`) occupies addresses 10000, 10001, … of the
    model's single address space: two allocations never overlap, which is all `is_aliased` looks at -/
def base2 : Int := 10000

def p3 (k : Int) : Int := if k % 3 = 0 then 1 else if k % 3 = 1 then 2 else 4

/-- raw fills of `cmp`: M k+1, N 1001+k; for `/=` M 8(k+1), N {1,2,4}[k%3] -/
def dCmp (dv : Bool) : Raw :=
  ⟨fun k => if k ≥ base2 then (if dv then p3 (k - base2) else 1001 + (k - base2)) else (if dv then 8 * (k + 1) else k + 1)⟩

def binOp? (s : String) : Option BinOp :=
  if s = "add" then some .add else if s = "sub" then some .sub else if s = "mul" then some .mul
  else if s = "div" then some .div else none

def gradName (g : Int) : String :=
  if g = -1 then "x" else if g ≥ base2 then s!"b{g - base2}" else s!"a{g}"

/-- text of `tape_dump(...)` in the harness -/
def showTape (t : List SM.Stmt) : String :=
  if t.isEmpty then "-" else
  ";".intercalate (t.map (fun s =>
    gradName s.lhs ++ ":" ++ "+".intercalate (s.ops.map (fun (mu, g) => s!"{mu}*{gradName g}"))))

def parseEngine (name l u : String) : Option Engine :=
  match l.toInt?, u.toInt? with
  | some l, some u =>
    match Engine.ofName name [l, u] with
    | some e => some e
    | none => if l = 0 ∧ u = 0 then Engine.ofName name [] else none
  | _, _ => none

def mode? (s : String) : Option Bool := if s = "p" then some false else if s = "a" then some true else none

def run (op : String) (e : Engine) (n : Int) (args : List String) : String :=
  let m := SM.packed e n
  let nn := n.toNat
  match op, args with
  | "info", [] => s!"offset={m.offset} size={m.rawSize} contiguous={if m.isContiguous then 1 else 0}"
  | "get", [] => showList (m.view dM)
  | "ptr", [md] =>
    match mode? md with
    | some act =>
      ",".intercalate ((rangeI n).flatMap (fun i => (rangeI n).map (fun j =>
        match m.ref act i j with
        | some k => toString k
        | none => "z")))
    | none => "bad-op"
  | "wr", [md, i, j] =>
    match mode? md, i.toInt?, j.toInt? with
    | some act, some i, some j =>
      if i < 0 ∨ j < 0 ∨ i ≥ n ∨ j ≥ n then "bad-op" else
      match m.ref act i j with
      | some k => changes m dM (Raw.set dM k 1000)
      | none => "oob"
    | _, _, _ => "bad-op"
  | "dense", [] => showList ((RExpr.sm m dM).toDense nn)
  | "fromdense", [k] =>
    if k = "s" then
      rawView m (m.assign (.dense (fun i j => 100 * (min i j) + (max i j) + 1)) dS)
    else if k = "a" then
      rawView m (m.assign (.dense (fun i j => 100 * i + j + 1)) dS)
    else "bad-op"
  | "scalar", [] => rawView m (m.assign (.dense (fun _ _ => 5)) dS)
  | "T", [] =>
    "conv=" ++ showList ((RExpr.sm m.T dM).toDense nn) ++ " get=" ++ showList (m.T.view dM) ++
    " convTT=" ++ showList ((RExpr.sm m.T.T dM).toDense nn)
  | "diag", [k] =>
    match k.toInt? with
    | some k =>
      if k ≤ -n ∨ k ≥ n then "bad-op" else
      match m.diag k with
      | some v => showList ((rangeI v.len).map (fun t => dM (v.base + t * v.stride)))
      | none => "oob"
    | none => "bad-op"
  | "wrdiag", [k, t] =>
    match k.toInt?, t.toInt? with
    | some k, some t =>
      let len := n - (if k < 0 then -k else k)
      if k ≤ -n ∨ k ≥ n ∨ t < 0 ∨ t ≥ len then "bad-op" else
      match m.diag k with
      | some v => changes m dM (Raw.set dM (v.base + t * v.stride) 1000)
      | none => "oob"
    | _, _ => "bad-op"
  | "sub", [a, b] =>
    match a.toInt?, b.toInt? with
    | some a, some b =>
      match m.sub a b with
      | some x =>
        "get=" ++ showList (x.view dM) ++ " conv=" ++ showList ((RExpr.sm x dM).toDense x.dim.toNat) ++
        " convT=" ++ showList ((RExpr.sm x.T dM).toDense x.dim.toNat)
      | none => "oob"
    | _, _ => "bad-op"
  | "expr", [] => showList ((RExpr.add (.scale (.sm m dM) 2) (.sm m dN)).toDense nn)
  | "exprT", [] => showList ((RExpr.add (.scale (.sm m dM) 2) (.sm m.T dN)).toDense nn)
  | "assign", [] => rawView m (m.assign (.add (.scale (.sm m dM) 2) (.sm m dN)) dS)
  | "assignT", [] => rawView m (m.assign (.add (.scale (.sm m dM) 2) (.sm m.T dN)) dS)
  | "sinfo", [a, b] =>
    match a.toInt?, b.toInt? with
    | some a, some b =>
      match m.sub a b with
      | some x => s!"offset={x.offset} size={x.rawSize} contiguous={if x.isContiguous then 1 else 0}"
      | none => "oob"
    | _, _ => "bad-op"
  | "sdiag", [a, b, k] =>
    match a.toInt?, b.toInt?, k.toInt? with
    | some a, some b, some k =>
      match m.sub a b with
      | some x =>
        if k ≤ -x.dim ∨ k ≥ x.dim then "bad-op" else
        match x.diag k with
        | some v => showList ((rangeI v.len).map (fun t => dM (v.base + t * v.stride)))
        | none => "oob"
      | none => "oob"
    | _, _, _ => "bad-op"
  | "sTdiag", [a, b, k] =>
    match a.toInt?, b.toInt?, k.toInt? with
    | some a, some b, some k =>
      match m.sub a b with
      | some x =>
        if k ≤ -x.dim ∨ k ≥ x.dim then "bad-op" else
        match x.T.diag k with
        | some v => showList ((rangeI v.len).map (fun t => dM (v.base + t * v.stride)))
        | none => "oob"
      | none => "oob"
    | _, _, _ => "bad-op"
  | "swrdiag", [a, b, k, t] =>
    match a.toInt?, b.toInt?, k.toInt?, t.toInt? with
    | some a, some b, some k, some t =>
      match m.sub a b with
      | some x =>
        let len := x.dim - (if k < 0 then -k else k)
        if k ≤ -x.dim ∨ k ≥ x.dim ∨ t < 0 ∨ t ≥ len then "bad-op" else
        match x.diag k with
        | some v => changes m dM (Raw.set dM (v.base + t * v.stride) 1000)
        | none => "oob"
      | none => "oob"
    | _, _, _, _ => "bad-op"
  | "swr", [a, b, md, i, j] =>
    match a.toInt?, b.toInt?, mode? md, i.toInt?, j.toInt? with
    | some a, some b, some act, some i, some j =>
      match m.sub a b with
      | some x =>
        if i < 0 ∨ j < 0 ∨ i ≥ x.dim ∨ j ≥ x.dim then "bad-op" else
        match x.ref act i j with
        | some k => changes m dM (Raw.set dM k 1000)
        | none => "oob"
      | none => "oob"
    | _, _, _, _, _ => "bad-op"
  | "sT", [a, b] =>
    match a.toInt?, b.toInt? with
    | some a, some b =>
      match m.sub a b with
      | some x =>
        "conv=" ++ showList ((RExpr.sm x.T dM).toDense x.dim.toNat) ++ " get=" ++ showList (x.T.view dM) ++
        " convTT=" ++ showList ((RExpr.sm x.T.T dM).toDense x.dim.toNat)
      | none => "oob"
    | _, _ => "bad-op"
  | "ssub", [a, b, a2, b2] =>
    match a.toInt?, b.toInt?, a2.toInt?, b2.toInt? with
    | some a, some b, some a2, some b2 =>
      match m.sub a b with
      | some x =>
        match x.sub a2 b2 with
        | some y =>
          "get=" ++ showList (y.view dM) ++ " conv=" ++ showList ((RExpr.sm y dM).toDense y.dim.toNat) ++
          " convT=" ++ showList ((RExpr.sm y.T dM).toDense y.dim.toNat)
        | none => "oob"
      | none => "oob"
    | _, _, _, _ => "bad-op"
  | "sassign", [a, b] =>
    match a.toInt?, b.toInt? with
    | some a, some b =>
      match m.sub a b with
      | some x => rawView m (x.assign (.add (.scale (.sm x dM) 2) (.sm x.T dN)) dS)
      | none => "oob"
    | _, _ => "bad-op"
  | "selfsub", [a, b, c, d, f] =>
    match a.toInt?, b.toInt?, c.toInt?, d.toInt? with
    | some a, some b, some c, some d =>
      match m.sub a b, m.sub c d with
      | some x, some y =>
        match blockForm f y with
        | some rhs =>
          if x.dim ≠ y.dim then "mismatch" else
          selfOut m (rhs.isAliased x.dataBegin x.dataEnd) (x.assignExpr rhs dM)
        | none => "bad-op"
      | _, _ => "oob"
    | _, _, _, _ => "bad-op"
  | "selfT", [] =>
    let rhs := AExpr.leaf m.T
    selfOut m (rhs.isAliased m.dataBegin m.dataEnd) (m.assignExpr rhs dM)
  | "selfexpr", [] =>
    let rhs := AExpr.add (.scale (.leaf m) 2) (.leaf m)
    selfOut m (rhs.isAliased m.dataBegin m.dataEnd) (m.assignExpr rhs dM)
  | "selfdiag", [k, k2, f] =>
    match k.toInt?, k2.toInt? with
    | some k, some k2 =>
      if k ≤ -n ∨ k ≥ n ∨ k2 ≤ -n ∨ k2 ≥ n then "bad-op" else
      match m.diag k, m.diag k2 with
      | some v, some w =>
        match vecForm f w with
        | some rhs =>
          if v.len ≠ w.len then "mismatch" else
          selfOut m (rhs.isAliased v.dataBegin v.dataEnd) (v.assignExpr rhs dM)
        | none => "bad-op"
      | _, _ => "oob"
    | _, _ => "bad-op"
  | "cmp", [tv, a, b, op, form, src, c, d] =>
    match a.toInt?, b.toInt?, c.toInt?, d.toInt?, binOp? op with
    | some a, some b, some c, some d, some o =>
      let leaf := form == "cp" || form == "k2" || form == "T" || form == "mixT"
      if tv != "v" && tv != "t" then "bad-op"
      else if !leaf && !((form == "c" || form == "D") && src == "-" && c == 0 && d == 0) then "bad-op"
      else if leaf && src != "m" && src != "n" then "bad-op"
      else
      let dv := o == BinOp.div
      let mN : SM := { m with base := base2 }
      match m.sub a b, (if leaf then (if src == "m" then m else mN).sub c d else m.sub a b) with
      | some x, some y0 =>
        let v := if tv == "t" then x.T else x
        let y := if tv == "t" then y0.T else y0
        if leaf && v.dim != y.dim then "mismatch"
        else if form == "c" then selfOut m false (v.compoundScalar o 2 (dCmp dv))
        else
          let rhs? : Option AExpr :=
            if form == "D" then some (.dense (fun i j => if dv then p3 (i + 2 * j) else 100 * i + j + 1) 0 0)
            else blockForm form y
          match rhs? with
          | some rhs => selfOut m (rhs.isAliased v.dataBegin v.dataEnd) (v.compound o rhs (dCmp dv))
          | none => "bad-op"
      | _, _ => "oob"
    | _, _, _, _, _ => "bad-op"
  | "act", [tv, a, b, kind] =>
    match a.toInt?, b.toInt? with
    | some a, some b =>
      if tv != "v" && tv != "t" then "bad-op" else
      let mB : SM := { m with base := base2 }
      match m.sub a b, mB.sub a b with
      | some x, some bx =>
        let v := if tv == "t" then x.T else x
        let bv := if tv == "t" then bx.T else bx
        let dd := dCmp false
        if kind == "x" then
          let r := v.assignActiveScalar 7 (-1) dd
          rawView m r.1 ++ " tape=" ++ showTape r.2
        else if kind == "c" then
          rawView m (v.assign (.dense (fun _ _ => 5)) dd) ++ " tape=" ++ showTape v.recPassiveScalar
        else if kind == "cp" || kind == "k2" || kind == "T" || kind == "mixT" then
          match blockForm kind bv with
          | some rhs => rawView m (v.assignExpr rhs dd) ++ " tape=" ++ showTape (v.recExpr rhs)
          | none => "bad-op"
        else "bad-op"
      | _, _ => "oob"
    | _, _ => "bad-op"
  | "dmat", [st] =>
    -- `Array<1>::diag_matrix()`: SpecialMatrix<BandEngine<ROW_MAJOR,0,0>>(data_, storage_, dimensions_[0], offset_[0]-1)
    match st.toInt? with
    | some st =>
      if e ≠ Engine.BandEngine_ROW_MAJOR 0 0 ∨ st < 1 ∨ st > 8 then "bad-op" else
      let x : SM := { e := e, dim := n, offset := st - 1, base := 0 }
      s!"offset={x.offset} get=" ++ showList (x.view dM) ++ " conv=" ++ showList ((RExpr.sm x dM).toDense nn) ++
      " convT=" ++ showList ((RExpr.sm x.T dM).toDense nn)
    | none => "bad-op"
  | _, _ => "bad-op"

def step (s : Unit) (ws : List String) : Unit × String :=
  match ws with
  | op :: name :: l :: u :: n :: args =>
    match parseEngine name l u, n.toInt? with
    | some e, some n => if n < 1 ∨ n > 64 then (s, "bad-op") else (s, run op e n args)
    | _, _ => (s, "bad-op")
  | _ => (s, "bad-op")

end SpecialDrv
