import AdeptModel.Special
import Driver.Common
/-! driver family `special`: same ops and output text as harness/drv_special.cpp (see the header comment there).
    Every line is self-contained, so the state is `Unit`. -/
open Adept Adept.Engines Adept.Special

namespace SpecialDrv

def showList (xs : List Int) : String :=
  if xs.isEmpty then "-" else ",".intercalate (xs.map toString)

def rangeI (n : Int) : List Int := (List.range n.toNat).map (fun (k : Nat) => (k : Int))

/-- raw element k of M holds k+1, of N 1001+k, of an assignment target -1 -/
def dM : Raw := ⟨fun k => k + 1⟩
def dN : Raw := ⟨fun k => 1001 + k⟩
def dS : Raw := ⟨fun _ => -1⟩

def rawList (m : SM) (d : Raw) : List Int := (rangeI m.rawSize).map (fun k => d (m.base + k))

/-- text of `changes(...)` in the harness -/
def changes (m : SM) (d0 d1 : Raw) : String :=
  let n := m.dim
  let cells := (rangeI n).flatMap (fun i => (rangeI n).map (fun j => (i, j)))
  let chg := cells.filterMap (fun (i, j) =>
    if m.get d0 i j ≠ m.get d1 i j then some s!"{i}:{j}:{m.get d1 i j}" else none)
  let raw := (rangeI m.rawSize).filterMap (fun k =>
    if d0 (m.base + k) ≠ d1 (m.base + k) then some s!"{k}:{d1 (m.base + k)}" else none)
  "chg=" ++ (if chg.isEmpty then "-" else ",".intercalate chg) ++
  " raw=" ++ (if raw.isEmpty then "-" else ",".intercalate raw)

def rawView (m : SM) (d : Raw) : String :=
  "raw=" ++ showList (rawList m d) ++ " view=" ++ showList (m.view d)

/-- the right-hand side forms of the self-referential block statements: `2.0*X`, `X`, `2.0*X + X`, `X.T()`,
    `2.0*X + X.T()` -/
def blockForm (f : String) (y : SM) : Option AExpr :=
  if f = "k2" then some (.scale (.leaf y) 2)
  else if f = "cp" then some (.leaf y)
  else if f = "sum" then some (.add (.scale (.leaf y) 2) (.leaf y))
  else if f = "T" then some (.leaf y.T)
  else if f = "mixT" then some (.add (.scale (.leaf y) 2) (.leaf y.T))
  else none

/-- the right-hand side forms of the `diag_vector` statements: `2.0*w`, `w`, `2.0*w + w`,
    `2.0*w(stride(len-1,0,-1))` -/
def vecForm (f : String) (w : SM.Vec) : Option VExpr :=
  if f = "k2" then some (.scale (.vec w) 2)
  else if f = "cp" then some (.vec w)
  else if f = "sum" then some (.add (.scale (.vec w) 2) (.vec w))
  else if f = "rev" then some (.scale (.vec w.rev) 2)
  else none

def selfOut (m : SM) (al : Bool) (d : Raw) : String :=
  s!"alias={if al then 1 else 0} " ++ rawView m d

def parseEngine (name l u : String) : Option Engine :=
  match l.toInt?, u.toInt? with
  | some l, some u =>
    match Engine.ofName name [l, u] with
    | some e => some e
    | none => if l = 0 ∧ u = 0 then Engine.ofName name [] else none
  | _, _ => none

def mode? (s : String) : Option Bool := if s = "p" then some false else if s = "a" then some true else none

def run (op : String) (e : Engine) (n : Int) (args : List String) : String :=
  let m := SM.packed e n
  let nn := n.toNat
  match op, args with
  | "info", [] => s!"offset={m.offset} size={m.rawSize} contiguous={if m.isContiguous then 1 else 0}"
  | "get", [] => showList (m.view dM)
  | "ptr", [md] =>
    match mode? md with
    | some act =>
      ",".intercalate ((rangeI n).flatMap (fun i => (rangeI n).map (fun j =>
        match m.ref act i j with
        | some k => toString k
        | none => "z")))
    | none => "bad-op"
  | "wr", [md, i, j] =>
    match mode? md, i.toInt?, j.toInt? with
    | some act, some i, some j =>
      if i < 0 ∨ j < 0 ∨ i ≥ n ∨ j ≥ n then "bad-op" else
      match m.ref act i j with
      | some k => changes m dM (Raw.set dM k 1000)
      | none => "oob"
    | _, _, _ => "bad-op"
  | "dense", [] => showList ((RExpr.sm m dM).toDense nn)
  | "fromdense", [k] =>
    if k = "s" then
      rawView m (m.assign (.dense (fun i j => 100 * (min i j) + (max i j) + 1)) dS)
    else if k = "a" then
      rawView m (m.assign (.dense (fun i j => 100 * i + j + 1)) dS)
    else "bad-op"
  | "scalar", [] => rawView m (m.assign (.dense (fun _ _ => 5)) dS)
  | "T", [] =>
    "conv=" ++ showList ((RExpr.sm m.T dM).toDense nn) ++ " get=" ++ showList (m.T.view dM) ++
    " convTT=" ++ showList ((RExpr.sm m.T.T dM).toDense nn)
  | "diag", [k] =>
    match k.toInt? with
    | some k =>
      if k ≤ -n ∨ k ≥ n then "bad-op" else
      match m.diag k with
      | some v => showList ((rangeI v.len).map (fun t => dM (v.base + t * v.stride)))
      | none => "oob"
    | none => "bad-op"
  | "wrdiag", [k, t] =>
    match k.toInt?, t.toInt? with
    | some k, some t =>
      let len := n - (if k < 0 then -k else k)
      if k ≤ -n ∨ k ≥ n ∨ t < 0 ∨ t ≥ len then "bad-op" else
      match m.diag k with
      | some v => changes m dM (Raw.set dM (v.base + t * v.stride) 1000)
      | none => "oob"
    | _, _ => "bad-op"
  | "sub", [a, b] =>
    match a.toInt?, b.toInt? with
    | some a, some b =>
      match m.sub a b with
      | some x =>
        "get=" ++ showList (x.view dM) ++ " conv=" ++ showList ((RExpr.sm x dM).toDense x.dim.toNat) ++
        " convT=" ++ showList ((RExpr.sm x.T dM).toDense x.dim.toNat)
      | none => "oob"
    | _, _ => "bad-op"
  | "expr", [] => showList ((RExpr.add (.scale (.sm m dM) 2) (.sm m dN)).toDense nn)
  | "exprT", [] => showList ((RExpr.add (.scale (.sm m dM) 2) (.sm m.T dN)).toDense nn)
  | "assign", [] => rawView m (m.assign (.add (.scale (.sm m dM) 2) (.sm m dN)) dS)
  | "assignT", [] => rawView m (m.assign (.add (.scale (.sm m dM) 2) (.sm m.T dN)) dS)
  | "sinfo", [a, b] =>
    match a.toInt?, b.toInt? with
    | some a, some b =>
      match m.sub a b with
      | some x => s!"offset={x.offset} size={x.rawSize} contiguous={if x.isContiguous then 1 else 0}"
      | none => "oob"
    | _, _ => "bad-op"
  | "sdiag", [a, b, k] =>
    match a.toInt?, b.toInt?, k.toInt? with
    | some a, some b, some k =>
      match m.sub a b with
      | some x =>
        if k ≤ -x.dim ∨ k ≥ x.dim then "bad-op" else
        match x.diag k with
        | some v => showList ((rangeI v.len).map (fun t => dM (v.base + t * v.stride)))
        | none => "oob"
      | none => "oob"
    | _, _, _ => "bad-op"
  | "sTdiag", [a, b, k] =>
    match a.toInt?, b.toInt?, k.toInt? with
    | some a, some b, some k =>
      match m.sub a b with
      | some x =>
        if k ≤ -x.dim ∨ k ≥ x.dim then "bad-op" else
        match x.T.diag k with
        | some v => showList ((rangeI v.len).map (fun t => dM (v.base + t * v.stride)))
        | none => "oob"
      | none => "oob"
    | _, _, _ => "bad-op"
  | "swrdiag", [a, b, k, t] =>
    match a.toInt?, b.toInt?, k.toInt?, t.toInt? with
    | some a, some b, some k, some t =>
      match m.sub a b with
      | some x =>
        let len := x.dim - (if k < 0 then -k else k)
        if k ≤ -x.dim ∨ k ≥ x.dim ∨ t < 0 ∨ t ≥ len then "bad-op" else
        match x.diag k with
        | some v => changes m dM (Raw.set dM (v.base + t * v.stride) 1000)
        | none => "oob"
      | none => "oob"
    | _, _, _, _ => "bad-op"
  | "swr", [a, b, md, i, j] =>
    match a.toInt?, b.toInt?, mode? md, i.toInt?, j.toInt? with
    | some a, some b, some act, some i, some j =>
      match m.sub a b with
      | some x =>
        if i < 0 ∨ j < 0 ∨ i ≥ x.dim ∨ j ≥ x.dim then "bad-op" else
        match x.ref act i j with
        | some k => changes m dM (Raw.set dM k 1000)
        | none => "oob"
      | none => "oob"
    | _, _, _, _, _ => "bad-op"
  | "sT", [a, b] =>
    match a.toInt?, b.toInt? with
    | some a, some b =>
      match m.sub a b with
      | some x =>
        "conv=" ++ showList ((RExpr.sm x.T dM).toDense x.dim.toNat) ++ " get=" ++ showList (x.T.view dM) ++
        " convTT=" ++ showList ((RExpr.sm x.T.T dM).toDense x.dim.toNat)
      | none => "oob"
    | _, _ => "bad-op"
  | "ssub", [a, b, a2, b2] =>
    match a.toInt?, b.toInt?, a2.toInt?, b2.toInt? with
    | some a, some b, some a2, some b2 =>
      match m.sub a b with
      | some x =>
        match x.sub a2 b2 with
        | some y =>
          "get=" ++ showList (y.view dM) ++ " conv=" ++ showList ((RExpr.sm y dM).toDense y.dim.toNat) ++
          " convT=" ++ showList ((RExpr.sm y.T dM).toDense y.dim.toNat)
        | none => "oob"
      | none => "oob"
    | _, _, _, _ => "bad-op"
  | "sassign", [a, b] =>
    match a.toInt?, b.toInt? with
    | some a, some b =>
      match m.sub a b with
      | some x => rawView m (x.assign (.add (.scale (.sm x dM) 2) (.sm x.T dN)) dS)
      | none => "oob"
    | _, _ => "bad-op"
  | "selfsub", [a, b, c, d, f] =>
    match a.toInt?, b.toInt?, c.toInt?, d.toInt? with
    | some a, some b, some c, some d =>
      match m.sub a b, m.sub c d with
      | some x, some y =>
        match blockForm f y with
        | some rhs =>
          if x.dim ≠ y.dim then "mismatch" else
          selfOut m (rhs.isAliased x.dataBegin x.dataEnd) (x.assignExpr rhs dM)
        | none => "bad-op"
      | _, _ => "oob"
    | _, _, _, _ => "bad-op"
  | "selfT", [] =>
    let rhs := AExpr.leaf m.T
    selfOut m (rhs.isAliased m.dataBegin m.dataEnd) (m.assignExpr rhs dM)
  | "selfexpr", [] =>
    let rhs := AExpr.add (.scale (.leaf m) 2) (.leaf m)
    selfOut m (rhs.isAliased m.dataBegin m.dataEnd) (m.assignExpr rhs dM)
  | "selfdiag", [k, k2, f] =>
    match k.toInt?, k2.toInt? with
    | some k, some k2 =>
      if k ≤ -n ∨ k ≥ n ∨ k2 ≤ -n ∨ k2 ≥ n then "bad-op" else
      match m.diag k, m.diag k2 with
      | some v, some w =>
        match vecForm f w with
        | some rhs =>
          if v.len ≠ w.len then "mismatch" else
          selfOut m (rhs.isAliased v.dataBegin v.dataEnd) (v.assignExpr rhs dM)
        | none => "bad-op"
      | _, _ => "oob"
    | _, _ => "bad-op"
  | "dmat", [st] =>
    -- `Array<1>::diag_matrix()`: SpecialMatrix<BandEngine<ROW_MAJOR,0,0>>(data_, storage_, dimensions_[0], offset_[0]-1)
    match st.toInt? with
    | some st =>
      if e ≠ Engine.BandEngine_ROW_MAJOR 0 0 ∨ st < 1 ∨ st > 8 then "bad-op" else
      let x : SM := { e := e, dim := n, offset := st - 1, base := 0 }
      s!"offset={x.offset} get=" ++ showList (x.view dM) ++ " conv=" ++ showList ((RExpr.sm x dM).toDense nn) ++
      " convT=" ++ showList ((RExpr.sm x.T dM).toDense nn)
    | none => "bad-op"
  | _, _ => "bad-op"

def step (s : Unit) (ws : List String) : Unit × String :=
  match ws with
  | op :: name :: l :: u :: n :: args =>
    match parseEngine name l u, n.toInt? with
    | some e, some n => if n < 1 ∨ n > 64 then (s, "bad-op") else (s, run op e n args)
    | _, _ => (s, "bad-op")
  | _ => (s, "bad-op")

end SpecialDrv
