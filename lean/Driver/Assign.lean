import AdeptModel.Assign
import AdeptModel.Reduce
import Driver.Common
/-! line-protocol driver of family `assign` (M5: passive array statements and reductions); the op stream is
    produced by checks/c04.py from the output of harness/drv_assign.cpp (views arrive with the base address,
    extents and offsets the implementation reported).

    reset
    mem <base> <n> x0 … x(n-1)            allocation at absolute element address <base>
    view <id> <base> <rank> d… s…         Array view
    idx <id> <n> i…                       integer vector (values)
    bools <id> <rank> d… b…               boolArray, bits in index order
    iview <id> <view> <k> sel…            IndexedArray over a view; sel = i<idx id> | l<a,b,c> | n<scalar>
    asg|fasg|fcadd|fcmul v<id> <expr>     sca v<id> <int>     cadd|csub|cmul|cdiv v<id> <expr>
    whr v<id> <mask> ; <wrhs>             weo v<id> <mask> ; <wrhs> ; <wrhs>        wrhs = s<int> | <expr>
    wcadd|wcsub|wcmul|wcdiv v<id> <mask> ; <wrhs>          A.where(mask) OP= rhs
    fwhr|fwcadd|fwcsub|fwcmul|fwcdiv v<id> <mask> ; <wrhs> the same on a FixedArray target (no alias test)
    fweo v<id> <mask> ; <wrhs> ; <wrhs>                    F.where(mask) = either_or(c, d) on a FixedArray
    ilst|filst v<id> <nrows> <n0> x.. <n1> x.. ..          target = {x..} (rank 1) / {{..},{..}} (rank 2); iilst w<id> 1 <n> x..
    iasg|icadd|icsub|icmul|icdiv w<id> <expr>     isca w<id> <int>
    dump <base> <n>
    red <fn> <expr>   redd <fn> <dim> <expr>   redb <fn> <mask>   reddb <fn> <dim> <mask>
    find <mask>   minloc <expr>   maxloc <expr>   dot <expr> <expr>
    expr  = v<id> | w<id> | c<int> | add|sub|mul|div e e | na e | spr <d> <n> v<id> | out v<id> v<id>
    mask  = gt|lt|ge|le|eq|ne e e | not b | and|or b b | b<id> -/
open Adept Adept.Assign

namespace AssignDrv

structure St where
  allocs : List (Int × Array Int) := []
  views : List (Nat × View) := []
  idxv : List (Nat × List Nat) := []
  bools : List (Nat × List Nat × Array Bool) := []
  iviews : List (Nat × IView) := []

def St.mem (s : St) : Mem := ⟨fun k =>
  match s.allocs.find? (fun p => decide (p.1 ≤ k) && decide (k < p.1 + p.2.size)) with
  | some p => p.2.getD (k - p.1).toNat 0
  | none => 0⟩

/-- re-tabulate memory after a statement (keeps the closures shallow) -/
def St.absorb (s : St) (m : Mem) : St :=
  { s with allocs := s.allocs.map fun p => (p.1, Array.ofFn (n := p.2.size) fun i => m (p.1 + (i.val : Int))) }

def flat (dims ix : List Nat) : Nat := (ix.zip dims).foldl (fun acc p => acc * p.2 + p.1) 0

def lookup {α} (l : List (Nat × α)) (k : Nat) : Option α := (l.find? (·.1 = k)).map (·.2)

def idOf (pre : String) (t : String) : Option Nat :=
  if t.startsWith pre then (t.drop pre.length).toString.toNat? else none

def parseBOp : String → Option BOp
  | "add" => some .add | "sub" => some .sub | "mul" => some .mul | "div" => some .div | _ => none

def parseCmp : String → Option Cmp
  | "lt" => some .lt | "le" => some .le | "gt" => some .gt | "ge" => some .ge | "eq" => some .eq | "ne" => some .ne
  | _ => none

partial def parseExpr (s : St) : List String → Option (Expr × List String)
  | [] => none
  | t :: ts =>
    match parseBOp t with
    | some op => do
      let (a, r1) ← parseExpr s ts
      let (b, r2) ← parseExpr s r1
      pure (.bin op a b, r2)
    | none =>
      if t == "na" then do
        let (a, r1) ← parseExpr s ts
        pure (.noalias a, r1)
      else if t == "spr" then
        match ts with
        | d :: _ :: v :: r => do
          let d ← d.toNat?
          let v ← (idOf "v" v).bind (lookup s.views)
          pure (.spread d v, r)
        | _ => none
      else if t == "out" then
        match ts with
        | a :: b :: r => do
          let a ← (idOf "v" a).bind (lookup s.views)
          let b ← (idOf "v" b).bind (lookup s.views)
          pure (.outer a b, r)
        | _ => none
      else if t.startsWith "v" then ((idOf "v" t).bind (lookup s.views)).map fun v => (.leaf v, ts)
      else if t.startsWith "w" then ((idOf "w" t).bind (lookup s.iviews)).map fun w => (.ileaf w, ts)
      else if t.startsWith "c" then (t.drop 1).toString.toInt?.map fun x => (.const x, ts)
      else none

partial def parseMask (s : St) : List String → Option (BExpr × List String)
  | [] => none
  | t :: ts =>
    match parseCmp t with
    | some c => do
      let (a, r1) ← parseExpr s ts
      let (b, r2) ← parseExpr s r1
      pure (.cmp c a b, r2)
    | none =>
      if t == "not" then do
        let (a, r1) ← parseMask s ts
        pure (.not a, r1)
      else if t == "and" || t == "or" then do
        let (a, r1) ← parseMask s ts
        let (b, r2) ← parseMask s r1
        pure ((if t == "and" then BExpr.and a b else BExpr.or a b), r2)
      else if t.startsWith "b" then
        ((idOf "b" t).bind (lookup s.bools)).map fun p => (.lit (fun ix => p.2.getD (flat p.1 ix) false), ts)
      else none

/-- spread's `n` is needed for the extents only -/
partial def exprDims (s : St) : List String → Option (List Nat × List String)
  | [] => none
  | t :: ts =>
    if (parseBOp t).isSome then do
      let (a, r1) ← exprDims s ts
      let (b, r2) ← exprDims s r1
      pure ((if a.isEmpty then b else a), r2)
    else if t == "na" then exprDims s ts
    else if t == "spr" then
      match ts with
      | d :: n :: v :: r => do
        let d ← d.toNat?
        let n ← n.toNat?
        let v ← (idOf "v" v).bind (lookup s.views)
        pure ((v.dims.take d) ++ [n] ++ (v.dims.drop d), r)
      | _ => none
    else if t == "out" then
      match ts with
      | a :: b :: r => do
        let a ← (idOf "v" a).bind (lookup s.views)
        let b ← (idOf "v" b).bind (lookup s.views)
        pure (a.dims ++ b.dims, r)
      | _ => none
    else if t.startsWith "v" then ((idOf "v" t).bind (lookup s.views)).map fun v => (v.dims, ts)
    else if t.startsWith "w" then ((idOf "w" t).bind (lookup s.iviews)).map fun w => (w.dims, ts)
    else if t.startsWith "c" then some ([], ts)
    else none

partial def maskDims (s : St) : List String → Option (List Nat × List String)
  | [] => none
  | t :: ts =>
    if (parseCmp t).isSome then do
      let (a, r1) ← exprDims s ts
      let (b, r2) ← exprDims s r1
      pure ((if a.isEmpty then b else a), r2)
    else if t == "not" then maskDims s ts
    else if t == "and" || t == "or" then do
      let (a, r1) ← maskDims s ts
      let (_, r2) ← maskDims s r1
      pure (a, r2)
    else if t.startsWith "b" then ((idOf "b" t).bind (lookup s.bools)).map fun p => (p.1, ts)
    else none

def parseWRhs (s : St) (ts : List String) : Option (WRhs × List String) :=
  match ts with
  | t :: r =>
    if t.startsWith "s" then (t.drop 1).toString.toInt?.map fun x => (.scalar x, r)
    else (parseExpr s ts).map fun p => (.expr p.1, p.2)
  | [] => none

def showInts (xs : List Int) : String := String.intercalate " " (xs.map toString)

def showRVal : RVal → String
  | .val x => toString x
  | .quot a n => s!"Q:{a}/{n}"
  | .sqrt r => s!"S:{r}"

def parseRFn : String → Option RFn
  | "sum" => some .sum | "mean" => some .mean | "product" => some .product | "minval" => some .minval
  | "maxval" => some .maxval | "norm2" => some .norm2 | _ => none
def parseBFn : String → Option BFn
  | "all" => some .all | "any" => some .any | "count" => some .count | _ => none

def nats (ws : List String) : Option (List Nat) := ws.mapM (·.toNat?)
def ints (ws : List String) : Option (List Int) := ws.mapM (·.toInt?)

def aflag (b : Bool) : String := if b then "ok a=1" else "ok a=0"

def parseSel (s : St) (t : String) : Option Sel :=
  if t.startsWith "i" then ((idOf "i" t).bind (lookup s.idxv)).map Sel.list
  else if t.startsWith "l" then (((t.drop 1).toString.splitOn ",").mapM (fun (x : String) => x.toNat?)).map Sel.list
  else if t.startsWith "n" then (t.drop 1).toString.toNat?.map Sel.at
  else none

def bad (s : St) : St × String := (s, "bad-op")

/-- `<n0> x.. <n1> x.. ..` -/
def parseRows : Nat → List String → Option (List (List Int))
  | 0, [] => some []
  | 0, _ => none
  | k + 1, n :: rest => do
    let n ← n.toNat?
    if rest.length < n then none else
    let xs ← ints (rest.take n)
    let more ← parseRows k (rest.drop n)
    pure (xs :: more)
  | _, _ => none

def ilStep (s : St) (op tgt : String) (rest : List String) : St × String :=
  match rest with
  | nr :: body =>
    match nr.toNat?.bind (fun k => parseRows k body) with
    | some rows =>
      if op == "iilst" then
        match (idOf "w" tgt).bind (lookup s.iviews), rows with
        | some w, [xs] => (s.absorb (indexedIlAssign1 w xs s.mem), "ok")
        | _, _ => bad s
      else
        match (idOf "v" tgt).bind (lookup s.views) with
        | some v =>
          match v.dims.length, rows with
          | 1, [xs] => (s.absorb (ilAssign1 v xs s.mem), "ok")
          | 2, _ => (s.absorb ((if op == "filst" then fixedIlAssign2 else ilAssign2) v rows s.mem), "ok")
          | _, _ => bad s
        | none => bad s
    | none => bad s
  | [] => bad s

/-- where-family ops other than `whr`/`weo`: (FixedArray target?, compound operator) -/
def whereOp? : String → Option (Bool × Option BOp)
  | "wcadd" => some (false, some .add) | "wcsub" => some (false, some .sub)
  | "wcmul" => some (false, some .mul) | "wcdiv" => some (false, some .div)
  | "fwhr" => some (true, none)
  | "fwcadd" => some (true, some .add) | "fwcsub" => some (true, some .sub)
  | "fwcmul" => some (true, some .mul) | "fwcdiv" => some (true, some .div)
  | _ => none

def whereStep (s : St) (fx : Bool) (cop : Option BOp) (v : String) (rest : List String) : St × String :=
  match (idOf "v" v).bind (lookup s.views), parseMask s rest with
  | some v, some (mask, ";" :: r1) =>
    match parseWRhs s r1 with
    | some (rhs, []) =>
      let a := rhs.toExpr.isAliased v.dataRange.1 v.dataRange.2
      let m' := match fx, cop with
        | false, some op => whereCompound op v mask rhs s.mem
        | false, none => whereAssign v mask rhs s.mem
        | true, some op => fixedWhereCompound op v mask rhs s.mem
        | true, none => fixedWhereAssign v mask rhs s.mem
      (s.absorb m', aflag a)
    | _ => bad s
  | _, _ => bad s

def step (s : St) (ws : List String) : St × String :=
  match ws with
  | ["reset"] => ({}, "reset")
  | "mem" :: b :: n :: xs =>
    match b.toInt?, n.toNat?, ints xs with
    | some b, some n, some xs => if xs.length = n then ({ s with allocs := s.allocs ++ [(b, xs.toArray)] }, "ok") else bad s
    | _, _, _ => bad s
  | "view" :: id :: b :: r :: rest =>
    match id.toNat?, b.toInt?, r.toNat? with
    | some id, some b, some r =>
      match nats (rest.take r), ints (rest.drop r) with
      | some ds, some ss =>
        if ds.length = r && ss.length = r && r > 0 then
          ({ s with views := (id, ⟨b, ds, ss⟩) :: s.views.filter (·.1 ≠ id) }, "ok")
        else bad s
      | _, _ => bad s
    | _, _, _ => bad s
  | "idx" :: id :: n :: xs =>
    match id.toNat?, n.toNat?, nats xs with
    | some id, some n, some xs => if xs.length = n then ({ s with idxv := (id, xs) :: s.idxv.filter (·.1 ≠ id) }, "ok") else bad s
    | _, _, _ => bad s
  | "bools" :: id :: r :: rest =>
    match id.toNat?, r.toNat? with
    | some id, some r =>
      match nats (rest.take r), nats (rest.drop r) with
      | some ds, some bs =>
        if bs.length = prodNat ds then
          ({ s with bools := (id, ds, (bs.map (· != 0)).toArray) :: s.bools.filter (·.1 ≠ id) }, "ok")
        else bad s
      | _, _ => bad s
    | _, _ => bad s
  | "iview" :: id :: v :: k :: sels =>
    match id.toNat?, (idOf "v" v).bind (lookup s.views), k.toNat?, sels.mapM (parseSel s) with
    | some id, some v, some k, some sel =>
      if sel.length = k && v.dims.length = k then
        ({ s with iviews := (id, ⟨v, sel⟩) :: s.iviews.filter (·.1 ≠ id) }, "ok")
      else bad s
    | _, _, _, _ => bad s
  | "dump" :: b :: n :: [] =>
    match b.toInt?, n.toNat? with
    | some b, some n => (s, "D " ++ showInts ((List.range n).map fun (i : Nat) => s.mem (b + (i : Int))))
    | _, _ => bad s
  | "sca" :: v :: x :: [] =>
    match (idOf "v" v).bind (lookup s.views), x.toInt? with
    | some v, some x => (s.absorb (assignScalar v x s.mem), "ok")
    | _, _ => bad s
  | "isca" :: w :: x :: [] =>
    match (idOf "w" w).bind (lookup s.iviews), x.toInt? with
    | some w, some x => (s.absorb (indexedAssignScalar w x s.mem), "ok")
    | _, _ => bad s
  | "whr" :: v :: rest =>
    match (idOf "v" v).bind (lookup s.views), parseMask s rest with
    | some v, some (mask, ";" :: r1) =>
      match parseWRhs s r1 with
      | some (rhs, []) =>
        let a := match rhs with
          | .expr e => e.isAliased v.dataRange.1 v.dataRange.2
          | .scalar _ => false
        (s.absorb (whereAssign v mask rhs s.mem), aflag a)
      | _ => bad s
    | _, _ => bad s
  | "weo" :: v :: rest =>
    match (idOf "v" v).bind (lookup s.views), parseMask s rest with
    | some v, some (mask, ";" :: r1) =>
      match parseWRhs s r1 with
      | some (c, ";" :: r2) =>
        match parseWRhs s r2 with
        | some (d, []) => (s.absorb (whereEitherOr v mask c d s.mem), "ok")
        | _ => bad s
      | _ => bad s
    | _, _ => bad s
  | "fweo" :: v :: rest =>
    match (idOf "v" v).bind (lookup s.views), parseMask s rest with
    | some v, some (mask, ";" :: r1) =>
      match parseWRhs s r1 with
      | some (c, ";" :: r2) =>
        match parseWRhs s r2 with
        | some (d, []) => (s.absorb (fixedWhereEitherOr v mask c d s.mem), "ok")
        | _ => bad s
      | _ => bad s
    | _, _ => bad s
  | "red" :: f :: rest =>
    match parseRFn f, parseExpr s rest, exprDims s rest with
    | some f, some (e, []), some (ds, _) => (s, "R " ++ showRVal (reduceAll f e ds s.mem))
    | _, _, _ => bad s
  | "redd" :: f :: d :: rest =>
    match parseRFn f, d.toNat?, parseExpr s rest, exprDims s rest with
    | some f, some d, some (e, []), some (ds, _) =>
      if d < ds.length then (s, "R " ++ String.intercalate " " ((reduceDim f e ds d s.mem).map showRVal)) else bad s
    | _, _, _, _ => bad s
  | "redb" :: f :: rest =>
    match parseBFn f, parseMask s rest, maskDims s rest with
    | some f, some (b, []), some (ds, _) => (s, s!"R {reduceAllB f b ds s.mem}")
    | _, _, _ => bad s
  | "reddb" :: f :: d :: rest =>
    match parseBFn f, d.toNat?, parseMask s rest, maskDims s rest with
    | some f, some d, some (b, []), some (ds, _) =>
      if d < ds.length then (s, "R " ++ showInts (reduceDimB f b ds d s.mem)) else bad s
    | _, _, _, _ => bad s
  | "find" :: rest =>
    match parseMask s rest, maskDims s rest with
    | some (b, []), some ([n], _) => (s, "R " ++ showInts ((find b n s.mem).map (Int.ofNat ·)))
    | _, _ => bad s
  | "dot" :: rest =>
    match parseExpr s rest, exprDims s rest with
    | some (l, r1), some ([n], _) =>
      match parseExpr s r1 with
      | some (r, []) => (s, "R " ++ showRVal (dotProduct l r n s.mem))
      | _ => bad s
    | _, _ => bad s
  | op :: tgt :: rest =>
    if let some (fx, cop) := whereOp? op then whereStep s fx cop tgt rest else
    if op == "ilst" || op == "filst" || op == "iilst" then ilStep s op tgt rest else
    if op == "minloc" || op == "maxloc" then
      match parseExpr s (tgt :: rest), exprDims s (tgt :: rest) with
      | some (e, []), some ([n], _) => (s, s!"R {if op == "minloc" then minloc e n s.mem else maxloc e n s.mem}")
      | _, _ => bad s
    else
    match parseExpr s rest with
    | some (e, []) =>
      if op == "asg" || op == "fasg" || op == "fcadd" || op == "fcmul" || op == "cadd" || op == "csub" || op == "cmul" || op == "cdiv" then
        match (idOf "v" tgt).bind (lookup s.views) with
        | some v =>
          let a := e.isAliased v.dataRange.1 v.dataRange.2
          if op == "asg" then (s.absorb (assign v e s.mem), aflag a)
          else if op == "fasg" then (s.absorb (fixedAssign v e s.mem), aflag a)
          else if op == "fcadd" then (s.absorb (fixedCompound .add v e s.mem), aflag a)
          else if op == "fcmul" then (s.absorb (fixedCompound .mul v e s.mem), aflag a)
          else
            let bop := if op == "cadd" then BOp.add else if op == "csub" then .sub else if op == "cmul" then .mul else .div
            (s.absorb (compound bop v e s.mem), aflag a)
        | none => bad s
      else if op == "iasg" || op == "icadd" || op == "icsub" || op == "icmul" || op == "icdiv" then
        match (idOf "w" tgt).bind (lookup s.iviews) with
        | some w =>
          let a := e.isAliased w.a.dataRange.1 w.a.dataRange.2
          if op == "iasg" then (s.absorb (indexedAssign w e s.mem), aflag a)
          else
            let bop := if op == "icadd" then BOp.add else if op == "icsub" then .sub else if op == "icmul" then .mul else .div
            (s.absorb (indexedCompound bop w e s.mem), aflag a)
        | none => bad s
      else bad s
    | _ => bad s
  | _ => bad s

end AssignDrv
