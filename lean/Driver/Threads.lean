import AdeptModel.Threads
import Driver.Common
/-! line-protocol driver of family `threads` (C12/C14): replays a schedule given line by line on the abstract machine of
    AdeptModel/Threads.lean; harness/drv_threads.cpp (`sched` mode) replays the same lines on REAL threads (one
    operation at a time, handed to the named thread), and the two outputs are compared line by line.

      cfg default | cfg threadsafe | cfg <tls> <countersAtomic> <nLinksAtomic>
      reset <T> <h0_0> … <h0_{T-1}>        shared storage with Σ h0 views (0 = no shared array)
      <t> ns <s> | <t> act <s> | <t> deact <s> | <t> del <s> | <t> ra | <t> rec <v> | <t> nr
      <t> na | <t> da | <t> vo | <t> lk | <t> ul | <t> sv
      nlrun <shape> <lead> <h0,…> <prog,…> <schedule digits>      (the n_links_ machine; progs over a r s p)
-/
open Adept Adept.Threads

namespace ThreadsDrv

structure St where
  cfg : Cfg := cfgDefault
  w : World := World.init

def bit (s : String) : Option Bool := match s with | "0" => some false | "1" => some true | _ => none

def live (w : World) : Int := (w.sh .nStorageCreated : Int) - (w.sh .nStorageDeleted : Int)

def doOp (s : St) (t : Nat) (k : OpKind) (a : Nat) : St := { s with w := Threads.step s.cfg t ⟨k, a⟩ s.w }

def ptrLine (s : St) (t : Nat) : String := s!"ptr={getPtr s.cfg s.w t}"

def storLine (s : St) : String := s!"links={s.w.sh .nLinksShared} live={live s.w}"

def parseShape : String → Option NLinks.Shape
  | "rmwTested" => some .rmwTested | "rmwThenReload" => some .rmwThenReload | "loadStore" => some .loadStore | _ => none

def parseProg (p : String) : Option (List NLinks.LOp) :=
  p.toList.mapM fun ch => match ch with
    | 'a' => some NLinks.LOp.addLink | 'r' => some .removeLink | 's' => some .softView | 'p' => some .privArray
    | '-' => none | _ => none

def nlrun (shape lead h0s progs sched : String) : String :=
  match parseShape shape, bit lead, (h0s.splitOn ",").mapM (·.toNat?),
        (progs.splitOn ",").mapM (fun p => if p = "-" then some [] else parseProg p),
        sched.toList.mapM (fun ch => (String.singleton ch).toNat?) with
  | some sh, some ld, some h0, some ps, some sc =>
    let T := h0.length
    if ps.length ≠ T then "bad-op" else
    let s := NLinks.mexec sc (NLinks.St.init T (fun t => h0.getD t 0) (fun t => NLinks.expandAll sh ld (ps.getD t [])))
    let remaining := (List.range T).foldl (fun acc t => acc + (s.rem t).length) 0
    s!"count={s.count} frees={s.frees} uaf={s.touchedAfterFree} held={(List.range T).map s.held} remaining={remaining}"
  | _, _, _, _, _ => "bad-op"

def step (s : St) (ws : List String) : St × String :=
  match ws with
  | ["cfg", "default"] => ({ cfg := cfgDefault }, s!"cfg tls={cfgDefault.stackPtrTLS} ca={cfgDefault.countersAtomic} na={cfgDefault.nLinksAtomic}")
  | ["cfg", "threadsafe"] => ({ cfg := cfgThreadSafe }, s!"cfg tls={cfgThreadSafe.stackPtrTLS} ca={cfgThreadSafe.countersAtomic} na={cfgThreadSafe.nLinksAtomic}")
  | ["cfg", a, b, c] =>
    match bit a, bit b, bit c with
    | some a, some b, some c => ({ cfg := ⟨a, b, c⟩ }, s!"cfg tls={a} ca={b} na={c}")
    | _, _, _ => (s, "bad-op")
  | "reset" :: tn :: hs =>
    match tn.toNat?, hs.mapM (·.toNat?) with
    | some T, some h0 =>
      if h0.length ≠ T then (s, "bad-op") else
      let n := h0.foldl (· + ·) 0
      -- a shared array exists iff somebody holds a view: its Storage object has been created
      let w := World.init
      let w := { w with sh := setS (setS w.sh .nLinksShared n) .nStorageCreated (if n = 0 then 0 else 1) }
      ({ s with w := w }, s!"reset links={n} live={live w}")
    | _, _ => (s, "bad-op")
  | ["nlrun", shape, lead, h0s, progs, sched] => (s, nlrun shape lead h0s progs sched)
  | [t, "ra"] => match t.toNat? with
    | some t => let s := doOp s t .readActive 0; (s, ptrLine s t)
    | none => (s, "bad-op")
  | [t, "nr"] => match t.toNat? with
    | some t => let s := doOp s t .newRecording 0; (s, ptrLine s t)
    | none => (s, "bad-op")
  | [t, "na"] => match t.toNat? with
    | some t => let s := doOp s t .newArray 0; (s, storLine s)
    | none => (s, "bad-op")
  | [t, "da"] => match t.toNat? with
    | some t => let s := doOp s t .deleteArray 0; (s, storLine s)
    | none => (s, "bad-op")
  | [t, "vo"] => match t.toNat? with
    | some t => let s := doOp s t .viewOwn 0; (s, storLine s)
    | none => (s, "bad-op")
  | [t, "lk"] => match t.toNat? with
    | some t => let s := doOp s t .linkShared 0; (s, storLine s)
    | none => (s, "bad-op")
  | [t, "ul"] => match t.toNat? with
    | some t => let s := doOp s t .unlinkShared 0; (s, storLine s)
    | none => (s, "bad-op")
  | [t, "sv"] => match t.toNat? with
    | some t => let s := doOp s t .softView 0; (s, storLine s)
    | none => (s, "bad-op")
  | [t, "nsf", a, f] =>                -- Stack constructor of stack number a in thread t whose f-th array allocation fails
    match t.toNat?, a.toNat?, f.toNat?, Ctor.generatedOrder with
    | some t, some a, some f, some ord =>
      let r := Ctor.construct ord (a + 1) true (Ctor.faultStepOfAlloc ord f) (getPtr s.cfg s.w t)
      let s' := { s with w := setPtr s.cfg s.w t r.ptr }
      (s', (if r.failed then "fail " else "ok ") ++ ptrLine s' t)
    | _, _, _, _ => (s, "bad-op")
  | [t, op, a] =>
    match t.toNat?, a.toNat? with
    | some t, some a =>
      let errs := (s.w.priv t).errors
      let fin (s' : St) (withStatus : Bool) : St × String :=
        if withStatus then (s', (if (s'.w.priv t).errors = errs then "ok " else "err ") ++ ptrLine s' t) else (s', ptrLine s' t)
      if op = "ns" then fin (doOp s t .newStack a) true
      else if op = "act" then fin (doOp s t .activate a) true
      else if op = "deact" then fin (doOp s t .deactivate a) true
      else if op = "del" then fin (doOp s t .destroyStack a) true
      else if op = "rec" then fin (doOp s t .record a) false
      else (s, "bad-op")
    | _, _ => (s, "bad-op")
  | _ => (s, "bad-op")

end ThreadsDrv
