import AdeptModel.Misuse
import Driver.Common
/-! line-protocol driver of family `misuse` (C11 part B); see harness/drv_misuse.cpp for the grammar -/
open Adept Adept.Misuse

namespace MisuseDrv

def showInts (xs : List Int) : String := String.intercalate "," (xs.map toString)
def showDims (ds : List Nat) : String := String.intercalate "x" (ds.map toString)

def showArr (s : State) (k : Nat) : String :=
  match s.get? k with
  | none => s!"{k}:-"
  | some a => s!"{k}:{if a.dbl then "d" else "i"}[{showDims a.dims}]={showInts a.vals}"

def showRes : Res → String
  | .ok .none => "ok"
  | .ok (.view v) => s!"ok view[{showDims v.1}]={showInts v.2}"
  | .ok (.elem x) => s!"ok elem={x}"
  | .error e => "EXC " ++ e.name

def parseInts (ws : List String) : Option (List Int) := ws.mapM String.toInt?

def parseItems : List String → Option (List Item)
  | [] => some []
  | w :: ws =>
    let it : Option Item :=
      if w.startsWith "a" then (w.drop 1).toString.toNat?.map Item.a else w.toInt?.map Item.s
    match it, parseItems ws with
    | some i, some r => some (i :: r)
    | _, _ => none

def parseBin : String → Option BinOp
  | "add" => some .add | "sub" => some .sub | "mul" => some .mul | _ => none

/-- the operation and the handles whose arrays are shown after it -/
def parseOp (ws : List String) : Option (Op × List Nat) :=
  match ws with
  | "new" :: k :: ty :: seed :: dims =>
    match k.toNat?, seed.toInt?, parseInts dims with
    | some k, some seed, some dims =>
      if ty == "d" then some (.new k true seed dims, [k]) else if ty == "i" then some (.new k false seed dims, [k]) else none
    | _, _, _ => none
  | c :: k :: seed :: dims =>
    if c == "resize" || c == "resized" || c == "resizerm" || c == "resizecm" then
      match k.toNat?, seed.toInt?, parseInts dims with
      | some k, some seed, some dims => some (if c == "resize" then .resize k seed dims else .resized k seed dims, [k])
      | _, _, _ => none
    else none
  | _ => none

def parseOp2 (ws : List String) : Option (Op × List Nat) :=
  match ws with
  | ["asg", k, i, op, j] => match k.toNat?, i.toNat?, parseBin op, j.toNat? with
    | some k, some i, some op, some j => some (.asg k i op j, [k, i, j])
    | _, _, _, _ => none
  | ["cp", k, i] => match k.toNat?, i.toNat? with
    | some k, some i => some (.cp k i, [k, i])
    | _, _ => none
  | ["cadd", k, i] => match k.toNat?, i.toNat? with
    | some k, some i => some (.comp k .add i, [k, i])
    | _, _ => none
  | ["csub", k, i] => match k.toNat?, i.toNat? with
    | some k, some i => some (.comp k .sub i, [k, i])
    | _, _ => none
  | ["cmul", k, i] => match k.toNat?, i.toNat? with
    | some k, some i => some (.comp k .mul i, [k, i])
    | _, _ => none
  | ["where", k, m, i] => match k.toNat?, m.toNat?, i.toNat? with
    | some k, some m, some i => some (.whr k m i, [k, m, i])
    | _, _, _ => none
  | "fill" :: k :: items => match k.toNat?, parseItems items with
    | some k, some its => some (.fill k its, k :: its.filterMap fun | .a h => some h | .s _ => none)
    | _, _ => none
  | ["diag", k, o] => match k.toNat?, o.toInt? with
    | some k, some o => some (.diag k o, [k])
    | _, _ => none
  | ["subdiag", k, a, b] => match k.toNat?, a.toInt?, b.toInt? with
    | some k, some a, some b => some (.subdiag k a b, [k])
    | _, _, _ => none
  | ["inv", k] => k.toNat?.map fun k => (.inv k, [k])
  | ["link", k, i] => match k.toNat?, i.toNat? with
    | some k, some i => some (.link k i, [k, i])
    | _, _ => none
  | ["matmul", k, i, j] => match k.toNat?, i.toNat?, j.toNat? with
    | some k, some i, some j => some (.matmul k i j, [k, i, j])
    | _, _, _ => none
  | ["permute", k, a, b] => match k.toNat?, a.toInt?, b.toInt? with
    | some k, some a, some b => some (.permute k a b, [k])
    | _, _, _ => none
  | "get" :: k :: idx => match k.toNat?, parseInts idx with
    | some k, some idx => some (.get k idx, [k])
    | _, _ => none
  | ["range", k, a, b] => match k.toNat?, a.toInt?, b.toInt? with
    | some k, some a, some b => some (.range k a b, [k])
    | _, _, _ => none
  | ["reshape", k, a, b] => match k.toNat?, a.toInt?, b.toInt? with
    | some k, some a, some b => some (.reshape k a b, [k])
    | _, _, _ => none
  | ["clear", k] => k.toNat?.map fun k => (.clear k, [k])
  | _ => none

def step (s : State) (ws : List String) : State × String :=
  match ws with
  | ["cfg", b] => match b.toNat? with
    | some b => ({ bounds := b != 0 }, "cfg")
    | none => (s, "bad-op")
  | ["order", _] => (s, "ok")      -- storage order does not change the logical content
  | _ =>
    match (parseOp ws).orElse (fun _ => parseOp2 ws) with
    | none => (s, "bad-op")
    | some (op, hs) =>
      let (s', r) := Misuse.step s op
      match r with
      | .error .bad => (s, "bad-op")
      | .error .unmodelled => (s, "unmodelled")
      | _ => (s', showRes r ++ String.join ((hs.eraseDups).map fun h => " | " ++ showArr s' h))

end MisuseDrv
