import AdeptModel.Misuse
import Driver.Common
/-! line-protocol driver of family `misuse` (C11 part B); harness/drv_misuse.cpp implements the same grammar:

    cfg <0|1>   order <0|1>   rec
    new <k> <d|i|a|f|s|t> <seed> <extents…>
    resize | resized | resizerm | resizecm <k> <seed> <extents…>        clear <k>        link <k> <i>
    asg <k> <i> add|sub|mul <j>     cp <k> <i>     cadd|csub|cmul <k> <i>     where <k> <m> <i>
    wherex <k> <m1> <m2> <i> <j>    eor <k> <m> <c> <d>
    fill <k> <item…>   (item: integer or a<handle>)
    diag <k> <o>   subdiag <k> <ib> <ie>   inv <k>   solve <A> <b>   matmul <k> <i> <j>   permute <k> <p0> <p1>
    get <k> <idx…>   range <k> <b> <e>   reshape <k> <r> <c>
    red <fn> <i> <op> <j>     redd <fn> <i> <op> <j> <dim>      fn: sum mean product minval maxval norm2 (op add|mul) | all any count (op gt)
    loc minloc|maxloc <i> add|sub|mul <j>     find <i> <j>     dot <i> <j>
    outer <k> <i> <j> <z>     spread <k> <D> <i> <j> <n>     diagv <i> <j> <o>     diagm <i> <j>
    reda <k> <fn> <i> <op> <j>     redda <k> <fn> <i> add <j> <dim>     diagva <k> <i> <j> <o>     jac <k> <i>

  The kind of the object a handle names (passive array, special object, active array) selects the operation of the model. -/
open Adept Adept.Misuse

namespace MisuseDrv

def showInts (xs : List Int) : String := String.intercalate "," (xs.map toString)
def showDims (ds : List Nat) : String := String.intercalate "x" (ds.map toString)

def hexDigit (n : Nat) : Char := if n < 10 then Char.ofNat (48 + n) else Char.ofNat (87 + n)

/-- the bit pattern of a double, as the harness prints a non-integral value: x<16 hex digits> -/
def showBits (f : Float) : String :=
  let n := f.toBits.toNat
  "x" ++ String.ofList ((List.range 16).map fun i => hexDigit ((n / 16 ^ (15 - i)) % 16))

/-- integral values in decimal; otherwise the correctly rounded double (one IEEE division / square root of exactly
    representable operands, as the library computes it) -/
def showNum : Num → String
  | .int v => toString v
  | .rat n d => if d = 0 then "nan" else if n % (d : Int) = 0 then toString (n / (d : Int)) else showBits (Float.ofInt n / Float.ofNat d)
  | .sqrt n => let r := Nat.sqrt n; if r * r = n then toString r else showBits (Float.sqrt (Float.ofNat n))

def showArr (s : State) (k : Nat) : String :=
  match s.get? k with
  | some a => s!"{k}:{if a.dbl then "d" else "i"}[{showDims a.dims}]={showInts a.vals}"
  | none => match s.getS? k with
    | some t =>
      let c := match t.cls with | .fix => "f" | .sym => "s" | .tri => "t"
      s!"{k}:{c}[{showDims t.a.dims}]={showInts t.a.vals}"
    | none => match s.getA? k with
      | some t => s!"{k}:a[{showDims t.a.dims}]={showInts t.a.vals}"
      | none => s!"{k}:-"

def showRes : Res → String
  | .ok .none => "ok"
  | .ok (.view v) => s!"ok view[{showDims v.1}]={showInts v.2}"
  | .ok (.elem x) => s!"ok elem={x}"
  | .ok (.num x) => s!"ok elem={showNum x}"
  | .ok (.nview d v) => s!"ok view[{showDims d}]={String.intercalate "," (v.map showNum)}"
  | .error e => "EXC " ++ e.name

def parseInts (ws : List String) : Option (List Int) := ws.mapM String.toInt?

def parseItems : List String → Option (List Item)
  | [] => some []
  | w :: ws =>
    let it : Option Item :=
      if w.startsWith "a" then (w.drop 1).toString.toNat?.map Item.a else w.toInt?.map Item.s
    match it, parseItems ws with
    | some i, some r => some (i :: r)
    | _, _ => none

def parseBin : String → Option BinOp
  | "add" => some .add | "sub" => some .sub | "mul" => some .mul | _ => none

def parseFn : String → Option RedFn
  | "sum" => some .sum | "mean" => some .mean | "product" => some .product | "minval" => some .minval
  | "maxval" => some .maxval | "norm2" => some .norm2 | "all" => some .all | "any" => some .any | "count" => some .count
  | _ => none

/-- function and operator of a reduction: all/any/count take the comparison `gt`, the others `add` or `mul` -/
def parseRed (fn op : String) : Option (RedFn × BinOp) :=
  match parseFn fn with
  | some f => if f.isBool then (if op == "gt" then some (f, .add) else none)
              else (match parseBin op with | some .sub => none | some o => some (f, o) | none => none)
  | none => none

inductive Pool | dyn | spec | act | nowhere
deriving DecidableEq

def poolOf (s : State) (k : Nat) : Pool :=
  if (s.get? k).isSome then .dyn else if (s.getS? k).isSome then .spec else if (s.getA? k).isSome then .act else .nowhere

/-- the operation and the handles whose arrays are shown after it -/
def parseOp (s : State) (ws : List String) : Option (Op × List Nat) :=
  match ws with
  | "new" :: k :: ty :: seed :: dims =>
    match k.toNat?, seed.toInt?, parseInts dims with
    | some k, some seed, some dims =>
      if ty == "d" then some (.new k true seed dims, [k]) else if ty == "i" then some (.new k false seed dims, [k])
      else if ty == "a" then some (.newA k seed dims, [k])
      else if ty == "f" then some (.newS k .fix seed dims, [k]) else if ty == "s" then some (.newS k .sym seed dims, [k])
      else if ty == "t" then some (.newS k .tri seed dims, [k]) else none
    | _, _, _ => none
  | c :: k :: seed :: dims =>
    if c == "resize" || c == "resized" || c == "resizerm" || c == "resizecm" then
      match k.toNat?, seed.toInt?, parseInts dims with
      | some k, some seed, some dims =>
        (match poolOf s k with
         | .dyn => some (if c == "resize" then .resize k seed dims else .resized k seed dims, [k])
         | .act => some (if c == "resize" then .resizeA k seed dims else .resizedA k seed dims, [k])
         | .spec => if c == "resize" then some (.resizeS k seed dims, [k]) else none
         | .nowhere => none)
      | _, _, _ => none
    else none
  | _ => none

def parseOp2 (s : State) (ws : List String) : Option (Op × List Nat) :=
  match ws with
  | ["asg", k, i, op, j] => match k.toNat?, i.toNat?, parseBin op, j.toNat? with
    | some k, some i, some op, some j =>
      (match poolOf s k, poolOf s i with
       | .dyn, .dyn => some (.asg k i op j, [k, i, j])
       | .dyn, .spec => some (.asgDS k i op j, [k, i, j])
       | .spec, _ => some (.asgS k i op j, [k, i, j])
       | .act, _ => some (.asgA k i op j, [k, i, j])
       | _, _ => none)
    | _, _, _, _ => none
  | ["cp", k, i] => match k.toNat?, i.toNat? with
    | some k, some i =>
      (match poolOf s k, poolOf s i with
       | .dyn, .dyn => some (.cp k i, [k, i])
       | .dyn, .spec => some (.cpDS k i, [k, i])
       | .spec, _ => some (.cpS k i, [k, i])
       | .act, _ => some (.cpA k i, [k, i])
       | _, _ => none)
    | _, _ => none
  | [c, k, i] =>
    let comp : Option BinOp := if c == "cadd" then some .add else if c == "csub" then some .sub else if c == "cmul" then some .mul else none
    (match comp, k.toNat?, i.toNat? with
     | some op, some k, some i =>
       (match poolOf s k with
        | .dyn => some (.comp k op i, [k, i])
        | .spec => some (.compS k op i, [k, i])
        | .act => some (.compA k op i, [k, i])
        | .nowhere => none)
     | _, _, _ => none)
  | _ => none

def parseOp3 (s : State) (ws : List String) : Option (Op × List Nat) :=
  match ws with
  | ["where", k, m, i] => match k.toNat?, m.toNat?, i.toNat? with
    | some k, some m, some i =>
      (match poolOf s k with
       | .dyn => some (.whr k m i, [k, m, i])
       | .spec => some (.whrF k m i, [k, m, i])
       | .act => some (.whrA k m i, [k, m, i])
       | .nowhere => none)
    | _, _, _ => none
  | ["wherex", k, m1, m2, i, j] => match k.toNat?, m1.toNat?, m2.toNat?, i.toNat?, j.toNat? with
    | some k, some m1, some m2, some i, some j => some (.whrx k m1 m2 i j, [k, m1, m2, i, j])
    | _, _, _, _, _ => none
  | ["eor", k, m, c, d] => match k.toNat?, m.toNat?, c.toNat?, d.toNat? with
    | some k, some m, some c, some d => some (.eor k m c d, [k, m, c, d])
    | _, _, _, _ => none
  | "fill" :: k :: items => match k.toNat?, parseItems items with
    | some k, some its => some (.fill k its, k :: its.filterMap fun | .a h => some h | .s _ => none)
    | _, _ => none
  | ["diag", k, o] => match k.toNat?, o.toInt? with
    | some k, some o => (match poolOf s k with
      | .dyn => some (.diag k o, [k])
      | .spec => some (.diagF k o, [k])
      | _ => none)
    | _, _ => none
  | ["subdiag", k, a, b] => match k.toNat?, a.toInt?, b.toInt? with
    | some k, some a, some b => (match poolOf s k with
      | .dyn => some (.subdiag k a b, [k])
      | .spec => some (.subdiagS k a b, [k])
      | _ => none)
    | _, _, _ => none
  | ["inv", k] => k.toNat?.map fun k => (.inv k, [k])
  | ["solve", k, i] => match k.toNat?, i.toNat? with
    | some k, some i => some (.solve k i, [k, i])
    | _, _ => none
  | ["link", k, i] => match k.toNat?, i.toNat? with
    | some k, some i => (match poolOf s k with
      | .dyn => some (.link k i, [k, i])
      | .spec => some (.linkS k i, [k, i])
      | _ => none)
    | _, _ => none
  | ["matmul", k, i, j] => match k.toNat?, i.toNat?, j.toNat? with
    | some k, some i, some j => some (.matmul k i j, [k, i, j])
    | _, _, _ => none
  | ["permute", k, a, b] => match k.toNat?, a.toInt?, b.toInt? with
    | some k, some a, some b => some (.permute k a b, [k])
    | _, _, _ => none
  | "get" :: k :: idx => match k.toNat?, parseInts idx with
    | some k, some idx => some (.get k idx, [k])
    | _, _ => none
  | ["range", k, a, b] => match k.toNat?, a.toInt?, b.toInt? with
    | some k, some a, some b => some (.range k a b, [k])
    | _, _, _ => none
  | ["reshape", k, a, b] => match k.toNat?, a.toInt?, b.toInt? with
    | some k, some a, some b => some (.reshape k a b, [k])
    | _, _, _ => none
  | ["clear", k] => match k.toNat? with
    | some k => (match poolOf s k with
      | .dyn => some (.clear k, [k])
      | .spec => some (.clearS k, [k])
      | .act => some (.clearA k, [k])
      | .nowhere => none)
    | none => none
  | _ => none

def parseOp4 (ws : List String) : Option (Op × List Nat) :=
  match ws with
  | ["red", fn, i, op, j] => match parseRed fn op, i.toNat?, j.toNat? with
    | some (f, o), some i, some j => some (.red f i o j, [i, j])
    | _, _, _ => none
  | ["redd", fn, i, op, j, dim] => match parseRed fn op, i.toNat?, j.toNat?, dim.toInt? with
    | some (f, o), some i, some j, some dim => some (.redd f i o j dim, [i, j])
    | _, _, _, _ => none
  | ["loc", fn, i, op, j] => match parseBin op, i.toNat?, j.toNat? with
    | some o, some i, some j =>
      if fn == "minloc" then some (.loc true i o j, [i, j]) else if fn == "maxloc" then some (.loc false i o j, [i, j]) else none
    | _, _, _ => none
  | ["find", i, j] => match i.toNat?, j.toNat? with
    | some i, some j => some (.find i j, [i, j])
    | _, _ => none
  | ["dot", i, j] => match i.toNat?, j.toNat? with
    | some i, some j => some (.dot i j, [i, j])
    | _, _ => none
  | ["outer", k, i, j, z] => match k.toNat?, i.toNat?, j.toNat?, z.toNat? with
    | some k, some i, some j, some z => some (.outer k i j z, [k, i, j, z])
    | _, _, _, _ => none
  | ["spread", k, d, i, j, n] => match k.toNat?, d.toNat?, i.toNat?, j.toNat?, n.toInt? with
    | some k, some d, some i, some j, some n => some (.spread k d i j n, [k, i, j])
    | _, _, _, _, _ => none
  | ["diagv", i, j, o] => match i.toNat?, j.toNat?, o.toInt? with
    | some i, some j, some o => some (.diagv i j o, [i, j])
    | _, _, _ => none
  | ["diagm", i, j] => match i.toNat?, j.toNat? with
    | some i, some j => some (.diagm i j, [i, j])
    | _, _ => none
  | ["reda", k, fn, i, op, j] => match k.toNat?, parseFn fn, i.toNat?, parseBin op, j.toNat? with
    | some k, some f, some i, some o, some j => some (.reda k f i o j, [k, i, j])
    | _, _, _, _, _ => none
  | ["redda", k, fn, i, op, j, dim] => match k.toNat?, parseFn fn, i.toNat?, parseBin op, j.toNat?, dim.toInt? with
    | some k, some f, some i, some o, some j, some dim => some (.redda k f i o j dim, [k, i, j])
    | _, _, _, _, _, _ => none
  | ["diagva", k, i, j, o] => match k.toNat?, i.toNat?, j.toNat?, o.toInt? with
    | some k, some i, some j, some o => some (.diagva k i j o, [k, i, j])
    | _, _, _, _ => none
  | ["jac", k, i] => match k.toNat?, i.toNat? with
    | some k, some i => some (.jac k i, [k, i])
    | _, _ => none
  | _ => none

/-- is an active array among the objects of the operation?  (then a failure line says what the failed statement pushed on
    the recording: nothing) -/
def anyActive (s : State) (op : Op) (hs : List Nat) : Bool :=
  hs.any (fun h => (s.getA? h).isSome) || (match op with | .newA _ _ _ => true | _ => false)

def step (s : State) (ws : List String) : State × String :=
  match ws with
  | ["cfg", b] => match b.toNat? with
    | some b => ({ bounds := b != 0 }, "cfg")
    | none => (s, "bad-op")
  | ["order", b] => if b.toNat?.isSome then (s, "ok") else (s, "bad-op")    -- storage order does not change the logical content
  | ["rec"] => ((Misuse.step s .record).1, "ok")
  | _ =>
    match ((parseOp s ws).orElse fun _ => (parseOp2 s ws).orElse fun _ => (parseOp3 s ws).orElse fun _ => parseOp4 ws) with
    | none => (s, "bad-op")
    | some (op, hs) =>
      let (s', r) := Misuse.step s op
      match r with
      | .error .bad => (s, "bad-op")
      | .error .unmodelled => (s, "unmodelled")
      | .error _ =>
        (s', showRes r ++ (if anyActive s op hs then " rec+0+0" else "") ++ String.join ((hs.eraseDups).map fun h => " | " ++ showArr s' h))
      | _ => (s', showRes r ++ String.join ((hs.eraseDups).map fun h => " | " ++ showArr s' h))

end MisuseDrv
