import AdeptModel.Expr
import Driver.Common
/-!
line-protocol driver of family `expr` (M2 over `Float`): scalar programs of `Active<double>`.
The C++ side is generated source (checks/c01.py), one function per program, printing the same lines.

Doubles travel as 16 hex digits (`Float.ofBits` / `toBits`), integers in decimal.

expression (prefix):
  v<h>                         active scalar with handle h
  u <UFun> e                   unary function / operator (constructor name of the generated UFun)
  b <BOp> e e                  Expr ∘ Expr
  l <BOp> d<hex>|i<int> e      scalar ∘ Expr   (BinaryOpScalarLeft)
  r <BOp> d<hex>|i<int> e      Expr ∘ scalar   (BinaryOpScalarRight; not for Divide/Atan2)
  q d<hex>|i<int> e            Expr / scalar   (multiplication by 1.0/scalar)
  n e                          noalias(e)

ops:
  reset | caps | nr | tape | val h
  new h <hex> | newd h | newe h e | del h | setp h <hex>
  asg h e | cop h <BOp> e | copp h add|sub|mul|div d<hex>|i<int>
  asgt h t e_inner ; e_outer        x = e_outer with the temporary `adouble(e_inner)` as leaf v<t>
  adep h i <hex> | apdep h i <hex>
-/
open Adept Adept.Expr

namespace ExprDrv

def hexVal (c : Char) : Option Nat :=
  if '0' ≤ c ∧ c ≤ '9' then some (c.toNat - '0'.toNat)
  else if 'a' ≤ c ∧ c ≤ 'f' then some (c.toNat - 'a'.toNat + 10)
  else if 'A' ≤ c ∧ c ≤ 'F' then some (c.toNat - 'A'.toNat + 10)
  else none

def parseHex (s : String) : Option Float :=
  if s.length ≠ 16 then none else
  (s.toList.foldl (fun acc c => do let a ← acc; let d ← hexVal c; pure (a * 16 + d)) (some 0)).map
    (fun n => Float.ofBits n.toUInt64)

def hexDigit (n : Nat) : Char := if n < 10 then Char.ofNat (48 + n) else Char.ofNat (87 + n)

def showHex (x : Float) : String :=
  let n := x.toBits.toNat
  String.ofList ((List.range 16).map fun i => hexDigit ((n >>> (4 * (15 - i))) % 16))

def parseUFun (s : String) : Option UFun := UFun.all.find? (fun f => reprStr f == "Adept.UFun." ++ s)
def parseBOp (s : String) : Option BOp := BOp.all.find? (fun f => reprStr f == "Adept.BOp." ++ s)

/-- scalar operand: (value, mixed) -/
def parseScalar (t : String) : Option (Float × Bool) :=
  if t.startsWith "d" then (parseHex (t.drop 1).toString).map (·, false)
  else if t.startsWith "i" then (t.drop 1).toString.toInt?.map (fun i => (Num.ofInt i, true))
  else none

abbrev Vars := List (Nat × Var Float)

partial def parseExpr (vars : Vars) : List String → Option (Node Float × List String)
  | [] => none
  | t :: ts =>
    if t == "u" then
      match ts with
      | f :: rest => do
        let f ← parseUFun f
        let (a, r1) ← parseExpr vars rest
        pure (.un f a, r1)
      | _ => none
    else if t == "b" then
      match ts with
      | o :: rest => do
        let o ← parseBOp o
        let (a, r1) ← parseExpr vars rest
        let (b, r2) ← parseExpr vars r1
        pure (.bin o a b, r2)
      | _ => none
    else if t == "l" then
      match ts with
      | o :: c :: rest => do
        let o ← parseBOp o
        let (c, mixed) ← parseScalar c
        let (b, r1) ← parseExpr vars rest
        pure (.binL o mixed c b, r1)
      | _ => none
    else if t == "r" then
      match ts with
      | o :: c :: rest => do
        let o ← parseBOp o
        let (c, mixed) ← parseScalar c
        let (a, r1) ← parseExpr vars rest
        -- Divide / Atan2 with a scalar on the right do not exist as BinaryOpScalarRight (static assert)
        if o.storeResult ≥ 2 then none else pure (.binR o mixed a c, r1)
      | _ => none
    else if t == "q" then
      match ts with
      | c :: rest => do
        let (c, _) ← parseScalar c
        let (a, r1) ← parseExpr vars rest
        pure (divByScalar a c, r1)
      | _ => none
    else if t == "n" then do
      let (a, r1) ← parseExpr vars ts
      pure (.noalias a, r1)
    else if t.startsWith "v" then do
      let h ← (t.drop 1).toString.toNat?
      let x ← (vars.find? (·.1 = h)).map (·.2)
      pure (.active x.idx x.val, ts)
    else none

def nan : Float := 0.0 / 0.0
/-- uninitialised `ScratchVector` -/
def initScratch : Scratch Float := fun _ => nan

def showTape (s : St Float) : String :=
  let st := s.tape.map fun st =>
    s!"{st.lhs}:" ++ String.intercalate "," (st.ops.map fun p => s!"{showHex p.1}*{p.2}")
  let nops := (s.tape.map (·.ops.length)).sum + s.pend.length
  s!"T {s.tape.length + 1} {nops} | " ++ String.intercalate " | " st

def okVal (s : St Float) (h : Nat) : String :=
  match s.var? h with
  | some x => "ok " ++ showHex x.val
  | none => "bad-op"

def unsupported : String :=
  String.intercalate " " ((UFun.all.filter (fun f => !f.cfun.floatSupported)).map fun f =>
    (reprStr f).drop "Adept.UFun.".length |>.toString)

def step (s : St Float) (ws : List String) : St Float × String :=
  match ws with
  | ["reset"] => ({}, "ok")
  | ["caps"] => (s, "caps " ++ unsupported)
  | ["nr"] => (s.newRecording, "ok")
  | ["tape"] => (s, showTape s)
  | ["val", h] => match h.toNat?.bind s.var? with
    | some x => (s, "v " ++ showHex x.val)
    | none => (s, "bad-op")
  | ["new", h, c] => match h.toNat?, parseHex c with
    | some h, some c => let (s', i) := s.newPassive h c; (s', s!"ok {i}")
    | _, _ => (s, "bad-op")
  | ["newd", h] => match h.toNat? with
    | some h => let (s', i) := s.newDefault h; (s', s!"ok {i}")
    | none => (s, "bad-op")
  | "newe" :: h :: rest => match h.toNat?, parseExpr s.vars rest with
    | some h, some (e, []) =>
      if e.isActive && e.wf then
        let (s', i) := s.newFrom h e initScratch
        (s', s!"ok {i} " ++ ((s'.var? h).map (fun x => showHex x.val)).getD "?")
      else (s, "bad-op")
    | _, _ => (s, "bad-op")
  | ["del", h] => match h.toNat? with
    | some h => match s.var? h with
      | some x => (s.delete h x, "ok")
      | none => (s, "bad-op")
    | none => (s, "bad-op")
  | ["setp", h, c] => match h.toNat?, parseHex c with
    | some h, some c => match s.var? h with
      | some x => (s.assignPassive h x c, "ok")
      | none => (s, "bad-op")
    | _, _ => (s, "bad-op")
  | "asg" :: h :: rest => match h.toNat?, parseExpr s.vars rest with
    | some h, some (e, []) => match s.var? h with
      | some x => if e.isActive && e.wf then let s' := s.assign h x e initScratch; (s', okVal s' h) else (s, "bad-op")
      | none => (s, "bad-op")
    | _, _ => (s, "bad-op")
  | "br" :: h :: o :: rest =>
    -- br <h> <op> ; L ; R ; e1 ; e2     `if (L OP R) x = e1; else x = e2;`  (L, R: an expression or a scalar token)
    let rec split : List String → List String → List (List String)
      | [], cur => [cur.reverse]
      | t :: ts, cur => if t == ";" then cur.reverse :: split ts [] else split ts (t :: cur)
    let secs := (split rest []).filter (· ≠ [])
    let parseOp : String → Option CmpOp := fun t =>
      if t == "<" then some .lt else if t == ">" then some .gt else if t == "<=" then some .le
      else if t == ">=" then some .ge else if t == "==" then some .eq else if t == "!=" then some .ne else none
    let parseSide : List String → Option (CmpSide Float) := fun ts =>
      match ts with
      | [t] => match parseScalar t with
        | some (c, _) => some (.num c)
        | none => match parseExpr s.vars ts with
          | some (e, []) => some (.expr e)
          | _ => none
      | _ => match parseExpr s.vars ts with
        | some (e, []) => some (.expr e)
        | _ => none
    match h.toNat?, parseOp o, secs with
    | some h, some o, [l, r, t1, t2] =>
      match s.var? h, parseSide l, parseSide r, parseExpr s.vars t1, parseExpr s.vars t2 with
      | some x, some l, some r, some (e1, []), some (e2, []) =>
        if e1.isActive && e1.wf && e2.isActive && e2.wf then
          let s' := s.branch h x o l r e1 e2 initScratch; (s', okVal s' h)
        else (s, "bad-op")
      | _, _, _, _, _ => (s, "bad-op")
    | _, _, _ => (s, "bad-op")
  | "asgt" :: h :: t :: rest =>
    -- `x = outer(adouble(inner))`: temporary constructed from `inner` (handle t), assignment, temporary destroyed
    let inner := rest.takeWhile (· != ";")
    let outer := (rest.dropWhile (· != ";")).drop 1
    match h.toNat?, t.toNat?, parseExpr s.vars inner with
    | some h, some t, some (ei, []) =>
      if !(ei.isActive && ei.wf) || (s.var? t).isSome then (s, "bad-op") else
      let (s1, ti) := s.newFrom t ei initScratch
      match s1.var? h, s1.var? t, parseExpr s1.vars outer with
      | some x, some tv, some (eo, []) =>
        if eo.isActive && eo.wf then
          let s2 := s1.assign h x eo initScratch
          let s3 := s2.delete t tv
          (s3, s!"ok {ti} " ++ ((s3.var? h).map (fun x => showHex x.val)).getD "?")
        else (s, "bad-op")
      | _, _, _ => (s, "bad-op")
    | _, _, _ => (s, "bad-op")
  | "cop" :: h :: o :: rest => match h.toNat?, parseBOp o, parseExpr s.vars rest with
    | some h, some o, some (e, []) => match s.var? h with
      | some x =>
        if e.isActive && e.wf && (o == .Add || o == .Subtract || o == .Multiply || o == .Divide) then
          let s' := s.compound h x o e initScratch; (s', okVal s' h)
        else (s, "bad-op")
      | none => (s, "bad-op")
    | _, _, _ => (s, "bad-op")
  | ["copp", h, o, c] => match h.toNat?, parseScalar c with
    | some h, some (c, mixed) => match s.var? h with
      | some x =>
        if o == "add" then let s' := s.compoundPassiveAddSub h x false c; (s', okVal s' h)
        else if o == "sub" then let s' := s.compoundPassiveAddSub h x true c; (s', okVal s' h)
        else if o == "mul" then let s' := s.compoundPassiveMul h x mixed c initScratch; (s', okVal s' h)
        else if o == "div" then let s' := s.compoundPassiveDiv h x c initScratch; (s', okVal s' h)
        else (s, "bad-op")
      | none => (s, "bad-op")
    | _, _ => (s, "bad-op")
  | [c, h, i, m] =>
    if c == "adep" || c == "apdep" then
      match h.toNat?.bind s.var?, i.toNat?.bind s.var?, parseHex m with
      | some x, some y, some m =>
        if c == "adep" then (s.addDependence x.idx y.idx m (m == 0), "ok")
        else match s.appendDependence x.idx y.idx m (m == 0) with
          | some s' => (s', "ok")
          | none => (s, "EXC wrong_gradient")
      | _, _, _ => (s, "bad-op")
    else (s, "bad-op")
  | _ => (s, "bad-op")

end ExprDrv
