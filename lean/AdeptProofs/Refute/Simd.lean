import AdeptProofs.Props.C05
/-!
# C05 — machine-checked counterexamples for the pinned form of three code sites

Each theorem refutes, on a concrete witness evaluated by the kernel (`decide`), the full-strength statement that
`AdeptProofs/Props/C05.lean` proves only for the repaired form (`Cfg.repaired`) or with an excluding hypothesis
(`…_partial`).  The same witnesses are run against the real library by checks/c05.py (family `probe`): with the
pinned sources they fault (misaligned aligned load, SIGSEGV) on SSE2/AVX builds.

* F-51: `FixedArray::alignment_offset_<n>()` returns `(addr/sizeof(Type)) % n`, the distance *from* the previous
  packet boundary, where `Array::alignment_offset_<n>()` and every user of the value mean the distance *to* the next.
* F-52: `FixedArray::all_arrays_contiguous_()` returns `true` although the rows of a `FixedArray` of rank > 1 are
  not padded: with a last extent that is not a multiple of the packet size, rows start at different alignments.
* F-53: `Array::columns_aligned_()` tests `offset_[Rank-2]` only; for rank ≥ 3 another outer offset can be odd
  (contiguous storage + `permute`).
-/
namespace Adept.Simd

/-- F-51: a float `FixedArray<8>` one element past a 16-byte boundary, target three elements past one (`W = 4`): the
    offsets "agree" (1 = 1), the packet loop runs from `istartvec = 1`, and the leaf's first packet load is at
    element address 2 — not on a boundary -/
theorem C05_refute_fixed_offset : ¬ (∀ (W : Nat), 1 < W → ∀ (t : View) (rhs : Expr),
    (assignPlan Cfg.pinned W t rhs).istart < (assignPlan Cfg.pinned W t rhs).iend →
    ∀ q ∈ rhs.fixedLeaves, (q.1 + (assignPlan Cfg.pinned W t rhs).istart) % W = 0) := by
  intro h
  have := h 4 (by decide) { a := 3, n := 8 } (.fixed 1 [8]) (by decide) (1, [8]) (by simp [Expr.fixedLeaves])
  revert this; decide

/-- the plan of that witness, and of the same statement with the repaired offset (scalar loop) -/
example : assignPlan Cfg.pinned 4 { a := 3, n := 8 } (.fixed 1 [8]) = ⟨true, 1, 5, 1⟩ := by decide
example : assignPlan Cfg.repaired 4 { a := 3, n := 8 } (.fixed 1 [8]) = ⟨true, 0, 0, 0⟩ := by decide

/-- F-52: `M = F + 1` with `F` a 3×5 double `FixedArray` on a boundary and `M` a fresh 3×5 `Matrix` (`W = 2`, pitch 6):
    the packet loop runs, and row 1 of `F` starts at element 5 — odd -/
theorem C05_refute_fixed_rows : ¬ (∀ (W : Nat), 1 < W → ∀ (t : View) (rhs : Expr),
    (assignPlan Cfg.pinned W t rhs).istart < (assignPlan Cfg.pinned W t rhs).iend →
    ∀ q ∈ rhs.fixedLeaves, ∀ (idx : List Nat) (j : Nat),
      ((q.1 : Int) + rowStart (fixedOuter q.2) idx + (assignPlan Cfg.pinned W t rhs).istart + j * W) % (W : Int) = 0) := by
  intro h
  have := h 2 (by decide) { a := 0, outerDims := [3], outer := [6], n := 5 } (.un true (.fixed 0 [3, 5])) (by decide)
    (0, [3, 5]) (by simp [Expr.fixedLeaves]) [1] 0
  revert this; decide

example : assignPlan Cfg.pinned 2 { a := 0, outerDims := [3], outer := [6], n := 5 } (.un true (.fixed 0 [3, 5]))
    = ⟨true, 0, 4, 6⟩ := by decide
example : assignPlan Cfg.repaired 2 { a := 0, outerDims := [3], outer := [6], n := 5 } (.un true (.fixed 0 [3, 5]))
    = Plan.scalar := by decide

/-- F-53: `D = C + 1` with `C = B.permute(1,0,2)`, `B.resize_contiguous(3,2,5)` (extents 2×3×5, offsets 5,10,1) and
    `D` a fresh 2×3×5 array (`W = 2`): `offset_[Rank-2] = 10` passes the test, the packet loop runs, and row (1,0) of
    `C` starts at element 5 — odd -/
theorem C05_refute_outer_offsets : ¬ (∀ (W : Nat), 1 < W → ∀ (t : View) (rhs : Expr),
    (assignPlan Cfg.pinned W t rhs).istart < (assignPlan Cfg.pinned W t rhs).iend →
    ∀ v ∈ rhs.arrLeaves, ∀ (idx : List Nat) (j : Nat),
      ((v.a : Int) + rowStart v.outer idx + (assignPlan Cfg.pinned W t rhs).istart + j * W) % (W : Int) = 0) := by
  intro h
  have := h 2 (by decide) { a := 0, outerDims := [2, 3], outer := [18, 6], n := 5 }
    (.un true (.arr { a := 0, outerDims := [2, 3], outer := [5, 10], n := 5 })) (by decide)
    { a := 0, outerDims := [2, 3], outer := [5, 10], n := 5 } (by simp [Expr.arrLeaves]) [1, 0] 0
  revert this; decide

example : assignPlan Cfg.pinned 2 { a := 0, outerDims := [2, 3], outer := [18, 6], n := 5 }
    (.un true (.arr { a := 0, outerDims := [2, 3], outer := [5, 10], n := 5 })) = ⟨true, 0, 4, 12⟩ := by decide
example : assignPlan Cfg.repaired 2 { a := 0, outerDims := [2, 3], outer := [18, 6], n := 5 }
    (.un true (.arr { a := 0, outerDims := [2, 3], outer := [5, 10], n := 5 })) = Plan.scalar := by decide

end Adept.Simd
