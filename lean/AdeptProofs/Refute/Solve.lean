import AdeptProofs.Lemmas.Solve
import AdeptProofs.Lemmas.LapackInstance
import Mathlib.Algebra.Field.Rat
import Mathlib.Tactic.NormNum
/-!
# F-21 — the pinned fallback of the symmetric vector `solve` breaks "singular ⇒ matrix_ill_conditioned"

`solveSymVecPinned` (AdeptModel/Solve.lean) is the pinned source: after a failed `?sysv` it calls
`solve(Array<2,T,false>(A_), b_)`, reading the matrix back from the buffer `?sysv` has overwritten.
The LAPACK contract says nothing about that buffer after a failure, so for EVERY contract-abiding LAPACK `L`
there is another one (`scribble L`: identical, except that a failing `?sysv` leaves the identity matrix in
`A`) under which EVERY exactly singular symmetric system gets a value back instead of an exception.
Observed with the reference LAPACK too (`[[1,1],[1,1]] x = [1,2]` returns `{1,1}`): known_findings F-21,
repaired by fixes/F-21.patch, after which `C16_singular_raises` holds without exclusion.
-/
set_option linter.unusedSectionVars false
set_option linter.unusedSimpArgs false
namespace Adept.Solve
open Adept.Lapack

variable {K : Type} [Field K]

/-- the identity matrix as an `n × n` buffer (row- or column-major alike) -/
def idBuf (n : Nat) : Buf K := fun k => if k / n = k % n then 1 else 0

/-- `L`, except that a failing `?sysv` leaves the identity in `A` (allowed: the contents of `A` after
    `info > 0` are "details of the factorisation") -/
def scribble (L : Impl K) : Impl K :=
  { L with sysv := fun u n nrhs a lda b ldb =>
      if (L.sysv u n nrhs a lda b ldb).info = 0 then L.sysv u n nrhs a lda b ldb
      else { L.sysv u n nrhs a lda b ldb with a := idBuf n } }

theorem scribble_info (L : Impl K) (u : Uplo) (n nrhs : Nat) (a : Buf K) (lda : Nat) (b : Buf K) (ldb : Nat) :
    ((scribble L).sysv u n nrhs a lda b ldb).info = (L.sysv u n nrhs a lda b ldb).info := by
  simp only [scribble]; split <;> rfl

theorem scribble_b (L : Impl K) (u : Uplo) (n nrhs : Nat) (a : Buf K) (lda : Nat) (b : Buf K) (ldb : Nat) :
    ((scribble L).sysv u n nrhs a lda b ldb).b = (L.sysv u n nrhs a lda b ldb).b := by
  simp only [scribble]; split <;> rfl

theorem scribble_a (L : Impl K) (u : Uplo) (n nrhs : Nat) (a : Buf K) (lda : Nat) (b : Buf K) (ldb : Nat)
    (h : (L.sysv u n nrhs a lda b ldb).info ≠ 0) : ((scribble L).sysv u n nrhs a lda b ldb).a = idBuf n := by
  simp only [scribble, h, if_false]

theorem scribble_contract (L : Impl K) (hL : Contract L) : Contract (scribble L) where
  gesv_ok := hL.gesv_ok
  gesv_sing := hL.gesv_sing
  gesv_reg := hL.gesv_reg
  sysv_ok u n nrhs a lda b ldb ha hb h0 := by
    rw [scribble_info] at h0
    rw [scribble_b]
    exact hL.sysv_ok u n nrhs a lda b ldb ha hb h0
  sysv_sing u n nrhs a lda b ldb ha hb hs := by
    rw [scribble_info]; exact hL.sysv_sing u n nrhs a lda b ldb ha hb hs
  sysv_reg u n nrhs a lda b ldb ha hb hs := by
    rw [scribble_info]; exact hL.sysv_reg u n nrhs a lda b ldb ha hb hs
  getrf_sing := hL.getrf_sing
  getrf_reg := hL.getrf_reg
  getri_ok := hL.getri_ok
  sytrf_sing := hL.sytrf_sing
  sytrf_reg := hL.sytrf_reg
  sytri_ok := hL.sytri_ok

theorem idBuf_sym (o : Orient) (n : Nat) {i j : Nat} (hi : i < n) (hj : j < n) :
    (Sym.ofStorage o n 0 n (idBuf n : Buf K)).get i j = delta i j := by
  have d1 : (i * n + j) / n = i := by rw [Nat.add_comm, colmajor_div hj]
  have m1 : (i * n + j) % n = j := by rw [Nat.add_comm, colmajor_mod hj]
  have d2 : (i + j * n) / n = j := colmajor_div hi
  have m2 : (i + j * n) % n = i := colmajor_mod hi
  cases o <;> simp only [Sym.ofStorage, symIndex, Nat.zero_add, idBuf, delta] <;> split <;>
    simp only [d1, m1, d2, m2, eq_comm]

theorem identity_regular (n : Nat) : ¬ Singular n (fun i j => (delta i j : K)) := by
  rintro ⟨v, ⟨j, hj, hvj⟩, hk⟩
  apply hvj
  have := hk j hj
  rw [sumTo_eq_sum] at this
  rw [← this]
  simp only [delta]
  rw [Finset.sum_eq_single (⟨j, hj⟩ : Fin n)]
  · simp
  · intro b _ hb
    have : ¬ j = b.val := fun h => hb (Fin.ext h.symm)
    simp [this]
  · intro h; exact absurd (Finset.mem_univ _) h

/-- **Refutation of the full-strength statement for the pinned source.**  Under the contract-abiding LAPACK
    `scribble L`, the pinned symmetric vector `solve` returns a value for EVERY exactly singular symmetric
    system (of either orientation, any size, any right-hand side): `singular ⇒ matrix_ill_conditioned` fails. -/
theorem F21_pinned_singular_returns_value (L : Impl K) (hL : Contract L) (h : Heap K) (S : Sym K) (b : Vec K)
    (hsym : ∀ i j, S.get i j = S.get j i) (hb : b.n = S.n) (hs : Singular S.n S.get) :
    Contract (scribble L) ∧ ∃ x, (solveSymVecPinned (scribble L) h S b).res = .ok x := by
  refine ⟨scribble_contract L hL, ?_⟩
  have hA : ∀ i j, i < S.n → j < S.n →
      syMat (uploOf S.orient) S.n (fillSym S (h.mem h.next)) i j = S.get i j :=
    fun i j hi hj => fillSym_syMat S _ hsym hi hj
  have hpos := hL.sysv_sing (uploOf S.orient) S.n 1 (fillSym S (h.mem h.next)) S.n
    (fillVec b (h.mem (h.next + 1))) b.n (Nat.le_refl _) (by omega)
    (singular_congr (fun i j hi hj => (hA i j hi hj).symm) hs)
  have hne : (L.sysv (uploOf S.orient) S.n 1 (fillSym S (h.mem h.next)) S.n
    (fillVec b (h.mem (h.next + 1))) b.n).info ≠ 0 := by omega
  simp only [solveSymVecPinned, Heap.alloc, Heap.store]
  simp only [Nat.add_eq_left, Nat.succ_ne_self, Nat.left_eq_add, if_true, if_false, one_ne_zero, ↓reduceIte]
  rw [scribble_info, if_pos hne, scribble_a L _ _ _ _ _ _ _ hne]
  generalize hh5 : (densify _ _ : Heap K × Mat K) = p
  have hrows : p.2.rows = S.n := by rw [← hh5]; rfl
  have hcols : p.2.cols = S.n := by rw [← hh5]; rfl
  have hget : ∀ i j, i < S.n → j < S.n → p.2.get i j = (delta i j : K) := by
    intro i j hi hj
    rw [← hh5, densify_get _ _ hi hj]
    exact idBuf_sym S.orient S.n hi hj
  have spec := solveGenVec_spec (scribble L) (scribble_contract L hL) p.1 p.2
    { n := b.n, get := ((scribble L).sysv (uploOf S.orient) S.n 1 (fillSym S (h.mem h.next)) S.n
        (fillVec b (h.mem (h.next + 1))) b.n).b } (by rw [hrows, hcols]) (by rw [hrows]; exact hb)
  have hreg : ¬ Singular p.2.rows p.2.get := by
    rw [hrows]
    intro hsing
    exact identity_regular S.n (singular_congr hget hsing)
  exact spec.2.2.1 hreg

/-- the hypotheses are met: `[[1,1],[1,1]]` stored as a `ROW_LOWER_COL_UPPER` `SymmMatrix` (unused element
    poisoned) is symmetric and exactly singular, and a contract-abiding LAPACK exists over `ℚ` -/
example : ∃ (L : Impl ℚ) (S : Sym ℚ) (b : Vec ℚ), Contract L ∧ Singular S.n S.get ∧ b.n = S.n ∧
    ∃ x, (solveSymVecPinned L ⟨0, fun _ _ => 0⟩ S b).res = .ok x := by
  let S : Sym ℚ := Sym.ofStorage .rowLower 2 0 2 (fun k => [1, 777, 1, 1].getD k 0)
  have hs : Singular 2 S.get := by
    refine ⟨fun j => if j = 0 then 1 else -1, ⟨0, by decide, by simp⟩, fun i hi => ?_⟩
    have : i = 0 ∨ i = 1 := by omega
    rcases this with rfl | rfl <;> simp [sumTo, S, Sym.ofStorage, symIndex]
  obtain ⟨hc, hx⟩ := F21_pinned_singular_returns_value (classicalImpl ℚ) (classicalImpl_contract ℚ)
    ⟨0, fun _ _ => 0⟩ S { n := 2, get := fun i => [1, 2].getD i 0 }
    (Sym.ofStorage_symm _ _ _ _ _) rfl hs
  exact ⟨_, S, _, hc, hs, rfl, hx⟩

end Adept.Solve
