import AdeptModel.Matmul
/-!
Machine-checked witnesses of the three matmul defects of the pinned tree (F-13, F-14, F-26), kept as a record of the
OLD behaviour after the repairs (fixes/F-13-14.patch, fixes/F-26.patch).  `AdeptModel/Matmul.lean` transcribes the
repaired code; the old marshalling choices are restated here and shown to violate the BLAS contract of
`AdeptModel/Blas.lean` on concrete operands (the reproducers of DESIGN.md, Appendix A).
-/
namespace Adept.Matmul.Old
open Adept.Blas Adept.Matmul

/-- `Array::is_column_contiguous()` as pinned: the sign and size of `offset_[1]` were ignored -/
def isColContigOld (v : View2) : Bool := decide (v.o0 = 1)

/-- F-14: `A(stride(2,0,-1),__).T()` of a row-major 3×3 matrix -/
def vF14 : View2 := { base := 6, d0 := 3, d1 := 3, o0 := 1, o1 := -3 }

/-- the old predicate classifies the view as column-contiguous (the repaired one does not: it is copied) … -/
theorem F14_old_predicate_accepts :
    isRowContig vF14 = false ∧ isColContigOld vF14 = true ∧ isColContig vF14 = false ∧ needsCopy vF14 = true := by decide

/-- … so ?GEMV was called with `lda = offset(1) = -3`, which the reference rejects (parameter 6): nothing is
    computed and the result array stays uninitialised. -/
theorem F14_blas_rejects : gemvInfo { trans := false, m := 3, n := 3, lda := vF14.o1, incx := 1, incy := 1 } = 6 := by decide

/-- F-13: `big(range(2,4))(stride(2,0,-1))`, a reversed 3-element part of a 7-element vector -/
def xF13 : View1 := { base := 4, d := 3, o := -1 }

/-- with the old pointer (`const_data()`, i.e. `base`) ?GEMV with `incx = -1` reads a cell that is not an element
    of the operand (cell 6 = base + 2; the elements are the cells 4, 3, 2) … -/
theorem F13_old_reads_outside :
    ∃ p ∈ gemvReadX { trans := true, m := 3, n := 3, lda := 3, incx := xF13.o, incy := 1 },
      ∀ l, l < xF13.d → xF13.base + p ≠ xF13.addr l := ⟨2, by decide, by decide⟩

/-- … whereas from `blas_vector_start` every read is an element. -/
theorem F13_new_reads_inside :
    ∀ p ∈ gemvReadX { trans := true, m := 3, n := 3, lda := 3, incx := xF13.o, incy := 1 },
      ∃ l, l < xF13.d ∧ blasVectorStart xF13.base xF13.d xF13.o + p = xF13.addr l := by decide

/-- F-26: `SpecialMatrix<Real,BandEngine<ROW_MAJOR,2,0>,false> S(2)`: offset 2, four storage cells `0..3`.
    The row-major call is rewritten to the transposed problem with `kl = UDiags = 0`, `ku = LDiags = 2`, `lda = 3`;
    the old start pointer `ptr − UDiags = ptr` makes ?GBMV read the cells 4 and 5, beyond the storage … -/
theorem F26_old_reads_outside :
    ∃ p ∈ gbmvReadA { trans := true, m := 2, n := 2, kl := 0, ku := 2, lda := 3, incx := 1, incy := 1 },
      (0 : Int) - 0 + p ≥ 4 := ⟨4, by decide, by decide⟩

/-- … the repaired start pointer `ptr − LDiags = ptr − 2` keeps every read inside `0..3`. -/
theorem F26_new_reads_inside :
    ∀ p ∈ gbmvReadA { trans := true, m := 2, n := 2, kl := 0, ku := 2, lda := 3, incx := 1, incy := 1 },
      0 ≤ (0 : Int) - 2 + p ∧ (0 : Int) - 2 + p < 4 := by decide

/-! ### why the recording loops are transcribed literally

Two edits of the recording code that leave every product VALUE intact and only change the recorded statements (they are
seeded regressions of the check, seeded/C15_2, C15_4, C15_5); restated here against the model, each with a concrete
operand on which the recorded statement is no longer the differential of the defining sum. -/

/-- the reversed 2-element vector `x = v(stride(1,0,-1))` over the cells `[3, 4]`: `x[0] = 4`, `x[1] = 3` -/
def xRev : Vec Int := { v := { base := 1, d := 2, o := -1 }, mem := fun p => if p < 0 then 0 else [3, 4].getD p.toNat 0, buf := .R }
def aRow : Mat Int := { v := { base := 0, d0 := 1, d1 := 2, o0 := 2, o1 := 1 }, mem := fun p => [1, 2].getD p.toNat 0, buf := .L }

/-- as coded, the multipliers for an active left matrix are walked from `right.const_data()` (the logically first
    element) with the vector's own stride: `(x[0], dA[0,0]), (x[1], dA[0,1])` … -/
theorem multipliers_from_const_data :
    (gemvRecord ⟨true, .L, 0⟩ ⟨false, .R, 0⟩ aRow xRev { base := 0, d := 1, o := 1 }).map (fun s => s.ops) =
      [[(4, ⟨.L, 0⟩), (3, ⟨.L, 1⟩)]] := by decide

/-- … whereas walking them from the BLAS start pointer (`blas_vector_start`, the lowest address: the hoisted `right_data`
    of the seeded edits) starts at `x[1]` and leaves the operand (cell −1 reads as 0 in the model; in C++ it is whatever
    precedes the vector): the statement would carry `(3, dA[0,0]), (0, dA[0,1])`. -/
theorem multipliers_from_blas_start_wrong :
    pushDependence .L 0 xRev.mem (blasVectorStart xRev.v.base xRev.v.d xRev.v.o) xRev.v.d aRow.v.o1 xRev.v.o =
      [(3, ⟨.L, 0⟩), (0, ⟨.L, 1⟩)] ∧
    blasVectorStart xRev.v.base xRev.v.d xRev.v.o + 1 * xRev.v.o = -1 := by decide

/-- a column-major band matrix with 2 sub-diagonals and no super-diagonal, `dim = 3`: row 2 has the in-band columns
    0, 1, 2.  With `j_start` computed from `UDiags` instead of `LDiags` (seeded edit of the COL_MAJOR loop) the range
    would start at column 2 and the statement of row 2 would lose the columns 0 and 1. -/
theorem band_jstart_uses_LDiags :
    bandJStart 2 2 = 0 ∧ bandJEnd 0 3 2 - bandJStart 2 2 = 3 ∧
    bandJStart 0 2 = 2 ∧ bandJEnd 0 3 2 - bandJStart 0 2 = 1 := by decide

end Adept.Matmul.Old
