import AdeptProofs.Lemmas.Storage
/-!
Finding F-01 (repaired by fixes/F-01.patch): the PINNED move-assignment rule `!rhs.storage() || rhs.storage()->n_links() == 1`
(`assignMoveAtPinned` in AdeptModel/Storage.lean) breaks the ownership statement of C07 on the witness
`Vector t(3); t = Vector(ext, dimensions(3)); ext[0] = -1;` — machine-checked by evaluation.  With the repaired rule
(`assignMoveAt`) the same history keeps the target in its own Storage (example in Props/C07.lean).

Second part: why the view constructor must test the extents BEFORE `storage_->add_link()`.  `viewCtorLate` keeps the
state at the `throw` of a constructor that links first: a rejected view then leaves a link nobody holds, the
invariant is broken and the parent's Storage is never released.
-/
namespace Adept.Storage

/-- `int ext[3] = {10,11,12}; Vector t(3) = {1,2,3};` and the temporary `Vector(ext, dimensions(3))` at position 1 -/
def f01Before : St := run init [.xnew 3 10, .new .vec 3 0 1, .newExternal 0 0 3]

def poolOf : Except Err St → List Obj
  | .ok s => s.pool
  | .error _ => []

def readOf (r : Except Err St) (o : Obj) : List Int :=
  match r with
  | .ok s => (match readView s o with | .ok vs => vs | .error _ => [])
  | .error _ => []

/-- pinned rule: the swap leaves the target `t` (position 0) a storage-less view of the external block … -/
theorem pinned_move_aliases_external :
    poolOf (assignMoveAtPinned f01Before 0 1) =
      [{ kind := .vec, region := .ext 0, off := 0, storage := none, len := 3, stride := 1 }, ownerOf .vec 0 3 0] := by decide

/-- … so `ext[0] = -1` shows through `t`: it reads -1, 11, 12 -/
theorem pinned_move_not_independent :
    readOf ((assignMoveAtPinned f01Before 0 1).bind (fun s => xwriteAt s 0 0 (-1)))
      { kind := .vec, region := .ext 0, off := 0, storage := none, len := 3, stride := 1 } = [-1, 11, 12] := by decide

/-- the repaired rule copies instead: the target keeps its Storage and the values 10, 11, 12 -/
theorem repaired_move_copies :
    poolOf (assignMoveAt f01Before 0 1) =
      [ownerOf .vec 0 3 0, { kind := .vec, region := .ext 0, off := 0, storage := none, len := 3, stride := 1 }] ∧
    readOf ((assignMoveAt f01Before 0 1).bind (fun s => xwriteAt s 0 0 (-1))) (ownerOf .vec 0 3 0) = [10, 11, 12] := by decide

/-! ### a view constructor that links before it validates -/

/-- the state at the `throw` of a view constructor whose extent test comes AFTER `storage_->add_link()`
    (the half-built object is never destroyed, so the link stays) -/
def viewCtorLateThrowState (s : St) (b : Obj) : Except Err St :=
  match b.storage with
  | none => .ok s
  | some σ => addLink s σ

/-- `Vector v(5); try { v(range(4,1)); } catch (invalid_dimension&) {}` with the late test: one object, two links -/
def lateState : St :=
  match viewCtorLateThrowState (run init [.new .vec 5 0 1]) (ownerOf .vec 0 5 0) with
  | .ok s => s
  | .error _ => init

theorem late_check_keeps_a_link : lateState.heap.map (·.nLinks) = [2] ∧ lateState.pool.length = 1 := by decide

/-- that state violates the invariant (two links, one referrer) … -/
theorem late_check_breaks_invariant : ¬ Inv lateState := by
  intro I
  have h := (I.counts 0 { nLinks := 2, freed := false, size := 5, active := false } (by decide) rfl).1
  revert h
  decide

/-- … and the Storage outlives its last array: a leak -/
theorem late_check_leaks :
    (run lateState [.destroy 0]).pool = [] ∧ nStorageObjects (run lateState [.destroy 0]) = 1 := by decide

/-- with the test first (the transcribed code) the same rejected view changes nothing and the data are released -/
theorem early_check_releases :
    (run init [.new .vec 5 0 1, .view 0 (.slice 4 1 1), .destroy 0]).pool = [] ∧
    nStorageObjects (run init [.new .vec 5 0 1, .view 0 (.slice 4 1 1), .destroy 0]) = 0 := by decide

/-! ### finding F-74 (repaired by commit f93fa0f): what the PINNED resize left after a failed allocation -/

/-- pinned code: `storage_ = 0` (the link has been given back), `data_` STILL the old pointer, extents and strides
    already the new ones -/
def staleObj (a : Obj) (m0 m1 : Nat) : Obj :=
  { ownerOf a.kind 0 m0 m1 with region := a.region, off := a.off, storage := none }

/-- `Vector v(3); try { v.resize(5); } catch (std::bad_alloc&) {}` on the pinned tree -/
def pinnedFailedResize : St :=
  match releaseAt (run init [.new .vec 3 0 1]) 0 with
  | .ok s1 => setObj s1 0 (staleObj (ownerOf .vec 0 3 0) 5 0)
  | .error _ => init

/-- the live array has five elements, holds nothing, and its data pointer looks into the Storage that has just been
    deleted: every read is a use of released memory -/
theorem pinned_failed_resize_dangles :
    pinnedFailedResize.pool = [{ kind := .vec, region := .sto 0, off := 0, storage := none, len := 5, stride := 1 }] ∧
    pinnedFailedResize.heap.map (·.freed) = [true] ∧
    (match readView pinnedFailedResize { kind := .vec, region := .sto 0, off := 0, storage := none, len := 5, stride := 1 } with
     | .ok _ => false | .error e => e == .badAccess) = true := by decide

/-- the repaired code leaves the array empty -/
theorem repaired_failed_resize_is_empty :
    (run init [.new .vec 3 0 1, .failNext 1, .resize 0 false 5 0 0]).pool = [blank .vec] ∧
    (run init [.new .vec 3 0 1, .failNext 1, .resize 0 false 5 0 0]).heap.map (·.freed) = [true] := by decide

/-! ### a resize that keeps `storage_` after `remove_link()` (seeded regression C14_4) under an allocation fault -/

/-- `SymmMatrix s(3), t(s);` then `t.resize(2)` whose allocation fails, with `storage_ = 0` forgotten after
    `remove_link()`: the link has been given back and the handler has emptied `t`, but `t` still names the Storage -/
def keptPointerState : St :=
  match releaseAt (run init [.new .symm 3 0 1, .copyCtor 0]) 1 with
  | .ok s1 => setObj s1 1 { blank .symm with storage := some 0 }
  | .error _ => init

theorem kept_pointer_breaks_invariant : ¬ Inv keptPointerState := by
  intro I
  have h := (I.counts 0 { nLinks := 1, freed := false, size := 9, active := false } (by decide) rfl).1
  revert h
  decide

/-- … and destroying `t` removes a link it does not hold: the Storage is deleted under the live matrix `s` -/
theorem kept_pointer_frees_shared_data :
    (run keptPointerState [.destroy 1]).heap.map (·.freed) = [true] ∧
    (run keptPointerState [.destroy 1]).pool.map (·.storage) = [some 0] := by decide

/-- the transcribed code (pointer reset before the allocation): the same fault leaves `s` the only holder -/
theorem reset_pointer_keeps_shared_data :
    (run init [.new .symm 3 0 1, .copyCtor 0, .failNext 1, .resize 1 true 2 2 0, .destroy 1]).heap.map (·.nLinks) = [1] ∧
    (run init [.new .symm 3 0 1, .copyCtor 0, .failNext 1, .resize 1 true 2 2 0, .destroy 1]).heap.map (·.freed) = [false] := by
  decide

end Adept.Storage
