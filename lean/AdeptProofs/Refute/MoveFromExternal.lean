import AdeptProofs.Lemmas.Storage
/-!
Finding F-01 (repaired by fixes/F-01.patch): the PINNED move-assignment rule `!rhs.storage() || rhs.storage()->n_links() == 1`
(`assignMoveAtPinned` in AdeptModel/Storage.lean) breaks the ownership statement of C07 on the witness
`Vector t(3); t = Vector(ext, dimensions(3)); ext[0] = -1;` — machine-checked by evaluation.  With the repaired rule
(`assignMoveAt`) the same history keeps the target in its own Storage (example in Props/C07.lean).
-/
namespace Adept.Storage

/-- `int ext[3] = {10,11,12}; Vector t(3) = {1,2,3};` and the temporary `Vector(ext, dimensions(3))` at position 1 -/
def f01Before : St := run init [.xnew 3 10, .new 3 1, .newExternal 0 0 3]

def poolOf : Except Err St → List Obj
  | .ok s => s.pool
  | .error _ => []

def readOf (r : Except Err St) (o : Obj) : List Int :=
  match r with
  | .ok s => (match readView s o with | .ok vs => vs | .error _ => [])
  | .error _ => []

/-- pinned rule: the swap leaves the target `t` (position 0) a storage-less view of the external block … -/
theorem pinned_move_aliases_external :
    poolOf (assignMoveAtPinned f01Before 0 1) =
      [{ region := .ext 0, off := 0, storage := none, len := 3, stride := 1 }, ownerOf 0 3] := by decide

/-- … so `ext[0] = -1` shows through `t`: it reads -1, 11, 12 -/
theorem pinned_move_not_independent :
    readOf ((assignMoveAtPinned f01Before 0 1).bind (fun s => xwriteAt s 0 0 (-1)))
      { region := .ext 0, off := 0, storage := none, len := 3, stride := 1 } = [-1, 11, 12] := by decide

/-- the repaired rule copies instead: the target keeps its Storage and the values 10, 11, 12 -/
theorem repaired_move_copies :
    poolOf (assignMoveAt f01Before 0 1) =
      [ownerOf 0 3, { region := .ext 0, off := 0, storage := none, len := 3, stride := 1 }] ∧
    readOf ((assignMoveAt f01Before 0 1).bind (fun s => xwriteAt s 0 0 (-1))) (ownerOf 0 3) = [10, 11, 12] := by decide

end Adept.Storage
