import AdeptProofs.Props.C02
import AdeptProofs.Props.C13
/-!
# C02 / C13 — what is NOT true operation for operation (machine-checked witnesses)

`AdeptProofs/Props/C02.lean` and `C13.lean` prove a law-free layer: equalities that hold for every carrier with `+ * 0 1`
and every zero test.  Two clauses of C02 are not in that layer; this file refutes their law-free form on concrete
witnesses evaluated by the kernel (`decide`), over two small carriers that keep one feature of IEEE arithmetic each:

* `Fix1` — fixed point with one binary digit, products TRUNCATED to the grid (a miniature of rounding): `*` is
  commutative, has the unit `1`, `+` is exact, but `*` is not associative.  Forward and reverse Jacobians of a chain of
  three multiplications differ (`(c·(b·a))` against `(a·(b·c))`), as they differ in the last bit on doubles.
* `Abs3` — `0`, `1` and an absorbing element `n` with `n * 0 = n` (as `Inf * 0 = NaN`).  The blocked reverse routine
  (`W = 2`) returns `n` for an entry for which the unit-seeded adjoint pass and the unblocked routine (`W = 1`) return `1`:
  the lane of `y₁` executes `+= n*0` because the lane of `y₂` in the same block is non-zero.  checks/c02.py runs the same
  recording (multiplier `Inf`) against the real library and observes exactly this (`NaN` against `1`).

The same carriers serve as non-vacuity instances of the law-free theorems: they apply where no ring law holds.
-/
namespace Adept.Tape

/-- twice the value; products truncated to the half-integer grid -/
structure Fix1 where
  v : Int
deriving DecidableEq, Repr

instance : Add Fix1 := ⟨fun a b => ⟨a.v + b.v⟩⟩
instance : Mul Fix1 := ⟨fun a b => ⟨(a.v * b.v) / 2⟩⟩
instance : Zero Fix1 := ⟨⟨0⟩⟩
instance : One Fix1 := ⟨⟨2⟩⟩

/-- `*` on `Fix1` is not associative: (2.5 · 1.5) · 3.5 = 12 but 2.5 · (1.5 · 3.5) = 12.5 -/
example : ((⟨5⟩ : Fix1) * ⟨3⟩) * ⟨7⟩ ≠ ⟨5⟩ * ((⟨3⟩ : Fix1) * ⟨7⟩) := by decide

/-- `u = 2.5 x; v = 1.5 u; y = 3.5 v` (slots 0 1 2 3) -/
def chain3 : List (Stmt Fix1) := [⟨1, [(⟨5⟩, 0)]⟩, ⟨2, [(⟨3⟩, 1)]⟩, ⟨3, [(⟨7⟩, 2)]⟩]

/-- Forward routine = reverse routine is NOT an operation-for-operation identity: over `Fix1` the 1×1 Jacobian `dy/dx` of
    `chain3` is 12 by the forward routine and 12.5 by the reverse routine. -/
theorem C02_refute_fwd_eq_rev_lawfree :
    ¬ (∀ (R : Type) [Add R] [Mul R] [Zero R] [One R] (nz : R → Bool) (t : List (Stmt R)) (c : JacCfg)
        (indep dep : List Nat) (out : Out R), 0 < c.W →
        LayoutOK dep.length indep.length c.depOff c.indepOff out.length →
        jacFwdSerial t c indep dep out = jacRevSerialB nz t c indep dep out) := by
  intro h
  have := h Fix1 (fun a => decide (a ≠ 0)) chain3 ⟨1, 4, 1, 1⟩ [0] [3] [0] (by decide) (layout_colmajor 1 1)
  revert this
  decide

example : jacFwdSerial chain3 ⟨1, 4, 1, 1⟩ [0] [3] [0] = [⟨24⟩] := by decide
example : jacRevSerialB (fun a => decide (a ≠ 0)) chain3 ⟨1, 4, 1, 1⟩ [0] [3] [0] = [⟨25⟩] := by decide

/-- zero, one, and an absorbing element -/
inductive Abs3
  | z | o | n
deriving DecidableEq, Repr

instance : Add Abs3 := ⟨fun a b => match a, b with
  | .n, _ => .n | _, .n => .n | .z, x => x | x, .z => x | .o, .o => .n⟩
instance : Mul Abs3 := ⟨fun a b => match a, b with
  | .n, _ => .n | _, .n => .n | .z, _ => .z | _, .z => .z | .o, .o => .o⟩
instance : Zero Abs3 := ⟨.z⟩
instance : One Abs3 := ⟨.o⟩

/-- `y₁ = 1·x; y₂ = n·x` (slots 0 1 2) -/
def infTape : List (Stmt Abs3) := [⟨1, [(.o, 0)]⟩, ⟨2, [(.n, 0)]⟩]

/-- Reverse Jacobian row = unit-seeded adjoint pass is NOT an operation-for-operation identity for blocks of more than
    one lane: over `Abs3`, `∂y₁/∂x` of `infTape` is `n` by the reverse routine with `W = 2` and `1` by `compute_adjoint`. -/
theorem C02_refute_rev_row_lawfree :
    ¬ (∀ (R : Type) [Add R] [Mul R] [Zero R] [One R] (nz : R → Bool) (t : List (Stmt R)) (c : JacCfg)
        (indep dep : List Nat) (out : Out R), 0 < c.W →
        LayoutOK dep.length indep.length c.depOff c.indepOff out.length →
        LF.JacSpecE (fun i j => LF.entryRev nz t c.maxGrad (indep.getD j 0) (dep.getD i 0)) dep.length indep.length
          c.depOff c.indepOff out (jacRevSerialB nz t c indep dep out)) := by
  intro h
  have := (h Abs3 (fun a => decide (a ≠ .z)) infTape ⟨2, 3, 1, 2⟩ [0] [1, 2] [.z, .z] (by decide)
    (layout_colmajor 2 1)).2.1 0 0 (by decide) (by decide)
  revert this
  decide

/-- Blocked = unblocked is NOT an operation-for-operation identity for the reverse routine: `W = 2` against `W = 1`. -/
theorem C02_refute_rev_blocked_lawfree :
    ¬ (∀ (R : Type) [Add R] [Mul R] [Zero R] [One R] (nz : R → Bool) (t : List (Stmt R)) (c : JacCfg) (W' : Nat)
        (indep dep : List Nat) (out : Out R), 0 < c.W → 0 < W' →
        LayoutOK dep.length indep.length c.depOff c.indepOff out.length →
        jacRevSerialB nz t c indep dep out = jacRevSerialB nz t { c with W := W' } indep dep out) := by
  intro h
  have := h Abs3 (fun a => decide (a ≠ .z)) infTape ⟨2, 3, 1, 2⟩ 1 [0] [1, 2] [.z, .z] (by decide) (by decide)
    (layout_colmajor 2 1)
  revert this
  decide

example : jacRevSerialB (fun a => decide (a ≠ Abs3.z)) infTape ⟨2, 3, 1, 2⟩ [0] [1, 2] [.z, .z] = [.n, .n] := by decide
example : jacRevSerialB (fun a => decide (a ≠ Abs3.z)) infTape ⟨1, 3, 1, 2⟩ [0] [1, 2] [.z, .z] = [.o, .n] := by decide
example : LF.entryRev (fun a => decide (a ≠ Abs3.z)) infTape 3 0 1 = .o := by decide

/-! ### non-vacuity of the law-free theorems: they apply to carriers without ring laws -/

/-- `u = 2.5 x₀ + 1.5 x₁; y = 3.5 u + 1.5 x₁ + 2.5 u` (slots 0 1 2 3) -/
def fan : List (Stmt Fix1) := [⟨2, [(⟨5⟩, 0), (⟨3⟩, 1)]⟩, ⟨3, [(⟨7⟩, 2), (⟨3⟩, 1), (⟨5⟩, 2)]⟩]

/-- C13, forward, on `Fix1` (5 independents, `W = 2`: blocks 0 1 2, the last of one lane; schedule 2,0,1) -/
example : jacFwdOmp fan ⟨2, 4, 1, 2⟩ [0, 1, 0, 1, 1] [3, 2] [2, 0, 1] (List.replicate 10 0) =
    jacFwdSerial fan ⟨2, 4, 1, 2⟩ [0, 1, 0, 1, 1] [3, 2] (List.replicate 10 0) :=
  C13_omp_eq_serial_fwd_lawfree fan ⟨2, 4, 1, 2⟩ [0, 1, 0, 1, 1] [3, 2] [2, 0, 1] _ (by decide)
    (layout_colmajor 2 5) (by decide)

/-- … and the buffer is not trivial -/
example : jacFwdSerial fan ⟨2, 4, 1, 2⟩ [0, 1, 0, 1, 1] [3, 2] (List.replicate 10 0) =
    [⟨29⟩, ⟨5⟩, ⟨20⟩, ⟨3⟩, ⟨29⟩, ⟨5⟩, ⟨20⟩, ⟨3⟩, ⟨20⟩, ⟨3⟩] := by decide

/-- C13, reverse, on `Abs3` where the block flag is observable: parallel = serial all the same -/
example : jacRevOmpB (fun a => decide (a ≠ Abs3.z)) infTape ⟨2, 3, 1, 3⟩ [0] [1, 2, 1] [1, 0] [.z, .z, .z] =
    jacRevSerialB (fun a => decide (a ≠ Abs3.z)) infTape ⟨2, 3, 1, 3⟩ [0] [1, 2, 1] [.z, .z, .z] :=
  C13_omp_eq_serial_rev_lawfree _ infTape ⟨2, 3, 1, 3⟩ [0] [1, 2, 1] [1, 0] _ (by decide) (layout_colmajor 3 1)
    (by decide)

example : jacRevSerialB (fun a => decide (a ≠ Abs3.z)) infTape ⟨2, 3, 1, 3⟩ [0] [1, 2, 1] [.z, .z, .z] = [.n, .n, .o] := by
  decide

/-- C02 `hskip` is satisfiable by a carrier that is not a ring (`Fix1`: `x + m*0 = x` although `*` is not associative) -/
example : ∀ x m a : Fix1, (fun a : Fix1 => decide (a ≠ 0)) a = false → x + m * a = x := by
  intro x m a h
  have ha : a = 0 := by simpa using h
  subst ha
  cases x with | mk xv =>
  cases m with | mk mv =>
  show (⟨xv + (mv * 0) / 2⟩ : Fix1) = ⟨xv⟩
  simp

/-- `SkipOK` is satisfiable where the unrestricted `hskip` is false: on `Abs3`, with `G` = everything and `Mok` = "not the
    absorbing element" (the finite multipliers) … -/
example : LF.SkipOK (fun a => decide (a ≠ Abs3.z)) (fun _ => True) (fun m => m ≠ Abs3.n) := by
  refine ⟨trivial, trivial, fun _ _ _ _ _ _ => trivial, ?_⟩
  intro x m a _ hm ha
  have : a = .z := by simpa using ha
  subst this
  cases x <;> cases m <;> first | rfl | exact absurd rfl hm

/-- … while `hskip` itself fails there (`x + n*0 = n`) -/
example : ¬ ∀ x m a : Abs3, (fun a => decide (a ≠ Abs3.z)) a = false → x + m * a = x := by
  intro h
  have := h .o .n .z (by decide)
  revert this
  decide

end Adept.Tape
