import AdeptModel.MinimizerLogic
/-!
Machine-checked counterexample for finding F-65 (C18 `converged_means`, C19): the Levenberg family can report
"converged" while a variable it holds at a bound has a gradient pointing INTO the box.

Witness (integers, so that `decide` evaluates the model in the kernel): the strictly convex quadratic
`1/2 (x-c)ᵀ H (x-c)` with `H = [[2,-1],[-1,2]]`, `c = (-1,-3)`, box `[0,10]²`, start `(0,0)` (on both lower faces).
Gradient at the start: `H (x-c) = (-1, 5)`.  The undamped Newton step of the full system is `c - x = (-1,-3)`.
Variable 0: gradient `-1 < 0` (descent moves it into the box) but Newton step `-1 ≤ 0` ⇒ not released.
Variable 1: gradient `5 > 0` ⇒ rightly held.  No variable is free ⇒ gradient norm 0 ⇒ status "converged" at
`(0,0)`, whereas the constrained minimum is `(1/2, 0)`.
-/
namespace Adept.Minimizer.Refute

def S : LMSettings Int :=
  { n := 2, lo := fun _ => 0, up := fun _ => 10, maxIter := 100, tol := 0, ensure := -1, maxStep := -1,
    restart := 1, dmax := 100000, mult := 2, dmin := 1, divd := 5 }

/-- gradient of the quadratic -/
def g (x : Vec Int) : Vec Int := fun i =>
  if i = 0 then 2 * (x 0 + 1) - (x 1 + 3) else -(x 0 + 1) + 2 * (x 1 + 3)

def f (x : Vec Int) : Sample Int := ⟨0, g x, true, true⟩
def cost (_ : Vec Int) : Int × Bool := (0, true)
/-- Newton step of the full system with zero damping: `c - x` -/
def newton (x : Vec Int) (_ : Nat → Int) (_ : Int) : Vec Int := fun i => if i = 0 then -1 - x 0 else -3 - x 1

def run : LMSt Int := lmMinimize S f cost (fun _ => 0) newton newton (fun _ => 0) 0 30 3

/-- the full-strength `converged_means` is false for the Levenberg family: status "converged", variable 0 is
    flagged as held at its lower bound, it does lie there, yet its gradient is negative -/
theorem converged_means_lm_refuted :
    run.status = .success ∧ run.bs 0 = -1 ∧ run.x 0 = 0 ∧ (f run.x).grad 0 < 0 ∧ run.calls.length = 1 := by
  decide

end Adept.Minimizer.Refute
