import AdeptProofs.Props.C04
/-!
Machine-checked counterexamples for the full-strength C04 statements the (fixed) code does not satisfy.
Each is the minimal witness of an open entry of `known_findings.json`; the model values are the ones the real
library produces (checks/c04.py replays the same witnesses against the C++ on every run).
-/
namespace Adept.Assign

/-- memory holding `xs` at addresses `0, 1, …` (0 elsewhere) -/
def memOf (xs : List Int) : Mem := ⟨fun k => if k < 0 then 0 else xs.getD k.toNat 0⟩

def image (m : Mem) (n : Nat) : List Int := (List.range n).map fun k => m (Int.ofNat k)

/-! ### F-25  `w.where(w(stride(4,0,-1)) > 3) = w(stride(4,0,-1))`, `w = 1..5` -/

def w25 : View := ⟨0, [5], [1]⟩
def r25 : View := ⟨4, [5], [-1]⟩
def mask25 : BExpr := .cmp .gt (.leaf r25) (.const 3)

/-- as coded: `5 4 3 2 1`;  mask and right-hand side first: `5 4 3 4 5` -/
theorem F25_values :
    image (assignConditional w25 mask25 (.leaf r25) (memOf [1, 2, 3, 4, 5])) 5 = [5, 4, 3, 2, 1] ∧
    image (storeWhere w25 (maskAll mask25 w25.dims (memOf [1, 2, 3, 4, 5]))
      (evalAll (.leaf r25) w25.dims (memOf [1, 2, 3, 4, 5])) (memOf [1, 2, 3, 4, 5])) 5 = [5, 4, 3, 4, 5] := by
  decide

theorem F25_where_semantics_full_refuted : ¬ WhereSemanticsFull := by
  intro h
  have := h w25 mask25 (.leaf r25) (memOf [1, 2, 3, 4, 5]) ⟨rfl, by decide, by decide⟩
    (by show (View.cells _).Nodup; decide) (fun ix hx => hx) rfl
  have h3 := congrArg (fun m : Mem => m 3) this
  revert h3
  decide

/-! ### F-38  `A.where(A > 3) = either_or(0, 10)`, `A = {1, 5}` -/

def a29 : View := ⟨0, [2], [1]⟩
def mask29 : BExpr := .cmp .gt (.leaf a29) (.const 3)

/-- as coded: `0 0` (the mask is evaluated again after the first pass stored 10);  evaluate first: `10 0` -/
theorem F38_values :
    image (whereEitherOr a29 mask29 (.scalar 0) (.scalar 10) (memOf [1, 5])) 2 = [0, 0] ∧
    image (storeWhere a29 (maskAll mask29 a29.dims (memOf [1, 5])) ((WRhs.scalar 0).evalAll a29.dims (memOf [1, 5]))
      (storeWhere a29 (maskAll (.not mask29) a29.dims (memOf [1, 5])) ((WRhs.scalar 10).evalAll a29.dims (memOf [1, 5]))
        (memOf [1, 5]))) 2 = [10, 0] := by
  decide

theorem F38_either_or_semantics_full_refuted : ¬ EitherOrSemanticsFull := by
  intro h
  have := h a29 mask29 (.scalar 0) (.scalar 10) (memOf [1, 5]) ⟨rfl, by decide, by decide⟩
    (by show (View.cells _).Nodup; decide) trivial trivial trivial trivial
  have h0 := congrArg (fun m : Mem => m 0) this
  revert h0
  decide

/-- the second half of F-38: with a mask held in a separate boolArray the TRUE branch is still evaluated after the
    false branch has been stored: `A = 1 2 3 4`, `M = T T F F`, `A.where(M) = either_or(A(stride(3,0,-1)), 0)`
    gives `0 0 0 0`, evaluate-first gives `4 3 0 0` -/
theorem F38_true_branch_values :
    let a : View := ⟨0, [4], [1]⟩
    let mk : BExpr := .lit fun ix => decide (ix.headD 0 < 2)
    let c : WRhs := .expr (.leaf ⟨3, [4], [-1]⟩)
    image (whereEitherOr a mk c (.scalar 0) (memOf [1, 2, 3, 4])) 4 = [0, 0, 0, 0] ∧
    image (storeWhere a (maskAll mk a.dims (memOf [1, 2, 3, 4])) (c.evalAll a.dims (memOf [1, 2, 3, 4]))
      (storeWhere a (maskAll (.not mk) a.dims (memOf [1, 2, 3, 4])) ((WRhs.scalar 0).evalAll a.dims (memOf [1, 2, 3, 4]))
        (memOf [1, 2, 3, 4]))) 4 = [4, 3, 0, 0] := by
  decide

/-! ### F-22  `FixedArray<…,3> v = {1,2,3}; v = v(stride(end,0,-1));` -/

def v22 : View := ⟨0, [3], [1]⟩
def r22 : View := ⟨2, [3], [-1]⟩

/-- as coded (and as the manual says): `3 2 3`;  evaluate first: `3 2 1` -/
theorem F22_values :
    image (fixedAssign v22 (.leaf r22) (memOf [1, 2, 3])) 3 = [3, 2, 3] ∧
    image (storeAll v22 (evalAll (.leaf r22) v22.dims (memOf [1, 2, 3])) (memOf [1, 2, 3])) 3 = [3, 2, 1] := by
  decide

theorem F22_fixed_semantics_full_refuted : ¬ FixedSemanticsFull := by
  intro h
  have := h v22 (.leaf r22) (memOf [1, 2, 3]) ⟨rfl, by decide, by decide⟩
    (by show (View.cells _).Nodup; decide) (fun ix hx => hx) rfl
  have h2 := congrArg (fun m : Mem => m 2) this
  revert h2
  decide

/-! ### F-39  `v(idx) += w`, `idx = {1, 1}`, `v = {10,20,30}`, `w = {1,2}` (w at addresses 3, 4) -/

def v30 : IView := ⟨⟨0, [3], [1]⟩, [.list [1, 1]]⟩
def w30 : View := ⟨3, [2], [1]⟩

/-- as coded: `10 23 30` (the repeated element accumulates);  evaluate first, last write wins: `10 22 30` -/
theorem F39_values :
    image (indexedCompound .add v30 (.leaf w30) (memOf [10, 20, 30, 1, 2])) 3 = [10, 23, 30] ∧
    image (storeAllI v30 ((idxs v30.dims).map fun ix =>
        BOp.add.ap (memOf [10, 20, 30, 1, 2] (v30.addr ix)) ((Expr.leaf w30).evalAt (memOf [10, 20, 30, 1, 2]) ix))
      (memOf [10, 20, 30, 1, 2])) 3 = [10, 22, 30] := by
  decide

theorem F39_indexed_compound_semantics_full_refuted : ¬ IndexedCompoundSemanticsFull := by
  intro h
  have := h .add v30 (.leaf w30) (memOf [10, 20, 30, 1, 2]) ⟨by decide, by decide⟩ (fun ix hx => hx) rfl
  have h1 := congrArg (fun m : Mem => m 1) this
  revert h1
  decide

end Adept.Assign
