import AdeptProofs.Lemmas.RecBufSites
/-!
# C09 — recording never writes outside its buffers, whatever their initial size

Property theorems only.  `AdeptModel/RecBuf.lean` transcribes the bookkeeping of `StackStorageOrig`
(`check_space`, `push_rhs`, `push_lhs`, `push_lhs_range`, the two growth rules, `preallocate_*`);
`AdeptModel/RecBufSites.lean` gives the event stream of each recording site as a function of its sizes, with the
reservation expressions REGENERATED from the source (`Generated/ReserveSites.lean`).  Hook H1 logs the real
event streams; the check (checks/c09.py) compares them with these models and judges every logged stream with
`disciplined`.
-/
namespace Adept.RecBuf
open Sites

/-- `check_space(k)` leaves room for at least `k` more operations (it never shrinks the room that was there),
    loses nothing and writes nothing — for every capacity and fill level. -/
theorem C09_check_reserves (b : B) (k : Nat) (hw : WF b) :
    WF (step b (.check k)).1 ∧ (step b (.check k)).2 = false ∧
    (step b (.check k)).1.nOps = b.nOps ∧ (step b (.check k)).1.nSt = b.nSt ∧
    k ≤ free (step b (.check k)).1 ∧ free b ≤ free (step b (.check k)).1 := step_check b k hw

/-- The statement stack grows on demand: `push_lhs` and `push_lhs_range(n)` never write out of range. -/
theorem C09_lhs_safe (b : B) (n : Nat) (hw : WF b) :
    (step b .lhs).2 = false ∧ (step b (.lhsRange n)).2 = false :=
  ⟨(step_lhs b hw).2.1, (step_lhsRange b n hw).2.1⟩

/-- MAIN THEOREM.  An event stream that keeps the reservation discipline (never pushes more operations than
    the largest reservation still outstanding) runs without a single out-of-range write from ANY well-formed
    buffer state — any initial capacity ≥ 1, any fill level, after any amount of earlier growth. -/
theorem C09_disciplined_safe (es : List Ev) (b : B) (hw : WF b) (hd : disciplined 0 es = true) :
    (run b es).2 = false ∧ WF (run b es).1 :=
  disciplined_safe es b 0 hw (Nat.zero_le _) hd

/-- In particular from a fresh stack of any initial length `len ≥ 1`, also after `new_recording`. -/
theorem C09_no_fault_any_capacity (len : Nat) (hl : 0 < len) (es : List Ev) (hd : disciplined 0 es = true) :
    (run (initial len) es).2 = false ∧ (run (newRecording (initial len)) es).2 = false :=
  ⟨(C09_disciplined_safe es _ (initial_WF len hl) hd).1,
   (C09_disciplined_safe es _ (newRecording_WF _ (initial_WF len hl)) hd).1⟩

/-- What is recorded does not depend on the capacity: the number of operations and statements a stream adds is
    the same from every starting state (the contents are the arguments of the pushes, which the buffers do not
    alter; the correspondence check compares the tape dumps across capacities). -/
theorem C09_counts_capacity_independent (es : List Ev) (b₁ b₂ : B) :
    (run b₁ es).1.nOps - b₁.nOps = (run b₂ es).1.nOps - b₂.nOps ∧
    (run b₁ es).1.nSt - b₁.nSt = (run b₂ es).1.nSt - b₂.nSt := by
  obtain ⟨h1, h2⟩ := run_counts es b₁
  obtain ⟨h3, h4⟩ := run_counts es b₂
  omega

/-- `preallocate_operations` / `preallocate_statements` record nothing and can only help: a disciplined stream
    stays disciplined wherever such a call is inserted. -/
theorem C09_preallocate_harmless (es₁ es₂ : List Ev) (k : Nat) (f : Nat) (hd : disciplined f (es₁ ++ es₂) = true) :
    disciplined f (es₁ ++ Ev.preOps k :: es₂) = true ∧ disciplined f (es₁ ++ Ev.preSt k :: es₂) = true ∧
    opsOf (Ev.preOps k) = 0 ∧ stmtsOf (Ev.preOps k) = 0 ∧ opsOf (Ev.preSt k) = 0 ∧ stmtsOf (Ev.preSt k) = 0 :=
  preallocate_harmless es₁ es₂ k f hd

/-- `Stack::preallocate_operations(n)` as transcribed from Stack.h (condition `n_allocated_operations_ < n_operations_+n+1`,
    amount of `grow_operation_stack(n)`): from ANY well-formed state it writes nothing, records nothing, never shrinks the buffer,
    and afterwards at least `n` operations can be pushed without a further check. -/
theorem C09_preallocate_operations_room (b : B) (n : Nat) (hw : WF b) :
    WF (step b (.preOps n)).1 ∧ (step b (.preOps n)).2 = false ∧
    (step b (.preOps n)).1.nOps = b.nOps ∧ (step b (.preOps n)).1.nSt = b.nSt ∧
    n ≤ free (step b (.preOps n)).1 ∧ free b ≤ free (step b (.preOps n)).1 := step_preOps b n hw

/-- `Stack::preallocate_statements(n)` (condition `n_statements_+n+1 >= n_allocated_statements_`, amount of
    `grow_statement_stack(n)`): from ANY well-formed state it writes nothing, records nothing, leaves the operation buffer alone,
    never shrinks the statement buffer, and afterwards the buffer holds the `n` further statements. -/
theorem C09_preallocate_statements_room (b : B) (n : Nat) (hw : WF b) :
    WF (step b (.preSt n)).1 ∧ (step b (.preSt n)).2 = false ∧
    (step b (.preSt n)).1.nOps = b.nOps ∧ (step b (.preSt n)).1.nSt = b.nSt ∧
    (step b (.preSt n)).1.allocOps = b.allocOps ∧
    b.allocSt ≤ (step b (.preSt n)).1.allocSt ∧ b.nSt + n ≤ (step b (.preSt n)).1.allocSt := by
  obtain ⟨w, nf, h1, h2, _⟩ := step_preSt b n hw
  obtain ⟨_, h4, _⟩ := hw
  refine ⟨w, nf, h1, h2, ?_, ?_, ?_⟩ <;> simp only [step, grow] <;> split <;> (try split) <;> (try simp only []) <;> omega

/-- What a history records does not change when `preallocate_*` calls are inserted anywhere in it: from every starting state
    the stream with the call ends with the same operation and statement counts as the stream without it (the contents are the
    arguments of the pushes; the check compares the tape dumps and the derivatives of both histories). -/
theorem C09_preallocate_same_counts (es₁ es₂ : List Ev) (k : Nat) (b : B) :
    (run b (es₁ ++ Ev.preOps k :: es₂)).1.nOps = (run b (es₁ ++ es₂)).1.nOps ∧
    (run b (es₁ ++ Ev.preOps k :: es₂)).1.nSt = (run b (es₁ ++ es₂)).1.nSt ∧
    (run b (es₁ ++ Ev.preSt k :: es₂)).1.nOps = (run b (es₁ ++ es₂)).1.nOps ∧
    (run b (es₁ ++ Ev.preSt k :: es₂)).1.nSt = (run b (es₁ ++ es₂)).1.nSt := by
  obtain ⟨a1, a2⟩ := run_counts (es₁ ++ Ev.preOps k :: es₂) b
  obtain ⟨b1, b2⟩ := run_counts (es₁ ++ Ev.preSt k :: es₂) b
  obtain ⟨c1, c2⟩ := run_counts (es₁ ++ es₂) b
  simp only [List.map_append, List.map_cons, List.sum_append, List.sum_cons, opsOf, stmtsOf] at a1 a2 b1 b2 c1 c2
  omega

/-- the two calls on a full one-entry buffer (the state after `Stack()` with ADEPT_INITIAL_STACK_LENGTH 1): sizes as the C++ gives -/
example : (step (initial 1) (.preOps 5)).1 = ⟨0, 7, 1, 1⟩ ∧ (step (initial 1) (.preSt 5)).1 = ⟨0, 1, 1, 7⟩ ∧
    (step ⟨3, 8, 2, 8⟩ (.preOps 4)).1 = ⟨3, 8, 2, 8⟩ ∧ (step ⟨3, 8, 2, 8⟩ (.preOps 5)).1 = ⟨3, 16, 2, 8⟩ ∧
    (step ⟨3, 8, 2, 8⟩ (.preSt 5)).1 = ⟨3, 8, 2, 16⟩ ∧ (step ⟨3, 8, 2, 8⟩ (.preSt 4)).1 = ⟨3, 8, 2, 8⟩ := by decide

/-! ## Recording sites: for ALL sizes the stream of each site is disciplined.
The reservation expressions are the regenerated ones, so editing `check_space(…)` in the source re-opens these. -/

/-- scalar statements `x = expr` (constructor, assignment, `A(i) = expr`): `E::n_active` reserved, `n_active` pushed -/
theorem C09_site_scalar (nA f : Nat) :
    disciplined f (siteActiveCtor nA) = true ∧ disciplined f (siteActiveAssign nA) = true ∧
    disciplined f (siteActiveRefAssign nA) = true :=
  ⟨scalarAssign_ok nA f, scalarAssign_ok nA f, scalarAssign_ok nA f⟩

/-- copy assignments reserve 1 and push 1 -/
theorem C09_site_copy (f : Nat) :
    disciplined f siteActiveCopy1 = true ∧ disciplined f siteActiveCopy2 = true ∧
    disciplined f siteActiveRefCopy1 = true ∧ disciplined f siteActiveRefCopy2 = true :=
  ⟨scalarAssign_ok 1 f, scalarAssign_ok 1 f, scalarAssign_ok 1 f, scalarAssign_ok 1 f⟩

/-- the temporary returned by `Array::get_rvalue` / `FixedArray::get_rvalue` for an element of an active array
    (`Active(const PType&, Index)`): reserves 1, pushes 1.  (F-70: the pinned constructor pushed without reserving, so two
    such temporaries in one expression overflowed a full buffer.) -/
theorem C09_site_element_temporary (f : Nat) : disciplined f siteActiveElemCtor = true := scalarAssign_ok 1 f

/-- user-supplied dependences: `n` reserved, at most `n` (the non-zero multipliers) pushed -/
theorem C09_site_dependence (n k f : Nat) (h : k ≤ n) :
    disciplined f (siteActiveAddDep n k) = true ∧ disciplined f (siteActiveRefAddDep n k) = true ∧
    disciplined f (siteActiveConstRefAddDep n k) = true ∧
    disciplined f (siteActiveAppendDep n k) = true ∧ disciplined f (siteActiveRefAppendDep n k) = true ∧
    disciplined f (siteActiveConstRefAppendDep n k) = true ∧ disciplined f (sitePushDep n) = true :=
  ⟨addDep_ok n k f h, addDep_ok n k f h, addDep_ok n k f h, appendDep_ok n k f h, appendDep_ok n k f h,
   appendDep_ok n k f h, appendDep_ok n n f (Nat.le_refl _)⟩

theorem C09_site_dependence_single (k f : Nat) (h : k ≤ 1) :
    disciplined f (siteStackAddDep k) = true ∧ disciplined f (siteStackAppendDep k) = true :=
  ⟨addDep_ok 1 k f h, appendDep_ok 1 k f h⟩

/-- active array ← active expression, for Array, FixedArray and SpecialMatrix targets, any element count and
    any number of active leaves -/
theorem C09_site_array_assign (nA size f : Nat) :
    disciplined f (siteArrayAssignArray nA size) = true ∧ disciplined f (siteArrayAssignFixed nA size) = true ∧
    disciplined f (siteArrayAssignSpecial nA size) = true :=
  ⟨arrayAssign_ok nA size f, arrayAssign_ok nA size f, arrayAssign_ok nA size f⟩

/-- `diag_vector(active matrix expression, offdiag)`, both signs of `offdiag`, every diagonal length and number of active
    leaves.  (F-69: the pinned function had no reservation at all.) -/
theorem C09_site_diag_vector (nA n f : Nat) :
    disciplined f (siteDiagVectorUpper nA n) = true ∧ disciplined f (siteDiagVectorLower nA n) = true :=
  ⟨arrayAssign_ok nA n f, arrayAssign_ok nA n f⟩

/-- matrix products with active operands: matrix×vector (`elems = rows`), matrix×matrix (`elems = rows·cols`), for every
    inner extent and every combination of active operands; and band matrix × active vector for every size and band. -/
theorem C09_site_matmul (elems n dim ld ud f : Nat) (l r : Bool) :
    disciplined f (siteMatmul elems n l r) = true ∧ disciplined f (siteMatmulBandVec dim ld ud) = true :=
  ⟨matmul_ok elems n f l r, matmulBandVec_ok dim ld ud f⟩

/-- CENSUS.  Every call in include/adept/*.h that makes the stack push operations (`next_value_and_gradient*`,
    `scalar_value_and_gradient`, `push_rhs`, `push_rhs_indices`, `push_derivative_dependence`; the table is REGENERATED from
    the source by translate/reserve.py on every run) is preceded by a reservation in its own function, reserves for itself,
    or sits in a leaf member (`calc_gradient_`, engine `push_rhs`, `accumulate_active`, the forwarding members of
    Expression.h) that is only reached from inside a reserved statement.  No call is unreserved. -/
theorem C09_every_recording_call_reserved :
    recordingCalls.all (fun c => decide (c.2.2.2 ≠ RecKind.unreserved)) = true := by decide

/-- CENSUS of the node traits.  Every reservation `check_space(E::n_active · size)` derives from the compile-time trait
    `n_active` of the expression type.  The table (REGENERATED from include/adept/*.h by translate/reserve.py on every run) lists,
    for every class that defines the traits, the operand types named in `n_active`, `n_arrays` and `n_scratch`: no class is
    broken — every inner node sums `n_active` over exactly the operand types whose `n_arrays` it sums, so an operand whose
    operations are pushed is an operand whose operations were reserved. -/
theorem C09_node_traits_consistent :
    traitNodes.all (fun n => decide (n.2.2.2.2 ≠ TraitKind.broken)) = true ∧
    traitNodes.all (fun n => decide (n.2.2.2.2 = TraitKind.sumConsistent → n.2.1 = n.2.2.1)) = true := by decide

/-- active array ← active scalar -/
theorem C09_site_array_from_scalar (size f : Nat) :
    disciplined f (siteArrayFromScalarArray size) = true ∧ disciplined f (siteArrayFromScalarFixed size) = true :=
  ⟨arrayFromScalar_ok size f, arrayFromScalar_ok size f⟩

/-- conditional assignment, for every mask -/
theorem C09_site_conditional (nA f : Nat) (mask : List Bool) :
    disciplined f (siteConditionalArray nA mask) = true ∧ disciplined f (siteConditionalFixed nA mask) = true :=
  ⟨conditional_ok nA f mask, conditional_ok nA f mask⟩

/-- integer-vector-indexed targets: expression and active-scalar right-hand sides -/
theorem C09_site_indexed (nA size f : Nat) :
    disciplined f (siteIndexedAssign nA size) = true ∧ disciplined f (siteIndexedFromScalar size) = true :=
  ⟨arrayAssign_ok nA size f, arrayFromScalar_ok size f⟩

/-- special matrix ← active scalar: `size()` reserved, one operation per stored element -/
theorem C09_site_special_from_scalar (size stored f : Nat) (h : stored ≤ size) :
    disciplined f (siteSpecialFromScalar size stored) = true := specialFromScalar_ok size stored f h

/-- Whole-array reduction of an active array, for every function: if each element records at most
    `n_active + extra_element_cost` operations (whatever else it does: `product` closes a statement per element) and the
    finishing events are disciplined on their own, the regenerated reservation `(n_active + extra)·n` suffices. -/
theorem C09_site_reduce_all (nA extra : Nat) (elems : List (List Ev)) (tail : List Ev) (f : Nat)
    (h : ∀ s ∈ elems, noIdx s = true ∧ pushCount s ≤ nA + extra) (ht : disciplined 0 tail = true) :
    disciplined f (siteReduceAll (reduce_0 nA 0 elems.length 0 0 extra 0) elems tail) = true :=
  reduceAll_ok _ (nA + extra) elems tail f h (Nat.le_refl _) ht

/-- Reduction along a dimension of extent `d`, for every function: if each strip records at most
    `(n_active + extra)·d + finish` operations (`finish` = 2 for functions with a finishing step — mean, norm2 — and 1
    otherwise: the copy into the result), the regenerated reservation `(n_active+extra)·n + finish·strips` with
    `n = d·strips` suffices.  (F-04 was exactly the case `finish = 2` reserved as 1.) -/
theorem C09_site_reduce_dim (nA extra finish d : Nat) (strips : List (List Ev)) (f : Nat)
    (h : ∀ s ∈ strips, noIdx s = true ∧ pushCount s ≤ (nA + extra) * d + finish) :
    disciplined f (siteReduceDim (reduce_1 nA 0 (d * strips.length) 0 strips.length extra finish) strips) = true := by
  apply reduceDim_ok _ ((nA + extra) * d + finish) strips f h
  simp only [reduce_1]
  rw [Nat.add_mul, Nat.mul_assoc]
  exact Nat.le_refl _

/-- the F-04 configuration (mean along a dimension, 4×8, one active leaf): each strip pushes 4 + 2 operations -/
example : disciplined 0 (siteReduceDim (reduce_1 1 0 32 0 8 0 2)
    (List.replicate 8 ([Ev.lhs] ++ List.replicate 4 Ev.push ++ [.lhs, .check 1, .push, .lhs, .check 1, .push, .lhs]))) = true := by decide

/-! Non-vacuity and sensitivity: a concrete disciplined stream from a tiny buffer runs clean while growing
three times, and an under-reserved one (reserve 1, push 3) faults from an adversarial state the model computes. -/
example : disciplined 0 (siteArrayAssignArray 2 3) = true ∧ (run (initial 1) (siteArrayAssignArray 2 3)).2 = false ∧
    (run (initial 1) (siteArrayAssignArray 2 3)).1.allocOps = 8 := by decide
example : disciplined 0 [.check 1, .push, .push, .push, .lhs] = false ∧
    findAdversary [.check 1, .push, .push, .push, .lhs] 4 = some (1, 0) := by decide

end Adept.RecBuf
