import AdeptProofs.Lemmas.Storage
/-!
# C07 — array data lives while referenced; only copy-construction and link share it

Property theorems only; helper lemmas live in `AdeptProofs/Lemmas/Storage.lean`.
All statements are about `AdeptModel/Storage.lean`, the transcription of `Storage::add_link/remove_link` (with the
gradient registration of active Storage objects) and of the constructors, destructor, `link`, `clear`, `resize`, copy
and move assignment, `swap`, `soft_link` and every view-returning member function (slices of rank 1 and 2, `[]`,
`T()`, `diag_vector`, `submatrix_on_diagonal`, `reshape`, `permute`) of `Array<1>`, `Array<2>`, active `Array<1>` and
`SpecialMatrix` (symmetric, tridiagonal), WITH the repairs fixes/F-01.patch, fixes/F-24.patch and F-74 (a failed resize leaves the array empty); the correspondence
check (checks/c07.py) ties that model to the C++ on every run.  The theorems are generic over the KIND of object.
Histories are arbitrary finite lists of `Op`; an operation the library rejects (it throws, the caller catches) leaves
the state unchanged (`stepOrStay`); an allocation fault scheduled by `Op.failNext k` makes the k-th next data allocation
throw `std::bad_alloc`: the operation then answers `.ok` with `thrown` set and the state the code leaves; temporaries are ordinary pool objects that are destroyed by a later `destroy`.
The pinned (unrepaired) move-assignment rule, and a view constructor that tests the extents after taking its link,
are refuted in `AdeptProofs/Refute/MoveFromExternal.lean`.
-/
namespace Adept.Storage

/-- no storage, no object: the invariant holds initially -/
theorem C07_inv_init : Inv init := inv_init

/-- every operation that returns preserves the invariant — whether it completes or ends by throwing `std::bad_alloc`
    out of a failed data allocation (then `s'.thrown` and `s'` is the state the C++ leaves); a request the library
    rejects changes nothing -/
theorem C07_inv_step {s s' : St} (op : Op) (h : Inv s) (hs : step s op = .ok s') : Inv s' := inv_step op h hs

/-- hence it holds after every finite history of life-cycle operations, whatever its length or order, rejected
    operations and scheduled allocation faults (`Op.failNext`) included -/
theorem C07_inv_reachable (ops : List Op) : Inv (run init ops) := inv_run ops inv_init

/-- what the invariant says: a Storage that has not been deleted has exactly as many links as there are live
    objects (of any kind) referring to it, and at least one; an object with a Storage refers to one that has not been
    deleted, points into its data block and its whole extent lies inside it (no dangling view); a deleted Storage has
    no referrer; the two global counters count creations and deletions; the gradients registered are exactly those
    of the active Storage objects that have not been deleted -/
theorem C07_inv_meaning {s : St} (h : Inv s) :
    (∀ σ r, s.heap[σ]? = some r → r.freed = false → r.nLinks = refs σ s.pool ∧ 0 < r.nLinks) ∧
    (∀ o, o ∈ s.pool → ∀ σ, o.storage = some σ →
        ∃ r, s.heap[σ]? = some r ∧ r.freed = false ∧ o.region = .sto σ ∧ o.off + extentOf o ≤ r.size) ∧
    (∀ σ r, s.heap[σ]? = some r → r.freed = true → refs σ s.pool = 0) ∧
    s.created = s.heap.length ∧ s.deleted = s.heap.countP (fun r => r.freed) ∧
    s.gradReg = gradSum s.heap :=
  ⟨h.counts, h.objs, fun _ _ hr hf => h.core.freed_no_ref hr hf, h.created, h.deleted, h.grad⟩

/-- library-owned data are released exactly once: `remove_link` deletes the Storage exactly when it takes the last
    link, counts that deletion once and — for an active Storage — unregisters its gradients then and only then; on a
    deleted Storage every further `remove_link`/`add_link`/`n_links` is a fault of the model, never a second deletion;
    `remove_link` at zero links throws; and `n_storage_objects()` is the number of Storage objects not yet deleted -/
theorem C07_freed_once {s : St} {σ : Nat} {r : Sto} (hr : s.heap[σ]? = some r) :
    (∀ s', removeLink s σ = .ok s' →
        r.freed = false ∧ 0 < r.nLinks ∧
        ((r.nLinks = 1 ∧ s'.heap[σ]? = some { nLinks := 0, freed := true, size := r.size, active := r.active } ∧
            s'.deleted = s.deleted + 1 ∧ s'.gradReg = (if r.active then s.gradReg - r.size else s.gradReg)) ∨
         (1 < r.nLinks ∧ s'.heap[σ]? = some { nLinks := r.nLinks - 1, freed := false, size := r.size, active := r.active } ∧
            s'.deleted = s.deleted ∧ s'.gradReg = s.gradReg))) ∧
    (r.freed = true → removeLink s σ = .error .fault ∧ addLink s σ = .error .fault ∧ nLinksOf s σ = .error .fault) ∧
    (r.freed = false → r.nLinks = 0 → removeLink s σ = .error .linkUnderflow) ∧
    (Inv s → nStorageObjects s = (s.heap.countP (fun r => !r.freed) : Nat)) :=
  ⟨fun _ h => removeLink_deletes_iff hr h, freed_is_final hr, removeLink_at_zero hr, nStorageObjects_eq⟩

/-- … and that never happens: after any history, no operation touches a deleted Storage object (`fault`) or calls
    `remove_link` with no link left — `delete this` cannot run twice and the throw in `Storage::remove_link` is
    unreachable through the array classes.  What can still fail is a documented array exception, a
    malformed request, or a data access through a stale soft link / external view (`badAccess`, the user's error). -/
theorem C07_no_storage_fault (ops : List Op) (op : Op) :
    step (run init ops) op ≠ .error .fault ∧ step (run init ops) op ≠ .error .linkUnderflow :=
  no_storage_fault (inv_run ops inv_init) op

/-- no leak: when the last array object has gone every Storage ever created has been deleted,
    `n_storage_objects()` (created − deleted) is 0 and no gradient is left registered -/
theorem C07_no_leak (ops : List Op) (hp : (run init ops).pool = []) :
    (∀ (σ : Nat) (r : Sto), (run init ops).heap[σ]? = some r → r.freed = true) ∧ nStorageObjects (run init ops) = 0 ∧
    (run init ops).gradReg = 0 :=
  no_leak (inv_run ops inv_init) hp

/-- the gradients of an active array stay registered exactly as long as its data live: in every reachable state
    `n_gradients_registered()` is the total size of the active Storage objects not yet deleted, so releasing the last
    link of one (previous theorem) brings the count back by exactly its size, once -/
theorem C07_gradients_exact (ops : List Op) : (run init ops).gradReg = gradSum (run init ops).heap :=
  (inv_run ops inv_init).grad

/-- an operation the library REJECTS is the identity on the state: the history goes on from the state before the
    call, it can be struck from the history without changing anything that follows, and the invariant (exact
    counts, exactly-once release) holds through it -/
theorem C07_rejected_is_identity {s : St} {op : Op} {e : Err} (h : step s op = .error e) :
    stepOrStay s op = s ∧ (Inv s → Inv (stepOrStay s op)) ∧
    (∀ ops2, run s (op :: ops2) = run s ops2) :=
  ⟨stepOrStay_rejected h, fun I => inv_stepOrStay op I,
   fun ops2 => by simpa using run_skip_rejected (s := s) [] ops2 (op := op) (e := e) h⟩

/-- anywhere in a history -/
theorem C07_rejected_op_erasable (ops1 ops2 : List Op) {op : Op} {e : Err}
    (h : step (run init ops1) op = .error e) : run init (ops1 ++ op :: ops2) = run init (ops1 ++ ops2) :=
  run_skip_rejected ops1 ops2 h

/-- the view constructor decides before it links: in a reachable state it either appends the view through
    `add_link`, or it fails with `invalid_dimension` (negative extent), with `invalid_operation` (an active view of
    data without a Storage) or because the request leaves the source — it never fails after having taken the link -/
theorem C07_view_ctor_rejects_first {s : St} {b : Obj} {v : ViewSpec} (I : Inv s) (hm : b ∈ s.pool) :
    (∃ s', viewCtor s b v = .ok s' ∧ linkNew s (viewObj b v) = .ok s') ∨
    viewCtor s b v = .error .invalidDimension ∨ viewCtor s b v = .error .invalidOperation ∨
    viewCtor s b v = .error .badOp := by
  unfold viewCtor
  split
  · exact Or.inr (Or.inl rfl)
  · split
    · exact Or.inr (Or.inr (Or.inl rfl))
    · split
      · exact Or.inr (Or.inr (Or.inr rfl))
      · simp only
        split
        · rename_i hc
          obtain ⟨s', hs'⟩ := linkNew_total (fits_view I hm hc)
          exact Or.inl ⟨s', hs', hs'⟩
        · exact Or.inr (Or.inr (Or.inr rfl))

/-- copy construction, `link`/`>>=` and every view-returning member function share: the new (or re-linked) object
    points into the source's allocation and holds the source's Storage, whose count goes up by exactly one while no
    other count moves (a view function may instead return a default-constructed object: `diag_vector` of an empty
    matrix) -/
theorem C07_shares_exactly {s s' : St} {j : Nat} {b : Obj} (hb : s.pool[j]? = some b) :
    (copyCtorAt s j = .ok s' → s'.pool = s.pool ++ [b] ∧ heapLinked s s' b) ∧
    (∀ f, viewAt s j f = .ok s' →
        ∃ o, s'.pool = s.pool ++ [o] ∧
          ((o.region = b.region ∧ o.storage = b.storage ∧ heapLinked s s' o) ∨
           (o.region = .null ∧ o.storage = none ∧ s'.heap = s.heap))) ∧
    (∀ i, Inv s → i ≠ j → linkAt s i j = .ok s' → s'.pool = s.pool.set i b ∧ b.region ≠ .null) :=
  ⟨fun h => copyCtor_shares h hb, fun _ h => view_shares h hb, fun _ I hij h => link_shares I hij h hb⟩

/-- passing by value and temporaries: an object made by copy construction or by any view function and destroyed
    again (a by-value parameter at the end of the call, a temporary slice at the end of the full expression, the
    local copy inside `T()`) leaves the whole state exactly as it was — the link taken is the link given back and
    nothing is released -/
theorem C07_temporary_roundtrip {s s1 s2 : St} {j : Nat} (I : Inv s)
    (h1 : copyCtorAt s j = .ok s1 ∨ ∃ f, viewAt s j f = .ok s1)
    (h2 : destroyAt s1 s.pool.length = .ok s2) : s2 = s := by
  rcases h1 with h1 | ⟨f, h1⟩
  · unfold copyCtorAt getObj at h1
    cases hb : s.pool[j]? with
    | none => simp [hb] at h1
    | some b =>
      simp only [hb] at h1
      exact linkNew_destroy_roundtrip I (fits_of_mem I (List.mem_of_getElem? hb)) h1 h2
  · unfold viewAt getObj at h1
    cases hb : s.pool[j]? with
    | none => simp [hb] at h1
    | some b =>
      simp only [hb] at h1
      cases he : evalView b f with
      | error e => simp [he] at h1
      | ok r =>
        cases r with
        | empty k =>
          simp only [he] at h1
          exact linkNew_destroy_roundtrip I (fits_blank s k) (o := blank k) (by cases h1; rfl) h2
        | ctor v =>
          simp only [he] at h1
          obtain ⟨hl, hc⟩ := viewCtor_ok h1
          exact linkNew_destroy_roundtrip I (fits_view I (List.mem_of_getElem? hb) hc) hl h2

/-- `swap(a, b)` exchanges the two objects (data pointer, Storage, extents) and touches no Storage -/
theorem C07_swap_exchanges {s s' : St} {i j : Nat} {a b : Obj} (ha : s.pool[i]? = some a) (hb : s.pool[j]? = some b)
    (h : swapAt s i j = .ok s') :
    s'.pool = (s.pool.set i b).set j a ∧ s'.heap = s.heap ∧ s'.smem = s.smem ∧ s'.created = s.created ∧
    s'.deleted = s.deleted := by
  unfold swapAt at h
  rw [getObj_ok.mpr ha, getObj_ok.mpr hb] at h
  simp only at h
  split at h
  · cases h
  · cases h; exact ⟨rfl, rfl, rfl, rfl, rfl⟩

/-- `soft_link()` and objects over external memory (user data, slices of a `FixedArray`, `FixedArray::diag_matrix()`)
    hold no Storage and never touch a count -/
theorem C07_soft_external_hold_nothing {s s' : St} :
    (∀ j b, s.pool[j]? = some b → softLinkAt s j = .ok s' →
        s'.pool = s.pool ++ [{ b with storage := none }] ∧ s'.heap = s.heap ∧ s'.created = s.created ∧
        s'.deleted = s.deleted) ∧
    (∀ x off n dm, newExternalAt s x off n dm = .ok s' →
        (∃ o, s'.pool = s.pool ++ [o] ∧ o.region = .ext x ∧ o.storage = none) ∧
        s'.heap = s.heap ∧ s'.created = s.created ∧ s'.deleted = s.deleted) :=
  ⟨fun _ _ hb h => softLink_holds_nothing h hb, fun _ _ _ _ h => newExternal_holds_nothing h⟩

/-- allocation faults: `resize` returns in exactly one of three ways — cleared; allocated; or, `std::bad_alloc` having
    come out of `new Storage`, with the old link given back exactly once (the heap is that after the one `releaseAt`),
    nothing created, no gradient moved, and the object left EMPTY: no data pointer, no extents, no Storage (so that
    nothing points at released data and no later `clear`, `resize`, `link` or destructor removes a second link) — and
    the invariant holds in each -/
theorem C07_failed_allocation_state {s s' : St} {i : Nat} {strict : Bool} {n0 n1 v0 : Int} (I : Inv s)
    (h : resizeAt s i strict n0 n1 v0 = .ok s') :
    Inv s' ∧ ∃ a, s.pool[i]? = some a ∧
      (clearAt s i = .ok s' ∨
       (∃ m0 m1 s1, releaseAt s i = .ok s1 ∧ (allocTick s1).2 = false ∧ s' = resized (allocTick s1).1 i a.kind m0 m1 v0) ∨
       (∃ s1, releaseAt s i = .ok s1 ∧ (allocTick s1).2 = true ∧ s'.thrown = true ∧
          s'.heap = s1.heap ∧ s'.created = s1.created ∧ s'.deleted = s1.deleted ∧ s'.gradReg = s1.gradReg ∧
          s'.pool = s.pool.set i (blank a.kind))) := by
  refine ⟨resizeAt_inv I h, ?_⟩
  obtain ⟨a, ha, hc | ⟨m0, m1, s1, _, hr, hf, rfl⟩ | ⟨m0, m1, s1, _, hr, hf, rfl⟩⟩ := resizeAt_cases h
  · exact ⟨a, ha, Or.inl hc.2⟩
  · exact ⟨a, ha, Or.inr (Or.inl ⟨m0, m1, s1, hr, hf, rfl⟩)⟩
  · obtain ⟨_, a', ha', hp, _⟩ := releaseAt_spec I hr
    rw [ha] at ha'; cases ha'
    obtain ⟨t1, t2, t3, t4, t5, _⟩ := allocTick_frame s1
    exact ⟨a, ha, Or.inr (Or.inr ⟨s1, hr, hf, allocTick_failed s1 hf, t1, t3, t4, t5, by simp [setObj, t2, hp]⟩)⟩

/-- An Array CONSTRUCTED FROM AN INITIALIZER LIST (`Array(std::initializer_list…)`: empty, then `*this = list`) is a fresh owner or
    nothing: when the constructor returns, the pool has grown by exactly one object which is the packed owner of a Storage created by
    this call, with ONE link, not freed, of the data volume of its extents and active exactly when the class is (so that
    `C07_gradients_exact` counts its elements); when its allocation throws `std::bad_alloc`, NO object exists and nothing is held; a
    list with an empty level leaves the cleared array.  The invariant holds in each case. -/
theorem C07_list_ctor_fresh_owner {s s' : St} {k : Kind} {n0 n1 : Nat} {v0 : Int} (I : Inv s)
    (h : step s (.newList k n0 n1 v0) = .ok s') :
    Inv s' ∧
    (s'.pool = s.pool ++ [blank k] ∨
     (∃ m0 m1, s'.pool = s.pool ++ [ownerOf k s.heap.length m0 m1] ∧
        s'.heap[s.heap.length]? = some { nLinks := 1, freed := false, size := dataVolume k m0 m1, active := k.active }) ∨
     (s'.pool = s.pool ∧ s'.thrown = true)) := by
  refine ⟨inv_step _ I h, ?_⟩
  have I0 : Inv { s with thrown := false } := ⟨I.core, I.grad⟩
  simp only [step, stepCore, newListAt] at h
  split at h
  · cases h
  · unfold newAt at h
    split at h
    · cases h
    · rename_i s1 hr
      have Ip := push_blank_inv I0 k
      have hget : (push { s with thrown := false } (blank k)).pool[s.pool.length]? = some (blank k) := by
        simp [push]
      have hsp := resizeAt_spec Ip hget hr
      have hset : ∀ o : Obj, (push { s with thrown := false } (blank k)).pool.set s.pool.length o = s.pool ++ [o] := by
        intro o; simp [push]
      split at h
      · rename_i ht
        cases h
        refine Or.inr (Or.inr ⟨?_, ht⟩)
        have herase : ∀ o : Obj, (s.pool ++ [o]).eraseIdx s.pool.length = s.pool := by
          intro o
          rw [List.eraseIdx_append_of_length_le (Nat.le_refl _)]
          simp
        show s1.pool.eraseIdx s.pool.length = s.pool
        rcases hsp with hp | ⟨m0, m1, hp, _⟩ | ⟨hp, _⟩
        · rw [hp, hset, herase]
        · rw [hp, hset, herase]
        · rw [hp, hset, herase]
      · cases h
        rcases hsp with hp | ⟨m0, m1, hp, hh⟩ | ⟨hp, ht'⟩
        · left; rw [hp, hset]; rfl
        · right; left
          refine ⟨m0, m1, ?_, ?_⟩
          · rw [hp, hset]; rfl
          · simpa [push, blank] using hh
        · rename_i ht
          exact absurd ht' ht

/-- A vector ASSIGNED AN INITIALIZER LIST keeps what it holds when it has elements: the list is stored through its existing view
    (no object, Storage, link count or gradient registration changes); a list longer than the vector is REJECTED with size_mismatch
    (and a rejected operation is the identity, `C07_rejected_is_identity`); an `empty()` vector — also an empty VIEW, which holds a
    link — is resized: that is `C07_failed_allocation_state`'s trichotomy. -/
theorem C07_list_assign_in_place {s s' : St} {i n : Nat} {v0 : Int} {a : Obj} (ha : s.pool[i]? = some a) (hv : a.kind.isVec = true)
    (hn : n ≠ 0) :
    (a.len ≠ 0 → a.len < n → step s (.assignList i n v0) = .error .sizeMismatch) ∧
    (a.len ≠ 0 → step s (.assignList i n v0) = .ok s' →
       s'.heap = s.heap ∧ s'.pool = s.pool ∧ nStorageObjects s' = nStorageObjects s ∧ s'.gradReg = s.gradReg) ∧
    (a.len = 0 → step s (.assignList i n v0) = resizeAt { s with thrown := false } i false n 0 v0) := by
  have hg : getObj { s with thrown := false } i = .ok a := by simp [getObj, ha]
  refine ⟨?_, ?_, ?_⟩
  · intro h0 hlt
    simp [step, stepCore, assignListAt, hg, hv, hn, h0, hlt]
  · intro h0 h
    simp only [step, stepCore, assignListAt, hg] at h
    split at h
    · cases h
    · try rw [if_neg h0] at h
      split at h
      · cases h
      · obtain ⟨a1, a2, a3, a4, a5⟩ := writeCells_frame _ _ _ _ h
        exact ⟨a1, a2, by simp [nStorageObjects, a3, a4], a5⟩
  · intro h0
    simp [step, stepCore, assignListAt, hg, hv, hn, h0]

/-- an object without a Storage — in particular the empty one a failed allocation leaves — gives nothing back: its
    `clear`/destructor touches no count -/
theorem C07_storageless_release_is_noop {s : St} {i : Nat} {a : Obj} (ha : s.pool[i]? = some a) (hs : a.storage = none) :
    releaseAt s i = .ok s ∧ destroyAt s i = .ok { s with pool := s.pool.eraseIdx i } := by
  have h1 : releaseAt s i = .ok s := by simp [releaseAt, getObj, ha, hs]
  exact ⟨h1, by simp [destroyAt, h1]⟩

/-- `assign_owns`: after `a = b`, by copy or by move, from an lvalue or a temporary, for every kind of object, the
    target is where it was (values stored through its existing view), or is the cleared array (empty := empty), or owns a
    Storage created by this assignment, or — move only — holds the Storage the source owned with no other link, the source
    taking what the target had, or — the allocation for an empty target having failed — is the cleared array.
    Full strength: no hypothesis on what the source is (see `Owns`). -/
theorem C07_assign_owns {s s' : St} {i j : Nat} {a b : Obj} (I : Inv s)
    (ha : s.pool[i]? = some a) (hb : s.pool[j]? = some b)
    (h : assignCopyAt s i j = .ok s' ∨ assignMoveAt s i j = .ok s') : Owns s s' i j a b := by
  rcases h with h | h
  · exact assignCopyAt_owns I ha hb h
  · exact assignMoveAt_owns I ha hb h

/-- hence the target never *becomes* a view of external memory, and it looks into the source's allocation only if
    it already did and was written in place -/
theorem C07_assign_no_new_alias {s s' : St} {i j : Nat} {a b a' b' : Obj} (I : Inv s) (hij : i ≠ j)
    (ha : s.pool[i]? = some a) (hb : s.pool[j]? = some b)
    (h : assignCopyAt s i j = .ok s' ∨ assignMoveAt s i j = .ok s')
    (ha' : s'.pool[i]? = some a') (hb' : s'.pool[j]? = some b') :
    (∀ x, a'.region = .ext x → a' = a ∧ a.region = .ext x) ∧
    (a'.len ≠ 0 → b'.len ≠ 0 → a'.region = b'.region → a' = a ∧ b' = b ∧ a.region = b.region) :=
  ⟨fun _ hx => owns_not_external I (C07_assign_owns I ha hb h) ha hb hij ha' hx,
   fun hla hlb hreg => owns_apart_from_source I (C07_assign_owns I ha hb h) ha hb hij ha' hb' hla hlb hreg⟩

/-- `assign_independent`: after `a = b` (a ≠ b) no later store through the source, and no later change or end of
    external memory, changes what the target reads — unless the target itself was, before the assignment, a view
    of that same allocation (then `=` stored through the view, as it must) -/
theorem C07_assign_independent {s s' : St} {i j : Nat} {a b a' : Obj} (I : Inv s) (hij : i ≠ j)
    (ha : s.pool[i]? = some a) (hb : s.pool[j]? = some b)
    (h : assignCopyAt s i j = .ok s' ∨ assignMoveAt s i j = .ok s')
    (ha' : s'.pool[i]? = some a') :
    (∀ k v s'', (a.region ≠ b.region ∨ a.len = 0) → writeAt s' j k v = .ok s'' → readView s'' a' = readView s' a') ∧
    (∀ x s'', a.region ≠ .ext x → ((∃ k v, xwriteAt s' x k v = .ok s'') ∨ xendAt s' x = .ok s'') →
        readView s'' a' = readView s' a') := by
  have O := C07_assign_owns I ha hb h
  constructor
  · intro k v s'' hsep hw
    unfold writeAt at hw
    cases hg : getObj s' j with
    | error e => simp [hg] at hw
    | ok b' =>
      simp only [hg] at hw
      split at hw
      · rename_i c hk
        by_cases hla : a'.len = 0
        · unfold readView; rw [cells_of_len_zero hla]; rfl
        · apply read_after_write_elsewhere hw
          intro hreg
          have hlb : b'.len ≠ 0 := by
            intro h0
            rw [cells_of_len_zero h0] at hk; simp at hk
          obtain ⟨e1, _, e3⟩ := owns_apart_from_source I O ha hb hij ha' (getObj_ok.mp hg) hla hlb hreg
          rcases hsep with hsep | hsep
          · exact hsep e3
          · rw [e1] at hla; exact hla hsep
      · cases hw
  · intro x s'' hne henv
    apply read_after_env _ henv
    intro hx
    exact hne (owns_not_external I O ha hb hij ha' hx).2

/-! Non-vacuity.  `Vector t(3); t = Vector(ext, dimensions(3)); ext[0] = -1;` (finding F-01): with the repaired rule
the target keeps its own Storage and still reads the old values; a concrete history with views outliving their
parent ends with every Storage deleted. -/
def witnessF01 : List Op :=
  [.xnew 3 10, .new .vec 3 0 1, .newExternal 0 0 3, .assignMove 0 1, .destroy 1, .xwrite 0 0 (-1)]

example : (run init witnessF01).pool = [ownerOf .vec 0 3 0] ∧
    (match readView (run init witnessF01) (ownerOf .vec 0 3 0) with | .ok vs => vs | .error _ => []) = [10, 11, 12] ∧
    (run init witnessF01).exts = [⟨true, [-1, 11, 12]⟩] := by
  decide

/-- parent destroyed first, a failed resize, a view and a soft link left over -/
def witnessViews : List Op :=
  [.new .vec 4 0 1, .view 0 (.slice 1 2 1), .destroy 0, .softLink 0, .resize 0 false (-2) 0 0]

example : ((run init witnessViews).heap.map (·.freed) = [false]) ∧ (run init witnessViews).pool.length = 2 ∧
    nStorageObjects (run init witnessViews) = 1 ∧
    (match readView (run init witnessViews) ⟨.vec, .sto 0, 1, some 0, 2, 1, 0, 0⟩ with | .ok vs => vs | .error _ => []) = [2, 3] ∧
    ((run init (witnessViews ++ [.destroy 0])).heap.map (·.freed) = [true]) ∧
    nStorageObjects (run init (witnessViews ++ [.destroy 0, .destroy 0])) = 0 := by
  decide

/-- rejected operations really occur, with each documented exception class, and change nothing: a reversed range,
    `diag_vector` beyond the matrix (array and symmetric matrix), `reshape` to the wrong size and to negative extents,
    `submatrix_on_diagonal` out of range, `diag_vector` of a non-square matrix, a band diagonal that is not stored,
    a repeated dimension in `permute`, a negative and a non-square `resize`, `link` to an empty array, a sum of
    vectors of different length -/
def errOf (r : Except Err St) : Option Err :=
  match r with
  | .ok _ => none
  | .error e => some e

def rejectBase : St :=
  run init [.new .vec 6 0 1, .new .mat 3 3 1, .new .mat 2 3 1, .new .symm 3 0 1, .new .tri 3 0 1, .newEmpty .vec,
            .new .avec 2 0 1]

example :
    errOf (step rejectBase (.view 0 (.slice 4 1 1))) = some .invalidDimension ∧
    errOf (step rejectBase (.view 1 (.diag 5))) = some .invalidDimension ∧
    errOf (step rejectBase (.view 3 (.diag (-4)))) = some .invalidDimension ∧
    errOf (step rejectBase (.view 0 (.reshape 4 2))) = some .invalidDimension ∧
    errOf (step rejectBase (.view 0 (.reshape (-2) (-3)))) = some .invalidDimension ∧
    errOf (step rejectBase (.view 1 (.subDiag 1 3))) = some .indexOutOfBounds ∧
    errOf (step rejectBase (.view 3 (.subDiag 2 1))) = some .indexOutOfBounds ∧
    errOf (step rejectBase (.view 2 (.diag 0))) = some .invalidOperation ∧
    errOf (step rejectBase (.view 4 (.diag 2))) = some .indexOutOfBounds ∧
    errOf (step rejectBase (.view 1 (.permute 1 1))) = some .invalidDimension ∧
    errOf (step rejectBase (.resize 1 false 2 (-1) 0)) = some .invalidDimension ∧
    errOf (step rejectBase (.resize 3 false 2 3 0)) = some .invalidDimension ∧
    errOf (step rejectBase (.link 0 5)) = some .emptyArray ∧
    errOf (step rejectBase (.newSum 0 5)) = some .sizeMismatch ∧
    errOf (step rejectBase (.assignCopy 1 2)) = some .sizeMismatch ∧
    (run rejectBase [.view 0 (.slice 4 1 1), .view 1 (.diag 5), .link 0 5]).heap = rejectBase.heap ∧
    (run rejectBase [.view 0 (.slice 4 1 1), .view 1 (.diag 5), .link 0 5]).pool = rejectBase.pool := by
  decide

/-- views of every kind share, gradients are registered while the active data live, and everything is released once -/
def witnessKinds : List Op :=
  [.new .mat 3 3 1, .view 0 (.diag 1), .view 0 .transpose, .view 0 (.row 1 0 2 2), .destroy 0,
   .new .symm 3 0 1, .view 3 (.subDiag 1 2), .view 3 (.diag (-1)),
   .new .avec 4 0 1, .view 6 (.slice 1 3 2), .destroy 6]

example : ((run init witnessKinds).heap.map (·.nLinks) = [3, 3, 1]) ∧ (run init witnessKinds).gradReg = 4 ∧
    (match readView (run init witnessKinds) ⟨.vec, .sto 0, 1, some 0, 2, 4, 0, 0⟩ with | .ok vs => vs | .error _ => []) = [2, 6] ∧
    (match readView (run init witnessKinds) ⟨.symm, .sto 1, 4, some 1, 2, 3, 0, 0⟩ with | .ok vs => vs | .error _ => []) = [3, 5, 6] ∧
    (run init (witnessKinds ++ List.replicate 7 (.destroy 0))).pool = [] ∧
    (run init (witnessKinds ++ List.replicate 7 (.destroy 0))).gradReg = 0 ∧
    nStorageObjects (run init (witnessKinds ++ List.replicate 7 (.destroy 0))) = 0 := by
  decide

/-- cross-class views share and count exactly one link each: `v.diag_matrix()` outlives its vector, `value(a)` of an
    active vector is a passive vector on the same Storage whose gradients stay registered until the LAST holder goes,
    `inactive_link()` of a special matrix, `diag_vector` / `T()` / `submatrix_on_diagonal` of an active special matrix -/
def witnessCross : List Op :=
  [.new .vec 4 0 1, .view 0 .diagMatrix, .view 1 (.diag 0), .destroy 0,          -- D = v.diag_matrix(); D.diag_vector(); ~v
   .new .avec 3 0 1, .view 2 .inactive, .view 2 .diagMatrix, .destroy 2,          -- value(a), a.diag_matrix(); ~a
   .new .symm 3 0 1, .view 4 .inactive, .new .asymm 3 0 1, .view 6 (.diag 1), .view 6 .transpose, .view 6 (.subDiag 1 2)]

example : ((run init witnessCross).heap.map (·.nLinks) = [2, 2, 2, 4]) ∧
    (run init witnessCross).pool.map (·.kind) = [.diag, .vec, .dvec, .adiag, .symm, .symm, .asymm, .avec, .asymm, .asymm] ∧
    (run init witnessCross).gradReg = 3 + 9 ∧
    (match readView (run init witnessCross) ⟨.diag, .sto 0, 0, some 0, 4, 0, 0, 0⟩ with | .ok vs => vs | .error _ => []) = [1, 2, 3, 4] ∧
    -- the passive vector alone keeps the active Storage (and its gradients) alive; they go with it, once
    (run init (witnessCross ++ [.destroy 3])).gradReg = 12 ∧ (run init (witnessCross ++ [.destroy 3, .destroy 2])).gradReg = 9 ∧
    (run init (witnessCross ++ List.replicate 10 (.destroy 0))).pool = [] ∧
    nStorageObjects (run init (witnessCross ++ List.replicate 10 (.destroy 0))) = 0 ∧
    (run init (witnessCross ++ List.replicate 10 (.destroy 0))).gradReg = 0 ∧
    -- requests that are rejected: an off-diagonal of a DiagMatrix, diag_matrix() of a soft link of an active vector
    errOf (step (run init witnessCross) (.view 0 (.diag 1))) = some .indexOutOfBounds ∧
    errOf (step (run init [.new .avec 3 0 1, .softLink 0]) (.view 1 .diagMatrix)) = some .invalidOperation := by
  decide

/-- allocation faults really occur and leave consistent counts: a symmetric matrix sharing data with a copy, resized
    while the next allocation fails (the situation of seeded regression C14_4): the copy keeps the data with exactly one
    link, the failed object is empty, destroying both releases the Storage once -/
def witnessFault : List Op :=
  [.new .symm 3 0 1, .copyCtor 0, .failNext 1, .resize 1 true 2 2 0]

example : (run init witnessFault).thrown = true ∧ (run init witnessFault).heap.map (·.nLinks) = [1] ∧
    (run init witnessFault).pool.map (·.storage) = [some 0, none] ∧ (run init witnessFault).failIn = 0 ∧
    (run init witnessFault).pool[1]? = some (blank .symm) ∧
    nStorageObjects (run init (witnessFault ++ [.destroy 1])) = 1 ∧
    nStorageObjects (run init (witnessFault ++ [.destroy 1, .destroy 0])) = 0 ∧
    (run init (witnessFault ++ [.destroy 1, .destroy 0])).thrown = false ∧
    -- a constructor and an aliased assignment whose allocation fails leave everything as it was
    (run init [.new .vec 4 0 1, .failNext 1, .new .vec 3 0 1]).pool.length = 1 ∧
    (run init [.new .vec 4 0 1, .view 0 (.slice 1 3 1), .view 0 (.slice 0 2 1), .failNext 1, .assignCopy 1 2]).thrown = true := by
  decide

/-- EMPTY SELECTIONS ARE CANONICAL.  A rank-2 `Array` view one of whose extents is zero (`M(range(2,1), __)`, `M(__, range(1,0))`)
    has BOTH extents zero — the state `resize` and `clear` give an array without elements, the one `empty()` recognises — and it
    is otherwise the view that was asked for (same data, same Storage: it still holds exactly the one link `viewCtor` takes, and
    releases it like any other view).  A view without a zero extent is exactly what the member function computed. -/
theorem C07_view_zero_extent_canonical (b : Obj) (v : ViewSpec) :
    (v.kind = .mat → (v.d0 = 0 ∨ v.d1 = 0) → (viewObject b v).len = 0 ∧ (viewObject b v).len1 = 0) ∧
    ((v.kind ≠ .mat ∨ (v.d0 ≠ 0 ∧ v.d1 ≠ 0)) → (viewObject b v).len = v.d0.toNat ∧ (viewObject b v).len1 = v.d1.toNat) ∧
    (viewObject b v).storage = b.storage ∧ (viewObject b v).off = b.off + v.delta.toNat := by
  refine ⟨?_, ?_, rfl, rfl⟩
  · intro hk hz
    rcases hz with hz | hz <;> simp [viewObject, hk, hz]
  · intro h
    rcases h with h | ⟨h0, h1⟩
    · cases hk : v.kind <;> simp_all [viewObject]
    · simp [viewObject, h0, h1]

example : (viewObject { kind := .mat, len := 3, len1 := 4, stride := 4, stride1 := 1 }
            { kind := .mat, delta := 8, d0 := 0, d1 := 4, s0 := 4, s1 := 1 }).len1 = 0 := by decide

/-! Non-vacuity of `C07_list_ctor_fresh_owner` / `C07_list_assign_in_place`: an active vector made from the list {5,6,7} (three gradients),
a 2x3 matrix made from a nested list, an EMPTY view of the vector (it holds a link) assigned a list of two (it gives the link back and
owns a new active Storage of two), the vector assigned a shorter list in place, the vector destroyed (its Storage is freed exactly then,
its three gradients go); a list of four is rejected by the 2-element vector. -/
example :
    let s := run init [.newList .avec 3 0 5, .newList .mat 2 3 1, .view 0 (.slice 2 1 1), .assignList 2 2 40, .assignList 0 2 7,
                       .destroy 0]
    s.pool.map (fun o => (o.len, o.len1, o.storage)) = [(2, 3, some 1), (2, 0, some 2)] ∧
    s.heap.map (fun r => (r.nLinks, r.freed, r.size, r.active)) = [(0, true, 3, true), (1, false, 6, false), (1, false, 2, true)] ∧
    s.gradReg = 2 ∧ nStorageObjects s = 2 ∧
    errOf (step s (.assignList 1 4 0)) = some .sizeMismatch ∧
    errOf (step s (.newList .symm 3 0 1)) = some .badOp := by
  decide

end Adept.Storage
