import AdeptProofs.Lemmas.Storage
/-!
# C07 — array data lives while referenced; only copy-construction and link share it

Property theorems only; helper lemmas live in `AdeptProofs/Lemmas/Storage.lean`.
All statements are about `AdeptModel/Storage.lean`, the transcription of `Storage::add_link/remove_link` and of the
`Array` constructors, destructor, `link`, `clear`, `resize`, copy and move assignment, `soft_link` and slicing
(rank 1), WITH the repairs fixes/F-01.patch and fixes/F-24.patch; the correspondence check (checks/c07.py) ties that
model to the C++ on every run.  Histories are arbitrary finite lists of `Op`; an operation that throws leaves the
state unchanged (`stepOrStay`); temporaries are ordinary pool objects that are destroyed by a later `destroy`.
The pinned (unrepaired) move-assignment rule is refuted in `AdeptProofs/Refute/MoveFromExternal.lean`.
-/
namespace Adept.Storage

/-- no storage, no object: the invariant holds initially -/
theorem C07_inv_init : Inv init := inv_init

/-- every operation that completes preserves the invariant (one that throws changes nothing) -/
theorem C07_inv_step {s s' : St} (op : Op) (h : Inv s) (hs : step s op = .ok s') : Inv s' := inv_step op h hs

/-- hence it holds after every finite history of life-cycle operations, whatever its length or order -/
theorem C07_inv_reachable (ops : List Op) : Inv (run init ops) := inv_run ops inv_init

/-- what the invariant says: a Storage that has not been deleted has exactly as many links as there are live
    objects referring to it, and at least one; an object with a Storage refers to one that has not been deleted,
    points into its data block and its whole view lies inside it (no dangling view); a deleted Storage has no
    referrer; the two global counters count creations and deletions -/
theorem C07_inv_meaning {s : St} (h : Inv s) :
    (∀ σ r, s.heap[σ]? = some r → r.freed = false → r.nLinks = refs σ s.pool ∧ 0 < r.nLinks) ∧
    (∀ o, o ∈ s.pool → ∀ σ, o.storage = some σ →
        ∃ r, s.heap[σ]? = some r ∧ r.freed = false ∧ o.region = .sto σ ∧ Inside o r.size) ∧
    (∀ σ r, s.heap[σ]? = some r → r.freed = true → refs σ s.pool = 0) ∧
    s.created = s.heap.length ∧ s.deleted = s.heap.countP (fun r => r.freed) :=
  ⟨h.counts, h.objs, fun _ _ hr hf => h.freed_no_ref hr hf, h.created, h.deleted⟩

/-- library-owned data are released exactly once: `remove_link` deletes the Storage exactly when it takes the last
    link and counts that deletion once; on a deleted Storage every further `remove_link`/`add_link`/`n_links` is a
    fault of the model, never a second deletion; `remove_link` at zero links throws; and `n_storage_objects()` is the
    number of Storage objects not yet deleted -/
theorem C07_freed_once {s : St} {σ : Nat} {r : Sto} (hr : s.heap[σ]? = some r) :
    (∀ s', removeLink s σ = .ok s' →
        r.freed = false ∧ 0 < r.nLinks ∧
        ((r.nLinks = 1 ∧ s'.heap[σ]? = some { nLinks := 0, freed := true, size := r.size } ∧ s'.deleted = s.deleted + 1) ∨
         (1 < r.nLinks ∧ s'.heap[σ]? = some { nLinks := r.nLinks - 1, freed := false, size := r.size } ∧
            s'.deleted = s.deleted))) ∧
    (r.freed = true → removeLink s σ = .error .fault ∧ addLink s σ = .error .fault ∧ nLinksOf s σ = .error .fault) ∧
    (r.freed = false → r.nLinks = 0 → removeLink s σ = .error .invalidOperation) ∧
    (Inv s → nStorageObjects s = (s.heap.countP (fun r => !r.freed) : Nat)) :=
  ⟨fun _ h => removeLink_deletes_iff hr h, freed_is_final hr, removeLink_at_zero hr, nStorageObjects_eq⟩

/-- … and that never happens: after any history, no operation touches a deleted Storage object (`fault`) or calls
    `remove_link` with no link left (`invalid_operation`) — `delete this` cannot run twice and the throw in
    `Storage::remove_link` is unreachable through `Array`.  What can still fail is a documented array exception, a
    malformed request, or a data access through a stale soft link / external view (`badAccess`, the user's error). -/
theorem C07_no_storage_fault (ops : List Op) (op : Op) :
    step (run init ops) op ≠ .error .fault ∧ step (run init ops) op ≠ .error .invalidOperation :=
  no_storage_fault (inv_run ops inv_init) op

/-- no leak: when the last array object has gone every Storage ever created has been deleted and
    `n_storage_objects()` (created − deleted) is 0 -/
theorem C07_no_leak (ops : List Op) (hp : (run init ops).pool = []) :
    (∀ (σ : Nat) (r : Sto), (run init ops).heap[σ]? = some r → r.freed = true) ∧ nStorageObjects (run init ops) = 0 :=
  no_leak (inv_run ops inv_init) hp

/-- copy construction, `link`/`>>=` and slicing share: the new (or re-linked) object points into the source's
    allocation and holds the source's Storage, whose count goes up by exactly one while no other count moves -/
theorem C07_shares_exactly {s s' : St} {j : Nat} {b : Obj} (hb : s.pool[j]? = some b) :
    (copyCtorAt s j = .ok s' → s'.pool = s.pool ++ [b] ∧ heapLinked s s' b) ∧
    (∀ lo hi st, sliceAt s j lo hi st = .ok s' →
        ∃ o, s'.pool = s.pool ++ [o] ∧ o.region = b.region ∧ o.storage = b.storage ∧ heapLinked s s' o) ∧
    (∀ i, Inv s → i ≠ j → linkAt s i j = .ok s' → s'.pool = s.pool.set i b ∧ b.region ≠ .null) :=
  ⟨fun h => copyCtor_shares h hb, fun _ _ _ h => slice_shares h hb, fun _ I hij h => link_shares I hij h hb⟩

/-- `soft_link()` and arrays over external memory (user data, slices of a `FixedArray`) hold no Storage and never
    touch a count -/
theorem C07_soft_external_hold_nothing {s s' : St} :
    (∀ j b, s.pool[j]? = some b → softLinkAt s j = .ok s' →
        s'.pool = s.pool ++ [{ b with storage := none }] ∧ s'.heap = s.heap ∧ s'.created = s.created ∧
        s'.deleted = s.deleted) ∧
    (∀ x off n, newExternalAt s x off n = .ok s' →
        s'.pool = s.pool ++ [{ region := .ext x, off := off, storage := none, len := n, stride := 1 }] ∧
        s'.heap = s.heap ∧ s'.created = s.created ∧ s'.deleted = s.deleted) :=
  ⟨fun _ _ hb h => softLink_holds_nothing h hb, fun _ _ _ h => newExternal_holds_nothing h⟩

/-- `assign_owns`: after `a = b`, by copy or by move, from an lvalue or a temporary, the target is
    where it was (values stored through its existing view), or is the cleared array (empty := empty), or owns a Storage
    created by this assignment, or — move only — holds the Storage the source owned with no other link, the source
    taking what the target had.  Full strength: no hypothesis on what the source is (see `Owns`). -/
theorem C07_assign_owns {s s' : St} {i j : Nat} {a b : Obj} (I : Inv s)
    (ha : s.pool[i]? = some a) (hb : s.pool[j]? = some b)
    (h : assignCopyAt s i j = .ok s' ∨ assignMoveAt s i j = .ok s') : Owns s s' i j a b := by
  rcases h with h | h
  · exact assignCopyAt_owns I ha hb h
  · exact assignMoveAt_owns I ha hb h

/-- hence the target never *becomes* a view of external memory, and it looks into the source's allocation only if
    it already did and was written in place -/
theorem C07_assign_no_new_alias {s s' : St} {i j : Nat} {a b a' b' : Obj} (I : Inv s) (hij : i ≠ j)
    (ha : s.pool[i]? = some a) (hb : s.pool[j]? = some b)
    (h : assignCopyAt s i j = .ok s' ∨ assignMoveAt s i j = .ok s')
    (ha' : s'.pool[i]? = some a') (hb' : s'.pool[j]? = some b') :
    (∀ x, a'.region = .ext x → a' = a ∧ a.region = .ext x) ∧
    (a'.len ≠ 0 → b'.len ≠ 0 → a'.region = b'.region → a' = a ∧ b' = b ∧ a.region = b.region) :=
  ⟨fun _ hx => owns_not_external I (C07_assign_owns I ha hb h) ha hb hij ha' hx,
   fun hla hlb hreg => owns_apart_from_source I (C07_assign_owns I ha hb h) ha hb hij ha' hb' hla hlb hreg⟩

/-- `assign_independent`: after `a = b` (a ≠ b) no later store through the source, and no later change or end of
    external memory, changes what the target reads — unless the target itself was, before the assignment, a view
    of that same allocation (then `=` stored through the view, as it must) -/
theorem C07_assign_independent {s s' : St} {i j : Nat} {a b a' : Obj} (I : Inv s) (hij : i ≠ j)
    (ha : s.pool[i]? = some a) (hb : s.pool[j]? = some b)
    (h : assignCopyAt s i j = .ok s' ∨ assignMoveAt s i j = .ok s')
    (ha' : s'.pool[i]? = some a') :
    (∀ k v s'', (a.region ≠ b.region ∨ a.len = 0) → writeAt s' j k v = .ok s'' → readView s'' a' = readView s' a') ∧
    (∀ x s'', a.region ≠ .ext x → ((∃ k v, xwriteAt s' x k v = .ok s'') ∨ xendAt s' x = .ok s'') →
        readView s'' a' = readView s' a') := by
  have O := C07_assign_owns I ha hb h
  constructor
  · intro k v s'' hsep hw
    unfold writeAt at hw
    cases hg : getObj s' j with
    | error e => simp [hg] at hw
    | ok b' =>
      simp only [hg] at hw
      split at hw
      · rename_i hk
        by_cases hla : a'.len = 0
        · unfold readView; rw [hla]; rfl
        · apply read_after_write_elsewhere hw
          intro hreg
          have hlb : b'.len ≠ 0 := by omega
          obtain ⟨e1, _, e3⟩ := owns_apart_from_source I O ha hb hij ha' (getObj_ok.mp hg) hla hlb hreg
          rcases hsep with hsep | hsep
          · exact hsep e3
          · rw [e1] at hla; exact hla hsep
      · cases hw
  · intro x s'' hne henv
    apply read_after_env _ henv
    intro hx
    exact hne (owns_not_external I O ha hb hij ha' hx).2

/-! Non-vacuity.  `Vector t(3); t = Vector(ext, dimensions(3)); ext[0] = -1;` (finding F-01): with the repaired rule
the target keeps its own Storage and still reads the old values; a concrete history with views outliving their
parent ends with every Storage deleted. -/
def witnessF01 : List Op :=
  [.xnew 3 10, .new 3 1, .newExternal 0 0 3, .assignMove 0 1, .destroy 1, .xwrite 0 0 (-1)]

example : (run init witnessF01).pool = [ownerOf 0 3] ∧
    (match readView (run init witnessF01) (ownerOf 0 3) with | .ok vs => vs | .error _ => []) = [10, 11, 12] ∧
    (run init witnessF01).exts = [⟨true, [-1, 11, 12]⟩] := by
  decide

/-- parent destroyed first, a failed resize, a view and a soft link left over -/
def witnessViews : List Op :=
  [.new 4 1, .slice 0 1 2 1, .destroy 0, .softLink 0, .resize 0 (-2) 0]

example : ((run init witnessViews).heap.map (·.freed) = [false]) ∧ (run init witnessViews).pool.length = 2 ∧
    nStorageObjects (run init witnessViews) = 1 ∧
    (match readView (run init witnessViews) ⟨.sto 0, 1, some 0, 2, 1⟩ with | .ok vs => vs | .error _ => []) = [2, 3] ∧
    ((run init (witnessViews ++ [.destroy 0])).heap.map (·.freed) = [true]) ∧
    nStorageObjects (run init (witnessViews ++ [.destroy 0, .destroy 0])) = 0 := by
  decide

end Adept.Storage
