import AdeptProofs.Lemmas.StackProto
/-!
# C10 — a recording can be replayed, re-seeded, paused and restarted without residue

Stated over `AdeptModel/StackProto.lean` (the protocol state of `adept::Stack` over integer tapes).
-/
namespace Adept.StackProto
open Adept.Tape Adept.GradAlloc

/-- After `clear_gradients()`, the first seed re-creates the working vector from nothing: whatever the
    vector held before (results of earlier passes, earlier seeds), it is now zero except for the seed. -/
theorem C10_first_seed_forgets (s : St) (idx : Nat) (v : Int) (h : idx < s.ga.maxGrad) :
    (({ s with gradInit := false }).seed idx v).1.grad = (List.replicate s.ga.maxGrad 0).set idx v ∧
    (({ s with gradInit := false }).seed idx v).2 = none :=
  first_seed_forgets s idx v h

/-- Hence a pass is a function of the recording and of the seeds set since the last `clear_gradients`
    only: two stacks with the same tape and the same number of gradients, whatever their earlier history
    of passes, give the same result for the same seeds — forward … -/
theorem C10_pass_pure_fwd (s₁ s₂ : St) (seeds : List (Nat × Int)) (ht : s₁.tape = s₂.tape)
    (hm : s₁.ga.maxGrad = s₂.ga.maxGrad) (hs : seeds ≠ []) (hb : ∀ p ∈ seeds, p.1 < s₁.ga.maxGrad) :
    (seedAll { s₁ with gradInit := false } seeds).forward.toOption.map (·.grad) =
    (seedAll { s₂ with gradInit := false } seeds).forward.toOption.map (·.grad) :=
  pass_pure_fwd s₁ s₂ seeds ht hm hs hb

/-- … and reverse. -/
theorem C10_pass_pure_rev (s₁ s₂ : St) (seeds : List (Nat × Int)) (ht : s₁.tape = s₂.tape)
    (hm : s₁.ga.maxGrad = s₂.ga.maxGrad) (hs : seeds ≠ []) (hb : ∀ p ∈ seeds, p.1 < s₁.ga.maxGrad) :
    (seedAll { s₁ with gradInit := false } seeds).reverse.toOption.map (·.grad) =
    (seedAll { s₂ with gradInit := false } seeds).reverse.toOption.map (·.grad) :=
  pass_pure_rev s₁ s₂ seeds ht hm hs hb

/-- A Jacobian request uses private buffers: its result does not depend on the working gradient vector
    or on whether gradients are initialised, only on tape, lists, configuration and thread settings. -/
theorem C10_jacobian_ignores_gradients (s : St) (g : List Int) (b : Bool) (mode : JMode) (dO iO : Int)
    (nc : Nat) (fill : Int) :
    ({ s with grad := g, gradInit := b }).jacPtr mode dO iO nc fill = s.jacPtr mode dO iO nc fill := rfl

/-- `new_recording` discards every statement, every pending operation, both variable lists and the
    seeds; the number of gradients needed restarts from the live objects. -/
theorem C10_new_recording_forgets (s : St) :
    let s' := newRec s
    s'.tape = [] ∧ s'.pend = [] ∧ s'.indep = [] ∧ s'.dep = [] ∧ s'.gradInit = false ∧
    s'.ga.maxGrad = s.ga.iGrad + 1 ∧ s'.vars = s.vars :=
  new_recording_forgets s

/-- While recording is paused (pausable build) an assignment computes the same value as when recording
    and records nothing: tape, pending operations and allocator are untouched. -/
theorem C10_pause_noop (s : St) (h : Nat) (x : Var) (e : RNode) (hp : s.cfg.pausable = true)
    (hr : s.recording = false) (s' : St) (v : Int) (ha : s.assign h x e = some (s', v)) :
    e.eval s = some v ∧ s'.tape = s.tape ∧ s'.pend = s.pend ∧ s'.ga = s.ga ∧
    s'.var? h = some { x with val := v } :=
  pause_noop s h x e hp hr s' v ha

/-- … whereas when recording, the same assignment gives the same value and appends exactly one statement
    whose left-hand side is the target's gradient index. -/
theorem C10_assign_records_one (s : St) (h : Nat) (x : Var) (e : RNode) (hr : s.isRecording = true)
    (hpe : s.pend = []) (s' : St) (v : Int) (ha : s.assign h x e = some (s', v)) :
    e.eval s = some v ∧ s'.tape = s.tape ++ [⟨x.idx, e.grad s none⟩] ∧ s'.pend = [] :=
  assign_records_one s h x e hr hpe s' v ha

/-- A dependence supplied by `add_derivative_dependence(x, m)` acts in the tangent-linear sweep exactly as
    the linear statement `d[lhs] = m·d[x]` (and as `d[lhs] = 0` when `m = 0`, which pushes no operation). -/
theorem C10_dependence_is_statement (lhs x : Nat) (m : Int) (g : Vec Int) :
    fwdStep (addDep lhs x m) g = g.set lhs (m * rd g x) :=
  dependence_is_statement lhs x m g

/-- `append_derivative_dependence` extends that statement by one more term. -/
theorem C10_append_is_extension (st : Stmt Int) (x : Nat) (m : Int) (g : Vec Int) :
    fwdStep (appendDep st x m) g = g.set st.lhs (rhsVal st.ops g + m * rd g x) :=
  append_is_extension st x m g

/-- On a recording stack with no half-built statement, `add_derivative_dependence` appends exactly the
    statement `addDep`. -/
theorem C10_add_dependence_records (s : St) (lhs x : Nat) (m : Int) (hr : s.isRecording = true)
    (hp : s.pend = []) :
    (s.addDependence lhs x m).tape = s.tape ++ [addDep lhs x m] ∧ (s.addDependence lhs x m).pend = [] :=
  add_dependence_records s lhs x m hr hp

/-- `append_derivative_dependence` to the variable of the most recent statement replaces that statement by
    its extension; to any other variable it raises `wrong_gradient` (and, returning no new state, changes
    nothing). -/
theorem C10_append_dependence (s : St) (lhs x : Nat) (m : Int) (hr : s.isRecording = true) :
    (∀ last, s.tape.getLast? = some last → last.lhs = lhs →
        s.appendDependence lhs x m = .ok { s with tape := s.tape.dropLast ++ [appendDep last x m] }) ∧
    ((∀ last, s.tape.getLast? = some last → last.lhs ≠ lhs) →
        s.appendDependence lhs x m = .error .wrong_gradient) :=
  append_dependence s lhs x m hr

/-- ARRAY FORMS (`y.add_derivative_dependence(x, dy_dx, n, multiplier_stride)` of Active, ActiveReference and
    ActiveConstReference).  For EVERY term list — any length, repeated right-hand sides, zero multipliers, whatever the
    multiplier stride — the relation acts in the tangent-linear sweep exactly as the linear statement it describes,
    `d[lhs] = Σⱼ mⱼ·d[xⱼ]` (the zero multipliers, which push no operation, contribute nothing) … -/
theorem C10_dependence_array_is_statement (lhs : Nat) (ts : List (Nat × Int)) (g : Vec Int) :
    fwdStep (addDepN lhs ts) g = g.set lhs (termSum ts g) :=
  dependenceN_is_statement lhs ts g

/-- … the array form of `append_derivative_dependence` extends the statement by `Σⱼ mⱼ·d[xⱼ]` … -/
theorem C10_append_array_is_extension (st : Stmt Int) (ts : List (Nat × Int)) (g : Vec Int) :
    fwdStep (appendDepN st ts) g = g.set st.lhs (rhsVal st.ops g + termSum ts g) :=
  appendN_is_extension st ts g

/-- … on a recording stack the array form appends exactly that one statement; the array form of append replaces the last
    statement by its extension when called on the variable of the last statement and raises `wrong_gradient` otherwise,
    having pushed nothing; and while recording is paused neither form records anything. -/
theorem C10_dependence_array_records (s : St) (lhs : Nat) (ts : List (Nat × Int)) :
    (s.isRecording = true → s.pend = [] →
        (s.addDependenceN lhs ts).tape = s.tape ++ [addDepN lhs ts] ∧ (s.addDependenceN lhs ts).pend = []) ∧
    (s.isRecording = true → ∀ last, s.tape.getLast? = some last → last.lhs = lhs →
        s.appendDependenceN lhs ts = .ok { s with tape := s.tape.dropLast ++ [appendDepN last ts] }) ∧
    (s.isRecording = true → (∀ last, s.tape.getLast? = some last → last.lhs ≠ lhs) →
        s.appendDependenceN lhs ts = .error .wrong_gradient) ∧
    (s.isRecording = false → s.addDependenceN lhs ts = s ∧ s.appendDependenceN lhs ts = .ok s) :=
  ⟨fun hr hp => add_dependenceN_records s lhs ts hr hp,
   fun hr => (append_dependenceN s lhs ts hr).1,
   fun hr => (append_dependenceN s lhs ts hr).2,
   fun hr => dependenceN_paused s lhs ts hr⟩

/-- The array form is the single-term form repeated: the first term added, the others appended one by one. -/
theorem C10_dependence_array_unfolds (lhs x : Nat) (m : Int) (ts : List (Nat × Int)) (st : Stmt Int) :
    addDepN lhs ((x, m) :: ts) = appendDepN (addDep lhs x m) ts ∧
    appendDepN st ((x, m) :: ts) = appendDepN (appendDep st x m) ts ∧
    addDepN lhs [] = ⟨lhs, []⟩ ∧ appendDepN st [] = st :=
  ⟨addDepN_cons lhs x m ts, appendDepN_cons st x m ts, rfl, by simp [appendDepN, depOps]⟩

/-- a concrete relation: `d[7] = 2·d[1] + 0·d[2] − 3·d[1]` pushes two operations and evaluates to `−g[1]` -/
example : (addDepN 7 [(1, 2), (2, 0), (1, -3)]).ops = [(2, 1), (-3, 1)] ∧
    termSum [(1, 2), (2, 0), (1, -3)] [0, 5, 9] = -5 := by decide

/-- The pointer-and-count forms `Stack::independent(const A* x, n)` / `dependent(const A* x, n)` are the scalar forms called on
    `x[0] … x[n-1]` in that order, for every `n`; `n = 0` changes nothing; each touches its own list only. -/
theorem C10_lists_array_is_repeated (s : St) (idxs : List Nat) :
    s.independentN idxs = idxs.foldl (fun s i => { s with indep := s.indep ++ [i] }) s ∧
    s.dependentN idxs = idxs.foldl (fun s i => { s with dep := s.dep ++ [i] }) s ∧
    s.independentN [] = s ∧ s.dependentN [] = s ∧
    (s.independentN idxs).dep = s.dep ∧ (s.dependentN idxs).indep = s.indep ∧
    (s.independentN idxs).tape = s.tape ∧ (s.dependentN idxs).tape = s.tape := by
  refine ⟨?_, ?_, by simp [St.independentN], by simp [St.dependentN], rfl, rfl, rfl, rfl⟩
  · induction idxs generalizing s with
    | nil => simp [St.independentN]
    | cons i rest ih => simp only [List.foldl_cons]; rw [← ih]; simp [St.independentN, List.append_assoc]
  · induction idxs generalizing s with
    | nil => simp [St.dependentN]
    | cons i rest ih => simp only [List.foldl_cons]; rw [← ih]; simp [St.dependentN, List.append_assoc]

/-- The free function `set_gradients(Active* a, n, data)`: when no element raises, it is exactly the `n` scalar `set_gradient`
    calls in order (so every statement about `seedAll` — `C10_pass_pure_fwd/rev` — is a statement about it). -/
theorem C10_set_gradients_array_is_seeds (s : St) (seeds : List (Nat × Int)) (h : (s.seedN seeds).2 = none) :
    (s.seedN seeds).1 = seedAll s seeds := by
  induction seeds generalizing s with
  | nil => rfl
  | cons p rest ih =>
    simp only [seedAll, List.foldl_cons]
    unfold St.seedN at h ⊢
    cases hs : s.seed p.1 p.2 with
    | mk s' o =>
      cases o with
      | none => simp only [hs] at h ⊢; exact ih s' h
      | some e => simp [hs] at h

/-- … and when an element raises, the loop ends there: the result is that of the scalar calls up to and including the failing one
    (the elements before it stay seeded), and the exception is the scalar call's. -/
theorem C10_set_gradients_array_stops (s : St) (pre post : List (Nat × Int)) (p : Nat × Int) (e : Exc)
    (hpre : (s.seedN pre).2 = none) (hp : ((seedAll s pre).seed p.1 p.2).2 = some e) :
    s.seedN (pre ++ p :: post) = (seedAll s (pre ++ [p]), some e) := by
  induction pre generalizing s with
  | nil =>
    simp only [List.nil_append, seedAll, List.foldl_cons, List.foldl_nil] at hp ⊢
    unfold St.seedN
    cases hs : s.seed p.1 p.2 with
    | mk s' o => simp only [hs] at hp; subst hp; rfl
  | cons q rest ih =>
    unfold St.seedN at hpre
    simp only [List.cons_append, seedAll, List.foldl_cons] at hp ⊢
    unfold St.seedN
    cases hs : s.seed q.1 q.2 with
    | mk s' o =>
      cases o with
      | none => simp only [hs] at hpre hp ⊢; exact ih s' hpre hp
      | some e' => simp [hs] at hpre

/-- The free function `get_gradients(const Active* a, n, data)`: it succeeds exactly with the results of the `n` scalar
    `get_gradient` calls, element by element. -/
theorem C10_get_gradients_array (s : St) (idxs : List Nat) (gs : List Int) (h : s.getGradN idxs = .ok gs) :
    List.Forall₂ (fun i g => s.getGrad i = .ok g) idxs gs := by
  induction idxs generalizing gs with
  | nil => unfold St.getGradN at h; cases h; exact .nil
  | cons i rest ih =>
    unfold St.getGradN at h
    cases hg : s.getGrad i with
    | error e => simp [hg] at h
    | ok g =>
      cases hr : s.getGradN rest with
      | error e => simp [hg, hr] at h
      | ok gs' =>
        simp only [hg, hr] at h
        cases h
        exact .cons hg (ih gs' hr)

/-- non-vacuity: three seeds at once on a fresh two-gradient stack succeed; with an index out of range the call raises after the
    first seed took effect -/
example : (({ ga := { maxGrad := 2 } } : St).seedN [(0, 3), (1, -1), (0, 4)]).2 = none ∧
    (({ ga := { maxGrad := 2 } } : St).seedN [(0, 3), (1, -1), (0, 4)]).1.grad = [4, -1] ∧
    (({ ga := { maxGrad := 2 } } : St).seedN [(0, 3), (5, 1), (1, 1)]).2 = some .gradient_out_of_range ∧
    (({ ga := { maxGrad := 2 } } : St).seedN [(0, 3), (5, 1), (1, 1)]).1.grad = [3, 0] := by decide

/-! Non-vacuity of `C10_pause_noop`: a paused pausable stack with one live variable. -/
example : ∃ s : St, s.cfg.pausable = true ∧ s.recording = false ∧
    (s.assign 0 ⟨0, 2⟩ (.mul (.v 0) (.c 3))).isSome = true :=
  ⟨{ cfg := { pausable := true }, recording := false, vars := [(0, ⟨0, 2⟩)] }, rfl, rfl, by decide⟩

end Adept.StackProto
