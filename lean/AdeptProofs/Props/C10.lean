import AdeptProofs.Lemmas.StackProto
/-!
# C10 — a recording can be replayed, re-seeded, paused and restarted without residue

Stated over `AdeptModel/StackProto.lean` (the protocol state of `adept::Stack` over integer tapes).
-/
namespace Adept.StackProto
open Adept.Tape Adept.GradAlloc

/-- After `clear_gradients()`, the first seed re-creates the working vector from nothing: whatever the
    vector held before (results of earlier passes, earlier seeds), it is now zero except for the seed. -/
theorem C10_first_seed_forgets (s : St) (idx : Nat) (v : Int) (h : idx < s.ga.maxGrad) :
    (({ s with gradInit := false }).seed idx v).1.grad = (List.replicate s.ga.maxGrad 0).set idx v ∧
    (({ s with gradInit := false }).seed idx v).2 = none :=
  first_seed_forgets s idx v h

/-- Hence a pass is a function of the recording and of the seeds set since the last `clear_gradients`
    only: two stacks with the same tape and the same number of gradients, whatever their earlier history
    of passes, give the same result for the same seeds — forward … -/
theorem C10_pass_pure_fwd (s₁ s₂ : St) (seeds : List (Nat × Int)) (ht : s₁.tape = s₂.tape)
    (hm : s₁.ga.maxGrad = s₂.ga.maxGrad) (hs : seeds ≠ []) (hb : ∀ p ∈ seeds, p.1 < s₁.ga.maxGrad) :
    (seedAll { s₁ with gradInit := false } seeds).forward.toOption.map (·.grad) =
    (seedAll { s₂ with gradInit := false } seeds).forward.toOption.map (·.grad) :=
  pass_pure_fwd s₁ s₂ seeds ht hm hs hb

/-- … and reverse. -/
theorem C10_pass_pure_rev (s₁ s₂ : St) (seeds : List (Nat × Int)) (ht : s₁.tape = s₂.tape)
    (hm : s₁.ga.maxGrad = s₂.ga.maxGrad) (hs : seeds ≠ []) (hb : ∀ p ∈ seeds, p.1 < s₁.ga.maxGrad) :
    (seedAll { s₁ with gradInit := false } seeds).reverse.toOption.map (·.grad) =
    (seedAll { s₂ with gradInit := false } seeds).reverse.toOption.map (·.grad) :=
  pass_pure_rev s₁ s₂ seeds ht hm hs hb

/-- A Jacobian request uses private buffers: its result does not depend on the working gradient vector
    or on whether gradients are initialised, only on tape, lists, configuration and thread settings. -/
theorem C10_jacobian_ignores_gradients (s : St) (g : List Int) (b : Bool) (mode : JMode) (dO iO : Int)
    (nc : Nat) (fill : Int) :
    ({ s with grad := g, gradInit := b }).jacPtr mode dO iO nc fill = s.jacPtr mode dO iO nc fill := rfl

/-- `new_recording` discards every statement, every pending operation, both variable lists and the
    seeds; the number of gradients needed restarts from the live objects. -/
theorem C10_new_recording_forgets (s : St) :
    let s' := newRec s
    s'.tape = [] ∧ s'.pend = [] ∧ s'.indep = [] ∧ s'.dep = [] ∧ s'.gradInit = false ∧
    s'.ga.maxGrad = s.ga.iGrad + 1 ∧ s'.vars = s.vars :=
  new_recording_forgets s

/-- While recording is paused (pausable build) an assignment computes the same value as when recording
    and records nothing: tape, pending operations and allocator are untouched. -/
theorem C10_pause_noop (s : St) (h : Nat) (x : Var) (e : RNode) (hp : s.cfg.pausable = true)
    (hr : s.recording = false) (s' : St) (v : Int) (ha : s.assign h x e = some (s', v)) :
    e.eval s = some v ∧ s'.tape = s.tape ∧ s'.pend = s.pend ∧ s'.ga = s.ga ∧
    s'.var? h = some { x with val := v } :=
  pause_noop s h x e hp hr s' v ha

/-- … whereas when recording, the same assignment gives the same value and appends exactly one statement
    whose left-hand side is the target's gradient index. -/
theorem C10_assign_records_one (s : St) (h : Nat) (x : Var) (e : RNode) (hr : s.isRecording = true)
    (hpe : s.pend = []) (s' : St) (v : Int) (ha : s.assign h x e = some (s', v)) :
    e.eval s = some v ∧ s'.tape = s.tape ++ [⟨x.idx, e.grad s none⟩] ∧ s'.pend = [] :=
  assign_records_one s h x e hr hpe s' v ha

/-- A dependence supplied by `add_derivative_dependence(x, m)` acts in the tangent-linear sweep exactly as
    the linear statement `d[lhs] = m·d[x]` (and as `d[lhs] = 0` when `m = 0`, which pushes no operation). -/
theorem C10_dependence_is_statement (lhs x : Nat) (m : Int) (g : Vec Int) :
    fwdStep (addDep lhs x m) g = g.set lhs (m * rd g x) :=
  dependence_is_statement lhs x m g

/-- `append_derivative_dependence` extends that statement by one more term. -/
theorem C10_append_is_extension (st : Stmt Int) (x : Nat) (m : Int) (g : Vec Int) :
    fwdStep (appendDep st x m) g = g.set st.lhs (rhsVal st.ops g + m * rd g x) :=
  append_is_extension st x m g

/-- On a recording stack with no half-built statement, `add_derivative_dependence` appends exactly the
    statement `addDep`. -/
theorem C10_add_dependence_records (s : St) (lhs x : Nat) (m : Int) (hr : s.isRecording = true)
    (hp : s.pend = []) :
    (s.addDependence lhs x m).tape = s.tape ++ [addDep lhs x m] ∧ (s.addDependence lhs x m).pend = [] :=
  add_dependence_records s lhs x m hr hp

/-- `append_derivative_dependence` to the variable of the most recent statement replaces that statement by
    its extension; to any other variable it raises `wrong_gradient` (and, returning no new state, changes
    nothing). -/
theorem C10_append_dependence (s : St) (lhs x : Nat) (m : Int) (hr : s.isRecording = true) :
    (∀ last, s.tape.getLast? = some last → last.lhs = lhs →
        s.appendDependence lhs x m = .ok { s with tape := s.tape.dropLast ++ [appendDep last x m] }) ∧
    ((∀ last, s.tape.getLast? = some last → last.lhs ≠ lhs) →
        s.appendDependence lhs x m = .error .wrong_gradient) :=
  append_dependence s lhs x m hr

/-! Non-vacuity of `C10_pause_noop`: a paused pausable stack with one live variable. -/
example : ∃ s : St, s.cfg.pausable = true ∧ s.recording = false ∧
    (s.assign 0 ⟨0, 2⟩ (.mul (.v 0) (.c 3))).isSome = true :=
  ⟨{ cfg := { pausable := true }, recording := false, vars := [(0, ⟨0, 2⟩)] }, rfl, rfl, by decide⟩

end Adept.StackProto
