import AdeptProofs.Lemmas.Assign
import AdeptModel.Generated.AliasNodes
/-!
# C04 — array statements have element-wise value semantics despite aliasing / layout

Property theorems only; helper lemmas live in `AdeptProofs/Lemmas/Assign*.lean`.  All statements are about
`AdeptModel/Assign.lean` and `AdeptModel/Reduce.lean`, the transcription of the passive statement paths of
`Array.h`, `FixedArray.h`, `IndexedArray.h`, `where.h`, `noalias.h`, `spread.h`, `outer_product.h`, `reduce.h`
of the tree WITH the fixes F-02 (innermost loops count elements, a27a596), F-03 (`*this = noalias(*this) op rhs`), F-11 and
F-28 (alias test of `spread` / `outer_product` operands).  checks/c04.py ties the model to the C++ on every run.

Every theorem quantifies over all ranks, extents, strides of either sign, base addresses (hence all overlaps)
and all memories.  `lhs.WF` = non-empty array, one offset per dimension.  "Evaluate the whole right-hand
side first, in index order, then store" is `storeAll lhs (evalAll rhs lhs.dims m) m`.

Where the code does NOT have the property the full statement is kept as a `def …Full : Prop`, the theorem
proved is `…_partial` with the excluding hypothesis spelled out, and `AdeptProofs/Refute/Assign.lean` refutes
the full statement on a concrete witness:
  * `where`: the mask is evaluated lazily (F-25);  `either_or`: two passes (F-38);
  * `FixedArray` targets are not alias-tested (F-22, documented);
  * `IndexedArray op=` with a repeated index accumulates (F-39).
  * nested initializer list with fewer rows than the matrix: the other rows are not zeroed (`InitListRowsZeroFull`, refuted below).

Compound conditional assignment `A.where(B) OP= C` is stated for the macro body of where.h with the operand spelled `array_`
(`A.assign_conditional(B, noalias(A) OP C)`); the pinned tree writes `noalias(*this)`, which does not compile (checks/c04.py probes
this on every run and reports the finding).
-/
namespace Adept.Assign

/-! ## addresses, `data_range`, the alias test -/

/-- every element address of a view lies in the range `Array::data_range` computes, whatever the signs of the
    strides -/
theorem C04_dataRange_sound (v : View) (ix : List Nat) (h : ix ∈ idxs v.dims) :
    v.dataRange.1 ≤ v.addr ix ∧ v.addr ix ≤ v.dataRange.2 := dataRange_sound v ix h

/-- if `is_aliased` is false for the expression, the cell set of the left-hand side is disjoint from the cell
    set of every array operand that is not wrapped in `noalias` (for an `IndexedArray` operand: of the whole
    array it wraps) -/
theorem C04_alias_conservative (lhs : View) (e : Expr)
    (h : e.isAliased lhs.dataRange.1 lhs.dataRange.2 = false) :
    ∀ v ∈ e.checkedLeaves, ∀ a ∈ lhs.cells, a ∉ v.cells := alias_conservative lhs e h

/-! ## the loops as coded are folds over the index tuples in index order -/

/-- `assign_expression_` (running `index`, `advance_index` carries) = in-order fold, any rank, any stride signs -/
theorem C04_assign_loop_is_fold (lhs : View) (rhs : Expr) (m : Mem) (h : lhs.WF) :
    assignExpression lhs rhs m = seqAssign lhs rhs m := assignExpression_eq_seq lhs rhs m h

/-- `assign_conditional_` including the `is_gap` resynchronisation of the right-hand cursor -/
theorem C04_where_loop_is_fold (lhs : View) (mask : BExpr) (rhs : Expr) (m : Mem) (h : lhs.WF) :
    assignConditional_ lhs mask rhs m = seqWhere lhs mask rhs m := assignConditional__eq_seq lhs mask rhs m h

/-! ## plain assignment -/

/-- the in-order loop equals "evaluate all, then store" whenever no cell written at an earlier position is read
    at a later one (in particular when the two sides are disjoint) -/
theorem C04_seq_eq_par (lhs : View) (rhs : Expr) (m : Mem)
    (hs : SafeFor lhs.addr (idxs lhs.dims) rhs.reads) :
    seqAssign lhs rhs m = storeAll lhs (evalAll rhs lhs.dims m) m := seq_eq_par lhs rhs m hs

/-- the aliased path (temporary copy) gives "evaluate all, then store" unconditionally -/
theorem C04_copy_path (lhs : View) (rhs : Expr) (m : Mem) :
    seqAssign lhs (rhs.snapshot m) m = storeAll lhs (evalAll rhs lhs.dims m) m := copy_path lhs rhs m

/-- `Array::operator=(Expression)`: for every layout and overlap the result is "evaluate the whole right-hand
    side, then store"; the only duty left to the caller concerns the terms he wrapped in `noalias` himself -/
theorem C04_assign_semantics (lhs : View) (rhs : Expr) (m : Mem) (hw : lhs.WF) (hc : rhs.Conforms lhs.dims)
    (hna : ∀ t ∈ rhs.noaliasTerms, SafeFor lhs.addr (idxs lhs.dims) t.reads) :
    assign lhs rhs m = storeAll lhs (evalAll rhs lhs.dims m) m := assign_semantics lhs rhs m hw hc hna

/-- without any `noalias` in the statement there is no side condition at all -/
theorem C04_assign_semantics_no_noalias (lhs : View) (rhs : Expr) (m : Mem) (hw : lhs.WF)
    (hc : rhs.Conforms lhs.dims) (h0 : rhs.noaliasTerms = []) :
    assign lhs rhs m = storeAll lhs (evalAll rhs lhs.dims m) m :=
  assign_semantics lhs rhs m hw hc (by rw [h0]; intro t ht; cases ht)

/-- a `noalias` term that does not overlap the left-hand side is safe -/
theorem C04_noalias_disjoint_safe (lhs : View) (t : Expr)
    (h : ∀ ix' ∈ idxs lhs.dims, ∀ ix ∈ idxs lhs.dims, lhs.addr ix' ∉ t.reads ix) :
    SafeFor lhs.addr (idxs lhs.dims) t.reads := safeFor_of_disjoint _ _ _ h

/-- a `noalias` term that is the left-hand view itself ("accessed in the same order") is safe when the view is
    injective -/
theorem C04_noalias_self_safe (lhs : View) (h : lhs.Injective) :
    SafeFor lhs.addr (idxs lhs.dims) (Expr.leaf lhs).reads := safeFor_self lhs.addr _ h

/-- what is stored: the final content of a cell is the value of the LAST position addressing it -/
theorem C04_store_last_write_wins (lhs : View) (xs : List Int) (m : Mem) (a : Int) :
    storeAll lhs xs m a = (lastWrite (lhs.cells.zip xs) a).getD (m a) := storePairs_lastWrite _ m a

/-! ## compound assignment, scalar broadcast -/

/-- `a op= rhs` (coded `a = noalias(a) op rhs`): every element becomes `old op rhs` with the whole right-hand
    side, `rhs` included, read before anything is stored — for every overlap of `rhs` with `a` -/
theorem C04_compound_semantics (op : BOp) (lhs : View) (rhs : Expr) (m : Mem) (hw : lhs.WF)
    (hinj : lhs.Injective) (hc : rhs.Conforms lhs.dims)
    (hna : ∀ t ∈ rhs.noaliasTerms, SafeFor lhs.addr (idxs lhs.dims) t.reads) :
    compound op lhs rhs m
      = storeAll lhs ((idxs lhs.dims).map fun ix => op.ap (m (lhs.addr ix)) (rhs.evalAt m ix)) m :=
  compound_semantics op lhs rhs m hw hinj hc hna

/-- `a = x`: every element is stored, for strides of either sign and for zero strides (the innermost loop
    counts the elements) -/
theorem C04_scalar_broadcast (lhs : View) (x : Int) (m : Mem) (hw : lhs.WF) :
    assignScalar lhs x m = storeAll lhs ((idxs lhs.dims).map fun _ => x) m :=
  assignScalar_semantics lhs x m hw

/-- the scalar loop as coded (running `index`, element counter) is the in-order fold -/
theorem C04_scalar_loop_is_fold (lhs : View) (x : Int) (m : Mem) (h : lhs.WF) :
    lhs.traverse (fun dl sl _ index m => innerScalar x lhs.base sl dl index m) m = seqScalar lhs x m :=
  traverseScalar_eq_seq lhs x m h

/-! ## conditional assignment -/

/-- FULL statement (refuted, F-25): mask and right-hand side are evaluated before anything is stored -/
def WhereSemanticsFull : Prop :=
  ∀ (lhs : View) (mask : BExpr) (rhs : Expr) (m : Mem), lhs.WF → lhs.Injective → rhs.Conforms lhs.dims →
    rhs.noaliasTerms = [] →
    assignConditional lhs mask rhs m = storeWhere lhs (maskAll mask lhs.dims m) (evalAll rhs lhs.dims m) m

/-- what holds: the same, for masks none of whose operands reads, at a later position, a cell the statement
    wrote at an earlier one (e.g. masks over other arrays, or over the target itself at identical positions) -/
theorem C04_where_semantics_partial (lhs : View) (mask : BExpr) (r : WRhs) (m : Mem) (hw : lhs.WF)
    (hc : r.Conforms lhs.dims) (hm : SafeFor lhs.addr (idxs lhs.dims) mask.reads) (hna : r.NaSafe lhs) :
    whereAssign lhs mask r m = storeWhere lhs (maskAll mask lhs.dims m) (r.evalAll lhs.dims m) m :=
  whereAssign_semantics lhs mask r m hw hc hm hna

/-- FULL statement for `either_or` (refuted, F-38) -/
def EitherOrSemanticsFull : Prop :=
  ∀ (lhs : View) (mask : BExpr) (c d : WRhs) (m : Mem), lhs.WF → lhs.Injective →
    c.Conforms lhs.dims → d.Conforms lhs.dims → c.NaSafe lhs → d.NaSafe lhs →
    whereEitherOr lhs mask c d m
      = storeWhere lhs (maskAll mask lhs.dims m) (c.evalAll lhs.dims m)
          (storeWhere lhs (maskAll (.not mask) lhs.dims m) (d.evalAll lhs.dims m) m)

/-- what holds: mask and true-branch must not read the target at all (the false-branch may) -/
theorem C04_either_or_semantics_partial (lhs : View) (mask : BExpr) (c d : WRhs) (m : Mem) (hw : lhs.WF)
    (hcc : c.Conforms lhs.dims) (hcd : d.Conforms lhs.dims)
    (hmask : ∀ ix ∈ idxs lhs.dims, ∀ a ∈ mask.reads ix, a ∉ lhs.cells)
    (hcav : c.Avoids lhs) (hnac : c.NaSafe lhs) (hnad : d.NaSafe lhs) :
    whereEitherOr lhs mask c d m
      = storeWhere lhs (maskAll mask lhs.dims m) (c.evalAll lhs.dims m)
          (storeWhere lhs (maskAll (.not mask) lhs.dims m) (d.evalAll lhs.dims m) m) :=
  whereEitherOr_semantics lhs mask c d m hw hcc hcd hmask hcav hnac hnad

/-! ## compound conditional assignment `A.where(B) OP= C`, and `FixedArray.where` -/

/-- `A.where(B) OP= C` (`+= -= *= /=`; coded `A.assign_conditional(B, noalias(A) OP C)`, where.h): every SELECTED element becomes
    `old(A) OP C` with the mask and the whole of `C` — whatever its overlap with `A`: it is alias-tested — evaluated BEFORE
    anything is stored, every unselected element keeps its value (next theorem).  The hypothesis on the mask is that of
    `C04_where_semantics_partial` (a mask reading the target at other positions is open finding F-25, same signature). -/
theorem C04_where_compound_semantics_partial (op : BOp) (lhs : View) (mask : BExpr) (r : WRhs) (m : Mem) (hw : lhs.WF)
    (hinj : lhs.Injective) (hc : r.Conforms lhs.dims) (hm : SafeFor lhs.addr (idxs lhs.dims) mask.reads)
    (hna : r.NaSafe lhs) :
    whereCompound op lhs mask r m
      = storeWhere lhs (maskAll mask lhs.dims m)
          ((idxs lhs.dims).map fun ix => op.ap (m (lhs.addr ix)) (r.toExpr.evalAt m ix)) m :=
  whereCompound_semantics op lhs mask r m hw hinj hc hm hna

/-- a conditional store touches no cell all of whose positions in the target are unselected (in particular no cell outside
    the target): "unselected elements untouched", for plain and compound `where` alike -/
theorem C04_where_unselected_untouched (lhs : View) (bs : List Bool) (xs : List Int) (m : Mem) (a : Int)
    (h : ∀ p ∈ lhs.cells.zip bs, p.1 = a → p.2 = false) : storeWhere lhs bs xs m a = m a :=
  storeWhere_unselected lhs bs xs m a h

/-- `F.where(B) = C` on a `FixedArray` target (`FixedArray::assign_conditional`: the same loop, NO alias test — F-22): holds when
    mask and right-hand side are safe to read while the target is being stored -/
theorem C04_fixed_where_semantics_partial (lhs : View) (mask : BExpr) (r : WRhs) (m : Mem) (hw : lhs.WF)
    (hm : SafeFor lhs.addr (idxs lhs.dims) mask.reads) (hr : SafeFor lhs.addr (idxs lhs.dims) r.toExpr.reads) :
    fixedWhereAssign lhs mask r m = storeWhere lhs (maskAll mask lhs.dims m) (r.evalAll lhs.dims m) m :=
  fixedWhereAssign_semantics lhs mask r m hw hm hr

/-- `F.where(B) OP= C` on a `FixedArray` target -/
theorem C04_fixed_where_compound_semantics_partial (op : BOp) (lhs : View) (mask : BExpr) (r : WRhs) (m : Mem)
    (hw : lhs.WF) (hinj : lhs.Injective) (hm : SafeFor lhs.addr (idxs lhs.dims) mask.reads)
    (hr : SafeFor lhs.addr (idxs lhs.dims) r.toExpr.reads) :
    fixedWhereCompound op lhs mask r m
      = storeWhere lhs (maskAll mask lhs.dims m)
          ((idxs lhs.dims).map fun ix => op.ap (m (lhs.addr ix)) (r.toExpr.evalAt m ix)) m :=
  fixedWhereCompound_semantics op lhs mask r m hw hinj hm hr

/-- non-vacuity: `a.where(a > 2) += a(reversed)` on `0 1 36 48 60` (mask over the target at identical positions, right-hand side
    the reversed target: aliased, temporary) gives `0 1 72 49 60` — the hypotheses hold and unselected cells stay -/
example : let a : View := ⟨0, [5], [1]⟩; let b : View := ⟨4, [5], [-1]⟩
    let mask : BExpr := .cmp .gt (.leaf a) (.const 2)
    a.WF ∧ a.Injective ∧ (WRhs.expr (.leaf b)).Conforms a.dims ∧ SafeFor a.addr (idxs a.dims) mask.reads ∧
    (List.range 5).map (whereCompound .add a mask (.expr (.leaf b))
        ⟨fun k => [0, 1, 36, 48, 60].getD k.toNat 0⟩ ∘ Int.ofNat) = [0, 1, 72, 49, 60] := by
  refine ⟨⟨rfl, by decide, by decide⟩, (by show (View.cells _).Nodup; decide), ?_, ?_, by decide⟩
  · show ∀ ix ∈ idxs [5], ix ∈ idxs [5]; exact fun ix h => h
  · show List.Pairwise _ _; decide

/-! ## initializer lists as statements -/

/-- `v = {x0, x1, ..}` on a non-empty vector view of any stride (Array.h / FixedArray.h): EVERY element of the vector is set to
    zero first, then element `j` of the list is stored at coordinate `[j]` (`C04_initlist_vector_addr`), in list order: listed
    elements get the list's values, the underfilled remainder is zero -/
theorem C04_initlist_vector_semantics (lhs : View) (xs : List Int) (m : Mem) (hw : lhs.WF) :
    ilAssign1 lhs xs m
      = storePairs (((List.range xs.length).map fun (j : Nat) => lhs.base + (j : Int) * lhs.strides.headD 0).zip xs)
          (storeAll lhs ((idxs lhs.dims).map fun _ => 0) m) := ilAssign1_semantics lhs xs m hw

/-- `data_[j*offset_[0]]` is the address of coordinate `[j]` -/
theorem C04_initlist_vector_addr (lhs : View) (s : Int) (j : Nat) (h : lhs.strides = [s]) :
    lhs.addr [j] = lhs.base + (j : Int) * lhs.strides.headD 0 := vector_addr lhs s j h

/-- `M = {{..},{..}}`: row `i` of the list is assigned, as a vector, to the row view `M[i]`, whose coordinate `ix` is the
    matrix's coordinate `i :: ix`; `FixedArray` zeroes the whole matrix first -/
theorem C04_initlist_matrix_rows (lhs : View) (rows : List (List Int)) (m : Mem) :
    ilAssign2 lhs rows m = rows.zipIdx.foldl (fun m p => ilAssign1 (lhs.sub p.2) p.1 m) m ∧
    fixedIlAssign2 lhs rows m = ilAssign2 lhs rows (assignScalar lhs 0 m) ∧
    ∀ (i : Nat) (ix : List Nat) (s : Int) (ss : List Int), lhs.strides = s :: ss → (lhs.sub i).addr ix = lhs.addr (i :: ix) :=
  ⟨rfl, rfl, fun i ix s ss h => sub_addr lhs i ix s ss h⟩

/-- FULL statement for nested lists (refuted, finding initlist-fewer-rows-not-zeroed): every element of the target the list
    does not name becomes zero.  `Array` of rank 2 assigns the rows of the list only. -/
def InitListRowsZeroFull : Prop :=
  ∀ (lhs : View) (rows : List (List Int)) (m : Mem), lhs.WF → lhs.dims.length = 2 → rows.length ≤ lhs.dims.headD 0 →
    ∀ i j, i < lhs.dims.headD 0 → j < lhs.dims.getD 1 0 → rows.length ≤ i → ilAssign2 lhs rows m (lhs.addr [i, j]) = 0

/-- refutation: `Matrix M(2,1); M = 9; M = {{1}}` leaves `M(1,0) = 9` -/
theorem C04_initlist_rows_zero_full_refuted : ¬ InitListRowsZeroFull := by
  intro h
  have := h ⟨0, [2, 1], [1, 1]⟩ [[1]] ⟨fun _ => 9⟩ ⟨rfl, by decide, by decide⟩ rfl (by decide) 1 0 (by decide) (by decide)
    (by decide)
  revert this
  decide

/-- the `FixedArray` form does zero them (same witness) -/
example : fixedIlAssign2 ⟨0, [2, 1], [1, 1]⟩ [[1]] ⟨fun _ => 9⟩ 1 = 0 ∧
    fixedIlAssign2 ⟨0, [2, 1], [1, 1]⟩ [[1]] ⟨fun _ => 9⟩ 0 = 1 := by decide

/-- short vector into a reversed view: `v(stride(3,0,-1)) = {5, 6}` on `9 9 9 9` gives `0 0 6 5` -/
example : (List.range 4).map (ilAssign1 ⟨3, [4], [-1]⟩ [5, 6] ⟨fun _ => 9⟩ ∘ Int.ofNat) = [0, 0, 6, 5] := by decide

/-! ## `FixedArray` targets -/

/-- FULL statement (refuted, F-22: no alias test for `FixedArray` targets, documented) -/
def FixedSemanticsFull : Prop :=
  ∀ (lhs : View) (rhs : Expr) (m : Mem), lhs.WF → lhs.Injective → rhs.Conforms lhs.dims → rhs.noaliasTerms = [] →
    fixedAssign lhs rhs m = storeAll lhs (evalAll rhs lhs.dims m) m

theorem C04_fixed_semantics_partial (lhs : View) (rhs : Expr) (m : Mem) (hw : lhs.WF)
    (hs : SafeFor lhs.addr (idxs lhs.dims) rhs.reads) :
    fixedAssign lhs rhs m = storeAll lhs (evalAll rhs lhs.dims m) m := fixedAssign_semantics lhs rhs m hw hs

/-! ## integer-vector-indexed targets -/

/-- `A(idx…) = rhs`: evaluate all, then store in index order — with repeated indices the last write wins
    (next theorem); no injectivity is assumed -/
theorem C04_indexed_semantics (lhs : IView) (rhs : Expr) (m : Mem) (hw : lhs.WF) (hc : rhs.Conforms lhs.dims)
    (hna : ∀ t ∈ rhs.noaliasTerms, SafeFor lhs.addr (idxs lhs.dims) t.reads) :
    indexedAssign lhs rhs m = storeAllI lhs (evalAll rhs lhs.dims m) m :=
  indexedAssign_semantics lhs rhs m hw hc hna

theorem C04_indexed_last_write_wins (lhs : IView) (xs : List Int) (m : Mem) (a : Int) :
    storeAllI lhs xs m a = (lastWrite (lhs.cells.zip xs) a).getD (m a) := storePairs_lastWrite _ m a

theorem C04_indexed_scalar (lhs : IView) (x : Int) (m : Mem) (hw : lhs.WF) :
    indexedAssignScalar lhs x m = storeAllI lhs ((idxs lhs.dims).map fun _ => x) m :=
  indexedAssignScalar_semantics lhs x m hw

/-- FULL statement for `A(idx…) op= rhs` (refuted, F-39: a repeated index accumulates) -/
def IndexedCompoundSemanticsFull : Prop :=
  ∀ (op : BOp) (lhs : IView) (rhs : Expr) (m : Mem), lhs.WF → rhs.Conforms lhs.dims → rhs.noaliasTerms = [] →
    indexedCompound op lhs rhs m
      = storeAllI lhs ((idxs lhs.dims).map fun ix => op.ap (m (lhs.addr ix)) (rhs.evalAt m ix)) m

theorem C04_indexed_compound_semantics_partial (op : BOp) (lhs : IView) (rhs : Expr) (m : Mem) (hw : lhs.WF)
    (hinj : lhs.cells.Nodup) (hc : rhs.Conforms lhs.dims)
    (hna : ∀ t ∈ rhs.noaliasTerms, SafeFor lhs.addr (idxs lhs.dims) t.reads) :
    indexedCompound op lhs rhs m
      = storeAllI lhs ((idxs lhs.dims).map fun ix => op.ap (m (lhs.addr ix)) (rhs.evalAt m ix)) m :=
  indexedCompound_semantics op lhs rhs m hw hinj hc hna

/-! ## reductions and friends: the definitions, over the element list in index order -/

theorem C04_reduce_whole_def (f : RFn) (e : Expr) (dims : List Nat) (m : Mem) :
    reduceAll f e dims m = if dims.head? == some 0 then .val 0 else f.fold ((idxs dims).map (e.evalAt m)) := rfl

theorem C04_reduce_dim_def (f : RFn) (e : Expr) (dims : List Nat) (d : Nat) (m : Mem) :
    reduceDim f e dims d m = if dims.head? == some 0 then [] else
      (idxs (dropAt d dims)).map fun ixr =>
        f.fold ((List.range (dims.getD d 0)).map fun k => e.evalAt m (insertAt d k ixr)) := rfl

theorem C04_sum_def (xs : List Int) : RFn.fold .sum xs = .val (xs.foldl (· + ·) 0) := rfl
theorem C04_mean_def (xs : List Int) : RFn.fold .mean xs = .quot (xs.foldl (· + ·) 0) xs.length := rfl
theorem C04_product_def (xs : List Int) : RFn.fold .product xs = .val (xs.foldl (· * ·) 1) := rfl
theorem C04_minval_def (x : Int) (xs : List Int) : RFn.fold .minval (x :: xs) = .val (xs.foldl imin x) := rfl
theorem C04_maxval_def (x : Int) (xs : List Int) : RFn.fold .maxval (x :: xs) = .val (xs.foldl imax x) := rfl
theorem C04_norm2_def (xs : List Int) : RFn.fold .norm2 xs = .sqrt (xs.foldl (fun t x => t + x * x) 0) := rfl
theorem C04_all_def (bs : List Bool) : BFn.fold .all bs = if bs.foldl (· && ·) true then 1 else 0 := rfl
theorem C04_any_def (bs : List Bool) : BFn.fold .any bs = if bs.foldl (· || ·) false then 1 else 0 := rfl
theorem C04_count_def (bs : List Bool) :
    BFn.fold .count bs = bs.foldl (fun t b => t + (if b then 1 else 0)) 0 := rfl
theorem C04_dot_product_def (l r : Expr) (n : Nat) (m : Mem) :
    dotProduct l r n m = reduceAll .sum (.bin .mul l r) [n] m := rfl
theorem C04_spread_def (d : Nat) (v : View) (m : Mem) (ix : List Nat) :
    (Expr.spread d v).evalAt m ix = m (v.addr (dropAt d ix)) := rfl
theorem C04_outer_product_def (l r : View) (m : Mem) (i j : Nat) :
    (Expr.outer l r).evalAt m [i, j] = m (l.addr [i]) * m (r.addr [j]) := rfl

/-- `find`: exactly the positions of the true elements, in increasing order -/
theorem C04_find_def (bs : List Bool) (i : Nat) :
    findL bs i = (bs.zipIdx i).filterMap fun p => if p.1 then some p.2 else none := by
  induction bs generalizing i with
  | nil => rfl
  | cons b bs ih => cases b <;> simp [findL, List.zipIdx_cons, ih]

/-! ## non-vacuity: the hypotheses are met by overlapping operands, and the conclusions are not trivial -/

/-- shift-right inside one allocation, `a(range(1,4)) = a(range(0,3))`: aliased, temporary, correct -/
example : let a : View := ⟨1, [4], [1]⟩; let b : View := ⟨0, [4], [1]⟩
    a.WF ∧ (Expr.leaf b).Conforms a.dims ∧ (Expr.leaf b).isAliased a.dataRange.1 a.dataRange.2 = true ∧
    (List.range 5).map (assign a (.leaf b) ⟨fun k => k + 1⟩ ∘ Int.ofNat) = [1, 1, 2, 3, 4] := by
  refine ⟨⟨rfl, by decide, by decide⟩, fun ix h => h, by decide, by decide⟩

/-- `a(range(1,4)) += a(range(0,3))` on `1..5` gives `1 3 5 7 9` (the F-03 witness, now correct), and the
    hypotheses of `C04_compound_semantics` hold for it -/
example : let a : View := ⟨1, [4], [1]⟩; let b : View := ⟨0, [4], [1]⟩
    a.WF ∧ a.Injective ∧ (Expr.leaf b).Conforms a.dims ∧
    (List.range 5).map (compound .add a (.leaf b) ⟨fun k => k + 1⟩ ∘ Int.ofNat) = [1, 3, 5, 7, 9] := by
  refine ⟨⟨rfl, by decide, by decide⟩, (by show (View.cells _).Nodup; decide), fun ix h => h, by decide⟩

/-- scalar into a reversed view (the F-02 witness): all five cells are written -/
example : (List.range 5).map (assignScalar ⟨4, [5], [-1]⟩ 7 ⟨fun _ => 1⟩ ∘ Int.ofNat) = [7, 7, 7, 7, 7] := by
  decide

/-- CENSUS of the alias test.  `rhs.is_aliased(mem1, mem2)` is answered node by node through `is_aliased_`; the model's
    `isAliased` is one recursion over the expression tree.  The table `AliasCensus.aliasNodes` is REGENERATED from
    include/adept/*.h by translate/alias.py on every run: for every class that defines `is_aliased_` it lists the operands the
    class holds (those its `expression_string_` prints), the operands its alias test consults, and a classification.  No class
    is broken: every inner node consults exactly its operands, each with the range `(mem1, mem2)` handed down unchanged and in
    order; the array-like leaves compare their own data range with it; scalar leaves own no array memory; the only nodes that
    answer `false` while holding an array operand are `noalias` (the user's promise) and the bool-valued comparison nodes (the
    type boundary of open findings F-25 / F-38); IndexedArray consults the array it indexes (its index vectors are the stated
    assumption of this property's check). -/
theorem C04_every_node_alias_test_forwards :
    AliasCensus.aliasNodes.all (fun n => decide (n.2.2.2.2 ≠ AliasCensus.AliasKind.broken)) = true ∧
    AliasCensus.aliasNodes.all (fun n =>
      decide (n.2.2.2.2 = AliasCensus.AliasKind.forwardsAll → n.2.2.1 = n.2.2.2.1 ∨ n.2.2.1.reverse = n.2.2.2.1)) = true := by
  decide

end Adept.Assign
